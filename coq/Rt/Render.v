(* Rt/Render.v — the render state machine: render.rs (Renderable/Evaluable for
   Template and TemplateElement, render_helper, Parameter::expand,
   call_helper_for_value, Helper/Decorator::try_from_template), partial.rs,
   helpers/*, decorators/inline.rs, and the probe helpers of PROTOCOL.md §5.
   Mutual recursion on fuel; fuel bounds the nesting depth of template bodies
   and partial inclusion, not the size of the template. *)
From HB Require Export Rt.Macro.
Open Scope N_scope.

Definition PARTIAL_BLOCK : str := `"@partial-block".
Definition HELPER_MISSING : str := `"helperMissing".
Definition BLOCK_HELPER_MISSING : str := `"blockHelperMissing".

(* iterate with index over a list, threading the state, stopping at the first
   non-Ok outcome *)
Fixpoint fold_idx {A} (step : A -> nat -> rstate -> rres unit) (l : list A) (i : nat)
         (s : rstate) : rres unit :=
  match l with
  | [] => ROk tt s
  | x :: r => rbind (step x i s) (fun _ s' => fold_idx step r (S i) s')
  end.

(* map with state over a list *)
Fixpoint mapM {A B} (f : A -> rstate -> rres B) (l : list A) (s : rstate) : rres (list B) :=
  match l with
  | [] => ROk [] s
  | x :: r =>
      rbind (f x s) (fun y s1 => rbind (mapM f r s1) (fun ys s2 => ROk (y :: ys) s2))
  end.

(* Template::render / Template::eval error decoration *)
Definition attach_pos (t : template) (idx : nat) (e : rerror) : rerror :=
  match e_line e with
  | Some _ => e
  | None =>
      match nth_error (t_map t) idx with
      | Some (l, c) => {| e_reason := e_reason e; e_tpl := e_tpl e; e_line := Some l; e_col := Some c |}
      | None => e
      end
  end.
Definition attach_render (t : template) (idx : nat) (e : rerror) : rerror :=
  let e1 := attach_pos t idx e in
  match e_tpl e1 with
  | Some _ => e1
  | None => {| e_reason := e_reason e1; e_tpl := t_name t; e_line := e_line e1; e_col := e_col e1 |}
  end.
Definition attach_eval (t : template) (idx : nat) (e : rerror) : rerror :=
  let e1 := attach_pos t idx e in
  {| e_reason := e_reason e1; e_tpl := t_name t; e_line := e_line e1; e_col := e_col e1 |}.

Definition has_call_inner (h : helper_id) : bool :=
  match h with
  | HLookup | HEq | HNe | HGt | HGte | HLt | HLte | HAnd | HOr | HNot | HLen | HId | HMacro _ => true
  | _ => false
  end.

Definition lower_ascii (c : N) : N := if N.leb 65 c && N.leb c 90 then c + 32 else c.
Definition valid_log_level (s : str) : bool :=
  let l := map lower_ascii s in
  str_eqb l (`"error") || str_eqb l (`"warn") || str_eqb l (`"info")
  || str_eqb l (`"debug") || str_eqb l (`"trace").

Definition bp_text (b : option blockparam) : str :=
  match b with
  | None => `"-"
  | Some (BP1 a) => `"1" ++ xs a
  | Some (BP2 a c) => `"2" ++ xs a ++ `"," ++ xs c
  end.

Definition opt_xs (o : option str) : str := match o with Some s => xs s | None => `"-" end.

Section Render.
  Variable reg : registry.
  Variable data : json.          (* the Context of this render call *)
  Variable ft : ftable.

  Definition render_json (v : json) : str := json_render ft v.

  Definition find_local_helper (s : rstate) (name : str) : option helper_id :=
    map_get (s_local_helpers s) name.
  Definition find_reg_helper (name : str) : option helper_id := map_get (r_helpers reg) name.
  Definition helper_exists (s : rstate) (name : str) : bool :=
    match find_local_helper s name with
    | Some _ => true
    | None => match find_reg_helper name with Some _ => true | None => false end
    end.

  (* probe decorator `sethelper name [tag]`: the local helper registered under `name` prints `tag` (default: name), so
     that two registrations under one name can be told apart *)
  Definition sethelper_tag (d : deco_v) (name : str) : str :=
    match dv_params d with
    | _ :: q :: _ => match pj_value q with JStr t => t | _ => name end
    | _ => name
    end.

  (* RenderContext::get_partial *)
  Definition current_pb (s : rstate) : option (template * Z) :=
    let len := Z.of_nat (length (s_pb_stack s)) in
    if Z.ltb (s_pb_depth s) 1 || Z.ltb len (s_pb_depth s) then None
    else nth_error (s_pb_stack s) (Z.to_nat (len - s_pb_depth s)).

  Definition get_partial (s : rstate) (name : str) : option template :=
    if str_eqb name PARTIAL_BLOCK then option_map fst (current_pb s)
    else map_get (s_partials s) name.

  (* ---------- call_inner of the value-returning helpers ---------- *)
  Definition param_or {A} (h : helper_v) (i : nat) (hname : str) (s : rstate)
             (k : pj -> rres A) : rres A :=
    match nth_error (hv_params h) i with
    | Some p => k p
    | None => rfail (RParamNotFoundForIndex hname (N.of_nat i)) s
    end.

  Definition macro_inner (sg : msig) body (h : helper_v) (s : rstate) : rres scoped :=
    match macro_call sg body (r_strict reg) h with
    | inl e => rfail e s
    | inr v => ROk (SDerived v) s
    end.

  Definition call_inner (hid : helper_id) (h : helper_v) (s : rstate) : rres scoped :=
    match hid with
    | HLookup =>
        param_or h 0 (`"lookup") s (fun coll =>
        param_or h 1 (`"lookup") s (fun index =>
          let value :=
            match pj_value coll with
            | JArr v =>
                match pj_value index with
                | JNum n => match as_u64 n with
                            | Some u => nth_N v u
                            | None => None
                            end
                | _ => None
                end
            | JObj m =>
                match pj_value index with
                | JStr k => map_get m k
                | _ => None
                end
            | _ => None
            end in
          match value with
          | None => if r_strict reg then strict_error None s else ROk (SDerived JNull) s
          | Some v => ROk (SDerived v) s
          end))
    | HEq => macro_inner (sig2 (`"eq")) (body2 h_eq) h s
    | HNe => macro_inner (sig2 (`"ne")) (body2 h_ne) h s
    | HGt => macro_inner (sig2 (`"gt")) (body2 h_gt) h s
    | HGte => macro_inner (sig2 (`"gte")) (body2 h_gte) h s
    | HLt => macro_inner (sig2 (`"lt")) (body2 h_lt) h s
    | HLte => macro_inner (sig2 (`"lte")) (body2 h_lte) h s
    | HNot => macro_inner (sig1 (`"not")) (body1 (fun x => JBool (h_not x))) h s
    | HLen => macro_inner (sig1 (`"len")) (body1 (fun x => JNum (PosInt (h_len x)))) h s
    | HAnd => ROk (SDerived (JBool (h_and (map pj_value (hv_params h))))) s
    | HOr => ROk (SDerived (JBool (h_or (map pj_value (hv_params h))))) s
    | HMacro m => macro_inner (macro_sig m) (macro_body m) h s
    | HId =>
        param_or h 0 (`"id") s (fun p =>
          ROk (SDerived (pj_value p)) (log_entry s (`"id(" ++ canon (pj_value p) ++ `")")))
    | _ => rfail RUnimplemented s
    end.

  Definition params_text (l : list pj) : str := join (`",") (map pj_text l).
  Definition hash_text (l : list (str * pj)) : str :=
    join (`",") (map (fun kv : str * pj => fst kv ++ `"=" ++ pj_text (snd kv)) l).

  Definition state_text (s : rstate) : str :=
    let '(bpt, bvt) :=
      match s_blocks s with
      | b :: _ => (canon_segs (b_base_path b),
                   match b_base_value b with Some v => canon v | None => `"-" end)
      | [] => (`"-", `"-")
      end in
    `"state(bp=" ++ bpt ++ `";bv=" ++ bvt
    ++ `";esc=" ++ b01 (s_disable_escape s)
    ++ `";pb=" ++ b01 (match get_partial s PARTIAL_BLOCK with Some _ => true | None => false end)
    ++ `";cur=" ++ opt_xs (s_current s) ++ `";root=" ++ opt_xs (s_root s)
    ++ `";tn=" ++ b01 (s_trailing_newline s) ++ `";cp=" ++ b01 (s_content_produced s)
    ++ `";ibw=" ++ b01 (s_indent_before_write s)
    ++ `";ctx=" ++ b01 (match s_modified s with Some _ => true | None => false end)
    ++ `";nb=" ++ nat_dec (length (s_blocks s)) ++ `")".

  Definition log_write (txt : str) (s : rstate) : rres unit := out_write txt (log_entry s txt).

  (* set_block_param of helper_each.rs *)
  Definition each_block_params (h : helper_v) (has_path : bool) (k v : json)
    : option (list (str * bp_holder)) :=
    let holder := if has_path then BPPath [] else BPValue v in
    match hv_bp h with
    | Some (BP1 a) => Some (map_insert [] a holder)
    | Some (BP2 a b) => Some (map_insert (map_insert [] a holder) b (BPValue k))
    | None => None
    end.

  (* update_block_context of helper_each.rs *)
  Definition update_block_context (b : block) (base_path : option (list str))
             (rel : str) (is_first : bool) (v : json) : block :=
    match base_path with
    | Some p =>
        if is_first then b_set_base_path b (p ++ [rel])
        else match rev (b_base_path b) with
             | _ :: r => b_set_base_path b (rev (rel :: r))
             | [] => b
             end
    | None => b_set_base_value b v
    end.

  Definition map_front_block (f : block -> block) (s : rstate) : rstate :=
    match s_blocks s with
    | b :: r => set_blocks s (f b :: r)
    | [] => s
    end.

  Definition each_iter_setup (h : helper_v) (path : option (list str)) (len_ i : nat)
             (key : option str) (v : json) (s : rstate) : rstate :=
    map_front_block
      (fun b =>
         let is_first := Nat.eqb i 0 in
         let is_last := Nat.eqb i (len_ - 1) in
         let index := JNum (PosInt (N.of_nat i)) in
         let b1 := b_set_local (b_set_local b (`"first") (JBool is_first)) (`"last") (JBool is_last) in
         let '(b2, rel, k) :=
           match key with
           | None => (b_set_local b1 (`"index") index, nat_dec i, index)
           | Some ks => (b_set_local (b_set_local b1 (`"key") (JStr ks)) (`"index") index, ks, JStr ks)
           end in
         let b3 := update_block_context b2 path rel is_first v in
         match each_block_params h (match path with Some _ => true | None => false end) k v with
         | Some ps => b_set_params b3 ps
         | None => b3
         end) s.

  Definition pop_block (s : rstate) : rstate := set_blocks s (tl (s_blocks s)).
  Definition push_block (b : block) (s : rstate) : rstate := set_blocks s (b :: s_blocks s).

  (* Decorator::try_from_template's indent combination *)
  Definition combine_indent (cur : option str) (own : option str) : option str :=
    match cur, own with
    | None, None => None
    | Some a, None => Some a
    | None, Some b => Some b
    | Some a, Some b => Some (a ++ b)
    end.

  Fixpoint render_template (fuel : nat) (t : template) (s : rstate) {struct fuel} : rres unit :=
    match fuel with
    | O => RFuel
    | S f =>
        (* the name of the enclosing template is put back once every element has rendered *)
        rbind (fold_idx (fun e idx s' => rmap_err (render_element f e s') (attach_render t idx))
                        (t_els t) O (set_current s (t_name t)))
              (fun _ s' => ROk tt (set_current s' (s_current s)))
    end

  with eval_template (fuel : nat) (t : template) (s : rstate) {struct fuel} : rres unit :=
    match fuel with
    | O => RFuel
    | S f =>
        fold_idx (fun e idx s' => rmap_err (eval_element f e s') (attach_eval t idx))
                 (t_els t) O s
    end

  with opt_render (fuel : nat) (t : option template) (s : rstate) {struct fuel} : rres unit :=
    match fuel with
    | O => RFuel
    | S f => match t with Some t' => render_template f t' s | None => ROk tt s end
    end

  with render_element (fuel : nat) (e : element) (s : rstate) {struct fuel} : rres unit :=
    match fuel with
    | O => RFuel
    | S f =>
        match e with
        | ElRaw v => indent_aware_write v s
        | ElExpr ht => render_expression f ht false s
        | ElHtml ht => render_expression f ht true s
        | ElBlock ht => render_helper f ht s
        | ElDecoExpr dt => eval_decorator f dt s
        | ElDecoBlock dt => eval_decorator f dt s
        | ElPartExpr dt => render_partial f dt s
        | ElPartBlock dt => render_partial f dt s
        | ElComment _ => ROk tt s
        end
    end

  with eval_element (fuel : nat) (e : element) (s : rstate) {struct fuel} : rres unit :=
    match fuel with
    | O => RFuel
    | S f =>
        match e with
        | ElDecoExpr dt => eval_decorator f dt s
        | ElDecoBlock dt => eval_decorator f dt s
        | _ => ROk tt s
        end
    end

  with render_expression (fuel : nat) (ht : helper_t) (html : bool) (s : rstate) {struct fuel}
    : rres unit :=
    match fuel with
    | O => RFuel
    | S f =>
        let s0 := if html then set_disable_escape s true else s in
        let result :=
          if is_name_only ht then
            rbind (expand_as_name f (h_name ht) s0) (fun helper_name s1 =>
              if helper_exists s1 helper_name then render_helper f ht s1
              else
                rbind (expand_param f (h_name ht) s1) (fun cj s2 =>
                  if sc_missing (pj_val cj) then
                    if r_strict reg then strict_error (pj_rel cj) s2
                    else
                      match find_reg_helper HELPER_MISSING with
                      | Some hook =>
                          rbind (helper_from_template f ht s2) (fun h s3 => call_helper f hook h s3)
                      | None => ROk tt s2
                      end
                  else
                    let '(output, s3) := do_escape reg (render_json (pj_value cj)) s2 in
                    indent_aware_write output s3))
          else render_helper f ht s0 in
        (* early `?` returns inside the block skip the reset; only the Ok path
           and errors of the final expression reach it *)
        match result with
        | ROk u s' => ROk u (if html then set_disable_escape s' false else s')
        | RErr e s' => RErr e (if html then set_disable_escape s' false else s')
        | x => x
        end
    end

  with render_helper (fuel : nat) (ht : helper_t) (s : rstate) {struct fuel} : rres unit :=
    match fuel with
    | O => RFuel
    | S f =>
        rbind (helper_from_template f ht s) (fun h s1 =>
          let call_indent_aware (hid : helper_id) (s : rstate) : rres unit :=
            let ibw_before := s_indent_before_write s in
            let cp_before := s_content_produced s in
            let s' := set_indent_before_write (set_content_produced s false)
                        (ibw_before || (h_ibw ht && s_trailing_newline s)) in
            rbind (call_helper f hid h s') (fun _ s2 =>
              if s_content_produced s2
              then ROk tt (set_indent_before_write s2 (s_trailing_newline s2))
              else ROk tt (set_indent_before_write (set_content_produced s2 cp_before) ibw_before)) in
          match find_local_helper s1 (hv_name h) with
          | Some hid => call_indent_aware hid s1
          | None =>
              match find_reg_helper (hv_name h) with
              | Some hid => call_indent_aware hid s1
              | None =>
                  match find_reg_helper (if h_block ht then BLOCK_HELPER_MISSING else HELPER_MISSING) with
                  | Some hid => call_indent_aware hid s1
                  | None => rfail (RHelperNotFound (hv_name h)) s1
                  end
              end
          end)
    end

  (* Helper::try_from_template *)
  with helper_from_template (fuel : nat) (ht : helper_t) (s : rstate) {struct fuel} : rres helper_v :=
    match fuel with
    | O => RFuel
    | S f =>
        rbind (expand_as_name f (h_name ht) s) (fun name s1 =>
        rbind (mapM (expand_param f) (h_params ht) s1) (fun pv s2 =>
        rbind (mapM (fun kv s' => rbind (expand_param f (snd kv) s') (fun v s'' => ROk (fst kv, v) s''))
                    (h_hash ht) s2) (fun hm s3 =>
          ROk {| hv_name := name; hv_params := pv; hv_hash := hm; hv_tpl := h_tpl ht;
                 hv_inv := h_inv ht; hv_bp := h_bp ht; hv_block := h_block ht |} s3)))
    end

  (* Decorator::try_from_template *)
  with deco_from_template (fuel : nat) (dt : deco_t) (s : rstate) {struct fuel} : rres deco_v :=
    match fuel with
    | O => RFuel
    | S f =>
        rbind (expand_as_name f (d_name dt) s) (fun name s1 =>
        rbind (mapM (expand_param f) (d_params dt) s1) (fun pv s2 =>
        rbind (mapM (fun kv s' => rbind (expand_param f (snd kv) s') (fun v s'' => ROk (fst kv, v) s''))
                    (d_hash dt) s2) (fun hm s3 =>
          ROk {| dv_name := name; dv_params := pv; dv_hash := hm; dv_tpl := d_tpl dt;
                 dv_indent := combine_indent (s_indent s3) (d_indent dt) |} s3)))
    end

  (* Parameter::expand_as_name *)
  with expand_as_name (fuel : nat) (p : param) (s : rstate) {struct fuel} : rres str :=
    match fuel with
    | O => RFuel
    | S f =>
        match p with
        | PName n => ROk n s
        | PPath pa => ROk (path_raw pa) s
        | PSub _ => rbind (expand_param f p s) (fun v s1 => ROk (render_json (pj_value v)) s1)
        | PLit j => ROk (render_json j) s
        end
    end

  (* Parameter::expand *)
  with expand_param (fuel : nat) (p : param) (s : rstate) {struct fuel} : rres pj :=
    match fuel with
    | O => RFuel
    | S f =>
        match p with
        | PName n => ROk {| pj_rel := Some n; pj_val := SMissing |} s
        | PPath pa =>
            match s_modified s with
            | Some c =>
                rbind (evaluate2 c pa s) (fun r s1 =>
                  ROk {| pj_rel := Some (path_raw pa); pj_val := SDerived (sc_json r) |} s1)
            | None =>
                rbind (evaluate2 data pa s) (fun r s1 =>
                  ROk {| pj_rel := Some (path_raw pa); pj_val := r |} s1)
            end
        | PLit j => ROk {| pj_rel := None; pj_val := SConstant j |} s
        | PSub el =>
            match el with
            | ElExpr ht =>
                rbind (expand_as_name f (h_name ht) s) (fun name s1 =>
                rbind (helper_from_template f ht s1) (fun h s2 =>
                  match find_local_helper s2 name with
                  | Some hid => call_helper_for_value f hid h s2
                  | None =>
                      match find_reg_helper name with
                      | Some hid => call_helper_for_value f hid h s2
                      | None =>
                          match find_reg_helper (if h_block ht then BLOCK_HELPER_MISSING
                                                 else HELPER_MISSING) with
                          | Some hid => call_helper_for_value f hid h s2
                          | None => rfail (RHelperNotFound name) s2
                          end
                      end
                  end))
            | _ => RPanic (`"Parameter::expand unreachable")
            end
        end
    end

  with call_helper_for_value (fuel : nat) (hid : helper_id) (h : helper_v) (s : rstate)
       {struct fuel} : rres pj :=
    match fuel with
    | O => RFuel
    | S f =>
        match call_inner hid h s with
        | ROk r s1 => ROk {| pj_rel := None; pj_val := r |} s1
        | RErr e s1 =>
            if is_unimplemented e then
              (* a private StringOutput; escaping disabled while the helper writes *)
              let saved_out := s_out s1 in
              let de := s_disable_escape s1 in
              let s2 := set_disable_escape (set_out s1 (out_new None)) true in
              match call_helper f hid h s2 with
              | ROk _ s3 =>
                  let text := out_text (s_out s3) in
                  ROk {| pj_rel := None; pj_val := SDerived (JStr text) |}
                      (set_disable_escape (set_out s3 saved_out) de)
              | RErr e' s3 => RErr e' (set_out s3 saved_out)
              | RPanic p => RPanic p
              | RFuel => RFuel
              end
            else RErr e s1
        | RPanic p => RPanic p
        | RFuel => RFuel
        end
    end

  (* HelperDef::call *)
  with call_helper (fuel : nat) (hid : helper_id) (h : helper_v) (s : rstate) {struct fuel}
    : rres unit :=
    match fuel with
    | O => RFuel
    | S f =>
        if has_call_inner hid then
          match call_inner hid h s with
          | ROk result s1 =>
              if r_strict reg && sc_missing result then strict_error None s1
              else
                let '(output, s2) := do_escape reg (render_json (sc_json result)) s1 in
                indent_aware_write output s2
          | RErr e s1 => if is_unimplemented e then ROk tt s1 else RErr e s1
          | RPanic p => RPanic p
          | RFuel => RFuel
          end
        else
          match hid with
          | HIf | HUnless =>
              param_or h 0 (`"if") s (fun param =>
                let include_zero :=
                  match map_get (hv_hash h) (`"includeZero") with
                  | Some v => match pj_value v with JBool b => b | _ => false end
                  | None => false
                  end in
                let value := is_truthy include_zero (pj_value param) in
                let value := match hid with HUnless => negb value | _ => value end in
                opt_render f (if value then hv_tpl h else hv_inv h) s)
          | HWith =>
              param_or h 0 (`"with") s (fun param =>
                if is_truthy false (pj_value param) then
                  let b0 := create_block param in
                  let b1 :=
                    match hv_bp h with
                    | Some (BP1 a) =>
                        b_set_params b0
                          (map_insert [] a
                             (match sc_context_path (pj_val param) with
                              | Some _ => BPPath []
                              | None => BPValue (pj_value param)
                              end))
                    | _ => b0
                    end in
                  rbind (opt_render f (hv_tpl h) (push_block b1 s)) (fun _ s1 => ROk tt (pop_block s1))
                else
                  match hv_inv h with
                  | Some t => render_template f t s
                  | None => if r_strict reg then strict_error (pj_rel param) s else ROk tt s
                  end)
          | HEach =>
              param_or h 0 (`"each") s (fun value =>
                match hv_tpl h with
                | None => ROk tt s
                | Some t =>
                    let no_inverse := match hv_inv h with None => true | Some _ => false end in
                    let otherwise :=
                      match hv_inv h with
                      | Some et => render_template f et s
                      | None => if r_strict reg then strict_error (pj_rel value) s else ROk tt s
                      end in
                    let path := sc_context_path (pj_val value) in
                    match pj_value value with
                    | JArr l =>
                        if negb (Nat.eqb (length l) 0) || no_inverse then
                          let n := length l in
                          rbind (fold_idx (fun v i s' =>
                                             render_template f t (each_iter_setup h path n i None v s'))
                                          l O (push_block (create_block value) s))
                                (fun _ s1 => ROk tt (pop_block s1))
                        else otherwise
                    | JObj m =>
                        if negb (Nat.eqb (length m) 0) || no_inverse then
                          let n := length m in
                          rbind (fold_idx (fun (kv : str * json) i s' =>
                                             render_template f t
                                               (each_iter_setup h path n i (Some (fst kv)) (snd kv) s'))
                                          m O (push_block (create_block value) s))
                                (fun _ s1 => ROk tt (pop_block s1))
                        else otherwise
                    | _ => otherwise
                    end
                end)
          | HRaw => opt_render f (hv_tpl h) s
          | HLog =>
              let level :=
                match map_get (hv_hash h) (`"level") with
                | Some v => match pj_value v with JStr l => l | _ => `"info" end
                | None => `"info"
                end in
              if valid_log_level level then ROk tt s else rfail (RInvalidLoggingLevel level) s
          | HDump =>
              let txt := hv_name h ++ `"(" ++ params_text (hv_params h) ++ `";" ++ hash_text (hv_hash h)
                         ++ `";" ++ (if hv_block h then `"B" else `"b")
                         ++ (match hv_tpl h with Some _ => `"T" | None => `"t" end)
                         ++ (match hv_inv h with Some _ => `"I" | None => `"i" end)
                         ++ `";" ++ bp_text (hv_bp h) ++ `")" in
              log_write txt s
          | HBlk =>
              rbind (out_write (`"[") (log_entry s (`"blk"))) (fun _ s1 =>
              rbind (opt_render f (hv_tpl h) s1) (fun _ s2 =>
              rbind (out_write (`"|") s2) (fun _ s3 =>
              rbind (opt_render f (hv_inv h) s3) (fun _ s4 => out_write (`"]") s4))))
          | HCnt =>
              ROk tt (log_entry s (`"cnt(" ++ match hv_params h with
                                              | p :: _ => render_json (pj_value p)
                                              | [] => []
                                              end ++ `")"))
          | HState => log_write (state_text s) s
          | HEvalp =>
              match hv_params h with
              | p :: _ =>
                  match pj_value p with
                  | JStr raw =>
                      rbind (evaluate data raw s) (fun r s1 =>
                        let body :=
                          match r with
                          | SMissing => `"m"
                          | SConstant j => `"c" ++ canon j
                          | SDerived j => `"d" ++ canon j
                          | SContext j cp => `"x" ++ canon_segs cp ++ canon j
                          end in
                        log_write (`"ev(" ++ body ++ `")") s1)
                  | _ => rfail (ROther (`"evalp")) s
                  end
              | [] => rfail (ROther (`"evalp")) s
              end
          | HFail => rfail (ROther (`"fail")) s
          | HHelperMissing =>
              log_write (`"hm(" ++ hv_name h ++ `":" ++ params_text (hv_params h) ++ `")") s
          | HBlockHelperMissing =>
              rbind (log_write (`"bhm(" ++ hv_name h ++ `")") s) (fun _ s1 => opt_render f (hv_tpl h) s1)
          | HLocal n =>
              let txt := `"local(" ++ n ++ `":" ++ params_text (hv_params h) ++ `")" in
              if starts_with (`"c:") n
              then (* logs the usual line, captures its block body with Renderable::renders (a fresh
                      in-memory output that never fails, the same render context otherwise), then
                      writes "<", the captured text, ">"; on error the error propagates unchanged and
                      nothing of the body reaches the real output *)
                   match hv_tpl h with
                   | None => ROk tt (log_entry s txt)
                   | Some t =>
                       let s0 := log_entry s txt in
                       match render_template f t (set_out s0 (out_new None)) with
                       | ROk _ s2 =>
                           rbind (out_write (`"<") (set_out s2 (s_out s0))) (fun _ s3 =>
                           rbind (out_write (out_text (s_out s2)) s3) (fun _ s4 => out_write (`">") s4))
                       | RErr e s2 => RErr e (set_out s2 (s_out s0))
                       | RPanic p => RPanic p
                       | RFuel => RFuel
                       end
                   end
              else if starts_with (`"f:") n
              then (* logs the usual line, then write!(out, "literal-0123456789") — a format string
                      without arguments *)
                   out_write (`"literal-0123456789") (log_entry s txt)
              else if starts_with (`"w:") n
              then (* logs the usual line, writes the rendered text of its first parameter (nothing if
                      there is none), unescaped *)
                   out_write (match hv_params h with p :: _ => render_json (pj_value p) | [] => [] end)
                             (log_entry s txt)
              else if starts_with (`"e:") n
              then let '(output, s1) := do_escape reg txt (log_entry s txt) in out_write output s1
              else log_write txt s
          | _ => ROk tt s
          end
    end

  (* TemplateElement::eval for decorator elements *)
  with eval_decorator (fuel : nat) (dt : deco_t) (s : rstate) {struct fuel} : rres unit :=
    match fuel with
    | O => RFuel
    | S f =>
        rbind (deco_from_template f dt s) (fun d s1 =>
          match map_get (r_decorators reg) (dv_name d) with
          | None => rfail (RDecoratorNotFound (dv_name d)) s1
          | Some DInline =>
              match dv_params d with
              | [] => rfail (RParamNotFoundForIndex (`"inline") 0) s1
              | p :: _ =>
                  match pj_value p with
                  | JStr name =>
                      match dv_tpl d with
                      | None => rfail RBlockContentRequired s1
                      | Some t => ROk tt (set_partials s1 (map_insert (s_partials s1) name t))
                      end
                  | _ => rfail (RInvalidParamType (`"String")) s1
                  end
              end
          | Some DSetHelper =>
              match dv_params d with
              | p :: _ =>
                  match pj_value p with
                  | JStr name =>
                      ROk tt (set_local_helpers s1 (map_insert (s_local_helpers s1) name (HLocal (sethelper_tag d name))))
                  | _ => rfail (ROther (`"sethelper")) s1
                  end
              | [] => rfail (ROther (`"sethelper")) s1
              end
          | Some DSetCtx =>
              match dv_params d with
              | p :: _ => ROk tt (set_modified s1 (Some (pj_value p)))
              | [] => rfail (RParamNotFoundForIndex (`"setctx") 0) s1
              end
          end)
    end

  (* the PartialExpression / PartialBlock arm of TemplateElement::render *)
  with render_partial (fuel : nat) (dt : deco_t) (s : rstate) {struct fuel} : rres unit :=
    match fuel with
    | O => RFuel
    | S f =>
        rbind (deco_from_template f dt s) (fun di s1 =>
          let ibw_before := s_indent_before_write s1 in
          let cp_before := s_content_produced s1 in
          let has_indent := match d_indent dt with Some _ => true | None => false end in
          let s2 := set_content_produced
                      (set_indent_before_write s1 (d_ibw dt && (s_trailing_newline s1 || has_indent)))
                      false in
          rbind (expand_partial f di s2) (fun _ s3 =>
            if s_content_produced s3
            then ROk tt (set_indent_before_write s3 (s_trailing_newline s3))
            else ROk tt (set_indent_before_write (set_content_produced s3 cp_before) ibw_before)))
    end

  (* partial.rs expand_partial *)
  with expand_partial (fuel : nat) (d : deco_v) (s : rstate) {struct fuel} : rres unit :=
    match fuel with
    | O => RFuel
    | S f =>
        rbind (match dv_tpl d with Some t => eval_template f t s | None => ROk tt s end) (fun _ s1 =>
          let tname := dv_name d in
          let current_before := s_current s1 in
          let depth_before := s_pb_depth s1 in
          let indent_before := s_indent s1 in
          if match s_current s1 with Some c => str_eqb c tname | None => false end
          then rfail RCannotIncludeSelf s1
          else
            let found :=
              match get_partial s1 tname with
              | Some p => Some p
              | None =>
                  match (match s_dev s1 with Some dm => map_get dm tname | None => None end) with
                  | Some p => Some p
                  | None =>
                      match map_get (r_templates reg) tname with
                      | Some p => Some p
                      | None => dv_tpl d
                      end
                  end
              end in
            match found with
            | None => rfail (RPartialNotFound tname) s1
            | Some partial =>
                let s2 :=
                  (* inside the body of a partial block, @partial-block is the one of the template
                     the body was written in *)
                  if str_eqb tname PARTIAL_BLOCK then
                    match current_pb s1 with
                    | Some (_, d0) => set_pb_depth s1 d0
                    | None => s1
                    end
                  else s1 in
                let hash_ctx := map (fun kv : str * pj => (fst kv, pj_value (snd kv))) (dv_hash d) in
                rbind
                  (match dv_params d with
                   | p :: _ =>
                       match pj_rel p with
                       | Some rel =>
                           rbind (evaluate data rel s2) (fun r s' => ROk (merge_json (sc_json r) hash_ctx) s')
                       | None => ROk (merge_json (pj_value p) hash_ctx) s2
                       end
                   | [] =>
                       rbind (evaluate2 data path_current s2)
                             (fun r s' => ROk (merge_json (sc_json r) hash_ctx) s')
                   end)
                  (fun merged s3 =>
                     let current_blocks := s_blocks s3 in
                     let s4 := set_blocks s3 [b_set_base_value block_new merged] in
                     let s5 := match dv_tpl d with
                               | Some pb =>
                                   set_pb_depth (set_pb_stack s4 ((pb, s_pb_depth s4) :: s_pb_stack s4))
                                                (Z.of_nat (S (length (s_pb_stack s4))))
                               | None => s4
                               end in
                     let s6 := set_indent s5 (dv_indent d) in
                     let cleanup (s : rstate) : rstate :=
                       let sa := match dv_tpl d with
                                 | Some _ => set_pb_stack s (tl (s_pb_stack s))
                                 | None => s
                                 end in
                       set_indent (set_pb_depth (set_current (set_blocks sa current_blocks) current_before)
                                                depth_before) indent_before in
                     match render_template f partial s6 with
                     | ROk u s7 => ROk u (cleanup s7)
                     | RErr e s7 => RErr e (cleanup s7)
                     | x => x
                     end)
            end)
    end.

End Render.
