(* Rt/Macro.v — the expansion of handlebars_helper! (src/macros.rs) as a
   function of a declared signature, plus the signatures/bodies of the
   built-in macro helpers (helper_extras.rs) and of the harness family
   (PROTOCOL.md §6). *)
From HB Require Export Rt.Eval.
Open Scope N_scope.

Inductive mtype := TStr | TI64 | TU64 | TF64 | TBool | TArr | TObj | TNull | TJson | TVecU64.

(* stringify!($tpe) *)
Definition mtype_name (t : mtype) : str :=
  match t with
  | TStr => `"str" | TI64 => `"i64" | TU64 => `"u64" | TF64 => `"f64" | TBool => `"bool"
  | TArr => `"array" | TObj => `"object" | TNull => `"null" | TJson => `"Json"
  | TVecU64 => `"Vec< u64 >"
  end.

Inductive mval :=
| VStr (s : str) | VI64 (z : Z) | VU64 (n : N) | VF64 (bits : N) | VBool (b : bool)
| VArr (l : list json) | VObj (m : list (str * json)) | VNull | VJson (j : json)
| VVec (l : list N).

(* n as f64 / z as f64: nearest, ties to even *)
Definition f64_of_num (x : num) : option N :=
  match x with
  | PosInt n => f64_of_ratio false n 1
  | NegInt z => f64_of_ratio true (Z.to_N (- z)) 1
  | Float b => Some b
  end.

Fixpoint all_u64 (l : list json) : option (list N) :=
  match l with
  | [] => Some []
  | JNum (PosInt n) :: r => option_map (cons n) (all_u64 r)
  | _ => None
  end.

(* the @as_json_value dispatch *)
Definition conv (t : mtype) (v : json) : option mval :=
  match t, v with
  | TStr, JStr s => Some (VStr s)
  | TI64, JNum n => option_map VI64 (as_i64 n)
  | TU64, JNum n => option_map VU64 (as_u64 n)
  | TF64, JNum n => option_map VF64 (f64_of_num n)
  | TBool, JBool b => Some (VBool b)
  | TArr, JArr l => Some (VArr l)
  | TObj, JObj m => Some (VObj m)
  | TNull, JNull => Some VNull
  | TJson, _ => Some (VJson v)
  | TVecU64, JArr l => option_map VVec (all_u64 l)
  | _, _ => None
  end.

Record msig := {
  ms_name : str;                               (* stringify!($struct_name) *)
  ms_params : list (str * mtype);
  ms_opts : list (str * mtype * mval)
}.

Inductive mres :=
| MOk (params opts : list mval)
| MErr (r : rreason).

Fixpoint macro_params (sg_name : str) (strict : bool) (decl : list (str * mtype))
         (idx : nat) (given : list pj) (acc : list mval) : rreason + list mval :=
  match decl with
  | [] => inr (rev acc)
  | (pname, t) :: rest =>
      match nth_error given idx with
      | None => inl (RParamNotFoundForName sg_name pname)
      | Some x =>
          if strict && sc_missing (pj_val x) then inl (RParamNotFoundForName sg_name pname)
          else
            match conv t (pj_value x) with
            | Some v => macro_params sg_name strict rest (S idx) given (v :: acc)
            | None => inl (RParamTypeMismatchForName sg_name pname (mtype_name t))
            end
      end
  end.

Fixpoint macro_opts (sg_name : str) (decl : list (str * mtype * mval))
         (hash : list (str * pj)) (acc : list mval) : rreason + list mval :=
  match decl with
  | [] => inr (rev acc)
  | (oname, t, dflt) :: rest =>
      match map_get hash oname with
      | None => macro_opts sg_name rest hash (dflt :: acc)
      | Some x =>
          match conv t (pj_value x) with
          | Some v => macro_opts sg_name rest hash (v :: acc)
          | None => inl (RHashTypeMismatchForName sg_name oname (mtype_name t))
          end
      end
  end.

(* call_inner of a macro-defined helper *)
Definition macro_call (sg : msig) (body : list mval -> list mval -> list json -> list (str * json) -> json)
           (strict : bool) (h : helper_v) : rreason + json :=
  match macro_params (ms_name sg) strict (ms_params sg) O (hv_params h) [] with
  | inl e => inl e
  | inr ps =>
      match macro_opts (ms_name sg) (ms_opts sg) (hv_hash h) [] with
      | inl e => inl e
      | inr os =>
          inr (body ps os (map pj_value (hv_params h))
                    (map (fun kv : str * pj => (fst kv, pj_value (snd kv))) (hv_hash h)))
      end
  end.

(* ---------- built-in macro helpers (helper_extras.rs) ---------- *)
Definition sig2 (n : str) : msig :=
  {| ms_name := n; ms_params := [(`"x", TJson); (`"y", TJson)]; ms_opts := [] |}.
Definition sig1 (n : str) : msig :=
  {| ms_name := n; ms_params := [(`"x", TJson)]; ms_opts := [] |}.

Definition body2 (f : json -> json -> bool) : list mval -> list mval -> list json -> list (str * json) -> json :=
  fun ps _ _ _ => match ps with [VJson x; VJson y] => JBool (f x y) | _ => JNull end.
Definition body1 (f : json -> json) : list mval -> list mval -> list json -> list (str * json) -> json :=
  fun ps _ _ _ => match ps with [VJson x] => f x | _ => JNull end.

(* ---------- the harness family (PROTOCOL.md §6) ---------- *)
Definition bool_text (b : bool) : str := if b then `"true" else `"false".
Definition pfx (p : string) (s : str) : json := JStr (of_string p ++ s).

Definition macro_sig (m : macro_id) : msig :=
  match m with
  | M_str => {| ms_name := `"m_str"; ms_params := [(`"x", TStr)]; ms_opts := [] |}
  | M_i64 => {| ms_name := `"m_i64"; ms_params := [(`"x", TI64)]; ms_opts := [] |}
  | M_u64 => {| ms_name := `"m_u64"; ms_params := [(`"x", TU64)]; ms_opts := [] |}
  | M_f64 => {| ms_name := `"m_f64"; ms_params := [(`"x", TF64)]; ms_opts := [] |}
  | M_bool => {| ms_name := `"m_bool"; ms_params := [(`"x", TBool)]; ms_opts := [] |}
  | M_arr => {| ms_name := `"m_arr"; ms_params := [(`"x", TArr)]; ms_opts := [] |}
  | M_obj => {| ms_name := `"m_obj"; ms_params := [(`"x", TObj)]; ms_opts := [] |}
  | M_null => {| ms_name := `"m_null"; ms_params := [(`"x", TNull)]; ms_opts := [] |}
  | M_json => {| ms_name := `"m_json"; ms_params := [(`"x", TJson)]; ms_opts := [] |}
  | M_vec => {| ms_name := `"m_vec"; ms_params := [(`"x", TVecU64)]; ms_opts := [] |}
  | M_0 => {| ms_name := `"m0"; ms_params := []; ms_opts := [] |}
  | M_2 => {| ms_name := `"m2"; ms_params := [(`"a", TI64); (`"b", TStr)]; ms_opts := [] |}
  | M_3 => {| ms_name := `"m3"; ms_params := [(`"a", TBool); (`"b", TJson); (`"c", TU64)]; ms_opts := [] |}
  | M_o0 => {| ms_name := `"mo0"; ms_params := []; ms_opts := [(`"k", TU64, VU64 3)] |}
  | M_o1 => {| ms_name := `"mo1"; ms_params := [(`"a", TI64)]; ms_opts := [(`"k", TI64, VI64 7)] |}
  | M_o2 => {| ms_name := `"mo2"; ms_params := [(`"a", TStr)];
               ms_opts := [(`"k", TStr, VStr (`"dflt")); (`"flag", TBool, VBool false)] |}
  | M_args => {| ms_name := `"margs"; ms_params := []; ms_opts := [] |}
  | M_kw => {| ms_name := `"mkw"; ms_params := []; ms_opts := [] |}
  | M_all => {| ms_name := `"mall"; ms_params := [(`"a", TI64)]; ms_opts := [(`"k", TI64, VI64 1)] |}
  | M_ret_i => {| ms_name := `"m_ret_i"; ms_params := [(`"x", TI64)]; ms_opts := [] |}
  | M_ret_b => {| ms_name := `"m_ret_b"; ms_params := [(`"x", TJson)]; ms_opts := [] |}
  | M_ret_j => {| ms_name := `"m_ret_j"; ms_params := [(`"x", TJson)]; ms_opts := [] |}
  end.

Definition json_of_i64 (z : Z) : json :=
  if Z.ltb z 0 then JNum (NegInt z) else JNum (PosInt (Z.to_N z)).

Definition nat_dec (n : nat) : str := n_to_dec (N.of_nat n).

Definition macro_body (m : macro_id) (ps os : list mval) (args : list json)
           (kwargs : list (str * json)) : json :=
  match m, ps, os with
  | M_str, [VStr x], _ => pfx "str:" x
  | M_i64, [VI64 x], _ => pfx "i64:" (z_to_dec x)
  | M_u64, [VU64 x], _ => pfx "u64:" (n_to_dec x)
  | M_f64, [VF64 b], _ => pfx "f64:" (n_to_dec b)
  | M_bool, [VBool b], _ => pfx "bool:" (bool_text b)
  | M_arr, [VArr l], _ => pfx "array:" (nat_dec (length l))
  | M_obj, [VObj o], _ => pfx "object:" (nat_dec (length o))
  | M_null, [VNull], _ => pfx "null:" (`"()")
  | M_json, [VJson j], _ => pfx "json:" (canon j)
  | M_vec, [VVec l], _ => pfx "vec:" (join (`",") (map n_to_dec l))
  | M_0, [], _ => JStr (`"zero")
  | M_2, [VI64 a; VStr b], _ => pfx "m2:" (z_to_dec a ++ `":" ++ b)
  | M_3, [VBool a; VJson b; VU64 c], _ =>
      pfx "m3:" (bool_text a ++ `":" ++ canon b ++ `":" ++ n_to_dec c)
  | M_o0, [], [VU64 k] => pfx "mo0:" (n_to_dec k)
  | M_o1, [VI64 a], [VI64 k] => pfx "mo1:" (z_to_dec a ++ `":" ++ z_to_dec k)
  | M_o2, [VStr a], [VStr k; VBool f] => pfx "mo2:" (a ++ `":" ++ k ++ `":" ++ bool_text f)
  | M_args, [], _ => pfx "args:" (join (`",") (map canon args))
  | M_kw, [], _ =>
      pfx "kw:" (join (`",") (map (fun kv : str * json => xs (fst kv) ++ `"=" ++ canon (snd kv)) kwargs))
  | M_all, [VI64 a], [VI64 k] =>
      pfx "mall:" (z_to_dec a ++ `":" ++ z_to_dec k ++ `":" ++ nat_dec (length args)
                   ++ `":" ++ nat_dec (length kwargs))
  | M_ret_i, [VI64 x], _ => json_of_i64 x
  | M_ret_b, [VJson x], _ => JBool (match x with JStr _ => true | _ => false end)
  | M_ret_j, [VJson x], _ => x          (* typed result of every JSON kind, null included *)
  | _, _, _ => JNull
  end.
