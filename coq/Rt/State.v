(* Rt/State.v — render-time data: BlockContext, LocalVars, ScopedJson,
   PathAndJson, Helper/Decorator values, the registry, RenderContext (all
   fields) plus the writer log and ghost traces, render errors and outcomes. *)
From HB Require Export Tpl.Compile.
Open Scope N_scope.

(* ---------- block.rs / local_vars.rs ---------- *)
Inductive bp_holder :=
| BPPath (p : list str)
| BPValue (v : json).

Record local_vars := {
  lv_first : option json;
  lv_last : option json;
  lv_index : option json;
  lv_key : option json;
  lv_extra : list (str * json)
}.
Definition lv_empty : local_vars :=
  {| lv_first := None; lv_last := None; lv_index := None; lv_key := None; lv_extra := [] |}.

Definition lv_put (l : local_vars) (k : str) (v : json) : local_vars :=
  if str_eqb k (`"first") then
    {| lv_first := Some v; lv_last := lv_last l; lv_index := lv_index l; lv_key := lv_key l; lv_extra := lv_extra l |}
  else if str_eqb k (`"last") then
    {| lv_first := lv_first l; lv_last := Some v; lv_index := lv_index l; lv_key := lv_key l; lv_extra := lv_extra l |}
  else if str_eqb k (`"index") then
    {| lv_first := lv_first l; lv_last := lv_last l; lv_index := Some v; lv_key := lv_key l; lv_extra := lv_extra l |}
  else if str_eqb k (`"key") then
    {| lv_first := lv_first l; lv_last := lv_last l; lv_index := lv_index l; lv_key := Some v; lv_extra := lv_extra l |}
  else
    {| lv_first := lv_first l; lv_last := lv_last l; lv_index := lv_index l; lv_key := lv_key l;
       lv_extra := map_insert (lv_extra l) k v |}.

Definition lv_get (l : local_vars) (k : str) : option json :=
  if str_eqb k (`"first") then lv_first l
  else if str_eqb k (`"last") then lv_last l
  else if str_eqb k (`"index") then lv_index l
  else if str_eqb k (`"key") then lv_key l
  else map_get (lv_extra l) k.

Record block := {
  b_base_path : list str;
  b_base_value : option json;
  b_params : list (str * bp_holder);
  b_locals : local_vars
}.
Definition block_new : block :=
  {| b_base_path := []; b_base_value := None; b_params := []; b_locals := lv_empty |}.
Definition b_set_local (b : block) (k : str) (v : json) : block :=
  {| b_base_path := b_base_path b; b_base_value := b_base_value b; b_params := b_params b;
     b_locals := lv_put (b_locals b) k v |}.
Definition b_set_base_path (b : block) (p : list str) : block :=
  {| b_base_path := p; b_base_value := b_base_value b; b_params := b_params b; b_locals := b_locals b |}.
Definition b_set_base_value (b : block) (v : json) : block :=
  {| b_base_path := b_base_path b; b_base_value := Some v; b_params := b_params b; b_locals := b_locals b |}.
Definition b_set_params (b : block) (p : list (str * bp_holder)) : block :=
  {| b_base_path := b_base_path b; b_base_value := b_base_value b; b_params := p; b_locals := b_locals b |}.

(* ---------- json/value.rs ---------- *)
Inductive scoped :=
| SConstant (j : json)
| SDerived (j : json)
| SContext (j : json) (p : list str)
| SMissing.

Definition sc_json (s : scoped) : json :=
  match s with
  | SConstant j => j | SDerived j => j | SContext j _ => j | SMissing => JNull
  end.
Definition sc_missing (s : scoped) : bool := match s with SMissing => true | _ => false end.
Definition sc_context_path (s : scoped) : option (list str) :=
  match s with SContext _ p => Some p | _ => None end.

Record pj := { pj_rel : option str; pj_val : scoped }.
Definition pj_value (p : pj) : json := sc_json (pj_val p).

(* ---------- helpers and decorators known to the model ---------- *)
Inductive macro_id :=
| M_str | M_i64 | M_u64 | M_f64 | M_bool | M_arr | M_obj | M_null | M_json | M_vec
| M_0 | M_2 | M_3 | M_o0 | M_o1 | M_o2 | M_args | M_kw | M_all | M_ret_i | M_ret_b | M_ret_j.

Inductive helper_id :=
| HIf | HUnless | HEach | HWith | HLookup | HRaw | HLog
| HEq | HNe | HGt | HGte | HLt | HLte | HAnd | HOr | HNot | HLen
| HDump | HId | HBlk | HCnt | HState | HEvalp | HFail
| HHelperMissing | HBlockHelperMissing
| HLocal (name : str)
| HMacro (m : macro_id).

Inductive deco_id := DInline | DSetHelper | DSetCtx.

Record helper_v := {
  hv_name : str;
  hv_params : list pj;
  hv_hash : list (str * pj);
  hv_tpl : option template;
  hv_inv : option template;
  hv_bp : option blockparam;
  hv_block : bool
}.

Record deco_v := {
  dv_name : str;
  dv_params : list pj;
  dv_hash : list (str * pj);
  dv_tpl : option template;
  dv_indent : option str
}.

(* ---------- registry ---------- *)
Record registry := {
  r_templates : list (str * template);
  r_sources : list (str * str);            (* name -> file path (dev mode) *)
  r_helpers : list (str * helper_id);
  r_decorators : list (str * deco_id);
  r_escape : str -> str;
  r_esc_mark : bool;                       (* the marking escape fn also logs *)
  r_strict : bool;
  r_dev : bool;
  r_prevent_indent : bool
}.

(* ---------- errors ---------- *)
Inductive rreason :=
| RTemplateNotFound (s : str)
| RTemplateError (e : terror)
| RTemplateIo
| RMissingVariable (p : option str)
| RPartialNotFound (s : str)
| RHelperNotFound (s : str)
| RParamNotFoundForIndex (h : str) (i : N)
| RParamNotFoundForName (h p : str)
| RParamTypeMismatchForName (h p t : str)
| RHashTypeMismatchForName (h p t : str)
| RDecoratorNotFound (s : str)
| RCannotIncludeSelf
| RInvalidLoggingLevel (s : str)
| RInvalidParamType (s : str)
| RBlockContentRequired
| RInvalidJsonPath (s : str)
| RInvalidJsonIndex (s : str)
| RIOError
| RUnimplemented
| ROther (s : str).

Record rerror := {
  e_reason : rreason;
  e_tpl : option str;
  e_line : option N;
  e_col : option N
}.
Definition mk_err (r : rreason) : rerror :=
  {| e_reason := r; e_tpl := None; e_line := None; e_col := None |}.
Definition is_unimplemented (e : rerror) : bool :=
  match e_reason e with RUnimplemented => true | _ => false end.

(* ---------- writer ---------- *)
Record outbuf := {
  o_chunks : list str;       (* accepted chunks, most recent first *)
  o_writes : N;              (* accepted non-empty write calls *)
  o_fail_at : option N       (* the k-th write call (0-based) and all later ones fail *)
}.
Definition out_new (fail_at : option N) : outbuf :=
  {| o_chunks := []; o_writes := 0; o_fail_at := fail_at |}.
Definition out_text (o : outbuf) : str := concat (rev (o_chunks o)).

(* ---------- RenderContext ---------- *)
Record rstate := {
  s_blocks : list block;
  s_modified : option json;                 (* modified_context *)
  s_partials : list (str * template);       (* inline partials *)
  s_pb_stack : list (template * Z);         (* partial_block_stack, most recent first: body, and the depth current where it was written *)
  s_pb_depth : Z;                           (* partial_block_depth: which entry @partial-block denotes, counted from the oldest, from 1; 0 = none *)
  s_local_helpers : list (str * helper_id);
  s_current : option str;                   (* current_template *)
  s_root : option str;                      (* root_template *)
  s_disable_escape : bool;
  s_trailing_newline : bool;
  s_content_produced : bool;
  s_indent_before_write : bool;
  s_indent : option str;                    (* indent_string *)
  s_dev : option (list (str * template));   (* dev_mode_templates *)
  s_out : outbuf;
  s_log : list str;                         (* LOG entries, most recent first *)
  s_esc_trace : list str                    (* ghost: every argument the escape fn saw, most recent first *)
}.

Definition st_init (root : option str) (dev : option (list (str * template)))
           (fail_at : option N) : rstate :=
  {| s_blocks := [block_new]; s_modified := None; s_partials := []; s_pb_stack := [];
     s_pb_depth := 0%Z; s_local_helpers := []; s_current := None; s_root := root;
     s_disable_escape := false; s_trailing_newline := true; s_content_produced := false;
     s_indent_before_write := false; s_indent := None; s_dev := dev;
     s_out := out_new fail_at; s_log := []; s_esc_trace := [] |}.

(* field updates *)
Definition set_blocks (s : rstate) x := {| s_blocks := x; s_modified := s_modified s; s_partials := s_partials s; s_pb_stack := s_pb_stack s; s_pb_depth := s_pb_depth s; s_local_helpers := s_local_helpers s; s_current := s_current s; s_root := s_root s; s_disable_escape := s_disable_escape s; s_trailing_newline := s_trailing_newline s; s_content_produced := s_content_produced s; s_indent_before_write := s_indent_before_write s; s_indent := s_indent s; s_dev := s_dev s; s_out := s_out s; s_log := s_log s; s_esc_trace := s_esc_trace s |}.
Definition set_modified (s : rstate) x := {| s_blocks := s_blocks s; s_modified := x; s_partials := s_partials s; s_pb_stack := s_pb_stack s; s_pb_depth := s_pb_depth s; s_local_helpers := s_local_helpers s; s_current := s_current s; s_root := s_root s; s_disable_escape := s_disable_escape s; s_trailing_newline := s_trailing_newline s; s_content_produced := s_content_produced s; s_indent_before_write := s_indent_before_write s; s_indent := s_indent s; s_dev := s_dev s; s_out := s_out s; s_log := s_log s; s_esc_trace := s_esc_trace s |}.
Definition set_partials (s : rstate) x := {| s_blocks := s_blocks s; s_modified := s_modified s; s_partials := x; s_pb_stack := s_pb_stack s; s_pb_depth := s_pb_depth s; s_local_helpers := s_local_helpers s; s_current := s_current s; s_root := s_root s; s_disable_escape := s_disable_escape s; s_trailing_newline := s_trailing_newline s; s_content_produced := s_content_produced s; s_indent_before_write := s_indent_before_write s; s_indent := s_indent s; s_dev := s_dev s; s_out := s_out s; s_log := s_log s; s_esc_trace := s_esc_trace s |}.
Definition set_pb_stack (s : rstate) x := {| s_blocks := s_blocks s; s_modified := s_modified s; s_partials := s_partials s; s_pb_stack := x; s_pb_depth := s_pb_depth s; s_local_helpers := s_local_helpers s; s_current := s_current s; s_root := s_root s; s_disable_escape := s_disable_escape s; s_trailing_newline := s_trailing_newline s; s_content_produced := s_content_produced s; s_indent_before_write := s_indent_before_write s; s_indent := s_indent s; s_dev := s_dev s; s_out := s_out s; s_log := s_log s; s_esc_trace := s_esc_trace s |}.
Definition set_pb_depth (s : rstate) x := {| s_blocks := s_blocks s; s_modified := s_modified s; s_partials := s_partials s; s_pb_stack := s_pb_stack s; s_pb_depth := x; s_local_helpers := s_local_helpers s; s_current := s_current s; s_root := s_root s; s_disable_escape := s_disable_escape s; s_trailing_newline := s_trailing_newline s; s_content_produced := s_content_produced s; s_indent_before_write := s_indent_before_write s; s_indent := s_indent s; s_dev := s_dev s; s_out := s_out s; s_log := s_log s; s_esc_trace := s_esc_trace s |}.
Definition set_local_helpers (s : rstate) x := {| s_blocks := s_blocks s; s_modified := s_modified s; s_partials := s_partials s; s_pb_stack := s_pb_stack s; s_pb_depth := s_pb_depth s; s_local_helpers := x; s_current := s_current s; s_root := s_root s; s_disable_escape := s_disable_escape s; s_trailing_newline := s_trailing_newline s; s_content_produced := s_content_produced s; s_indent_before_write := s_indent_before_write s; s_indent := s_indent s; s_dev := s_dev s; s_out := s_out s; s_log := s_log s; s_esc_trace := s_esc_trace s |}.
Definition set_current (s : rstate) x := {| s_blocks := s_blocks s; s_modified := s_modified s; s_partials := s_partials s; s_pb_stack := s_pb_stack s; s_pb_depth := s_pb_depth s; s_local_helpers := s_local_helpers s; s_current := x; s_root := s_root s; s_disable_escape := s_disable_escape s; s_trailing_newline := s_trailing_newline s; s_content_produced := s_content_produced s; s_indent_before_write := s_indent_before_write s; s_indent := s_indent s; s_dev := s_dev s; s_out := s_out s; s_log := s_log s; s_esc_trace := s_esc_trace s |}.
Definition set_disable_escape (s : rstate) x := {| s_blocks := s_blocks s; s_modified := s_modified s; s_partials := s_partials s; s_pb_stack := s_pb_stack s; s_pb_depth := s_pb_depth s; s_local_helpers := s_local_helpers s; s_current := s_current s; s_root := s_root s; s_disable_escape := x; s_trailing_newline := s_trailing_newline s; s_content_produced := s_content_produced s; s_indent_before_write := s_indent_before_write s; s_indent := s_indent s; s_dev := s_dev s; s_out := s_out s; s_log := s_log s; s_esc_trace := s_esc_trace s |}.
Definition set_trailing_newline (s : rstate) x := {| s_blocks := s_blocks s; s_modified := s_modified s; s_partials := s_partials s; s_pb_stack := s_pb_stack s; s_pb_depth := s_pb_depth s; s_local_helpers := s_local_helpers s; s_current := s_current s; s_root := s_root s; s_disable_escape := s_disable_escape s; s_trailing_newline := x; s_content_produced := s_content_produced s; s_indent_before_write := s_indent_before_write s; s_indent := s_indent s; s_dev := s_dev s; s_out := s_out s; s_log := s_log s; s_esc_trace := s_esc_trace s |}.
Definition set_content_produced (s : rstate) x := {| s_blocks := s_blocks s; s_modified := s_modified s; s_partials := s_partials s; s_pb_stack := s_pb_stack s; s_pb_depth := s_pb_depth s; s_local_helpers := s_local_helpers s; s_current := s_current s; s_root := s_root s; s_disable_escape := s_disable_escape s; s_trailing_newline := s_trailing_newline s; s_content_produced := x; s_indent_before_write := s_indent_before_write s; s_indent := s_indent s; s_dev := s_dev s; s_out := s_out s; s_log := s_log s; s_esc_trace := s_esc_trace s |}.
Definition set_indent_before_write (s : rstate) x := {| s_blocks := s_blocks s; s_modified := s_modified s; s_partials := s_partials s; s_pb_stack := s_pb_stack s; s_pb_depth := s_pb_depth s; s_local_helpers := s_local_helpers s; s_current := s_current s; s_root := s_root s; s_disable_escape := s_disable_escape s; s_trailing_newline := s_trailing_newline s; s_content_produced := s_content_produced s; s_indent_before_write := x; s_indent := s_indent s; s_dev := s_dev s; s_out := s_out s; s_log := s_log s; s_esc_trace := s_esc_trace s |}.
Definition set_indent (s : rstate) x := {| s_blocks := s_blocks s; s_modified := s_modified s; s_partials := s_partials s; s_pb_stack := s_pb_stack s; s_pb_depth := s_pb_depth s; s_local_helpers := s_local_helpers s; s_current := s_current s; s_root := s_root s; s_disable_escape := s_disable_escape s; s_trailing_newline := s_trailing_newline s; s_content_produced := s_content_produced s; s_indent_before_write := s_indent_before_write s; s_indent := x; s_dev := s_dev s; s_out := s_out s; s_log := s_log s; s_esc_trace := s_esc_trace s |}.
Definition set_out (s : rstate) x := {| s_blocks := s_blocks s; s_modified := s_modified s; s_partials := s_partials s; s_pb_stack := s_pb_stack s; s_pb_depth := s_pb_depth s; s_local_helpers := s_local_helpers s; s_current := s_current s; s_root := s_root s; s_disable_escape := s_disable_escape s; s_trailing_newline := s_trailing_newline s; s_content_produced := s_content_produced s; s_indent_before_write := s_indent_before_write s; s_indent := s_indent s; s_dev := s_dev s; s_out := x; s_log := s_log s; s_esc_trace := s_esc_trace s |}.
Definition set_log (s : rstate) x := {| s_blocks := s_blocks s; s_modified := s_modified s; s_partials := s_partials s; s_pb_stack := s_pb_stack s; s_pb_depth := s_pb_depth s; s_local_helpers := s_local_helpers s; s_current := s_current s; s_root := s_root s; s_disable_escape := s_disable_escape s; s_trailing_newline := s_trailing_newline s; s_content_produced := s_content_produced s; s_indent_before_write := s_indent_before_write s; s_indent := s_indent s; s_dev := s_dev s; s_out := s_out s; s_log := x; s_esc_trace := s_esc_trace s |}.
Definition set_esc_trace (s : rstate) x := {| s_blocks := s_blocks s; s_modified := s_modified s; s_partials := s_partials s; s_pb_stack := s_pb_stack s; s_pb_depth := s_pb_depth s; s_local_helpers := s_local_helpers s; s_current := s_current s; s_root := s_root s; s_disable_escape := s_disable_escape s; s_trailing_newline := s_trailing_newline s; s_content_produced := s_content_produced s; s_indent_before_write := s_indent_before_write s; s_indent := s_indent s; s_dev := s_dev s; s_out := s_out s; s_log := s_log s; s_esc_trace := x |}.

(* ---------- outcomes ---------- *)
Inductive rres (A : Type) :=
| ROk (a : A) (s : rstate)
| RErr (e : rerror) (s : rstate)
| RPanic (site : str)
| RFuel.
Arguments ROk {A}. Arguments RErr {A}. Arguments RPanic {A}. Arguments RFuel {A}.

Definition rbind {A B} (x : rres A) (f : A -> rstate -> rres B) : rres B :=
  match x with
  | ROk a s => f a s
  | RErr e s => RErr e s
  | RPanic p => RPanic p
  | RFuel => RFuel
  end.

Definition rfail {A} (r : rreason) (s : rstate) : rres A := RErr (mk_err r) s.

(* map the error of a computation (Result::map_err) *)
Definition rmap_err {A} (x : rres A) (f : rerror -> rerror) : rres A :=
  match x with
  | RErr e s => RErr (f e) s
  | y => y
  end.

Definition log_entry (s : rstate) (e : str) : rstate := set_log s (e :: s_log s).
Definition log_text (s : rstate) : str := concat (map (fun e => e ++ [10]) (rev (s_log s))).
