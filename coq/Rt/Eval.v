(* Rt/Eval.v — path evaluation (context.rs parse_json_visitor / navigate,
   render.rs evaluate / evaluate2, json/path.rs Path::parse), the writer
   (output.rs, indent_aware_write, write_indented), escaping, and the canonical
   text forms used by the probe helpers. *)
From HB Require Export Rt.State.
Open Scope N_scope.

(* ---------- canonical text (PROTOCOL.md §1, §5) ---------- *)
Definition utf8_encode_char (c : N) : list N :=
  if N.ltb c 128 then [c]
  else if N.ltb c 2048 then [192 + c / 64; 128 + c mod 64]
  else if N.ltb c 65536 then [224 + c / 4096; 128 + (c / 64) mod 64; 128 + c mod 64]
  else [240 + c / 262144; 128 + (c / 4096) mod 64; 128 + (c / 64) mod 64; 128 + c mod 64].
Definition hex_digit (d : N) : N := if N.ltb d 10 then 48 + d else 87 + d.
Definition hex_byte (b : N) : str := [hex_digit (b / 16); hex_digit (b mod 16)].
Definition xs (s : str) : str := 120 :: flat_map (fun c => flat_map hex_byte (utf8_encode_char c)) s.

Fixpoint join (sep : str) (l : list str) : str :=
  match l with
  | [] => []
  | [x] => x
  | x :: r => x ++ sep ++ join sep r
  end.

Fixpoint canon (v : json) : str :=
  match v with
  | JNull => `"n"
  | JBool true => `"t"
  | JBool false => `"f"
  | JNum (PosInt n) => `"u" ++ n_to_dec n
  | JNum (NegInt z) => `"i" ++ z_to_dec z
  | JNum (Float b) => `"d" ++ n_to_dec b
  | JStr s => xs s
  | JArr l => `"[" ++ join (`",") (map canon l) ++ `"]"
  | JObj m =>
      `"{" ++ join (`",") (map (fun kv : str * json => xs (fst kv) ++ `":" ++ canon (snd kv)) m) ++ `"}"
  end.

Definition canon_segs (p : list str) : str := `"[" ++ join (`",") (map xs p) ++ `"]".

Definition pj_text (p : pj) : str :=
  (match pj_rel p with Some r => xs r | None => `"-" end) ++ `":"
  ++ (if sc_missing (pj_val p) then `"m" else `"v") ++ `":"
  ++ (match sc_context_path (pj_val p) with Some cp => canon_segs cp | None => `"-" end) ++ `":"
  ++ canon (pj_value p).

Definition b01 (b : bool) : str := if b then `"1" else `"0".

(* ---------- the writer ---------- *)
(* Output::write on the user's writer: one write_all per call; an empty
   segment makes no write call *)
Definition out_write (chunk : str) (s : rstate) : rres unit :=
  match chunk with
  | [] => ROk tt s
  | _ =>
      let o := s_out s in
      let failing := match o_fail_at o with Some k => N.leb k (o_writes o) | None => false end in
      if failing then rfail RIOError s
      else ROk tt (set_out s {| o_chunks := chunk :: o_chunks o; o_writes := o_writes o + 1;
                                o_fail_at := o_fail_at o |})
  end.

(* support::str::write_indented *)
Fixpoint write_indented (fuel : nat) (v indent : str) (s : rstate) : rres unit :=
  match fuel with
  | O => RFuel
  | S f =>
      match find_lf v with
      | None => out_write v s
      | Some k =>
          let line := firstn (S k) v in
          let rest := skipn (S k) v in
          rbind (out_write line s) (fun _ s1 =>
            match rest with
            | [] => ROk tt s1
            | _ => rbind (out_write indent s1) (fun _ s2 => write_indented f rest indent s2)
            end)
      end
  end.

(* render.rs indent_aware_write *)
Definition indent_aware_write (v : str) (s : rstate) : rres unit :=
  match v with
  | [] => ROk tt s
  | _ =>
      let s1 := set_content_produced s true in
      rbind
        (if negb (first_is is_newline v) && s_indent_before_write s1 then
           match s_indent s1 with
           | Some ind => out_write ind s1
           | None => ROk tt s1
           end
         else ROk tt s1)
        (fun _ s2 =>
           rbind
             (match s_indent s2 with
              | Some ind => write_indented (S (length v)) v ind s2
              | None => out_write v s2
              end)
             (fun _ s3 =>
                let tn := last_is is_newline v in
                ROk tt (set_indent_before_write (set_trailing_newline s3 tn) tn)))
  end.

(* support::str::escape_html *)
Definition escape_char (c : N) : str :=
  if N.eqb c 60 then `"&lt;"
  else if N.eqb c 62 then `"&gt;"
  else if N.eqb c 34 then `"&quot;"
  else if N.eqb c 38 then `"&amp;"
  else if N.eqb c 39 then `"&#x27;"
  else if N.eqb c 96 then `"&#x60;"
  else if N.eqb c 61 then `"&#x3D;"
  else [c].
Definition escape_html (s : str) : str := flat_map escape_char s.

(* render.rs do_escape: applies the registry's escape fn unless disabled;
   ghost trace of the arguments, LOG entry when the marking fn is installed *)
Definition do_escape (reg : registry) (content : str) (s : rstate) : str * rstate :=
  if s_disable_escape s then (content, s)
  else
    let s1 := set_esc_trace s (content :: s_esc_trace s) in
    let s2 := if r_esc_mark reg then log_entry s1 (`"e(" ++ content ++ `")") else s1 in
    (r_escape reg content, s2).

(* ---------- json/path.rs Path::parse (runtime, from a string) ---------- *)
Definition path_parse (raw : str) : option path :=
  match hb_parse (peg_fuel raw) R_path raw with
  | Parsed ts =>
      match parse_json_path raw ts (len raw) [] with
      | COk (segs, _) => Some (path_new raw segs)
      | _ => None
      end
  | _ => None
  end.

Definition path_current : path := PathRelative [] [].

(* ---------- context.rs ---------- *)
Fixpoint get_in_block_params (blocks : list block) (p : str) : option (bp_holder * list str) :=
  match blocks with
  | [] => None
  | b :: r =>
      match map_get (b_params b) p with
      | Some h => Some (h, b_base_path b)
      | None => get_in_block_params r p
      end
  end.

Fixpoint merge_json_path (segs : list pathseg) : list str :=
  match segs with
  | [] => []
  | SegNamed s :: r => s :: merge_json_path r
  | _ :: r => merge_json_path r
  end.

Inductive resolved :=
| ResAbsolute (p : list str)
| ResValue (p : list str) (v : json)          (* BlockParamValue and LocalValue *)
| ResPanic.

(* the scan at the head of parse_json_visitor *)
Fixpoint visitor_scan (blocks : list block) (segs : list pathseg) (depth : nat)
  : nat * option (bp_holder * list str) * bool :=
  match segs with
  | [] => (depth, None, false)
  | SegNamed p :: _ => (depth, get_in_block_params blocks p, false)
  | SegRuled r :: rest =>
      if rule_eqb r R_path_root then (depth, None, true)
      else if rule_eqb r R_path_up then visitor_scan blocks rest (S depth)
      else (depth, None, false)
  end.

Definition parse_json_visitor (segs : list pathseg) (blocks : list block) : resolved :=
  let '(depth, with_bp, from_root) := visitor_scan blocks segs O in
  match with_bp with
  | Some (BPValue v, _) =>
      if Nat.leb (S depth) (length segs)
      then ResValue (merge_json_path (skipn (S depth) segs)) v
      else ResPanic
  | Some (BPPath ps, base_path) =>
      if Nat.leb (S depth) (length segs)
      then ResAbsolute (base_path ++ ps ++ merge_json_path (skipn (S depth) segs))
      else ResPanic
  | None =>
      let via (blk : option block) :=
        match blk with
        | Some b =>
            match b_base_value b with
            | Some v => ResValue (merge_json_path segs) v
            | None => ResAbsolute (b_base_path b ++ merge_json_path segs)
            end
        | None => ResAbsolute (merge_json_path segs)
        end in
      if Nat.ltb 0 depth then
        via (match nth_error blocks depth with Some b => Some b | None => hd_error blocks end)
      else if from_root then ResAbsolute (merge_json_path segs)
      else via (hd_error blocks)
  end.

Inductive nav_out :=
| NavOk (v : scoped)
| NavErr (r : rreason)
| NavPanic.

(* Context::navigate *)
Definition navigate (data : json) (segs : list pathseg) (blocks : list block) : nav_out :=
  match parse_json_visitor segs blocks with
  | ResAbsolute paths =>
      match walk (Some data) paths with
      | NavSome v => NavOk (SContext v paths)
      | NavNone => NavOk SMissing
      | NavBadIndex s => NavErr (RInvalidJsonIndex s)
      end
  | ResValue paths v =>
      match walk (Some v) paths with
      | NavSome v' => NavOk (SDerived v')
      | NavNone => NavOk SMissing
      | NavBadIndex s => NavErr (RInvalidJsonIndex s)
      end
  | ResPanic => NavPanic
  end.

Definition get_local_var (blocks : list block) (level : N) (name : str) : option json :=
  match nth_error blocks (N.to_nat level) with
  | Some b => lv_get (b_locals b) name
  | None => None
  end.

(* RenderContext::evaluate2 *)
Definition evaluate2 (data : json) (p : path) (s : rstate) : rres scoped :=
  match p with
  | PathLocal level name _ =>
      ROk (match get_local_var (s_blocks s) level name with
           | Some v => SDerived v
           | None => SMissing
           end) s
  | PathRelative segs _ =>
      match navigate data segs (s_blocks s) with
      | NavOk v => ROk v s
      | NavErr r => rfail r s
      | NavPanic => RPanic (`"parse_json_visitor slice")
      end
  end.

(* RenderContext::evaluate *)
Definition evaluate (data : json) (raw : str) (s : rstate) : rres scoped :=
  match path_parse raw with
  | Some p => evaluate2 data p s
  | None => rfail (RInvalidJsonPath raw) s
  end.

(* helpers/block_util.rs create_block *)
Definition create_block (p : pj) : block :=
  match sc_context_path (pj_val p) with
  | Some cp => b_set_base_path block_new cp
  | None => b_set_base_value block_new (pj_value p)
  end.

Definition strict_error {A} (p : option str) (s : rstate) : rres A := rfail (RMissingVariable p) s.
