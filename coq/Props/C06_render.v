(* Props/C06_render.v — property C06, render half: an else-chain
   {{#if c}}A{{else if d}}B{{else unless e}}C{{else}}D{{/if}}, compiled (Props/C06_chain.v) to
   the nest `chain_block c links fe` of helper blocks in the inverse templates,
   renders exactly one branch body: that of the first link whose condition
   selects it, else the final else body, else nothing; nothing after the selected
   link is evaluated.  Statements only; proofs in Proofs/ChainRender.v;
   vocabulary (ckind, kind_name, frame, link_body, link_ibw, block, chain_block,
   include_zero, selects, quiet_param(s), quiet_hash, link_evals, link_selected,
   link_passed, builtins_visible, chain_entry, chain_exit, chain_result) in
   Spec/ChainRenderSpec.v.

   LINKS.  A link "evaluates" (link_evals lk k iz c): its tag is `if` (k = KIf)
   or `unless` (KUnless), its parameters and hash arguments evaluate to values
   WITHOUT changing the state (quiet_params / quiet_hash: e.g. literals and
   paths, see C06_quiet_literal / C06_quiet_path), c is the JSON value of the
   first parameter and iz the value of an `includeZero=<bool>` hash argument
   (false if absent).  It selects its body iff `selects k iz c`: if: is_truthy
   iz c; unless: its negation (truthiness table: Props/C06_leaf.v).

   FUEL.  Exact: each passed link costs 5 (render_element -> render_helper ->
   call_helper -> opt_render -> render_template of the synthesised inverse ->
   render_element), the selected link 4; the selected body is rendered at the
   fuel g that remains.

   RESULT.  `chain_result st k wany X`: the body X is run from `chain_entry`
   (st with content_produced := false, indent_before_write := it or (some link
   tag up to the selected one stands alone on its line and the output ends with
   a newline), and below the first level current_template := None), and its
   final state goes through `chain_exit` (if the body produced content,
   indent_before_write := trailing_newline, else content_produced and
   indent_before_write are put back; current_template is put back).  This is
   the bookkeeping render_helper does around ANY helper block; the writer,
   the blocks, the log — everything else — are exactly what the body alone does.

   STRICT MODE.  For if/unless a missing path is NOT an error (crate and
   model): it evaluates quietly to a missing value, which is falsy
   (ex_strict_missing_is_falsy in the Proofs file).  Conditions that do fail
   (no parameter, failing subexpression, invalid index) lie outside link_evals
   (ex_condition_errors). *)
From Coq Require Import List NArith Bool.
From HB Require Import Rt.Render Spec.ChainSpec Spec.ChainRenderSpec Proofs.ChainRender.
Import ListNotations.

(* (a) the first link that selects, after links that all evaluate and pass:
   exactly the render of its body; `rest` and `fe` are arbitrary *)
Theorem C06_chain_render_first_true :
  forall (reg : registry) (data : json) (ft : ftable) (st : rstate)
         (pre : list link) (lk : link) (rest : list link) (fe : option template) (c : bool) (g : nat),
  builtins_visible reg st ->
  Forall (link_passed reg data ft st) pre ->
  link_selected reg data ft st lk ->
  render_element reg data ft (g + 4 + 5 * length pre)
                 (ElBlock (chain_block c (pre ++ lk :: rest) fe)) st
  = chain_result st (length pre) (existsb link_ibw (pre ++ [lk]))
                 (render_template reg data ft g (link_body lk)).
Proof. exact chain_render_selected. Qed.
Print Assumptions C06_chain_render_first_true.

(* no link selects: the final else body if there is one, else nothing at all *)
Theorem C06_chain_render_else :
  forall (reg : registry) (data : json) (ft : ftable) (st : rstate)
         (links : list link) (fe : option template) (c : bool) (g : nat),
  builtins_visible reg st ->
  links <> [] -> Forall (link_passed reg data ft st) links ->
  render_element reg data ft (g + 4 + 5 * (length links - 1)) (ElBlock (chain_block c links fe)) st
  = match fe with
    | Some t => chain_result st (length links - 1) (existsb link_ibw links)
                             (render_template reg data ft g t)
    | None => ROk tt st
    end.
Proof. exact chain_render_else. Qed.
Print Assumptions C06_chain_render_else.

Theorem C06_chain_render_nothing :
  forall (reg : registry) (data : json) (ft : ftable) (st : rstate) (links : list link) (c : bool) (g : nat),
  builtins_visible reg st ->
  links <> [] -> Forall (link_passed reg data ft st) links ->
  render_element reg data ft (g + 4 + 5 * (length links - 1)) (ElBlock (chain_block c links None)) st
  = ROk tt st.
Proof. exact chain_render_nothing. Qed.
Print Assumptions C06_chain_render_nothing.

(* (b) nothing after the selected link is evaluated: replacing the tail of the
   chain and the final else by ANY others (no hypothesis on them: their tags
   need not even evaluate) gives the same result *)
Theorem C06_no_later_evaluated :
  forall (reg : registry) (data : json) (ft : ftable) (st : rstate)
         (pre : list link) (lk : link) (rest rest' : list link) (fe fe' : option template)
         (c : bool) (g : nat),
  builtins_visible reg st ->
  Forall (link_passed reg data ft st) pre ->
  link_selected reg data ft st lk ->
  render_element reg data ft (g + 4 + 5 * length pre)
                 (ElBlock (chain_block c (pre ++ lk :: rest) fe)) st
  = render_element reg data ft (g + 4 + 5 * length pre)
                   (ElBlock (chain_block c (pre ++ lk :: rest') fe')) st.
Proof. exact no_later_evaluated. Qed.
Print Assumptions C06_no_later_evaluated.

(* the chain as compiled IS chain_block: the result of C06_chain_compile *)
Theorem C06_chain_block_is_compiled : forall e0 ibw0 b0 (links : list link) fe,
  MkH (es_name e0) (es_params e0) (es_hash e0) (es_bp e0) (Some b0) (nest links fe)
      true (match links with [] => false | _ => true end) ibw0
  = chain_block (match links with [] => false | _ => true end) ((e0, b0, ibw0) :: links) fe.
Proof. exact chain_block_is_compiled. Qed.
Print Assumptions C06_chain_block_is_compiled.

(* (c) one link, readable: {{#if p}}A{{else}}B{{/if}} ... *)
Theorem C06_if_else_render :
  forall (reg : registry) (data : json) (ft : ftable) (st : rstate) (p : param) (v : pj)
         (A B : template) (c w : bool) (g : nat),
  builtins_visible reg st ->
  quiet_param reg data ft st p v ->
  render_element reg data ft (g + 4)
    (ElBlock (MkH (PName (`"if")) [p] [] None (Some A) (Some B) true c w)) st
  = chain_result st 0 w (render_template reg data ft g (if is_truthy false (pj_value v) then A else B)).
Proof. exact if_else_render. Qed.
Print Assumptions C06_if_else_render.

(* ... {{#unless p}}A{{/unless}} ... *)
Theorem C06_unless_render :
  forall (reg : registry) (data : json) (ft : ftable) (st : rstate) (p : param) (v : pj)
         (A : template) (c w : bool) (g : nat),
  builtins_visible reg st ->
  quiet_param reg data ft st p v ->
  render_element reg data ft (g + 4)
    (ElBlock (MkH (PName (`"unless")) [p] [] None (Some A) None true c w)) st
  = if is_truthy false (pj_value v) then ROk tt st
    else chain_result st 0 w (render_template reg data ft g A).
Proof. exact unless_render. Qed.
Print Assumptions C06_unless_render.

(* ... and either kind, with or without includeZero=<bool>, with or without else *)
Theorem C06_one_link_render :
  forall (reg : registry) (data : json) (ft : ftable) (st : rstate) (k : ckind) (p : param) (v : pj)
         (iz : option bool) (A : template) (fe : option template) (c w : bool) (g : nat),
  builtins_visible reg st ->
  quiet_param reg data ft st p v ->
  render_element reg data ft (g + 4)
    (ElBlock (MkH (PName (kind_name k)) [p]
                  (match iz with Some z => [(`"includeZero", PLit (JBool z))] | None => [] end)
                  None (Some A) fe true c w)) st
  = if selects k (match iz with Some z => z | None => false end) (pj_value v)
    then chain_result st 0 w (render_template reg data ft g A)
    else match fe with
         | Some B => chain_result st 0 w (render_template reg data ft g B)
         | None => ROk tt st
         end.
Proof. exact one_link_render. Qed.
Print Assumptions C06_one_link_render.

(* which parameters evaluate quietly: literals, paths (against the data, or the
   replaced context if a decorator set one) that do not hit an invalid index —
   a MISSING path included, in strict mode too *)
Theorem C06_quiet_literal : forall reg data ft st j,
  quiet_param reg data ft st (PLit j) {| pj_rel := None; pj_val := SConstant j |}.
Proof. exact quiet_lit. Qed.
Print Assumptions C06_quiet_literal.

Theorem C06_quiet_path : forall reg data ft st pa v,
  evaluate2 (match s_modified st with Some c => c | None => data end) pa st = ROk v st ->
  quiet_param reg data ft st (PPath pa)
    {| pj_rel := Some (path_raw pa);
       pj_val := match s_modified st with Some _ => SDerived (sc_json v) | None => v end |}.
Proof. exact quiet_path. Qed.
Print Assumptions C06_quiet_path.

(* a tag `if p` / `unless p` [includeZero=<bool>] evaluates when p does *)
Theorem C06_link_evals_simple : forall reg data ft st k p v (iz : option bool) b w pre pro,
  quiet_param reg data ft st p v ->
  link_evals reg data ft st
    ({| es_name := PName (kind_name k); es_params := [p];
        es_hash := match iz with Some z => [(`"includeZero", PLit (JBool z))] | None => [] end;
        es_bp := None; es_pre := pre; es_pro := pro |}, b, w)
    k (match iz with Some z => z | None => false end) (pj_value v).
Proof. exact link_evals_simple. Qed.
Print Assumptions C06_link_evals_simple.

(* PARTIAL (goal B).  A single `with` block, with or without {{else}}: the body
   is rendered iff the value is truthy, in the pushed block (with_block: base
   path of the value if it has a context path, else the value itself as base
   value; the block parameter if declared), which is popped afterwards; else
   the inverse (at one more fuel: helper_with.rs renders it directly); without
   inverse a falsy value is a MissingVariable error in strict mode.
   Missing for the full goal B: `with` / `each` as links INSIDE longer chains
   ({{else with x}}), i.e. the generalisation of link_evals/selects to them. *)
Theorem C06_with_render_partial : forall reg data ft st p v bp A fe c w g,
  find_reg_helper reg (`"with") = Some HWith -> find_local_helper st (`"with") = None ->
  quiet_param reg data ft st p v ->
  render_element reg data ft (g + 4)
    (ElBlock (MkH (PName (`"with")) [p] [] bp (Some A) fe true c w)) st
  = if is_truthy false (pj_value v)
    then chain_result st 0 w (fun s =>
           rbind (render_template reg data ft g A (push_block (with_block bp v) s))
                 (fun _ s1 => ROk tt (pop_block s1)))
    else match fe with
         | Some B => chain_result st 0 w (render_template reg data ft (S g) B)
         | None =>
             if r_strict reg
             then RErr (mk_err (RMissingVariable (pj_rel v))) (chain_entry st 0 w)
             else ROk tt st
         end.
Proof. exact with_render_partial. Qed.
Print Assumptions C06_with_render_partial.
