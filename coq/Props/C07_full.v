(* Props/C07_full.v — property C07 with nothing assumed about the loop body:
   the frame property (C08, Proofs/Frame.v) and the append-only writer (C19,
   Proofs/WriterPrefix.v) are used, not hypothesised.  Statements only; proofs
   in Proofs/EachFull.v.  Vocabulary: `each_block`, `each_scope`, `iter_run`,
   `R`, `pj_ok` (Spec/Scope.v), `restored` (Spec/RenderFrameSpec.v).

   Reading of C07_each_array_full, for an each over the array l = [x0..x(n-1)],
   n >= 1, reached by any provenance (context path or not: `path`), with
   zero/one/two block parameters (`hv_bp h`), body t:
   - `step x i s1` renders the body with the block of iteration i
     (`each_block`: this = x, @index = i, @first, @last, block parameters) on
     top of the caller's block stack, from the state s1 the previous
     iteration left (s for i = 0);
   - (1) the each succeeds exactly when every iteration's body render
     succeeds in turn (`iter_run step l 0 s ds s_last`, ds = the texts the
     iterations appended), and then ends in s_last with the caller's blocks;
   - (2) in that case there is one text per element, the output is the old
     output followed by the concatenation of those texts in index order, and
     the final state is `restored`;
   - (3) for any non-Ok outcome r (error, panic, out of fuel): the each ends
     with r exactly when some iteration j is the first whose body does not
     succeed and ends with r;
   - (4) for an error, what was written is the concatenation for 0..j-1
     followed by the partial output d of iteration j;
   - (5) under R for the caller's stack, the block of iteration i is R-related
     to the spec scope of element i (`each_scope`), which by C01_paths /
     C01_locals is what paths and @-variables in the body resolve against
     (bound in the statement: the index fits in a u64).
   C07_each_object_full: the same over the entries of an object in the order
   of its association list (sorted keys), with @key and the key as second
   block parameter.  Empty / non-iterable values: Props/C07.v C07_each_empty,
   C07_each_empty_no_inverse, C07_each_no_template, C07_each_no_param (these
   never had hypotheses on the body).

   The alternative reading "the output of iteration i equals what the body
   writes from a fresh copy of the pre-loop state with only the block pushed"
   is REFUTED in general (C07_each_fresh_state_refuted: an inline partial
   defined in iteration 0 is used by iteration 1).  A positive version needs
   bodies without decorators plus independence of a render from the writer's
   earlier content, the log and the three write flags; that lemma (the one
   C08_concat is waiting for) is not available, so only the first form is
   stated. *)
From Coq Require Import List NArith.
From HB Require Import Rt.Render Spec.Scope Spec.RenderFrameSpec Proofs.EachFull.
Import ListNotations.
Open Scope N_scope.
Open Scope list_scope.

Theorem C07_each_array_full : forall reg data ft f h s value rest t l,
  hv_params h = value :: rest -> hv_tpl h = Some t -> pj_value value = JArr l -> l <> [] ->
  let n := length l in
  let path := sc_context_path (pj_val value) in
  let step := fun (x : json) (i : nat) (s1 : rstate) =>
    render_template reg data ft f t
      (set_blocks s1 (each_block (hv_bp h) path n i None x :: s_blocks s)) in
  (forall s', call_helper reg data ft (S f) HEach h s = ROk tt s' <->
              exists ds s_last, iter_run step l O s ds s_last /\ s' = set_blocks s_last (s_blocks s))
  /\ (forall ds s_last, iter_run step l O s ds s_last ->
        length ds = n
        /\ out_text (s_out (set_blocks s_last (s_blocks s))) = out_text (s_out s) ++ concat ds
        /\ restored s (set_blocks s_last (s_blocks s)))
  /\ (forall r, (forall u s', r <> ROk u s') ->
        (call_helper reg data ft (S f) HEach h s = r <->
         exists j x ds s_j, nth_error l j = Some x
                            /\ iter_run step (firstn j l) O s ds s_j
                            /\ step x j s_j = r))
  /\ (forall j x ds s_j e s_e,
        nth_error l j = Some x -> iter_run step (firstn j l) O s ds s_j -> step x j s_j = RErr e s_e ->
        length ds = j
        /\ exists d, out_text (s_out s_e) = out_text (s_out s_j) ++ d
                     /\ out_text (s_out s_e) = out_text (s_out s) ++ concat ds ++ d)
  /\ (forall D scopes i x,
        R D (s_blocks s) scopes -> pj_ok D value -> nth_error l i = Some x -> N.of_nat i <= u64_max ->
        R D (each_block (hv_bp h) path n i None x :: s_blocks s)
            (each_scope (hv_bp h) n i None x :: scopes)).
Proof. exact each_array_full. Qed.
Print Assumptions C07_each_array_full.

Theorem C07_each_object_full : forall reg data ft f h s value rest t m,
  hv_params h = value :: rest -> hv_tpl h = Some t -> pj_value value = JObj m -> m <> [] ->
  let n := length m in
  let path := sc_context_path (pj_val value) in
  let step := fun (kv : str * json) (i : nat) (s1 : rstate) =>
    render_template reg data ft f t
      (set_blocks s1 (each_block (hv_bp h) path n i (Some (fst kv)) (snd kv) :: s_blocks s)) in
  (forall s', call_helper reg data ft (S f) HEach h s = ROk tt s' <->
              exists ds s_last, iter_run step m O s ds s_last /\ s' = set_blocks s_last (s_blocks s))
  /\ (forall ds s_last, iter_run step m O s ds s_last ->
        length ds = n
        /\ out_text (s_out (set_blocks s_last (s_blocks s))) = out_text (s_out s) ++ concat ds
        /\ restored s (set_blocks s_last (s_blocks s)))
  /\ (forall r, (forall u s', r <> ROk u s') ->
        (call_helper reg data ft (S f) HEach h s = r <->
         exists j kv ds s_j, nth_error m j = Some kv
                             /\ iter_run step (firstn j m) O s ds s_j
                             /\ step kv j s_j = r))
  /\ (forall j kv ds s_j e s_e,
        nth_error m j = Some kv -> iter_run step (firstn j m) O s ds s_j -> step kv j s_j = RErr e s_e ->
        length ds = j
        /\ exists d, out_text (s_out s_e) = out_text (s_out s_j) ++ d
                     /\ out_text (s_out s_e) = out_text (s_out s) ++ concat ds ++ d)
  /\ (forall D scopes i k x,
        R D (s_blocks s) scopes -> pj_ok D value -> keys_sorted m = true -> nth_error m i = Some (k, x) ->
        R D (each_block (hv_bp h) path n i (Some k) x :: s_blocks s)
            (each_scope (hv_bp h) n i (Some k) x :: scopes)).
Proof. exact each_object_full. Qed.
Print Assumptions C07_each_object_full.

Theorem C07_each_array_output_full : forall reg data ft f h s value rest t l s',
  hv_params h = value :: rest -> hv_tpl h = Some t -> pj_value value = JArr l ->
  (l <> [] \/ hv_inv h = None) ->
  call_helper reg data ft (S f) HEach h s = ROk tt s' ->
  exists ds s_last,
    iter_run (fun v i s1 =>
                render_template reg data ft f t
                  (set_blocks s1 (each_block (hv_bp h) (sc_context_path (pj_val value))
                                             (length l) i None v :: s_blocks s)))
             l O s ds s_last
    /\ s' = set_blocks s_last (s_blocks s)
    /\ length ds = length l
    /\ out_text (s_out s') = out_text (s_out s) ++ concat ds.
Proof. exact each_array_output_full. Qed.
Print Assumptions C07_each_array_output_full.

Theorem C07_each_object_output_full : forall reg data ft f h s value rest t m s',
  hv_params h = value :: rest -> hv_tpl h = Some t -> pj_value value = JObj m ->
  (m <> [] \/ hv_inv h = None) ->
  call_helper reg data ft (S f) HEach h s = ROk tt s' ->
  exists ds s_last,
    iter_run (fun (kv : str * json) i s1 =>
                render_template reg data ft f t
                  (set_blocks s1 (each_block (hv_bp h) (sc_context_path (pj_val value))
                                             (length m) i (Some (fst kv)) (snd kv) :: s_blocks s)))
             m O s ds s_last
    /\ s' = set_blocks s_last (s_blocks s)
    /\ length ds = length m
    /\ out_text (s_out s') = out_text (s_out s) ++ concat ds.
Proof. exact each_object_output_full. Qed.
Print Assumptions C07_each_object_output_full.

Theorem C07_each_fresh_state_refuted :
  exists reg data ft f h s value t l s',
    hv_params h = [value] /\ hv_tpl h = Some t /\ pj_value value = JArr l
    /\ call_helper reg data ft (S f) HEach h s = ROk tt s'
    /\ out_text (s_out s') = `"xx"
    /\ exists i x s_e,
         nth_error l i = Some x
         /\ render_template reg data ft f t
              (set_blocks s (each_block (hv_bp h) (sc_context_path (pj_val value)) (length l) i None x
                             :: s_blocks s))
            = RErr {| e_reason := RPartialNotFound (`"p"); e_tpl := None; e_line := None; e_col := None |} s_e.
Proof. exact each_fresh_state_refuted. Qed.
Print Assumptions C07_each_fresh_state_refuted.
