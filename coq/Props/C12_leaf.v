(* Props/C12_leaf.v — property C12, leaf level: write_indented and
   indent_aware_write; and the chunk-level append-only frame of the writer
   functions (used by C19).  Statements only; proofs in Proofs/LeafWriter.v;
   with_indent_spec and out_extends are in Spec/WriterSpec.v.  The stream-level
   and render-wide theorems of C12 are proved elsewhere. *)
From HB Require Import Rt.Eval Spec.WriterSpec Proofs.LeafWriter.
Open Scope N_scope.

(* non-failing writer, fuel > length v: the call succeeds, only the writer field
   of the state changes, and the appended text is v with `ind` inserted after
   every LF that is not the last character of v *)
Theorem C12_write_indented_spec : forall fuel v ind s,
  o_fail_at (s_out s) = None -> (List.length v < fuel)%nat ->
  exists o', write_indented fuel v ind s = ROk tt (set_out s o') /\ o_fail_at o' = None /\
             out_text o' = out_text (s_out s) ++ with_indent_spec v ind.
Proof. exact write_indented_spec. Qed.
Print Assumptions C12_write_indented_spec.

(* the fuel indent_aware_write passes, S (length v), never runs out (any writer) *)
Theorem C12_write_indented_enough_fuel : forall fuel v ind s,
  (List.length v < fuel)%nat -> write_indented fuel v ind s <> RFuel.
Proof. exact write_indented_enough_fuel. Qed.
Print Assumptions C12_write_indented_enough_fuel.

(* every outcome, any writer: no panic, the only error is the writer's IO error,
   the state changes in the writer field only, and the writer only appended *)
Theorem C12_out_write_frame : forall chunk s,
  match out_write chunk s with
  | ROk _ s' => s' = set_out s (s_out s') /\ out_extends (s_out s) (s_out s')
  | RErr e s' => e = mk_err RIOError /\ s' = set_out s (s_out s') /\ out_extends (s_out s) (s_out s')
  | RPanic _ => False
  | RFuel => False
  end.
Proof. exact out_write_wr. Qed.
Print Assumptions C12_out_write_frame.

Theorem C12_write_indented_frame : forall fuel v ind s,
  (List.length v < fuel)%nat ->
  match write_indented fuel v ind s with
  | ROk _ s' => s' = set_out s (s_out s') /\ out_extends (s_out s) (s_out s')
  | RErr e s' => e = mk_err RIOError /\ s' = set_out s (s_out s') /\ out_extends (s_out s) (s_out s')
  | RPanic _ => False
  | RFuel => False
  end.
Proof. exact write_indented_frame. Qed.
Print Assumptions C12_write_indented_frame.

(* indent_aware_write, non-failing writer: full functional characterisation *)
Theorem C12_indent_aware_write_nil : forall s, indent_aware_write [] s = ROk tt s.
Proof. exact indent_aware_write_nil. Qed.
Print Assumptions C12_indent_aware_write_nil.

Theorem C12_indent_aware_write_spec : forall v s,
  o_fail_at (s_out s) = None -> v <> [] ->
  exists o',
    indent_aware_write v s =
      ROk tt (set_indent_before_write
                (set_trailing_newline (set_content_produced (set_out s o') true)
                   (last_is is_newline v))
                (last_is is_newline v)) /\
    o_fail_at o' = None /\
    out_text o' = out_text (s_out s) ++
      match s_indent s with
      | None => v
      | Some ind =>
          (if negb (first_is is_newline v) && s_indent_before_write s then ind else [])
          ++ with_indent_spec v ind
      end.
Proof. exact indent_aware_write_spec. Qed.
Print Assumptions C12_indent_aware_write_spec.

Theorem C12_indent_aware_write_flags : forall v s,
  o_fail_at (s_out s) = None -> v <> [] ->
  exists s', indent_aware_write v s = ROk tt s' /\
    s_content_produced s' = true /\
    s_trailing_newline s' = last_is is_newline v /\
    s_indent_before_write s' = last_is is_newline v /\
    s_indent s' = s_indent s /\ s_blocks s' = s_blocks s /\
    s_disable_escape s' = s_disable_escape s /\ s_log s' = s_log s /\
    s_esc_trace s' = s_esc_trace s.
Proof. exact indent_aware_write_flags. Qed.
Print Assumptions C12_indent_aware_write_flags.

(* indent_aware_write, any writer, every outcome *)
Theorem C12_indent_aware_write_frame : forall v s,
  match indent_aware_write v s with
  | ROk _ s' =>
      out_extends (s_out s) (s_out s') /\
      ((v = [] /\ s' = s) \/
       (v <> [] /\
        s' = set_indent_before_write
               (set_trailing_newline (set_content_produced (set_out s (s_out s')) true)
                  (last_is is_newline v))
               (last_is is_newline v)))
  | RErr e s' =>
      e = mk_err RIOError /\ v <> [] /\ out_extends (s_out s) (s_out s') /\
      s' = set_content_produced (set_out s (s_out s')) true
  | RPanic _ => False
  | RFuel => False
  end.
Proof. exact indent_aware_write_frame. Qed.
Print Assumptions C12_indent_aware_write_frame.

(* the chunk-level fact for C19: the three writer functions only ever append to
   o_chunks and never change o_fail_at — in the success and in the error
   outcome, for every fuel *)
Theorem C12_writer_append_only :
  (forall chunk s,
     match out_write chunk s with
     | ROk _ s' | RErr _ s' => out_extends (s_out s) (s_out s')
     | _ => True end) /\
  (forall fuel v ind s,
     match write_indented fuel v ind s with
     | ROk _ s' | RErr _ s' => out_extends (s_out s) (s_out s')
     | _ => True end) /\
  (forall v s,
     match indent_aware_write v s with
     | ROk _ s' | RErr _ s' => out_extends (s_out s) (s_out s')
     | _ => True end).
Proof. exact writer_append_only. Qed.
Print Assumptions C12_writer_append_only.
