(* Props/C11_hand.v — property C11, the clause "on a value expression a `~`
   equals deleting the adjacent whitespace by hand".

   FORM PROVED: the piece level.  By C11_whole_template (Props/C11_whole.v) the
   raw text of every compiled template is the concatenation of
   ws_piece po pt npre nsa piece over its text pieces, where po / pt are what the
   tag P on the left left behind (trailing `~` / standalone) and npre / nsa what
   the tag N on the right asks for (leading `~` / standalone look-back).  Here:
     * C11_lead_tilde_by_hand : giving N a leading `~` is the same as trimming
       the end of the piece by hand (Unicode whitespace, line breaks included) —
       for EVERY left-hand tag, also a standalone one (the start trim never looks
       past the last non-whitespace character);
     * C11_trail_tilde_by_hand : giving P a trailing `~` is the same as trimming
       the start of the piece by hand, with P leaving no standalone flag;
     * C11_value_expr_flags : a value expression {{v}} / {{{v}}} has exactly
       these two effects and no other: its flags are its two `~`, it never
       triggers the standalone look-back (sa_fires = false) and never leaves the
       standalone flag (trim_after = false).
   So {{~v~}} between two pieces acts on them exactly as {{v}} between the two
   hand-trimmed pieces.  For a standalone-capable tag this fails
   (C11_capable_not_by_hand, and the partial example): its look-back fires
   without any `~`, and deleting the whitespace in front of it by hand changes
   whether it stands alone on its line.
   NOT proved: the source-level form "A ++ {{~v~}} ++ B versus
   trim_end A ++ {{v}} ++ trim_start B compile to the same raw text for all
   fragments A, B"; it needs a relation between the pest token streams of two
   different sources.  It is shown on one multi-line instance by computation
   (C11_value_tilde_by_hand_example).
   Statements only; proofs in Proofs/WsHand.v. *)
From Coq Require Import List NArith Bool.
From HB Require Import Base.Str Peg.Peg Peg.Grammar Tpl.Ast Tpl.Compile Spec.AlignedSpec Spec.WsSpec
  Spec.StripTags Spec.StripTagsBlocks Spec.WsWhole Proofs.WsHand.
Import ListNotations.
Open Scope N_scope.

Theorem C11_lead_tilde_by_hand : forall po pt piece,
  ws_piece po pt true false piece = ws_piece po pt false false (trim_end piece).
Proof. exact lead_tilde_by_hand. Qed.
Print Assumptions C11_lead_tilde_by_hand.

Theorem C11_trail_tilde_by_hand : forall pt npre nsa piece,
  ws_piece true pt npre nsa piece = ws_piece false false npre nsa (trim_start piece).
Proof. exact trail_tilde_by_hand. Qed.
Print Assumptions C11_trail_tilde_by_hand.

(* a piece between two value expressions, `~` on both sides of it *)
Theorem C11_both_tildes_by_hand : forall piece,
  ws_piece true false true false piece = trim_end (trim_start piece).
Proof. exact both_tildes_by_hand. Qed.
Print Assumptions C11_both_tildes_by_hand.

Theorem C11_value_expr_flags : forall src opts F pr it html,
  tag_classify (tk_rule pr) = KValueExpr html ->
  sa_fires src opts pr = false /\ trim_after src opts pr = false /\
  (forall e it', tag_expr src F pr it = COk (e, it') -> tag_fl src F pr it = (es_pre e, es_pro e)).
Proof. exact value_expr_flags. Qed.
Print Assumptions C11_value_expr_flags.

(* the end trim of a piece commutes with each of the three start trims *)
Theorem C11_trim_end_commutes :
  (forall s, trim_end (trim_start s) = trim_start (trim_end s)) /\
  (forall s, trim_end (strip_first_newline (trim_start_blank s))
             = strip_first_newline (trim_start_blank (trim_end s))).
Proof.
  split; [exact (trim_end_commutes _ start_local_trim_start)
         | exact (trim_end_commutes _ start_local_standalone)].
Qed.
Print Assumptions C11_trim_end_commutes.

Theorem C11_capable_not_by_hand : exists po pt piece,
  ws_piece po pt false true piece <> ws_piece po pt false false piece.
Proof. exact capable_not_by_hand. Qed.
Print Assumptions C11_capable_not_by_hand.

(* through compile2: "a \n  {{~x~}} \r\n b" and "a{{x}}b" *)
Theorem C11_value_tilde_by_hand_example :
  art (`"a " ++ [10] ++ `"  {{~x~}} " ++ [13; 10] ++ `" b") = Some (`"ab")
  /\ art (`"a{{x}}b") = Some (`"ab").
Proof. exact value_tilde_by_hand_example. Qed.
Print Assumptions C11_value_tilde_by_hand_example.

(* "a\n  {{~> p}}\nb" and "a{{> p}}\nb": not the same for a partial tag *)
Theorem C11_partial_tilde_not_by_hand_example :
  art (`"a" ++ [10] ++ `"  {{~> p}}" ++ [10] ++ `"b") = Some (`"ab")
  /\ art (`"a{{> p}}" ++ [10] ++ `"b") = Some (`"a" ++ [10] ++ `"b").
Proof. exact partial_tilde_not_by_hand_example. Qed.
Print Assumptions C11_partial_tilde_not_by_hand_example.
