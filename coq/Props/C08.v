(* Props/C08.v — property C08: rendering is compositional.  Statements only;
   proofs in Proofs/Frame.v (and Proofs/FrameFlags.v for the write flags);
   `restored` and `flags_only` are in Spec/RenderFrameSpec.v.  Since the repair
   of F3 and F4 `restored` includes the partial-block depth and the current
   template name. *)
From HB Require Import Reg.RegOps Spec.RenderFrameSpec Proofs.Frame Proofs.FrameFlags.

(* render_app: the element fold splits anywhere *)
Theorem C08_fold_app : forall {A} (step : A -> nat -> rstate -> rres unit) (l1 l2 : list A) i s,
  fold_idx step (l1 ++ l2) i s =
  rbind (fold_idx step l1 i s) (fun _ s' => fold_idx step l2 (i + List.length l1)%nat s').
Proof. exact @fold_idx_app. Qed.
Print Assumptions C08_fold_app.

Theorem C08_render_app : forall reg data ft f name A B mp s,
  render_template reg data ft (S f) (MkT name (A ++ B) mp) s =
  rbind (fold_idx (fun e idx s' => rmap_err (render_element reg data ft f e s')
                                            (attach_render (MkT name (A ++ B) mp) idx))
                  A 0%nat (set_current s name))
        (fun _ s1 =>
           rbind (fold_idx (fun e idx s' => rmap_err (render_element reg data ft f e s')
                                                     (attach_render (MkT name (A ++ B) mp) idx))
                           B (List.length A) s1)
                 (fun _ s' => ROk tt (set_current s' (s_current s)))).
Proof. exact render_app. Qed.
Print Assumptions C08_render_app.

(* rendering A ++ B succeeds exactly when A's elements succeed and then B's
   elements succeed from the state A left (the position maps only decorate
   errors); at the end the caller's template name is put back *)
Theorem C08_render_app_ok : forall reg data ft f name A B mp mpA mpB s s',
  render_template reg data ft (S f) (MkT name (A ++ B) mp) s = ROk tt s' <->
  exists s1 s2,
    fold_idx (fun e idx s' => rmap_err (render_element reg data ft f e s')
                                       (attach_render (MkT name A mpA) idx))
             A 0%nat (set_current s name) = ROk tt s1 /\
    fold_idx (fun e idx s' => rmap_err (render_element reg data ft f e s')
                                       (attach_render (MkT name B mpB) idx))
             B 0%nat s1 = ROk tt s2 /\
    s' = set_current s2 (s_current s).
Proof. exact render_app_ok. Qed.
Print Assumptions C08_render_app_ok.

(* frame: a finished element (block, partial, partial block, triple-brace
   expression, ...) leaves the block stack, the partial-block stack and depth
   (the @partial-block binding), the current template name, the indent string,
   the root name and the dev templates as they were, and can only clear the
   escape toggle *)
Theorem C08_frame : forall reg data ft fuel e s s',
  render_element reg data ft fuel e s = ROk tt s' -> restored s s'.
Proof. exact frame_element. Qed.
Print Assumptions C08_frame.

Theorem C08_frame_eq : forall reg data ft fuel e s s',
  s_disable_escape s = false ->
  render_element reg data ft fuel e s = ROk tt s' ->
  s_blocks s' = s_blocks s /\ s_pb_stack s' = s_pb_stack s /\ s_pb_depth s' = s_pb_depth s /\
  s_current s' = s_current s /\ s_indent s' = s_indent s /\
  s_root s' = s_root s /\ s_dev s' = s_dev s /\ s_disable_escape s' = s_disable_escape s.
Proof. exact frame_element_eq. Qed.
Print Assumptions C08_frame_eq.

Theorem C08_frame_template : forall reg data ft fuel t s s',
  render_template reg data ft fuel t s = ROk tt s' -> restored s s'.
Proof. exact frame_template. Qed.
Print Assumptions C08_frame_template.

(* a run of sibling elements: the state between any two of them is `restored`
   with respect to the state before the first *)
Theorem C08_frame_elements : forall reg data ft f (g : nat -> rerror -> rerror) l i s s',
  fold_idx (fun e idx s' => rmap_err (render_element reg data ft f e s') (g idx)) l i s = ROk tt s' ->
  restored s s'.
Proof. exact frame_elements. Qed.
Print Assumptions C08_frame_elements.

(* in particular the @partial-block binding is unchanged *)
Theorem C08_frame_partial_block : forall s s',
  restored s s' -> get_partial s' PARTIAL_BLOCK = get_partial s PARTIAL_BLOCK.
Proof. exact restored_partial_block. Qed.
Print Assumptions C08_frame_partial_block.

(* flags_irrelevant: with no indentation active (no_indent / flags_ready /
   ni_map, Spec/RenderFrameSpec.v: no partial element of the template, of the
   registry's templates or of the templates the state holds carries an indent,
   and the indent string is None) and without the harness probe helper `state`
   (whose purpose is to print the flags), the three "last write" flags
   (trailing_newline, content_produced, indent_before_write) influence nothing
   but themselves: two runs from states that differ only in these flags end
   with the same value or the same error, the same writer content, log and
   trace, and states that again differ only in these flags *)
Theorem C08_flags_irrelevant : forall (reg : registry) (data : json) (ft : ftable),
  ni_map (r_templates reg) -> (forall n, map_get (r_helpers reg) n <> Some HState) ->
  forall fuel t s1 s2,
    flags_only s1 s2 -> flags_ready s1 -> no_indent t ->
    same_up_to_flags (render_template reg data ft fuel t s1) (render_template reg data ft fuel t s2).
Proof. exact flags_irrelevant_template. Qed.
Print Assumptions C08_flags_irrelevant.

Theorem C08_flags_irrelevant_element : forall (reg : registry) (data : json) (ft : ftable),
  ni_map (r_templates reg) -> (forall n, map_get (r_helpers reg) n <> Some HState) ->
  forall fuel e s1 s2,
    flags_only s1 s2 -> flags_ready s1 -> ni_element e = true ->
    same_up_to_flags (render_element reg data ft fuel e s1) (render_element reg data ft fuel e s2).
Proof. exact flags_irrelevant_element. Qed.
Print Assumptions C08_flags_irrelevant_element.

Theorem C08_flags_irrelevant_elements : forall (reg : registry) (data : json) (ft : ftable),
  ni_map (r_templates reg) -> (forall n, map_get (r_helpers reg) n <> Some HState) ->
  forall f (g : nat -> rerror -> rerror) l i s1 s2,
    flags_only s1 s2 -> flags_ready s1 -> forallb ni_element l = true ->
    same_up_to_flags (fold_idx (fun e idx s' => rmap_err (render_element reg data ft f e s') (g idx)) l i s1)
                     (fold_idx (fun e idx s' => rmap_err (render_element reg data ft f e s') (g idx)) l i s2).
Proof. exact flags_irrelevant_elements. Qed.
Print Assumptions C08_flags_irrelevant_elements.

(* the readiness is kept by a finished run of elements (inline partials and
   local helpers that decorators add are again without indent / not `state`) *)
Theorem C08_flags_ready_kept : forall (reg : registry) (data : json) (ft : ftable),
  ni_map (r_templates reg) -> (forall n, map_get (r_helpers reg) n <> Some HState) ->
  forall f (g : nat -> rerror -> rerror) l i s s',
    flags_ready s -> forallb ni_element l = true ->
    fold_idx (fun e idx s' => rmap_err (render_element reg data ft f e s') (g idx)) l i s = ROk tt s' ->
    flags_ready s'.
Proof. exact flags_ready_kept. Qed.
Print Assumptions C08_flags_ready_kept.

(* C08_concat, PARTIAL.  A, then a non-empty literal `bar`, then B, with no
   indentation active: A's elements run from the entry state to s1, which is
   `restored` (block stack, @partial-block binding, current name, indent, ...)
   with respect to it; what B's elements then do is, up to the three flags,
   what they do from s1 with only `bar` appended to the writer.  Hence
   output (A ++ bar ++ B) = output A ++ bar ++ (what B appends from sb).
   Missing for the full "each rendered alone against the same data": that
   what B appends does not depend on the writer's earlier content, the log and
   the ghost trace (writer-prefix independence, another group's theorem) and
   on what decorators in A deliberately persist (the property excludes
   decorators in the left operand). *)
Theorem C08_concat_partial : forall (reg : registry) (data : json) (ft : ftable),
  ni_map (r_templates reg) -> (forall n, map_get (r_helpers reg) n <> Some HState) ->
  forall f name A bar B mp s s',
    flags_ready s -> no_indent (MkT name (A ++ ElRaw bar :: B) mp) -> bar <> [] ->
    render_template reg data ft (S (S f)) (MkT name (A ++ ElRaw bar :: B) mp) s = ROk tt s' ->
    exists s1 sb s2,
      fold_idx (fun e idx s' => rmap_err (render_element reg data ft (S f) e s')
                                         (attach_render (MkT name A mp) idx))
               A 0%nat (set_current s name) = ROk tt s1 /\
      restored (set_current s name) s1 /\ flags_ready s1 /\
      out_write bar s1 = ROk tt sb /\
      fold_idx (fun e idx s' => rmap_err (render_element reg data ft (S f) e s')
                                         (attach_render (MkT name (ElRaw bar :: B) mp) idx))
               B 1%nat sb = ROk tt s2 /\
      flags_only (set_current s2 (s_current s)) s'.
Proof. exact concat_partial. Qed.
Print Assumptions C08_concat_partial.
