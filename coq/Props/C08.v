(* Props/C08.v — property C08: rendering is compositional.  Statements only;
   proofs in Proofs/Frame.v; `restored` is in Spec/RenderFrameSpec.v.

   FALSE of the model (findings F3, F4): the partial-block depth and the
   current template name are not restored: C08_refuted_depth,
   C08_refuted_current_template. *)
From HB Require Import Reg.RegOps Spec.RenderFrameSpec Proofs.Frame.

(* render_app: the element fold splits anywhere *)
Theorem C08_fold_app : forall {A} (step : A -> nat -> rstate -> rres unit) (l1 l2 : list A) i s,
  fold_idx step (l1 ++ l2) i s =
  rbind (fold_idx step l1 i s) (fun _ s' => fold_idx step l2 (i + List.length l1)%nat s').
Proof. exact @fold_idx_app. Qed.
Print Assumptions C08_fold_app.

Theorem C08_render_app : forall reg data ft f name A B mp s,
  render_template reg data ft (S f) (MkT name (A ++ B) mp) s =
  rbind (fold_idx (fun e idx s' => rmap_err (render_element reg data ft f e s')
                                            (attach_render (MkT name (A ++ B) mp) idx))
                  A 0%nat (set_current s name))
        (fun _ s1 =>
           fold_idx (fun e idx s' => rmap_err (render_element reg data ft f e s')
                                              (attach_render (MkT name (A ++ B) mp) idx))
                    B (List.length A) s1).
Proof. exact render_app. Qed.
Print Assumptions C08_render_app.

(* rendering A ++ B succeeds exactly when A succeeds and then B's elements
   succeed from the state A left (the position maps only decorate errors) *)
Theorem C08_render_app_ok : forall reg data ft f name A B mp mpA mpB s s',
  render_template reg data ft (S f) (MkT name (A ++ B) mp) s = ROk tt s' <->
  exists s1, render_template reg data ft (S f) (MkT name A mpA) s = ROk tt s1 /\
             fold_idx (fun e idx s' => rmap_err (render_element reg data ft f e s')
                                                (attach_render (MkT name B mpB) idx))
                      B 0%nat s1 = ROk tt s'.
Proof. exact render_app_ok. Qed.
Print Assumptions C08_render_app_ok.

(* frame: a finished element (block, partial, partial block, triple-brace
   expression, ...) leaves the block stack, the partial-block stack, the
   indent string, the root name and the dev templates as they were, and can
   only clear the escape toggle *)
Theorem C08_frame : forall reg data ft fuel e s s',
  render_element reg data ft fuel e s = ROk tt s' -> restored s s'.
Proof. exact frame_element. Qed.
Print Assumptions C08_frame.

Theorem C08_frame_eq : forall reg data ft fuel e s s',
  s_disable_escape s = false ->
  render_element reg data ft fuel e s = ROk tt s' ->
  s_blocks s' = s_blocks s /\ s_pb_stack s' = s_pb_stack s /\ s_indent s' = s_indent s /\
  s_root s' = s_root s /\ s_dev s' = s_dev s /\ s_disable_escape s' = s_disable_escape s.
Proof. exact frame_element_eq. Qed.
Print Assumptions C08_frame_eq.

Theorem C08_frame_template : forall reg data ft fuel t s s',
  render_template reg data ft fuel t s = ROk tt s' -> restored s s'.
Proof. exact frame_template. Qed.
Print Assumptions C08_frame_template.

(* F3: p = {{> @partial-block}}, m = {{#> p}}D{{/p}}: after the single
   partial-block element of m has finished (output D) the depth has changed *)
Theorem C08_refuted_depth :
  exists reg data ft fuel t d s s',
    t_els t = [ElPartBlock d] /\
    render_template reg data ft fuel t s = ROk tt s' /\
    out_text (s_out s') = `"D" /\
    s_pb_depth s' <> s_pb_depth s.
Proof. exact refuted_depth. Qed.
Print Assumptions C08_refuted_depth.

(* F4: inside the template named t = {{#if true}}x{{/if}}, after the block
   element has finished the current template name is None *)
Theorem C08_refuted_current_template :
  exists reg data ft fuel t e s s',
    t_name t = Some (`"t") /\ t_els t = [e] /\ s_current s = t_name t /\
    render_element reg data ft fuel e s = ROk tt s' /\
    out_text (s_out s') = `"x" /\
    s_current s' = None /\ s_current s' <> s_current s.
Proof. exact refuted_current_template. Qed.
Print Assumptions C08_refuted_current_template.
