(* Props/C06_leaf.v — property C06, leaf level: the truthiness table (JsonTruthy).
   Statements only; proofs in Proofs/LeafTruthy.v.  The branch-selection part of
   C06 (chain_compile / chain_render) is proved elsewhere. *)
From HB Require Import Base.Json Proofs.LeafTruthy.
Open Scope N_scope.

(* complete characterisation of is_truthy on every JSON shape, for both settings
   of includeZero (iz) *)
Theorem C06_truthy_table : forall iz : bool,
  is_truthy iz JNull = false /\
  (forall b, is_truthy iz (JBool b) = b) /\
  (forall s, is_truthy iz (JStr s) = true <-> s <> []) /\
  (forall l, is_truthy iz (JArr l) = true <-> l <> []) /\
  (forall m, is_truthy iz (JObj m) = true <-> m <> []) /\
  (forall n, is_truthy iz (JNum (PosInt n)) = true <-> (iz = true \/ n <> 0)) /\
  (forall z, is_truthy iz (JNum (NegInt z)) = true <-> (iz = true \/ z <> 0%Z)) /\
  (forall b, is_truthy iz (JNum (Float b)) = if iz then negb (f_is_nan b) else f_is_normal b).
Proof. exact truthy_table. Qed.
Print Assumptions C06_truthy_table.

Theorem C06_truthy_nonnumbers : forall iz : bool,
  is_truthy iz JNull = false /\
  (forall b, is_truthy iz (JBool b) = b) /\
  is_truthy iz (JStr []) = false /\
  is_truthy iz (JArr []) = false /\
  is_truthy iz (JObj []) = false /\
  (forall s, is_truthy iz (JStr s) = true <-> s <> []) /\
  (forall l, is_truthy iz (JArr l) = true <-> l <> []) /\
  (forall m, is_truthy iz (JObj m) = true <-> m <> []).
Proof. exact truthy_nonnumbers. Qed.
Print Assumptions C06_truthy_nonnumbers.

(* includeZero = false (the default of if/unless, and with/and/or/not) *)
Theorem C06_truthy_numbers_default :
  (forall n, is_truthy false (JNum (PosInt n)) = true <-> n <> 0) /\
  (forall z, is_truthy false (JNum (NegInt z)) = true <-> z <> 0%Z) /\
  (forall b, is_truthy false (JNum (Float b)) = f_is_normal b).
Proof. exact truthy_numbers_default. Qed.
Print Assumptions C06_truthy_numbers_default.

(* includeZero = true: every number that is not NaN is truthy; every
   well-formed JSON number is *)
Theorem C06_truthy_numbers_include_zero :
  (forall n, is_truthy true (JNum (PosInt n)) = true) /\
  (forall z, is_truthy true (JNum (NegInt z)) = true) /\
  (forall b, is_truthy true (JNum (Float b)) = negb (f_is_nan b)) /\
  (forall x, num_wf x = true -> is_truthy true (JNum x) = true).
Proof. exact truthy_numbers_include_zero. Qed.
Print Assumptions C06_truthy_numbers_include_zero.

(* REFUTATION of "everything except zero is true" (finding F5): the non-zero
   subnormal double 1e-320 (bits 2024) is falsy, because the code tests
   f64::is_normal *)
Theorem C06_refuted_subnormal : exists b,
  num_wf (Float b) = true /\ f_is_zero b = false /\ fst (f_dyadic b) <> 0%Z /\
  is_truthy false (JNum (Float b)) = false.
Proof. exact refuted_subnormal. Qed.
Print Assumptions C06_refuted_subnormal.

(* the strongest true variant: for a well-formed double that is not subnormal
   (exponent field non-zero, or a zero), truthy iff the value is non-zero *)
Theorem C06_truthy_float_nonsubnormal : forall b,
  num_wf (Float b) = true ->
  (f_exp b <> 0 \/ f_man b = 0) ->
  is_truthy false (JNum (Float b)) = negb (f_is_zero b) /\
  (is_truthy false (JNum (Float b)) = true <-> fst (f_dyadic b) <> 0%Z).
Proof. exact truthy_float_nonsubnormal. Qed.
Print Assumptions C06_truthy_float_nonsubnormal.

(* a well-formed double is falsy exactly when its exponent field is 0 (zeros
   and subnormals) *)
Theorem C06_truthy_float_false_iff : forall b,
  num_wf (Float b) = true ->
  (is_truthy false (JNum (Float b)) = false <-> f_exp b = 0).
Proof. exact truthy_float_false_iff. Qed.
Print Assumptions C06_truthy_float_false_iff.

(* all number representations at once: apart from subnormal doubles, truthy iff
   the exact value mant * 2^exp (dyadic) is non-zero *)
Theorem C06_truthy_number_value : forall x,
  num_wf x = true ->
  (forall b, x = Float b -> f_exp b <> 0 \/ f_man b = 0) ->
  (is_truthy false (JNum x) = true <-> fst (dyadic x) <> 0%Z).
Proof. exact truthy_number_value. Qed.
Print Assumptions C06_truthy_number_value.
