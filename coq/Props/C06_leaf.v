(* Props/C06_leaf.v — property C06, leaf level: the truthiness table (JsonTruthy).
   Statements only; proofs in Proofs/LeafTruthy.v.  The branch-selection part of
   C06 (chain_compile / chain_render) is proved elsewhere. *)
From HB Require Import Base.Json Proofs.LeafTruthy.
Open Scope N_scope.

(* complete characterisation of is_truthy on every JSON shape, for both settings
   of includeZero (iz) *)
Theorem C06_truthy_table : forall iz : bool,
  is_truthy iz JNull = false /\
  (forall b, is_truthy iz (JBool b) = b) /\
  (forall s, is_truthy iz (JStr s) = true <-> s <> []) /\
  (forall l, is_truthy iz (JArr l) = true <-> l <> []) /\
  (forall m, is_truthy iz (JObj m) = true <-> m <> []) /\
  (forall n, is_truthy iz (JNum (PosInt n)) = true <-> (iz = true \/ n <> 0)) /\
  (forall z, is_truthy iz (JNum (NegInt z)) = true <-> (iz = true \/ z <> 0%Z)) /\
  (forall b, is_truthy iz (JNum (Float b)) =
     if iz then negb (f_is_nan b) else negb (f_is_zero b) && negb (f_is_nan b)).
Proof. exact truthy_table. Qed.
Print Assumptions C06_truthy_table.

Theorem C06_truthy_nonnumbers : forall iz : bool,
  is_truthy iz JNull = false /\
  (forall b, is_truthy iz (JBool b) = b) /\
  is_truthy iz (JStr []) = false /\
  is_truthy iz (JArr []) = false /\
  is_truthy iz (JObj []) = false /\
  (forall s, is_truthy iz (JStr s) = true <-> s <> []) /\
  (forall l, is_truthy iz (JArr l) = true <-> l <> []) /\
  (forall m, is_truthy iz (JObj m) = true <-> m <> []).
Proof. exact truthy_nonnumbers. Qed.
Print Assumptions C06_truthy_nonnumbers.

(* includeZero = false (the default of if/unless, and with/and/or/not) *)
Theorem C06_truthy_numbers_default :
  (forall n, is_truthy false (JNum (PosInt n)) = true <-> n <> 0) /\
  (forall z, is_truthy false (JNum (NegInt z)) = true <-> z <> 0%Z) /\
  (forall b, is_truthy false (JNum (Float b)) = negb (f_is_zero b) && negb (f_is_nan b)).
Proof. exact truthy_numbers_default. Qed.
Print Assumptions C06_truthy_numbers_default.

(* includeZero = true: every number that is not NaN is truthy; every
   well-formed JSON number is *)
Theorem C06_truthy_numbers_include_zero :
  (forall n, is_truthy true (JNum (PosInt n)) = true) /\
  (forall z, is_truthy true (JNum (NegInt z)) = true) /\
  (forall b, is_truthy true (JNum (Float b)) = negb (f_is_nan b)) /\
  (forall x, num_wf x = true -> is_truthy true (JNum x) = true).
Proof. exact truthy_numbers_include_zero. Qed.
Print Assumptions C06_truthy_numbers_include_zero.

(* finding F5, FIXED in /repo ("fix: treat non-zero subnormal numbers as truthy"): the former
   witness of the defect, the non-zero subnormal double 1e-320 (bits 2024), is truthy *)
Theorem C06_subnormal_truthy :
  num_wf (Float 2024) = true /\ f_is_zero 2024 = false /\ f_exp 2024 = 0 /\
  is_truthy false (JNum (Float 2024)) = true.
Proof. exact subnormal_truthy. Qed.
Print Assumptions C06_subnormal_truthy.

(* for EVERY well-formed double (normal, subnormal, zero) truthy iff the value is non-zero *)
Theorem C06_truthy_float_value : forall b,
  num_wf (Float b) = true ->
  is_truthy false (JNum (Float b)) = negb (f_is_zero b) /\
  (is_truthy false (JNum (Float b)) = true <-> fst (f_dyadic b) <> 0%Z).
Proof. exact truthy_float_value. Qed.
Print Assumptions C06_truthy_float_value.

(* all number representations at once: truthy iff the exact value mant * 2^exp is non-zero *)
Theorem C06_truthy_number_value : forall x,
  num_wf x = true ->
  (is_truthy false (JNum x) = true <-> fst (dyadic x) <> 0%Z).
Proof. exact truthy_number_value. Qed.
Print Assumptions C06_truthy_number_value.
