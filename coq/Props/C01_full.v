(* Props/C01_full.v — property C01, the missing link of C01_evaluate_partial: a
   helper author's evaluate(raw) (run-time re-parse of the path string, start
   rule `path`) resolves exactly like the same spelling written inline in a
   template (parsed by the compiler from the tokens of `reference`).
   Proofs in Proofs/PathReparse.v; the executable test `admissible_inline` and
   `inline_src`, `inline_template` are in Spec/InlinePath.v.

   * C01_evaluate_matches_inline  full for every spelling accepted by the executable test
                                  `admissible_inline` (pest reads `{{raw}}` as one expression whose
                                  name is a reference covering exactly raw): the compiled template is
                                  the single expression with name `PPath p`, `path_parse raw = Some p`
                                  (same segments, same raw) and evaluate = evaluate2 on p.
   * C01_reference_reparse        the core, with no shape hypothesis on the template: whenever the
                                  compiler's `reference` rule, run right after "{{", accepts exactly
                                  raw before "}}", the run-time parse of raw yields the path that
                                  parse_name builds from the reference tokens.
   * C01_path_inline_suffix       the PEG fact behind it: path_inline on `x ++ "}}"` behaves as on x.
   * C01_reparse_converse_refuted the converse fails for keywords: `else` re-parses as a path at run
                                  time but `{{else}}` is not a path expression (expected shadowing by
                                  the grammar, not a defect).
   No spelling was found on which the two parsers disagree. *)
From Coq Require Import List NArith.
From HB Require Import Peg.Peg Peg.Grammar Tpl.Ast Tpl.Compile Rt.Eval Spec.InlinePath Proofs.PathReparse.
Import ListNotations.
Open Scope N_scope.

Theorem C01_evaluate_matches_inline : forall raw opts, admissible_inline raw = true ->
  exists p, compile2 (inline_src raw) opts = COk (inline_template p opts) /\
            path_parse raw = Some p /\ path_raw p = raw /\
            forall data s, evaluate data raw s = evaluate2 data p s.
Proof. exact evaluate_matches_inline. Qed.
Print Assumptions C01_evaluate_matches_inline.

Theorem C01_reference_reparse : forall (raw : str) f at_ ts,
  hb_eval f (ERef R_reference) at_ false (raw ++ [125; 125]) 2 = Ok (2 + len raw) [125; 125] ts ->
  exists p, path_parse raw = Some p /\ path_raw p = raw /\
    forall fuel rest,
      match rest with [] => True | t :: _ => len raw + 2 < tk_end t end ->
      parse_name ([123; 123] ++ raw ++ [125; 125]) (S fuel) (ts ++ rest) = COk (PPath p, rest).
Proof. exact reference_reparse. Qed.
Print Assumptions C01_reference_reparse.

Theorem C01_path_inline_suffix : forall f at_ q (x : str) pos p rl ts, at_ <> ANon ->
  hb_eval f (ERef R_path_inline) at_ q (x ++ [125; 125]) pos = Ok p rl ts ->
  exists r', rl = r' ++ [125; 125] /\ hb_eval f (ERef R_path_inline) at_ q x pos = Ok p r' ts.
Proof. exact path_inline_sim. Qed.
Print Assumptions C01_path_inline_suffix.

Theorem C01_reparse_converse_refuted :
  exists raw p, path_parse raw = Some p /\
    forall opts q, compile2 (inline_src raw) opts <> COk (inline_template q opts).
Proof. exact reparse_converse_refuted. Qed.
Print Assumptions C01_reparse_converse_refuted.
