(* Props/C17.v — property C17: the registry behaves as a name -> template map;
   dev mode tracks files.  Statements only; proofs in Proofs/RegProofs.v; the
   abstract specification (entry, areg, a_put, a_register_template_string,
   a_register_template_file, a_unregister, a_clear, a_set_dev, a_has, a_keys,
   a_load, aworld, a_step, a_exec, abs, abs_world, exec_ops, skeys, reg_inv,
   is_clone_or_sel) is Spec/RegistryMap.v.  It is the specification the
   property text states: the entry of a name is what was last successfully
   registered under it.

   exec_ops w ops is the world after the operations (fold of step_op);
   C17_exec_ops_is_run_ops ties it to run_ops. *)
From Coq Require Import List NArith.
From HB Require Import Reg.RegOps Spec.RegistryMap Proofs.RegProofs.
Import ListNotations.

(* the state behind run_ops: the observation an operation gives after a
   history is the one step_op gives on exec_ops of the history *)
Theorem C17_exec_ops_is_run_ops : forall w ops o,
  run_ops w (ops ++ [o])
  = run_ops w ops ++ match snd (step_op (exec_ops w ops) o) with Some x => [x] | None => [] end.
Proof. exact run_ops_snoc. Qed.
Print Assumptions C17_exec_ops_is_run_ops.

(* Refinement, for EVERY sequence of operations of the case protocol, with no
   side condition: the abstraction of the concrete two-map world is the
   abstract one-map world *)
Theorem C17_refines : forall ops : list op,
  abs_world (exec_ops world_init ops) = a_exec aworld_init ops.
Proof. exact refines. Qed.
Print Assumptions C17_refines.

(* ... hence every observation agrees: has_template, the key set, the template
   a render of n uses, and the outcome of a further registration *)
Theorem C17_observations : forall (ops : list op) (n s p : str),
  let w := exec_ops world_init ops in
  let aw := a_exec aworld_init ops in
  snd (step_op w (OHas n)) = Some (ObBool (a_has (acur aw) n))
  /\ snd (step_op w OKeys) = Some (ObKeys (a_keys (acur aw)))
  /\ get_or_load_template (cur w) (w_files w) n = a_load (acur aw) (aw_files aw) n
  /\ snd (step_op w (ORegs n s))
     = Some (ObUnit (snd (a_register_template_string (acur aw) n s)))
  /\ snd (step_op w (ORegp n s))
     = Some (ObUnit (snd (a_register_template_string (acur aw) n s)))
  /\ snd (step_op w (ORegf n p))
     = Some (ObUnit (snd (a_register_template_file (acur aw) (aw_files aw) n p))).
Proof. exact observations_agree. Qed.
Print Assumptions C17_observations.

(* every registry the interpreter can reach satisfies the invariant *)
Theorem C17_reachable_reg_inv : forall ops : list op, reg_inv (cur (exec_ops world_init ops)).
Proof. exact reachable_reg_inv. Qed.
Print Assumptions C17_reachable_reg_inv.

(* Finding F6 (a string registration over a tracked name left the file
   tracked) is fixed.  On its witness — dev on; file f = "A"; register n from
   file f; register n from the string "B" — a render of n uses "B": *)
Theorem C17_restated_source_witness :
  let w := exec_ops world_init
             [ODev true; OFw (`"f") (`"A"); ORegf (`"n") (`"f"); ORegs (`"n") (`"B")] in
  exists t,
    compile2 (`"B") (reg_opts (cur w) (Some (`"n"))) = COk t
    /\ get_or_load_template (cur w) (w_files w) (`"n") = LoadOk t
    /\ map_get (r_sources (cur w)) (`"n") = None.
Proof. exact restated_source_witness. Qed.
Print Assumptions C17_restated_source_witness.

Theorem C17_restated_source_render :
  run_case [ODev true; OFw (`"f") (`"A"); ORegf (`"n") (`"f"); ORegs (`"n") (`"B");
            ORender 0 (`"n") JNull None]
  = [ObUnit (COk tt); ObUnit (COk tt); ObRender (RoOk (`"B") [] 1)].
Proof. exact restated_source_render. Qed.
Print Assumptions C17_restated_source_render.

(* in general: after a successful register_template_string the name is not
   tracked and a render uses the freshly compiled template, dev on or off *)
Theorem C17_register_string_untracks :
  forall (r : registry) (fs : files) (n src : str) (t : template),
  reg_inv r ->
  compile2 src (reg_opts r (Some n)) = COk t ->
  let r' := fst (register_template_string r n src) in
  snd (register_template_string r n src) = COk tt
  /\ map_get (r_sources r') n = None
  /\ get_or_load_template r' fs n = LoadOk t.
Proof. exact register_string_untracks. Qed.
Print Assumptions C17_register_string_untracks.

Theorem C17_register_template_untracks :
  forall (r : registry) (fs : files) (n : str) (t : template),
  reg_inv r ->
  map_get (r_sources (register_template r n t)) n = None
  /\ get_or_load_template (register_template r n t) fs n = LoadOk t.
Proof. exact register_template_untracks. Qed.
Print Assumptions C17_register_template_untracks.

(* unregistering removes the name; rendering it is TemplateNotFound *)
Theorem C17_unregister_not_found : forall (ops : list op) (n : str),
  let w := exec_ops world_init (ops ++ [OUnreg n]) in
  get_or_load_template (cur w) (w_files w) n = LoadErr (RTemplateNotFound n)
  /\ snd (step_op w (OHas n)) = Some (ObBool false).
Proof. exact unregister_not_found. Qed.
Print Assumptions C17_unregister_not_found.

(* turning dev mode off stops all tracking: the stored templates are used *)
Theorem C17_dev_off_clears_tracking : forall (r : registry) (fs : files) (n : str),
  r_sources (set_dev_mode r false) = []
  /\ get_or_load_template (set_dev_mode r false) fs n
     = match map_get (r_templates r) n with
       | Some t => LoadOk t
       | None => LoadErr (RTemplateNotFound n)
       end.
Proof. exact dev_off_clears_tracking. Qed.
Print Assumptions C17_dev_off_clears_tracking.

(* a template registered from a string is the one compiled with the
   prevent_indent flag in force at registration, whatever the flag is later *)
Theorem C17_prevent_indent_at_registration :
  forall (r : registry) (fs : files) (n src : str) (t : template) (b : bool),
  map_get (r_sources r) n = None ->
  compile2 src {| o_prevent_indent := r_prevent_indent r; o_is_partial := false; o_name := Some n |}
    = COk t ->
  snd (register_template_string r n src) = COk tt
  /\ get_or_load_template (set_prevent_indent (fst (register_template_string r n src)) b) fs n
     = LoadOk t.
Proof. exact prevent_indent_at_registration. Qed.
Print Assumptions C17_prevent_indent_at_registration.

(* ... also when n was tracked before, for every reachable registry *)
Theorem C17_prevent_indent_at_registration_inv :
  forall (r : registry) (fs : files) (n src : str) (t : template) (b : bool),
  reg_inv r ->
  compile2 src {| o_prevent_indent := r_prevent_indent r; o_is_partial := false; o_name := Some n |}
    = COk t ->
  snd (register_template_string r n src) = COk tt
  /\ get_or_load_template (set_prevent_indent (fst (register_template_string r n src)) b) fs n
     = LoadOk t.
Proof. exact prevent_indent_at_registration_inv. Qed.
Print Assumptions C17_prevent_indent_at_registration_inv.

(* modelled as is: a TRACKED file is recompiled at every render with the flag
   in force at render time *)
Theorem C17_tracked_file_uses_current_flags :
  forall (r : registry) (fs : files) (n path content : str) (b : bool),
  r_dev r = true -> map_get (r_sources r) n = Some path -> map_get fs path = Some content ->
  get_or_load_template (set_prevent_indent r b) fs n
  = match compile2 content {| o_prevent_indent := b; o_is_partial := false; o_name := Some n |} with
    | COk t => LoadOk t
    | CErr e => LoadErr (RTemplateError e)
    | CPanic _ => LoadPanic
    | CFuel => LoadFuel
    end.
Proof. exact tracked_file_uses_current_flags. Qed.
Print Assumptions C17_tracked_file_uses_current_flags.

(* a cloned registry evolves independently: operations other than clone /
   select change only the selected registry *)
Theorem C17_clone_independent : forall (ops : list op) (w : world),
  forallb (fun o => negb (is_clone_or_sel o)) ops = true ->
  w_sel (exec_ops w ops) = w_sel w
  /\ (w_sel w = false -> w_b (exec_ops w ops) = w_b w)
  /\ (w_sel w = true -> w_a (exec_ops w ops) = w_a w).
Proof. exact clone_independent. Qed.
Print Assumptions C17_clone_independent.

Theorem C17_clone_snapshot : forall (w : world) (ops : list op),
  forallb (fun o => negb (is_clone_or_sel o)) ops = true ->
  (w_sel w = false -> w_b (exec_ops w (OClone :: ops)) = Some (w_a w))
  /\ w_a (exec_ops w (OClone :: OSel true :: ops)) = w_a w.
Proof. exact clone_snapshot. Qed.
Print Assumptions C17_clone_snapshot.
