(* Props/C17.v — property C17: the registry behaves as a name -> template map;
   dev mode tracks files.  Statements only; proofs in Proofs/RegProofs.v; the
   abstract specification (entry, areg, a_put, a_register_template_string,
   a_register_template_file, a_unregister, a_clear, a_set_dev, a_has, a_keys,
   a_load, aworld, a_step, a_exec, abs, abs_world, exec_ops, f6_hit, f6_free,
   is_clone_or_sel) is Spec/RegistryMap.v.

   exec_ops w ops is the world after the operations (fold of step_op);
   C17_exec_ops_is_run_ops ties it to run_ops. *)
From Coq Require Import List NArith.
From HB Require Import Reg.RegOps Spec.RegistryMap Proofs.RegProofs.
Import ListNotations.

(* the state behind run_ops: the observation an operation gives after a
   history is the one step_op gives on exec_ops of the history *)
Theorem C17_exec_ops_is_run_ops : forall w ops o,
  run_ops w (ops ++ [o])
  = run_ops w ops ++ match snd (step_op (exec_ops w ops) o) with Some x => [x] | None => [] end.
Proof. exact run_ops_snoc. Qed.
Print Assumptions C17_exec_ops_is_run_ops.

(* Refinement, for EVERY sequence of operations of the case protocol: the
   abstraction of the concrete two-map world is the abstract one-map world
   (specification variant AsImplemented: tracking exactly as the code does) *)
Theorem C17_refines_as_implemented : forall ops : list op,
  abs_world (exec_ops world_init ops) = a_exec AsImplemented aworld_init ops.
Proof. exact refines_as_implemented. Qed.
Print Assumptions C17_refines_as_implemented.

(* ... hence every observation agrees: has_template, the key set, the template
   a render of n uses, and the outcome of a further registration *)
Theorem C17_observations_as_implemented : forall (ops : list op) (n s p : str),
  let w := exec_ops world_init ops in
  let aw := a_exec AsImplemented aworld_init ops in
  snd (step_op w (OHas n)) = Some (ObBool (a_has (acur aw) n))
  /\ snd (step_op w OKeys) = Some (ObKeys (a_keys (acur aw)))
  /\ get_or_load_template (cur w) (w_files w) n = a_load (acur aw) (aw_files aw) n
  /\ snd (step_op w (ORegs n s))
     = Some (ObUnit (snd (a_register_template_string AsImplemented (acur aw) n s)))
  /\ snd (step_op w (ORegp n s))
     = Some (ObUnit (snd (a_register_template_string AsImplemented (acur aw) n s)))
  /\ snd (step_op w (ORegf n p))
     = Some (ObUnit (snd (a_register_template_file (acur aw) (aw_files aw) n p))).
Proof. exact observations_as_implemented. Qed.
Print Assumptions C17_observations_as_implemented.

(* The specification as the property text states it ("the last successfully
   registered template for each name"; variant AsStated) is REFUTED on the
   model (finding F6): dev on; file f = "A"; register n from file f; register
   n from the string "B"; a render of n still uses the file. *)
Theorem C17_refuted_stale_source :
  exists (ops : list op) (n : str),
    let w := exec_ops world_init ops in
    let aw := a_exec AsStated aworld_init ops in
    get_or_load_template (cur w) (w_files w) n <> a_load (acur aw) (aw_files aw) n.
Proof. exact refuted_stale_source. Qed.
Print Assumptions C17_refuted_stale_source.

Theorem C17_refuted_stale_source_render :
  run_case [ODev true; OFw (`"f") (`"A"); ORegf (`"n") (`"f"); ORegs (`"n") (`"B");
            ORender 0 (`"n") JNull None]
  = [ObUnit (COk tt); ObUnit (COk tt); ObRender (RoOk (`"A") [] 1)].
Proof. exact refuted_stale_source_render. Qed.
Print Assumptions C17_refuted_stale_source_render.

(* The two variants of the specification agree on every history that never
   successfully re-registers, by string or precompiled template, a name whose
   file is being tracked (f6_free, an executable predicate) ... *)
Theorem C17_specs_agree_f6_free : forall (ops : list op) (w : aworld),
  f6_free w ops = true -> a_exec AsImplemented w ops = a_exec AsStated w ops.
Proof. exact specs_agree_f6_free. Qed.
Print Assumptions C17_specs_agree_f6_free.

(* ... so on those histories the registry refines the specification as stated *)
Theorem C17_refines_as_stated : forall ops : list op,
  f6_free aworld_init ops = true ->
  abs_world (exec_ops world_init ops) = a_exec AsStated aworld_init ops.
Proof. exact refines_as_stated. Qed.
Print Assumptions C17_refines_as_stated.

Theorem C17_observations_as_stated : forall (ops : list op) (n : str),
  f6_free aworld_init ops = true ->
  let w := exec_ops world_init ops in
  let aw := a_exec AsStated aworld_init ops in
  snd (step_op w (OHas n)) = Some (ObBool (a_has (acur aw) n))
  /\ snd (step_op w OKeys) = Some (ObKeys (a_keys (acur aw)))
  /\ get_or_load_template (cur w) (w_files w) n = a_load (acur aw) (aw_files aw) n.
Proof. exact observations_as_stated. Qed.
Print Assumptions C17_observations_as_stated.

(* unregistering removes the name; rendering it is TemplateNotFound *)
Theorem C17_unregister_not_found : forall (ops : list op) (n : str),
  let w := exec_ops world_init (ops ++ [OUnreg n]) in
  get_or_load_template (cur w) (w_files w) n = LoadErr (RTemplateNotFound n)
  /\ snd (step_op w (OHas n)) = Some (ObBool false).
Proof. exact unregister_not_found. Qed.
Print Assumptions C17_unregister_not_found.

(* turning dev mode off stops all tracking: the stored templates are used *)
Theorem C17_dev_off_clears_tracking : forall (r : registry) (fs : files) (n : str),
  r_sources (set_dev_mode r false) = []
  /\ get_or_load_template (set_dev_mode r false) fs n
     = match map_get (r_templates r) n with
       | Some t => LoadOk t
       | None => LoadErr (RTemplateNotFound n)
       end.
Proof. exact dev_off_clears_tracking. Qed.
Print Assumptions C17_dev_off_clears_tracking.

(* a template registered from a string is the one compiled with the
   prevent_indent flag in force at registration, whatever the flag is later *)
Theorem C17_prevent_indent_at_registration :
  forall (r : registry) (fs : files) (n src : str) (t : template) (b : bool),
  map_get (r_sources r) n = None ->
  compile2 src {| o_prevent_indent := r_prevent_indent r; o_is_partial := false; o_name := Some n |}
    = COk t ->
  snd (register_template_string r n src) = COk tt
  /\ get_or_load_template (set_prevent_indent (fst (register_template_string r n src)) b) fs n
     = LoadOk t.
Proof. exact prevent_indent_at_registration. Qed.
Print Assumptions C17_prevent_indent_at_registration.

(* modelled as is: a TRACKED file is recompiled at every render with the flag
   in force at render time *)
Theorem C17_tracked_file_uses_current_flags :
  forall (r : registry) (fs : files) (n path content : str) (b : bool),
  r_dev r = true -> map_get (r_sources r) n = Some path -> map_get fs path = Some content ->
  get_or_load_template (set_prevent_indent r b) fs n
  = match compile2 content {| o_prevent_indent := b; o_is_partial := false; o_name := Some n |} with
    | COk t => LoadOk t
    | CErr e => LoadErr (RTemplateError e)
    | CPanic _ => LoadPanic
    | CFuel => LoadFuel
    end.
Proof. exact tracked_file_uses_current_flags. Qed.
Print Assumptions C17_tracked_file_uses_current_flags.

(* a cloned registry evolves independently: operations other than clone /
   select change only the selected registry *)
Theorem C17_clone_independent : forall (ops : list op) (w : world),
  forallb (fun o => negb (is_clone_or_sel o)) ops = true ->
  w_sel (exec_ops w ops) = w_sel w
  /\ (w_sel w = false -> w_b (exec_ops w ops) = w_b w)
  /\ (w_sel w = true -> w_a (exec_ops w ops) = w_a w).
Proof. exact clone_independent. Qed.
Print Assumptions C17_clone_independent.

Theorem C17_clone_snapshot : forall (w : world) (ops : list op),
  forallb (fun o => negb (is_clone_or_sel o)) ops = true ->
  (w_sel w = false -> w_b (exec_ops w (OClone :: ops)) = Some (w_a w))
  /\ w_a (exec_ops w (OClone :: OSel true :: ops)) = w_a w.
Proof. exact clone_snapshot. Qed.
Print Assumptions C17_clone_snapshot.
