(* Props/C13_lit.v — property C13, compiler half: arguments come out of
   parse_expression in token order (`parse_expression_order`), and literals
   denote the value written (`literal_roundtrip`, both quote styles).
   Spec/ExprSpec.v: the argument items of a tag in token order (`expr_items`) and
   their accumulation (`positional`, `hash_of`, `bp_of`, `pro_of`, `hash_last`).
   Spec/LitPrint.v: the literal printer `print_json`, the escaping `sq_escape`
   of a single-quoted string body, `int_json` (no floats).
   Statements only; proofs in Proofs/ExprOrder.v and Proofs/LiteralProofs.v. *)
From HB Require Import Tpl.Compile Spec.ExprSpec Spec.LitPrint Proofs.ExprOrder Proofs.LiteralProofs.
Open Scope N_scope.

(* ---------- argument order ---------- *)
(* the accumulator lemma: whatever expr_loop has accumulated, it appends the
   remaining positional parameters in token order, inserts the remaining hash
   pairs left to right, keeps the last block-parameter list and any trailing ~;
   failures (CErr / CPanic / CFuel) are the same on both sides *)
Theorem C13_expr_loop_order : forall src fuel it limit name params hash bp pre pro,
  expr_loop src fuel it limit name params hash bp pre pro
  = do '(items, it') <- expr_items src fuel it limit;
    COk ({| es_name := name;
            es_params := rev params ++ positional items;
            es_hash := hash_of items hash;
            es_bp := bp_of items bp;
            es_pre := pre;
            es_pro := pro_of items pro |}, it').
Proof. exact expr_loop_items. Qed.
Print Assumptions C13_expr_loop_order.

Theorem C13_parse_expression_order : forall src f it limit,
  parse_expression src (S f) it limit
  = match it with
    | [] => CPanic (`"parse_expression peek")
    | t0 :: it0 =>
        let '(pre, it1) := if is_rule R_leading_tilde_to_omit_whitespace t0
                           then (true, it0) else (false, it) in
        do '(name, it2) <- parse_name src f it1;
        do '(items, it') <- expr_items src f it2 limit;
        COk ({| es_name := name;
                es_params := positional items;
                es_hash := hash_of items [];
                es_bp := bp_of items None;
                es_pre := pre;
                es_pro := pro_of items false |}, it')
    end.
Proof. exact parse_expression_order. Qed.
Print Assumptions C13_parse_expression_order.

(* hash arguments are found under their keys; of a duplicated key the last
   occurrence wins; the map stays key-sorted *)
Theorem C13_hash_lookup : forall items h k,
  map_get (hash_of items h) k
  = match hash_last items k with Some v => Some v | None => map_get h k end.
Proof. exact hash_of_lookup. Qed.
Print Assumptions C13_hash_lookup.

Theorem C13_hash_sorted : forall items h,
  keys_sorted h = true -> keys_sorted (hash_of items h) = true.
Proof. exact hash_of_sorted. Qed.
Print Assumptions C13_hash_sorted.

(* `as |a b|` keeps the order of the two names *)
Theorem C13_block_param_two : forall src p1 p2 rest limit n1 n2,
  span_str src p1 (`"bp span") = COk n1 -> span_str src p2 (`"bp span") = COk n2 ->
  N.leb (tk_end p2) limit = true ->
  parse_block_param src (p1 :: p2 :: rest) limit = COk (BP2 n1 n2, rest).
Proof. exact parse_block_param_two. Qed.
Print Assumptions C13_block_param_two.

Theorem C13_block_param_one : forall src p1 rest limit n1,
  span_str src p1 (`"bp span") = COk n1 ->
  match rest with [] => True | p2 :: _ => N.leb (tk_end p2) limit = false end ->
  parse_block_param src (p1 :: rest) limit = COk (BP1 n1, rest).
Proof. exact parse_block_param_one. Qed.
Print Assumptions C13_block_param_one.

(* ---------- literals ---------- *)
(* PARTIAL with respect to C13's literal clause: floats (decimals, exponent
   forms) are excluded by int_json.  Everything else is covered: null, booleans,
   integers over the whole u64 / negative i64 range, strings over ALL scalar
   values (escapes: backslash-quote, backslash-backslash and \u00XX for control
   characters), arrays and objects
   of any depth (object keys strictly sorted, i.e. distinct, and values
   in-range: wf_json). *)
Theorem C13_literal_roundtrip_partial : forall v,
  int_json v = true -> wf_json v = true -> json_from_str (print_json v) = Some v.
Proof. exact literal_roundtrip. Qed.
Print Assumptions C13_literal_roundtrip_partial.

Theorem C13_integer_literals :
  (forall n, n < two64 -> parse_json_number (n_to_dec n) = Some (PosInt n)) /\
  (forall z, (- Z.of_N two63 <= z < 0)%Z -> parse_json_number (z_to_dec z) = Some (NegInt z)).
Proof. exact (conj parse_print_posint parse_print_negint). Qed.
Print Assumptions C13_integer_literals.

(* the single-quote rewrite (replace backslash-apostrophe by apostrophe, then
   double quote by backslash-double-quote) is correct for EVERY content string c:
   the body written as sq_escape c (apostrophe and backslash escaped by a
   backslash, control characters as \u00XX, everything else including the double
   quote literally) denotes c, also when c contains backslashes followed by
   apostrophes *)
Theorem C13_single_quote_literal : forall c,
  json_from_str (single_quote_rewrite (sq_escape c)) = Some (JStr c).
Proof. exact single_quote_literal. Qed.
Print Assumptions C13_single_quote_literal.

(* through parse_param: a literal parameter whose source text is print_json v /
   a single-quoted string whose body is sq_escape c becomes that literal *)
Theorem C13_parse_param_printed_literal_partial : forall src f p0 p lit rest v,
  is_rule R_helper_parameter p0 = true ->
  name_classify (tk_rule p) = NmLiteral ->
  span_str src p (`"param span") = COk (print_json v) ->
  is_rule R_string_literal lit = false ->
  int_json v = true -> wf_json v = true ->
  parse_param src (S f) (p0 :: p :: lit :: rest) = COk (PLit v, skip_upto rest (tk_end p)).
Proof. exact parse_param_printed_literal. Qed.
Print Assumptions C13_parse_param_printed_literal_partial.

Theorem C13_parse_param_single_quoted_literal : forall src f p0 p lit q rest ptxt c,
  is_rule R_helper_parameter p0 = true ->
  name_classify (tk_rule p) = NmLiteral ->
  span_str src p (`"param span") = COk ptxt ->
  is_rule R_string_literal lit = true ->
  is_rule R_string_inner_single_quote q = true ->
  span_str src q (`"inner span") = COk (sq_escape c) ->
  parse_param src (S f) (p0 :: p :: lit :: q :: rest) = COk (PLit (JStr c), skip_upto rest (tk_end p)).
Proof. exact parse_param_single_quoted_literal. Qed.
Print Assumptions C13_parse_param_single_quoted_literal.

(* FALSE for nested strings: both quote styles are honoured only when the literal
   itself is a string.  The grammar accepts single-quoted strings inside array
   and object literals, but their text reaches the JSON parser unrewritten and
   the template is rejected with InvalidParam; with double quotes it compiles. *)
Theorem C13_single_quote_nested_refuted :
  compile2 (`"{{h ['a']}}") default_opts = CErr (TEInvalidParam (`"['a']"))
  /\ compile2 (`"{{h {'k': 1}}}") default_opts = CErr (TEInvalidParam (`"{'k': 1}"))
  /\ exists t, compile2 (`"{{h [""a""]}}") default_opts = COk t.
Proof. exact single_quote_nested_refuted. Qed.
Print Assumptions C13_single_quote_nested_refuted.
