(* Props/C05_wf.v — property C05, compiler half: every template the compiler
   produces is well-formed (Spec/WfTemplate.v: every `Parameter::Subexpression`
   holds a `TemplateElement::Expression`, at every depth), which is the
   hypothesis under which the render model's `Parameter::expand unreachable`
   site is dead.  Statements only; proofs in Proofs/CompileWf.v. *)
From HB Require Import Tpl.Compile Spec.WfTemplate Proofs.CompileWf.

(* the expression parser only builds well-formed parameters, for every fuel
   and every token list (not only those pest can produce) *)
Theorem C05_parse_expression_wf : forall src fuel it limit e it',
  parse_expression src fuel it limit = COk (e, it') ->
  wf_param (es_name e) /\ Forall wf_param (es_params e) /\ wf_hash (es_hash e).
Proof. exact parse_expression_wf. Qed.
Print Assumptions C05_parse_expression_wf.

Theorem C05_parse_name_wf : forall src fuel it p it',
  parse_name src fuel it = COk (p, it') -> wf_param p.
Proof. exact parse_name_wf. Qed.
Print Assumptions C05_parse_name_wf.

Theorem C05_parse_param_wf : forall src fuel it p it',
  parse_param src fuel it = COk (p, it') -> wf_param p.
Proof. exact parse_param_wf. Qed.
Print Assumptions C05_parse_param_wf.

(* one step of the main loop keeps every template / helper / decorator on the
   three stacks well-formed *)
Theorem C05_step_wf : forall src all_tokens opts fuel c pr it c' it',
  step src all_tokens opts fuel c pr it = COk (c', it') ->
  Forall wf_template (c_ts c) /\ Forall wf_helper (c_hs c) /\ Forall wf_deco (c_ds c) ->
  Forall wf_template (c_ts c') /\ Forall wf_helper (c_hs c') /\ Forall wf_deco (c_ds c').
Proof. exact step_wf. Qed.
Print Assumptions C05_step_wf.

Theorem C05_compile_tokens_wf : forall src opts ts t,
  compile_tokens src opts ts = COk t -> wf_template t.
Proof. exact compile_tokens_wf. Qed.
Print Assumptions C05_compile_tokens_wf.

Theorem C05_compile_wf : forall src opts t,
  compile2 src opts = COk t -> wf_template t.
Proof. exact compile_wf. Qed.
Print Assumptions C05_compile_wf.
