(* Props/C08_concat.v — property C08, first sentence: for templates A and B and
   a non-empty literal `bar`, rendering A, bar, B writes
   out(A alone) ++ bar ++ out(B alone), each "alone" being rendered from the
   same initial state on the same data, and fails if either fails alone.
   Statements only; proofs in Proofs/Concat.v.

   Side conditions (all on the statement's own terms):
   * "no decorators in the left operand", semantically: A rendered alone leaves
     s_partials, s_local_helpers and s_modified as they were (without it the
     claim is false: Proofs/Concat.v, concat_needs_no_decorators_ex);
   * no indentation active and the harness probe helper `state` (which prints
     the write flags) not registered: ni_map / flags_ready / ni_element of
     Spec/RenderFrameSpec.v, as for C08_flags_irrelevant;
   * the writer has no fault armed (o_fail_at = None) and the escape toggle is
     off, as in every initial state. *)
From HB Require Import Reg.RegOps Spec.RenderFrameSpec Proofs.Concat.

(* both alone succeed => the combination succeeds and writes, after what the
   state already held, A's text, bar, B's text *)
Theorem C08_concat : forall (reg : registry) (data : json) (ft : ftable),
  ni_map (r_templates reg) -> (forall n, map_get (r_helpers reg) n <> Some HState) ->
  forall f name A bar B mpA mpB mp s0 sA sB,
    flags_ready s0 -> o_fail_at (s_out s0) = None -> s_disable_escape s0 = false -> bar <> [] ->
    forallb ni_element A = true -> forallb ni_element B = true ->
    render_template reg data ft (S (S f)) (MkT name A mpA) s0 = ROk tt sA ->
    s_partials sA = s_partials s0 -> s_local_helpers sA = s_local_helpers s0 -> s_modified sA = s_modified s0 ->
    render_template reg data ft (S (S f)) (MkT name B mpB) s0 = ROk tt sB ->
    exists s' x y,
      render_template reg data ft (S (S f)) (MkT name (A ++ ElRaw bar :: B) mp) s0 = ROk tt s' /\
      out_text (s_out sA) = out_text (s_out s0) ++ x /\
      out_text (s_out sB) = out_text (s_out s0) ++ y /\
      out_text (s_out s') = out_text (s_out s0) ++ x ++ bar ++ y.
Proof. exact concat_ok. Qed.
Print Assumptions C08_concat.

(* from an empty writer (every initial state): out(A|B) = out A ++ bar ++ out B *)
Theorem C08_concat_fresh : forall (reg : registry) (data : json) (ft : ftable),
  ni_map (r_templates reg) -> (forall n, map_get (r_helpers reg) n <> Some HState) ->
  forall f name A bar B mpA mpB mp s0 sA sB,
    flags_ready s0 -> o_fail_at (s_out s0) = None -> o_chunks (s_out s0) = [] ->
    s_disable_escape s0 = false -> bar <> [] ->
    forallb ni_element A = true -> forallb ni_element B = true ->
    render_template reg data ft (S (S f)) (MkT name A mpA) s0 = ROk tt sA ->
    s_partials sA = s_partials s0 -> s_local_helpers sA = s_local_helpers s0 -> s_modified sA = s_modified s0 ->
    render_template reg data ft (S (S f)) (MkT name B mpB) s0 = ROk tt sB ->
    exists s',
      render_template reg data ft (S (S f)) (MkT name (A ++ ElRaw bar :: B) mp) s0 = ROk tt s' /\
      out_text (s_out s') = out_text (s_out sA) ++ bar ++ out_text (s_out sB).
Proof. exact concat_fresh. Qed.
Print Assumptions C08_concat_fresh.

(* if either fails alone the combination fails (contrapositive: the
   combination succeeds only if both succeed alone) *)
Theorem C08_concat_fails : forall (reg : registry) (data : json) (ft : ftable),
  ni_map (r_templates reg) -> (forall n, map_get (r_helpers reg) n <> Some HState) ->
  forall f name A bar B mpA mpB mp s0 s',
    flags_ready s0 -> o_fail_at (s_out s0) = None -> s_disable_escape s0 = false -> bar <> [] ->
    forallb ni_element A = true -> forallb ni_element B = true ->
    (forall sA, render_template reg data ft (S (S f)) (MkT name A mpA) s0 = ROk tt sA ->
                s_partials sA = s_partials s0 /\ s_local_helpers sA = s_local_helpers s0 /\
                s_modified sA = s_modified s0) ->
    render_template reg data ft (S (S f)) (MkT name (A ++ ElRaw bar :: B) mp) s0 = ROk tt s' ->
    exists sA sB,
      render_template reg data ft (S (S f)) (MkT name A mpA) s0 = ROk tt sA /\
      render_template reg data ft (S (S f)) (MkT name B mpB) s0 = ROk tt sB.
Proof. exact concat_inv. Qed.
Print Assumptions C08_concat_fails.

(* repetition: (A ++ bar) k times writes (out A ++ bar) k times *)
Theorem C08_repeat : forall (reg : registry) (data : json) (ft : ftable),
  ni_map (r_templates reg) -> (forall n, map_get (r_helpers reg) n <> Some HState) ->
  forall f name A bar mpA s0 sA,
    flags_ready s0 -> o_fail_at (s_out s0) = None -> s_disable_escape s0 = false -> bar <> [] ->
    forallb ni_element A = true ->
    render_template reg data ft (S (S f)) (MkT name A mpA) s0 = ROk tt sA ->
    s_partials sA = s_partials s0 -> s_local_helpers sA = s_local_helpers s0 -> s_modified sA = s_modified s0 ->
    exists x, out_text (s_out sA) = out_text (s_out s0) ++ x /\
      forall k mp, exists s',
        render_template reg data ft (S (S f)) (MkT name (concat (repeat (A ++ [ElRaw bar]) k)) mp) s0 = ROk tt s' /\
        out_text (s_out s') = out_text (s_out s0) ++ concat (repeat (x ++ bar) k).
Proof. exact repeat_ok. Qed.
Print Assumptions C08_repeat.

Theorem C08_repeat_fresh : forall (reg : registry) (data : json) (ft : ftable),
  ni_map (r_templates reg) -> (forall n, map_get (r_helpers reg) n <> Some HState) ->
  forall f name A bar mpA s0 sA,
    flags_ready s0 -> o_fail_at (s_out s0) = None -> o_chunks (s_out s0) = [] ->
    s_disable_escape s0 = false -> bar <> [] -> forallb ni_element A = true ->
    render_template reg data ft (S (S f)) (MkT name A mpA) s0 = ROk tt sA ->
    s_partials sA = s_partials s0 -> s_local_helpers sA = s_local_helpers s0 -> s_modified sA = s_modified s0 ->
    forall k mp, exists s',
      render_template reg data ft (S (S f)) (MkT name (concat (repeat (A ++ [ElRaw bar]) k)) mp) s0 = ROk tt s' /\
      out_text (s_out s') = concat (repeat (out_text (s_out sA) ++ bar) k).
Proof. exact repeat_fresh. Qed.
Print Assumptions C08_repeat_fresh.

(* the ingredient: what a render appends and how it ends does not depend on
   what the writer, the log and the ghost trace held before, nor on the three
   write flags.  peq po wo pl pt s1 s2 (Proofs/Concat.v): s2 is s1 with po, pl,
   pt placed before its writer chunks, log and trace, wo more writes counted,
   and any flags; simg: same value / same error / same panic site, final
   states again related by peq with the SAME po wo pl pt; Qx = flags_ready and
   no write fault armed *)
Theorem C08_prefix_independent : forall (reg : registry) (data : json) (ft : ftable),
  ni_map (r_templates reg) -> (forall n, map_get (r_helpers reg) n <> Some HState) ->
  forall pl pt po wo fuel t s1 s2,
    peq po wo pl pt s1 s2 -> Qx s1 -> no_indent t ->
    simg pl pt po wo (fun _ => True) (render_template reg data ft fuel t s1) (render_template reg data ft fuel t s2).
Proof. exact prefix_independent. Qed.
Print Assumptions C08_prefix_independent.
