(* Props/C14.v — property C14: name resolution — helper before field, explicit
   paths always data, hooks last; decorator effects apply forward only.
   Statements only; proofs in Proofs/DispatchProofs.v; the vocabulary
   (resolve_helper, call_indent_aware, enter_escape, reset_escape, write_value,
   finish_value, name_as_data, apply_decorator, plain_name, render_step,
   restore_current) is in
   Spec/DispatchSpec.v.

   The equations are one-step unfoldings: the left side runs at fuel `S f`, the
   inner calls on the right at fuel `f`; they hold for every fuel, state,
   template, registry, data. *)
From Coq Require Import List NArith.
From HB Require Import Rt.Render Reg.RegOps Spec.DispatchSpec Proofs.DispatchProofs.
Import ListNotations.

(* ---- calls with arguments and blocks: render_helper ---- *)

(* dispatch_block / dispatch_args: after Helper::try_from_template the helper
   invoked is local ≻ registry ≻ hook (blockHelperMissing for blocks, else
   helperMissing); with none of them the result is HelperNotFound *)
Theorem C14_dispatch_helper : forall reg data ft f ht s,
  render_helper reg data ft (S f) ht s =
  rbind (helper_from_template reg data ft f ht s) (fun h s1 =>
    match find_local_helper s1 (hv_name h) with
    | Some hid => call_indent_aware reg data ft f ht h hid s1
    | None =>
        match find_reg_helper reg (hv_name h) with
        | Some hid => call_indent_aware reg data ft f ht h hid s1
        | None =>
            match find_reg_helper reg (if h_block ht then BLOCK_HELPER_MISSING else HELPER_MISSING) with
            | Some hid => call_indent_aware reg data ft f ht h hid s1
            | None => RErr (mk_err (RHelperNotFound (hv_name h))) s1
            end
        end
    end).
Proof. exact render_helper_table. Qed.
Print Assumptions C14_dispatch_helper.

Theorem C14_dispatch_local : forall reg data ft f ht s h s1 hid,
  helper_from_template reg data ft f ht s = ROk h s1 ->
  find_local_helper s1 (hv_name h) = Some hid ->
  render_helper reg data ft (S f) ht s = call_indent_aware reg data ft f ht h hid s1.
Proof. exact dispatch_local. Qed.
Print Assumptions C14_dispatch_local.

Theorem C14_dispatch_registry : forall reg data ft f ht s h s1 hid,
  helper_from_template reg data ft f ht s = ROk h s1 ->
  find_local_helper s1 (hv_name h) = None ->
  find_reg_helper reg (hv_name h) = Some hid ->
  render_helper reg data ft (S f) ht s = call_indent_aware reg data ft f ht h hid s1.
Proof. exact dispatch_registry. Qed.
Print Assumptions C14_dispatch_registry.

Theorem C14_dispatch_hook : forall reg data ft f ht s h s1 hid,
  helper_from_template reg data ft f ht s = ROk h s1 ->
  find_local_helper s1 (hv_name h) = None ->
  find_reg_helper reg (hv_name h) = None ->
  find_reg_helper reg (if h_block ht then BLOCK_HELPER_MISSING else HELPER_MISSING) = Some hid ->
  render_helper reg data ft (S f) ht s = call_indent_aware reg data ft f ht h hid s1.
Proof. exact dispatch_hook. Qed.
Print Assumptions C14_dispatch_hook.

Theorem C14_dispatch_not_found : forall reg data ft f ht s h s1,
  helper_from_template reg data ft f ht s = ROk h s1 ->
  find_local_helper s1 (hv_name h) = None ->
  find_reg_helper reg (hv_name h) = None ->
  find_reg_helper reg (if h_block ht then BLOCK_HELPER_MISSING else HELPER_MISSING) = None ->
  render_helper reg data ft (S f) ht s = RErr (mk_err (RHelperNotFound (hv_name h))) s1.
Proof. exact dispatch_not_found. Qed.
Print Assumptions C14_dispatch_not_found.

(* the name looked up is the expanded tag name *)
Theorem C14_helper_value_name : forall reg data ft f ht s h s',
  helper_from_template reg data ft (S f) ht s = ROk h s' ->
  exists s1, expand_as_name reg data ft f (h_name ht) s = ROk (hv_name h) s1.
Proof. exact helper_value_name. Qed.
Print Assumptions C14_helper_value_name.

(* local_shadows_registry: with a local helper of that name the helper invoked
   is the local one; `r_helpers reg` does not occur in the result *)
Theorem C14_local_shadows_registry : forall reg data ft f ht s h s1 hid,
  helper_from_template reg data ft f ht s = ROk h s1 ->
  find_local_helper s1 (hv_name h) = Some hid ->
  render_helper reg data ft (S f) ht s = call_indent_aware reg data ft f ht h hid s1 /\
  forall block, resolve_helper reg s1 (hv_name h) block = Some hid.
Proof. exact local_shadows_registry_full. Qed.
Print Assumptions C14_local_shadows_registry.

Theorem C14_resolve_order : forall reg s name block,
  resolve_helper reg s name block =
  match find_local_helper s name, find_reg_helper reg name,
        find_reg_helper reg (if block then BLOCK_HELPER_MISSING else HELPER_MISSING) with
  | Some l, _, _ => Some l
  | None, Some r, _ => Some r
  | None, None, Some k => Some k
  | None, None, None => None
  end.
Proof. exact resolve_helper_table. Qed.
Print Assumptions C14_resolve_order.

(* ---- expressions: render_expression ---- *)

Theorem C14_dispatch_expression : forall reg data ft f ht html s,
  render_expression reg data ft (S f) ht html s =
  reset_escape html
    (if is_name_only ht then
       rbind (expand_as_name reg data ft f (h_name ht) (enter_escape html s)) (fun name s1 =>
         if helper_exists reg s1 name then render_helper reg data ft f ht s1
         else
           rbind (expand_param reg data ft f (h_name ht) s1) (fun cj s2 =>
             if sc_missing (pj_val cj) then
               if r_strict reg then RErr (mk_err (RMissingVariable (pj_rel cj))) s2
               else
                 match find_reg_helper reg HELPER_MISSING with
                 | Some hook =>
                     rbind (helper_from_template reg data ft f ht s2)
                           (fun h s3 => call_helper reg data ft f hook h s3)
                 | None => ROk tt s2
                 end
             else write_value reg ft (pj_value cj) s2))
     else render_helper reg data ft f ht (enter_escape html s)).
Proof. exact render_expression_dispatch. Qed.
Print Assumptions C14_dispatch_expression.

Theorem C14_dispatch_args : forall reg data ft f ht html s,
  is_name_only ht = false ->
  render_expression reg data ft (S f) ht html s =
  reset_escape html (render_helper reg data ft f ht (enter_escape html s)).
Proof. exact dispatch_args. Qed.
Print Assumptions C14_dispatch_args.

(* dispatch_name_only, row 1: a helper of that name exists (local or registry)
   -> the helper is called; the data is not consulted *)
Theorem C14_name_only_helper : forall reg data ft f ht html s name s1,
  is_name_only ht = true ->
  expand_as_name reg data ft f (h_name ht) (enter_escape html s) = ROk name s1 ->
  helper_exists reg s1 name = true ->
  render_expression reg data ft (S f) ht html s =
  reset_escape html (render_helper reg data ft f ht s1).
Proof. exact dispatch_name_only_helper. Qed.
Print Assumptions C14_name_only_helper.

Theorem C14_helper_exists : forall reg s name,
  helper_exists reg s name = true <->
  (exists hid, find_local_helper s name = Some hid) \/
  (exists hid, find_reg_helper reg name = Some hid).
Proof. exact helper_exists_iff. Qed.
Print Assumptions C14_helper_exists.

(* row 2: no helper, the name evaluates to a value: written once, escaped *)
Theorem C14_name_only_value : forall reg data ft f ht html s name s1 cj s2,
  is_name_only ht = true ->
  expand_as_name reg data ft f (h_name ht) (enter_escape html s) = ROk name s1 ->
  helper_exists reg s1 name = false ->
  expand_param reg data ft f (h_name ht) s1 = ROk cj s2 ->
  sc_missing (pj_val cj) = false ->
  render_expression reg data ft (S f) ht html s =
  reset_escape html
    (let '(output, s3) := do_escape reg (json_render ft (pj_value cj)) s2 in
     indent_aware_write output s3).
Proof. exact dispatch_name_only_value. Qed.
Print Assumptions C14_name_only_value.

(* row 3: missing value, strict mode *)
Theorem C14_name_only_missing_strict : forall reg data ft f ht html s name s1 cj s2,
  is_name_only ht = true ->
  expand_as_name reg data ft f (h_name ht) (enter_escape html s) = ROk name s1 ->
  helper_exists reg s1 name = false ->
  expand_param reg data ft f (h_name ht) s1 = ROk cj s2 ->
  sc_missing (pj_val cj) = true ->
  r_strict reg = true ->
  render_expression reg data ft (S f) ht html s =
  RErr (mk_err (RMissingVariable (pj_rel cj))) (if html then set_disable_escape s2 false else s2).
Proof. exact dispatch_name_only_missing_strict. Qed.
Print Assumptions C14_name_only_missing_strict.

(* row 4: missing value, not strict, helperMissing registered: it gets the call *)
Theorem C14_name_only_missing_hook : forall reg data ft f ht html s name s1 cj s2 hook,
  is_name_only ht = true ->
  expand_as_name reg data ft f (h_name ht) (enter_escape html s) = ROk name s1 ->
  helper_exists reg s1 name = false ->
  expand_param reg data ft f (h_name ht) s1 = ROk cj s2 ->
  sc_missing (pj_val cj) = true ->
  r_strict reg = false ->
  find_reg_helper reg HELPER_MISSING = Some hook ->
  render_expression reg data ft (S f) ht html s =
  reset_escape html
    (rbind (helper_from_template reg data ft f ht s2)
           (fun h s3 => call_helper reg data ft f hook h s3)).
Proof. exact dispatch_name_only_missing_hook. Qed.
Print Assumptions C14_name_only_missing_hook.

(* row 5: missing value, not strict, no hook: nothing is written and the state
   is unchanged (apart from the {{{ }}} escape flag reset) *)
Theorem C14_name_only_missing_nothing : forall reg data ft f ht html s name s1 cj s2,
  is_name_only ht = true ->
  expand_as_name reg data ft f (h_name ht) (enter_escape html s) = ROk name s1 ->
  helper_exists reg s1 name = false ->
  expand_param reg data ft f (h_name ht) s1 = ROk cj s2 ->
  sc_missing (pj_val cj) = true ->
  r_strict reg = false ->
  find_reg_helper reg HELPER_MISSING = None ->
  render_expression reg data ft (S f) ht html s =
  ROk tt (if html then set_disable_escape s2 false else s2).
Proof. exact dispatch_name_only_missing_nothing. Qed.
Print Assumptions C14_name_only_missing_nothing.

(* a bare identifier (Parameter::Name) never reads data: helper, else
   strict error / hook / nothing *)
Theorem C14_bare_identifier : forall reg data ft f ht html s n,
  is_name_only ht = true ->
  h_name ht = PName n ->
  render_expression reg data ft (S (S f)) ht html s =
  reset_escape html
    (if helper_exists reg s n then render_helper reg data ft (S f) ht (enter_escape html s)
     else if r_strict reg then RErr (mk_err (RMissingVariable (Some n))) (enter_escape html s)
     else match find_reg_helper reg HELPER_MISSING with
          | Some hook =>
              rbind (helper_from_template reg data ft (S f) ht (enter_escape html s))
                    (fun h s3 => call_helper reg data ft (S f) hook h s3)
          | None => ROk tt (enter_escape html s)
          end).
Proof. exact bare_identifier_dispatch. Qed.
Print Assumptions C14_bare_identifier.

(* ---- explicit paths ---- *)

(* the helper name looked up for a path-named tag is the RAW spelling *)
Theorem C14_path_name_is_raw : forall reg data ft f ht html s p,
  is_name_only ht = true ->
  h_name ht = PPath p ->
  render_expression reg data ft (S (S f)) ht html s =
  reset_escape html
    (if helper_exists reg s (path_raw p)
     then render_helper reg data ft (S f) ht (enter_escape html s)
     else name_as_data reg data ft (S f) ht (enter_escape html s)).
Proof. exact path_name_is_raw. Qed.
Print Assumptions C14_path_name_is_raw.

(* explicit_path_is_data: no helper is called; the path is evaluated through
   expand_param and the value handled by the data rows above *)
Theorem C14_explicit_path_is_data : forall reg data ft f ht html s p,
  is_name_only ht = true ->
  h_name ht = PPath p ->
  helper_exists reg s (path_raw p) = false ->
  render_expression reg data ft (S (S f)) ht html s =
  reset_escape html
    (rbind (expand_param reg data ft (S f) (PPath p) (enter_escape html s))
           (finish_value reg data ft (S f) ht)).
Proof. exact explicit_path_is_data. Qed.
Print Assumptions C14_explicit_path_is_data.

(* with helper names free of '.', '/', '[' (identifiers), a raw spelling
   containing one of them is never a helper *)
Theorem C14_explicit_spelling_no_helper : forall reg s raw,
  (forall k hid, In (k, hid) (r_helpers reg) -> plain_name k = true) ->
  (forall k hid, In (k, hid) (s_local_helpers s) -> plain_name k = true) ->
  plain_name raw = false ->
  helper_exists reg s raw = false.
Proof. exact explicit_spelling_no_helper. Qed.
Print Assumptions C14_explicit_spelling_no_helper.

Theorem C14_explicit_spellings_not_plain : forall n : str,
  plain_name (`"./" ++ n) = false /\
  plain_name (`"this." ++ n) = false /\
  plain_name (`"[" ++ n ++ `"]") = false /\
  plain_name (`"this/" ++ n) = false /\
  plain_name (`"../" ++ n) = false.
Proof. exact explicit_spellings_not_plain. Qed.
Print Assumptions C14_explicit_spellings_not_plain.

Theorem C14_explicit_spelling_default_registry : forall s n raw,
  s_local_helpers s = [] ->
  In raw [`"./" ++ n; `"this." ++ n; `"[" ++ n ++ `"]"; `"this/" ++ n] ->
  helper_exists reg_new s raw = false.
Proof. exact explicit_spelling_default_registry. Qed.
Print Assumptions C14_explicit_spelling_default_registry.

(* Parameter::expand of a path: against the replaced context if a decorator
   set one, else against the render's data *)
Theorem C14_expand_path : forall reg data ft f p s,
  expand_param reg data ft (S f) (PPath p) s =
  match s_modified s with
  | Some c =>
      rbind (evaluate2 c p s) (fun r s1 =>
        ROk {| pj_rel := Some (path_raw p); pj_val := SDerived (sc_json r) |} s1)
  | None =>
      rbind (evaluate2 data p s) (fun r s1 =>
        ROk {| pj_rel := Some (path_raw p); pj_val := r |} s1)
  end.
Proof. exact expand_param_path. Qed.
Print Assumptions C14_expand_path.

(* ---- subexpressions ---- *)

Theorem C14_dispatch_subexpr : forall reg data ft f ht s,
  expand_param reg data ft (S f) (PSub (ElExpr ht)) s =
  rbind (expand_as_name reg data ft f (h_name ht) s) (fun name s1 =>
  rbind (helper_from_template reg data ft f ht s1) (fun h s2 =>
    match find_local_helper s2 name with
    | Some hid => call_helper_for_value reg data ft f hid h s2
    | None =>
        match find_reg_helper reg name with
        | Some hid => call_helper_for_value reg data ft f hid h s2
        | None =>
            match find_reg_helper reg (if h_block ht then BLOCK_HELPER_MISSING else HELPER_MISSING) with
            | Some hid => call_helper_for_value reg data ft f hid h s2
            | None => RErr (mk_err (RHelperNotFound name)) s2
            end
        end
    end)).
Proof. exact dispatch_subexpr_table. Qed.
Print Assumptions C14_dispatch_subexpr.

Theorem C14_subexpr_found : forall reg data ft f ht s name s1 h s2 hid,
  expand_as_name reg data ft f (h_name ht) s = ROk name s1 ->
  helper_from_template reg data ft f ht s1 = ROk h s2 ->
  resolve_helper reg s2 name (h_block ht) = Some hid ->
  expand_param reg data ft (S f) (PSub (ElExpr ht)) s =
  call_helper_for_value reg data ft f hid h s2.
Proof. exact dispatch_subexpr_found. Qed.
Print Assumptions C14_subexpr_found.

Theorem C14_subexpr_not_found : forall reg data ft f ht s name s1 h s2,
  expand_as_name reg data ft f (h_name ht) s = ROk name s1 ->
  helper_from_template reg data ft f ht s1 = ROk h s2 ->
  resolve_helper reg s2 name (h_block ht) = None ->
  expand_param reg data ft (S f) (PSub (ElExpr ht)) s = RErr (mk_err (RHelperNotFound name)) s2.
Proof. exact dispatch_subexpr_not_found. Qed.
Print Assumptions C14_subexpr_not_found.

(* ---- decorators ---- *)

Theorem C14_decorator_dispatch : forall reg data ft f dt s,
  eval_decorator reg data ft (S f) dt s =
  rbind (deco_from_template reg data ft f dt s) (fun d s1 =>
    match map_get (r_decorators reg) (dv_name d) with
    | Some did => apply_decorator did d s1
    | None => RErr (mk_err (RDecoratorNotFound (dv_name d))) s1
    end).
Proof. exact decorator_dispatch. Qed.
Print Assumptions C14_decorator_dispatch.

Theorem C14_decorator_not_found : forall reg data ft f dt s d s1,
  deco_from_template reg data ft f dt s = ROk d s1 ->
  map_get (r_decorators reg) (dv_name d) = None ->
  eval_decorator reg data ft (S f) dt s = RErr (mk_err (RDecoratorNotFound (dv_name d))) s1.
Proof. exact decorator_not_found. Qed.
Print Assumptions C14_decorator_not_found.

Theorem C14_decorator_found : forall reg data ft f dt s d s1 did,
  deco_from_template reg data ft f dt s = ROk d s1 ->
  map_get (r_decorators reg) (dv_name d) = Some did ->
  eval_decorator reg data ft (S f) dt s = apply_decorator did d s1.
Proof. exact decorator_found. Qed.
Print Assumptions C14_decorator_found.

(* a decorator registering a local helper: from then on the name resolves to
   it, for tags, blocks and subexpressions, whatever the registry holds *)
Theorem C14_sethelper_then_local : forall reg d s1 p rest name,
  dv_params d = p :: rest -> pj_value p = JStr name ->
  exists s', apply_decorator DSetHelper d s1 = ROk tt s' /\
    s' = set_local_helpers s1 (map_insert (s_local_helpers s1) name (HLocal (sethelper_tag d name))) /\
    find_local_helper s' name = Some (HLocal (sethelper_tag d name)) /\
    (forall block, resolve_helper reg s' name block = Some (HLocal (sethelper_tag d name))) /\
    helper_exists reg s' name = true.
Proof. exact sethelper_then_local. Qed.
Print Assumptions C14_sethelper_then_local.

(* setctx_forward: after a context-replacing decorator ran, paths (in
   expressions and in helper arguments alike: both go through expand_param)
   evaluate against the replacement, not against `data` *)
Theorem C14_setctx_effect : forall d s1 p rest,
  dv_params d = p :: rest ->
  apply_decorator DSetCtx d s1 = ROk tt (set_modified s1 (Some (pj_value p))) /\
  s_modified (set_modified s1 (Some (pj_value p))) = Some (pj_value p).
Proof. exact setctx_effect. Qed.
Print Assumptions C14_setctx_effect.

Theorem C14_setctx_forward : forall reg data ft f p s c,
  s_modified s = Some c ->
  expand_param reg data ft (S f) (PPath p) s =
  rbind (evaluate2 c p s) (fun r s1 =>
    ROk {| pj_rel := Some (path_raw p); pj_val := SDerived (sc_json r) |} s1).
Proof. exact setctx_forward. Qed.
Print Assumptions C14_setctx_forward.

Theorem C14_inline_effect : forall d s1 p rest name t,
  dv_params d = p :: rest -> pj_value p = JStr name -> dv_tpl d = Some t ->
  apply_decorator DInline d s1 = ROk tt (set_partials s1 (map_insert (s_partials s1) name t)) /\
  map_get (s_partials (set_partials s1 (map_insert (s_partials s1) name t))) name = Some t.
Proof. exact inline_effect. Qed.
Print Assumptions C14_inline_effect.

(* ---- effects apply forward only ---- *)

Theorem C14_fold_idx_app : forall (A : Type) (step : A -> nat -> rstate -> rres unit) l1 l2 i s,
  fold_idx step (l1 ++ l2) i s =
  rbind (fold_idx step l1 i s) (fun _ s' => fold_idx step l2 (i + length l1) s').
Proof. exact @fold_idx_app. Qed.
Print Assumptions C14_fold_idx_app.

(* Template::render processes a prefix of the element list first *)
Theorem C14_render_template_app : forall reg data ft f t s A B,
  t_els t = A ++ B ->
  render_template reg data ft (S f) t s =
  rbind (fold_idx (render_step reg data ft f t) A 0 (set_current s (t_name t)))
        (fun _ s' => rbind (fold_idx (render_step reg data ft f t) B (length A) s')
                           (fun _ s'' => ROk tt (set_current s'' (s_current s)))).
Proof. exact render_template_app. Qed.
Print Assumptions C14_render_template_app.

(* Template::render, one step: the elements run in order under the template's
   own name; on success the caller's template name is put back *)
Theorem C14_render_template_unfold : forall reg data ft f t s,
  render_template reg data ft (S f) t s =
  rbind (fold_idx (render_step reg data ft f t) (t_els t) 0 (set_current s (t_name t)))
        (fun _ s' => ROk tt (set_current s' (s_current s))).
Proof. exact render_template_S. Qed.
Print Assumptions C14_render_template_unfold.

Theorem C14_render_template_restores_current : forall reg data ft f t s u s',
  render_template reg data ft f t s = ROk u s' -> s_current s' = s_current s.
Proof. exact render_template_restores_current. Qed.
Print Assumptions C14_render_template_restores_current.

(* decorator_effects_forward: two templates that agree on the prefix A (same
   name, same positions for A) have the SAME outcome for A — the state after
   A, output chunks included, or the failure inside A — whatever follows A *)
Theorem C14_decorator_effects_forward : forall reg data ft f t1 t2 A R1 R2 s,
  t_els t1 = A ++ R1 -> t_els t2 = A ++ R2 ->
  t_name t1 = t_name t2 ->
  (forall i, i < length A -> nth_error (t_map t1) i = nth_error (t_map t2) i) ->
  exists P : rres unit,
    P = fold_idx (render_step reg data ft f t1) A 0 (set_current s (t_name t1)) /\
    render_template reg data ft (S f) t1 s =
      rbind P (fun _ s' => rbind (fold_idx (render_step reg data ft f t1) R1 (length A) s')
                                 (fun _ s'' => ROk tt (set_current s'' (s_current s)))) /\
    render_template reg data ft (S f) t2 s =
      rbind P (fun _ s' => rbind (fold_idx (render_step reg data ft f t2) R2 (length A) s')
                                 (fun _ s'' => ROk tt (set_current s'' (s_current s)))).
Proof. exact decorator_effects_forward. Qed.
Print Assumptions C14_decorator_effects_forward.

(* the instance of the property text: A ++ [decorator] ++ B against A ++ B *)
Theorem C14_decorator_after_prefix : forall reg data ft f nm A dt B m1 m2 s,
  (forall i, i < length A -> nth_error m1 i = nth_error m2 i) ->
  let P := fold_idx (render_step reg data ft f (MkT nm (A ++ ElDecoExpr dt :: B) m1)) A 0
                    (set_current s nm) in
  render_template reg data ft (S f) (MkT nm (A ++ ElDecoExpr dt :: B) m1) s =
    rbind P (fun _ sA =>
      rbind (render_step reg data ft f (MkT nm (A ++ ElDecoExpr dt :: B) m1) (ElDecoExpr dt)
                         (length A) sA)
            (fun _ sD =>
               rbind (fold_idx (render_step reg data ft f (MkT nm (A ++ ElDecoExpr dt :: B) m1))
                               B (S (length A)) sD)
                     (fun _ sE => ROk tt (set_current sE (s_current s))))) /\
  render_template reg data ft (S f) (MkT nm (A ++ B) m2) s =
    rbind P (fun _ sA => rbind (fold_idx (render_step reg data ft f (MkT nm (A ++ B) m2)) B (length A) sA)
                               (fun _ sE => ROk tt (set_current sE (s_current s)))).
Proof. exact decorator_after_prefix. Qed.
Print Assumptions C14_decorator_after_prefix.
