(* Props/C05.v — property C05: rendering never panics.  Statements only; proofs
   in Proofs/NoPanic.v.  `wf_template` (Spec/WfTemplate.v): every subexpression
   parameter holds an Expression element, at every depth; `compile2 src opts =
   COk t -> wf_template t` is the compile-side companion.  `wf_registry`,
   `wf_state`, `wf_hv`, `wf_dv`, `safe_outcome` are in Spec/WfState.v:
     safe_outcome r := (forall site, r <> RPanic site) /\
                       (forall s', ends_in r s' -> wf_state s'). *)
From Coq Require Import List NArith.
From HB Require Import Rt.Render Spec.RenderAll Spec.WfTemplate Spec.WfState Proofs.NoPanic.

(* (a) path resolution: the slice `relative_path[(depth+1)..]` of
   parse_json_visitor is always in range, for all segment lists and block
   stacks, so navigate / evaluate2 / evaluate never panic at all *)
Theorem C05_parse_json_visitor_no_panic : forall segs blocks,
  parse_json_visitor segs blocks <> ResPanic.
Proof. exact parse_json_visitor_no_panic. Qed.
Print Assumptions C05_parse_json_visitor_no_panic.

Theorem C05_navigate_no_panic : forall data segs blocks, navigate data segs blocks <> NavPanic.
Proof. exact navigate_no_panic. Qed.
Print Assumptions C05_navigate_no_panic.

Theorem C05_evaluate2_no_panic : forall data p s site, evaluate2 data p s <> RPanic site.
Proof. exact evaluate2_no_panic. Qed.
Print Assumptions C05_evaluate2_no_panic.

Theorem C05_evaluate_no_panic : forall data raw s site, evaluate data raw s <> RPanic site.
Proof. exact evaluate_no_panic. Qed.
Print Assumptions C05_evaluate_no_panic.

(* (c) the entry: for every registry whose templates are well formed, every
   data value, every float table, every fuel, every well-formed template and
   every state whose stored templates are well formed, render_template does not
   panic, and the state it ends in (Ok or Err) again stores only well-formed
   templates *)
Theorem C05_no_panic : forall reg data ft fuel t s,
  wf_registry reg -> wf_template t -> wf_state s ->
  (forall site, render_template reg data ft fuel t s <> RPanic site) /\
  (forall s', ends_in (render_template reg data ft fuel t s) s' -> wf_state s').
Proof. exact no_panic. Qed.
Print Assumptions C05_no_panic.

(* from the initial state of a render call *)
Theorem C05_no_panic_top : forall reg data ft fuel t root dev fail_at,
  wf_registry reg -> wf_template t ->
  match dev with Some dm => wf_named dm | None => True end ->
  forall site, render_template reg data ft fuel t (st_init root dev fail_at) <> RPanic site.
Proof. exact no_panic_top. Qed.
Print Assumptions C05_no_panic_top.

(* (b) every function of the mutual fixpoint, at every fuel *)
Theorem C05_no_panic_all : forall reg data ft f, wf_registry reg ->
  (forall t s, wf_template t -> wf_state s -> safe_outcome (render_template reg data ft f t s)) /\
  (forall t s, wf_template t -> wf_state s -> safe_outcome (eval_template reg data ft f t s)) /\
  (forall t s, opt_wf t -> wf_state s -> safe_outcome (opt_render reg data ft f t s)) /\
  (forall e s, wf_element e -> wf_state s -> safe_outcome (render_element reg data ft f e s)) /\
  (forall e s, wf_element e -> wf_state s -> safe_outcome (eval_element reg data ft f e s)) /\
  (forall ht html s, wf_helper ht -> wf_state s ->
     safe_outcome (render_expression reg data ft f ht html s)) /\
  (forall ht s, wf_helper ht -> wf_state s -> safe_outcome (render_helper reg data ft f ht s)) /\
  (forall ht s, wf_helper ht -> wf_state s ->
     safe_outcome (helper_from_template reg data ft f ht s) /\
     forall h s', helper_from_template reg data ft f ht s = ROk h s' -> wf_hv h) /\
  (forall dt s, wf_deco dt -> wf_state s ->
     safe_outcome (deco_from_template reg data ft f dt s) /\
     forall d s', deco_from_template reg data ft f dt s = ROk d s' -> wf_dv d) /\
  (forall p s, wf_param p -> wf_state s -> safe_outcome (expand_as_name reg data ft f p s)) /\
  (forall p s, wf_param p -> wf_state s -> safe_outcome (expand_param reg data ft f p s)) /\
  (forall hid h s, wf_hv h -> wf_state s ->
     safe_outcome (call_helper_for_value reg data ft f hid h s)) /\
  (forall hid h s, wf_hv h -> wf_state s -> safe_outcome (call_helper reg data ft f hid h s)) /\
  (forall dt s, wf_deco dt -> wf_state s -> safe_outcome (eval_decorator reg data ft f dt s)) /\
  (forall dt s, wf_deco dt -> wf_state s -> safe_outcome (render_partial reg data ft f dt s)) /\
  (forall d s, wf_dv d -> wf_state s -> safe_outcome (expand_partial reg data ft f d s)).
Proof. exact no_panic_all. Qed.
Print Assumptions C05_no_panic_all.
