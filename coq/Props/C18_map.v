(* Props/C18_map.v — property C18, compiler half (`mapping_aligned`,
   `mapping_value`): the (line, col) vector of every compiled template has one
   entry per element, the entry being the position of the element's (opening)
   tag.  Spec/AlignedSpec.v holds `aligned`, `aligned_deep` (hereditary, with
   the one exception of the templates insert_inverse_node synthesises around
   else-chain links: MkT None [ElBlock _] [] — those have NO entry, which is why
   a failing chain link reports the chain's opening tag) and the block
   discipline `disciplined_tokens` of a token stream.
   Statements only; proofs in Proofs/MapProofs.v. *)
From HB Require Import Tpl.Compile Spec.AlignedSpec Proofs.MapProofs.
Open Scope N_scope.

(* PARTIAL with respect to C18's `compile2` statement: proved for every token
   stream that is block-disciplined along the run of the loop (a `template` /
   raw_block_text token arrives exactly when a body is awaited; block start,
   else and end tags only when none is; a raw_block_end directly follows its
   raw_block_text).  What is missing: that every token stream pest produces
   from grammar.pest is disciplined (the S1 shape theorem of DESIGN §3.5);
   `disciplined_tokens` is executable, so it can be checked on every run. *)
Theorem C18_mapping_aligned_partial : forall src opts ts t,
  compile_tokens src opts ts = COk t ->
  disciplined_tokens src opts ts = true ->
  aligned_deep t.
Proof. exact mapping_aligned_tokens. Qed.
Print Assumptions C18_mapping_aligned_partial.

Theorem C18_mapping_aligned_top_partial : forall src opts ts t,
  compile_tokens src opts ts = COk t ->
  disciplined_tokens src opts ts = true ->
  length (t_map t) = length (t_els t).
Proof. exact mapping_aligned_tokens_top. Qed.
Print Assumptions C18_mapping_aligned_top_partial.

(* the discipline hypothesis cannot be dropped: on an arbitrary token list the
   loop can return a template with an element that has no mapping entry *)
Theorem C18_mapping_aligned_arbitrary_tokens_refuted :
  exists src opts ts t, compile_tokens src opts ts = COk t /\ ~ aligned t.
Proof. exact mapping_aligned_arbitrary_tokens_refuted. Qed.
Print Assumptions C18_mapping_aligned_arbitrary_tokens_refuted.

(* one step of the loop keeps the invariant (front template aligned or with one
   pending entry, every other template on the stack with exactly one pending
   entry — the one its open block pushed —, everything stored deep-aligned) *)
Theorem C18_step_invariant : forall src all_tokens opts fuel c pr it c' it',
  step src all_tokens opts fuel c pr it = COk (c', it') ->
  tok_ok c pr = true ->
  minv c -> minv c'.
Proof. exact step_minv. Qed.
Print Assumptions C18_step_invariant.

(* mapping_value: the entry pushed with an element is the position of the tag
   token itself; a block start pushes the start tag's position and no element,
   the block end pushes the element and no position — so a block element's
   entry is its opening tag's position.  (Full strength: every step, every
   token list.) *)
Theorem C18_mapping_value : forall src all_tokens opts fuel c pr it c' it',
  step src all_tokens opts fuel c pr it = COk (c', it') ->
  let lc := line_col src (tk_start pr) in
  match tag_classify (tk_rule pr) with
  | KRawText => exists t r s, c_ts c' = t_push t (ElRaw s) lc :: r
  | KRawBlockText => exists r s, c_ts c' = t_push t_empty (ElRaw s) lc :: r
  | KValueExpr html =>
      exists t r h, c_ts c' = t_push t (if html then ElHtml h else ElExpr h) lc :: r
  | KDecoExpr p =>
      exists t r d, c_ts c' = t_push t (if p then ElPartExpr d else ElDecoExpr d) lc :: r
  | KComment _ => exists t r s, c_ts c' = t_push t (ElComment s) lc :: r
  | KBlockStart _ => exists t r, c_ts c' = t_push_map t lc :: r
  | KHelperEnd => exists t r h, c_ts c' = t_push_el t (ElBlock h) :: r
  | KDecoEnd p =>
      exists t r d, c_ts c' = t_push_el t (if p then ElPartBlock d else ElDecoBlock d) :: r
  | _ => True
  end.
Proof. exact mapping_value. Qed.
Print Assumptions C18_mapping_value.

(* the whitespace pest skipped in front of a tag becomes a raw element mapped to
   that tag's position *)
Theorem C18_trailing_string_value : forall src c pr lc c1,
  trailing_string src c pr lc = COk c1 ->
  c_ts c1 = c_ts c \/ exists t r s, c_ts c1 = t_push t (ElRaw s) lc :: r.
Proof. exact trailing_string_value. Qed.
Print Assumptions C18_trailing_string_value.
