(* Props/C06_render_links.v — property C06, render half, for else-chains whose
   links are any of the four block helpers if / unless / with / each, in any
   order and number, head included:
     {{#if a}}A{{else with o as |w|}}B{{else each l}}C{{else}}D{{/if}},
     {{#with o}}A{{else if b}}B{{/with}}.
   Statements only; proofs in Proofs/ChainRender2.v; vocabulary in
   Spec/ChainRenderSpec2.v (lkind, ldata, selects2, pass_cost, chain_cost,
   inv_fuel, with_block2, each_run, sel_run, none_run, link_run, link_evals2,
   link_passes2, link_selects2, builtins_visible2) and Spec/ChainRenderSpec.v
   (chain_block, chain_result, chain_entry, chain_exit, quiet_param(s)).

   SELECTION (selects2 d has_inv).  if: truthy (includeZero honoured); unless:
   not truthy; with: truthy (`is_truthy false`); each: a NON-EMPTY array or
   object — and, when nothing follows the link (no further link, no final
   else), also an empty one: helper_each.rs then iterates it and renders
   nothing (C06_each_empty_last).
   WHAT THE SELECTED LINK RENDERS (sel_run g lk d), always inside the chain's
   frame `chain_result` (entry/exit bookkeeping of render_helper, see
   Props/C06_render.v): if/unless: its body at fuel g; with: its body at fuel g
   in the pushed block `with_block2 bp v`, popped afterwards; each: the
   iteration `each_run (S g) bp body v` (body once per element/entry in the
   pushed block, popped afterwards) — the same term the single each block
   renders (C06_each_single_render).
   NOT SELECTED.  The inverse — the rest of the chain / the final else — is
   rendered; with / each render it directly (render_template), if / unless
   through opt_render: a passed with/each link costs 4 fuel, a passed if/unless
   link 5 (chain_cost), and the final else after a last with/each link runs at
   S g instead of g (inv_fuel).  Without inverse: nothing (state unchanged) —
   except that with / each raise MissingVariable(relative path) in strict mode
   (C06_chain_render_links_nothing). *)
From Coq Require Import List NArith Bool.
From HB Require Import Rt.Render Spec.ChainSpec Spec.ChainRenderSpec Spec.ChainRenderSpec2.
From HB Require Import Proofs.ChainRender Proofs.ChainRender2.
Import ListNotations.

(* (2) after links of any kinds that evaluate and pass, the first selecting
   link renders exactly its body in its frame; rest and fe are arbitrary *)
Theorem C06_chain_render_links :
  forall (reg : registry) (data : json) (ft : ftable) (st : rstate)
         (pre : list link) (ds : list ldata) (lk : link) (d : ldata)
         (rest : list link) (fe : option template) (c : bool) (g : nat),
  builtins_visible2 reg st ->
  Forall2 (link_passes2 reg data ft st) pre ds ->
  link_selects2 reg data ft st lk d ->
  render_element reg data ft (g + 4 + chain_cost ds)
                 (ElBlock (chain_block c (pre ++ lk :: rest) fe)) st
  = chain_result st (length pre) (existsb link_ibw (pre ++ [lk])) (sel_run reg data ft g lk d).
Proof. exact chain_render_links. Qed.
Print Assumptions C06_chain_render_links.

(* the general form: after passed links, a link that evaluates does link_run:
   its own body if it selects (given what follows), else its inverse, else nothing *)
Theorem C06_chain_render_links_general :
  forall (reg : registry) (data : json) (ft : ftable) (st : rstate)
         (pre : list link) (ds : list ldata) (lk : link) (d : ldata)
         (rest : list link) (fe : option template) (c : bool) (g : nat),
  builtins_visible2 reg st ->
  Forall2 (link_passes2 reg data ft st) pre ds ->
  link_evals2 reg data ft st lk d ->
  render_element reg data ft (g + 4 + chain_cost ds)
                 (ElBlock (chain_block c (pre ++ lk :: rest) fe)) st
  = chain_result st (length pre) (existsb link_ibw (pre ++ [lk]))
                 (link_run reg data ft g lk d (nest rest fe)).
Proof. exact chain_render_links_general. Qed.
Print Assumptions C06_chain_render_links_general.

(* no link selects: the final else, at the fuel of the last link's inverse path *)
Theorem C06_chain_render_links_else :
  forall (reg : registry) (data : json) (ft : ftable) (st : rstate)
         (pre : list link) (ds : list ldata) (lk : link) (d : ldata)
         (fe : option template) (c : bool) (g : nat),
  builtins_visible2 reg st ->
  Forall2 (link_passes2 reg data ft st) pre ds ->
  link_evals2 reg data ft st lk d -> selects2 d (is_some fe) = false ->
  render_element reg data ft (g + 4 + chain_cost ds)
                 (ElBlock (chain_block c (pre ++ [lk]) fe)) st
  = chain_result st (length pre) (existsb link_ibw (pre ++ [lk]))
      (match fe with
       | Some t => render_template reg data ft (inv_fuel (ld_kind d) g) t
       | None => none_run reg d
       end).
Proof. exact chain_render_links_else. Qed.
Print Assumptions C06_chain_render_links_else.

(* ... and without final else: nothing, state unchanged; with / each as last
   link: MissingVariable in strict mode *)
Theorem C06_chain_render_links_nothing :
  forall (reg : registry) (data : json) (ft : ftable) (st : rstate)
         (pre : list link) (ds : list ldata) (lk : link) (d : ldata) (c : bool) (g : nat),
  builtins_visible2 reg st ->
  Forall2 (link_passes2 reg data ft st) pre ds ->
  link_evals2 reg data ft st lk d -> selects2 d false = false ->
  render_element reg data ft (g + 4 + chain_cost ds)
                 (ElBlock (chain_block c (pre ++ [lk]) None)) st
  = match ld_kind d with
    | LIf | LUnless => ROk tt st
    | LWith | LEach =>
        if r_strict reg
        then RErr (mk_err (RMissingVariable (pj_rel (ld_p0 d))))
                  (chain_entry st (length pre) (existsb link_ibw (pre ++ [lk])))
        else ROk tt st
    end.
Proof. exact chain_render_links_nothing. Qed.
Print Assumptions C06_chain_render_links_nothing.

(* (3) nothing after the selecting link is evaluated, for all four kinds: any
   other tail and final else (no hypothesis on them) give the same result *)
Theorem C06_no_later_evaluated_links :
  forall (reg : registry) (data : json) (ft : ftable) (st : rstate)
         (pre : list link) (ds : list ldata) (lk : link) (d : ldata)
         (rest rest' : list link) (fe fe' : option template) (c : bool) (g : nat),
  builtins_visible2 reg st ->
  Forall2 (link_passes2 reg data ft st) pre ds ->
  link_selects2 reg data ft st lk d ->
  render_element reg data ft (g + 4 + chain_cost ds)
                 (ElBlock (chain_block c (pre ++ lk :: rest) fe)) st
  = render_element reg data ft (g + 4 + chain_cost ds)
                   (ElBlock (chain_block c (pre ++ lk :: rest') fe')) st.
Proof. exact no_later_evaluated_links. Qed.
Print Assumptions C06_no_later_evaluated_links.

(* the each iteration of a link is the one of the single each block without
   inverse (the block of Props/C07_full.v) *)
Theorem C06_each_single_render :
  forall (reg : registry) (data : json) (ft : ftable) (st : rstate) (p : param) (v : pj)
         (bp : option blockparam) (b : template) (c w : bool) (g : nat),
  builtins_visible2 reg st ->
  quiet_param reg data ft st p v ->
  (exists l, pj_value v = JArr l) \/ (exists m, pj_value v = JObj m) ->
  render_element reg data ft (g + 4)
    (ElBlock (MkH (PName (`"each")) [p] [] bp (Some b) None true c w)) st
  = chain_result st 0 w (each_run reg data ft (S g) bp b v).
Proof. exact each_single_render. Qed.
Print Assumptions C06_each_single_render.

(* an empty array / object iterated (each as last link, nothing after it):
   nothing is rendered, the state is unchanged *)
Theorem C06_each_empty_last : forall reg data ft f bp t value s,
  pj_value value = JArr [] \/ pj_value value = JObj [] ->
  each_run reg data ft f bp t value s = ROk tt s.
Proof. exact each_run_empty. Qed.
Print Assumptions C06_each_empty_last.

(* the single with block, from the general theorem (full version of
   C06_with_render_partial) *)
Theorem C06_with_single_render :
  forall (reg : registry) (data : json) (ft : ftable) (st : rstate) (p : param) (v : pj)
         (bp : option blockparam) (A : template) (fe : option template) (c w : bool) (g : nat),
  builtins_visible2 reg st ->
  quiet_param reg data ft st p v ->
  render_element reg data ft (g + 4)
    (ElBlock (MkH (PName (`"with")) [p] [] bp (Some A) fe true c w)) st
  = if is_truthy false (pj_value v)
    then chain_result st 0 w (fun s =>
           rbind (render_template reg data ft g A (push_block (with_block2 bp v) s))
                 (fun _ s1 => ROk tt (pop_block s1)))
    else match fe with
         | Some B => chain_result st 0 w (render_template reg data ft (S g) B)
         | None =>
             if r_strict reg
             then RErr (mk_err (RMissingVariable (pj_rel v))) (chain_entry st 0 w)
             else ROk tt st
         end.
Proof. exact with_single_render. Qed.
Print Assumptions C06_with_single_render.

(* a tag `<k> p [includeZero=<bool>] [as |..|]` evaluates when p does *)
Theorem C06_link_evals2_simple : forall reg data ft st k p v iz bp b w,
  quiet_param reg data ft st p v ->
  link_evals2 reg data ft st (tag2 k p iz bp, b, w) (data2 k v iz).
Proof. exact link_evals2_simple. Qed.
Print Assumptions C06_link_evals2_simple.

(* rendering nothing inside the chain's frame is rendering nothing *)
Theorem C06_chain_result_nothing : forall st k w,
  chain_result st k w (fun s => ROk tt s) = ROk tt st.
Proof. exact chain_result_nothing. Qed.
Print Assumptions C06_chain_result_nothing.
