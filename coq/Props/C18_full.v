(* Props/C18_full.v — property C18, compiler half, unconditional: the (line, col)
   vector of EVERY template compile2 returns has one entry per element,
   hereditarily (aligned_deep of Spec/AlignedSpec.v: every nested template is
   aligned, except the one-element wrappers insert_inverse_node synthesises
   around else-chain links, which carry no entry).  This removes the
   `disciplined_tokens` hypothesis of Props/C18_map.v: C04_schema puts every
   pest output into wf_tokens (Spec/WfTokens.v), and along wf_tokens the block
   discipline holds at every step.  Proofs in Proofs/AlignedSchema.v (on top of
   Proofs/MapProofs.v, Proofs/CompileStages.v, Proofs/GrammarTemplates.v,
   Proofs/RawBlockAdjacent.v). *)
From Coq Require Import List NArith.
From HB Require Import Peg.Grammar Tpl.Compile Spec.WfTokens Spec.AlignedSpec
  Proofs.CompileNoPanic Proofs.AlignedSchema.
Import ListNotations.
Open Scope N_scope.

Theorem C18_mapping_aligned : forall src opts t,
  compile2 src opts = COk t -> aligned_deep t.
Proof. exact compile2_aligned. Qed.
Print Assumptions C18_mapping_aligned.

Theorem C18_mapping_aligned_top : forall src opts t,
  compile2 src opts = COk t -> length (t_map t) = length (t_els t).
Proof. exact compile2_aligned_top. Qed.
Print Assumptions C18_mapping_aligned_top.

(* the stage theorem behind it: the compile fold over any token stream of wf_tokens *)
Theorem C18_mapping_aligned_wf_tokens : forall src opts ts t,
  wf_tokens (filter not_escape ts) -> escapes_sorted ts -> Forall (span_ok src) ts ->
  compile_tokens src opts ts = COk t -> aligned_deep t.
Proof. exact compile_tokens_aligned_wf. Qed.
Print Assumptions C18_mapping_aligned_wf_tokens.
