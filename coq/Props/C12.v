(* Props/C12.v — property C12: a standalone partial's output is indented line by
   line.  Statements only; proofs in Proofs/IndentLaw.v (writer level),
   Proofs/IndentSim.v (render level), Proofs/IndentRefute.v (counterexamples);
   vocabulary in Spec/IndentSpec.v (indent_chunk(s), indent_lines, clean_chunks,
   no_blank_line, write_all, the fragment fr_*, plain_state, call_state,
   with_indent, written, indent_related, standalone_related, render_with) and
   Spec/WriterSpec.v (with_indent_spec).  Leaf theorems: Props/C12_leaf.v.

   Reading guide.  With an indent string W in force, indent_aware_write reads
   only the flag indent_before_write; the output of a sequence of writes is
   `indent_chunks W values flag` EXACTLY (C12_write_all_indent).  It equals
   `indent_lines W (concat values) flag` iff no value boundary falls between an
   LF and a following LF/CR or between a CR and a following other character
   (C12_chunking_irrelevant; the two C12_chunking_refuted_* show both
   conditions are needed).  At the render level the invariant that makes
   indent_before_write mean "at a line start" is
   `indent_before_write = trailing_newline`; it is preserved by text, value
   expressions and helper blocks, and broken on entry by render_partial in two
   situations, each with a refuting render below:
   (1) a partial tag that is first on its line but not standalone
       (indent_before_write := false at a line start), and
   (2) a standalone partial tag with indentation of its own reached when the
       previous output did not end a line (indent_before_write := true in
       mid-line). *)
From HB Require Import Reg.RegOps Spec.WriterSpec Spec.IndentSpec.
From HB Require Import Proofs.IndentLaw Proofs.IndentSim Proofs.IndentRefute.
Open Scope N_scope.

(* ====================================================================== *)
(* (A) writer level — full strength *)

(* a sequence of indent_aware_write calls with W in force and a non-failing
   writer: exactly indent_chunks, started with the state's indent_before_write;
   no assumption on trailing_newline / content_produced *)
Theorem C12_write_all_indent : forall W cs s,
  o_fail_at (s_out s) = None -> s_indent s = Some W ->
  exists o',
    o_fail_at o' = None /\
    out_text o' = out_text (s_out s) ++ fst (indent_chunks W cs (s_indent_before_write s)) /\
    write_all cs s =
      ROk tt (if all_empty cs then set_out s o'
              else let b' := snd (indent_chunks W cs (s_indent_before_write s)) in
                   set_indent_before_write
                     (set_trailing_newline (set_content_produced (set_out s o') true) b') b').
Proof. exact write_all_indent. Qed.
Print Assumptions C12_write_all_indent.

(* the same calls without indent string write the concatenation *)
Theorem C12_write_all_plain : forall cs s,
  o_fail_at (s_out s) = None -> s_indent s = None ->
  exists s', write_all cs s = ROk tt s' /\
    o_fail_at (s_out s') = None /\ s_indent s' = None /\
    out_text (s_out s') = out_text (s_out s) ++ concat cs.
Proof. exact write_all_plain. Qed.
Print Assumptions C12_write_all_plain.

(* indent_chunks is compositional over concatenation of value sequences *)
Theorem C12_indent_chunks_app : forall W cs1 cs2 b,
  indent_chunks W (cs1 ++ cs2) b =
  (fst (indent_chunks W cs1 b) ++ fst (indent_chunks W cs2 (snd (indent_chunks W cs1 b))),
   snd (indent_chunks W cs2 (snd (indent_chunks W cs1 b)))).
Proof. exact indent_chunks_app. Qed.
Print Assumptions C12_indent_chunks_app.

(* splitting a text into values does not matter at clean boundaries; the final
   flag never depends on the splitting *)
Theorem C12_chunking_irrelevant : forall W cs b,
  clean_chunks cs ->
  indent_chunks W cs b =
  (indent_lines W (concat cs) b,
   match concat cs with [] => b | _ :: _ => last_is is_newline (concat cs) end).
Proof. exact chunking_irrelevant. Qed.
Print Assumptions C12_chunking_irrelevant.

(* in particular for a text without CR and without two consecutive LF *)
Theorem C12_chunking_irrelevant_text : forall W cs b,
  no_blank_line (concat cs) ->
  fst (indent_chunks W cs b) = indent_lines W (concat cs) b.
Proof. exact chunking_irrelevant_text. Qed.
Print Assumptions C12_chunking_irrelevant_text.

(* REFUTED without the boundary condition: "a\n" + "\nb" against "a\n\nb" ... *)
Theorem C12_chunking_refuted_blank_line :
  concat [[97; 10]; [10; 98]] = concat [[97; 10; 10; 98]] /\
  fst (indent_chunks [32] [[97; 10]; [10; 98]] true) = [32; 97; 10; 10; 32; 98] /\
  fst (indent_chunks [32] [[97; 10; 10; 98]] true) = [32; 97; 10; 32; 10; 32; 98].
Proof. exact chunking_matters_blank_line. Qed.
Print Assumptions C12_chunking_refuted_blank_line.

(* ... and "a\r" + "b" against "a\rb" *)
Theorem C12_chunking_refuted_cr :
  concat [[97; 13]; [98]] = concat [[97; 13; 98]] /\
  fst (indent_chunks [32] [[97; 13]; [98]] true) = [32; 97; 13; 32; 98] /\
  fst (indent_chunks [32] [[97; 13; 98]] true) = [32; 97; 13; 98].
Proof. exact chunking_matters_cr. Qed.
Print Assumptions C12_chunking_refuted_cr.

(* ====================================================================== *)
(* (B) render level — PARTIAL: proved for the fragment fr_* of
   Spec/IndentSpec.v (text, comments, value expressions and helper calls with
   subexpression-free arguments, if/unless/each/with/raw blocks and the other
   built-in helpers, inline-partial decorators, and standalone partial calls
   WITHOUT indentation of their own, all nested to any depth; registries whose
   helpers write through indent_aware_write only).  Missing: subexpression
   arguments, nested partial calls that carry their own indentation or are not
   standalone (both are refuted below in the situations named above), failing
   writers. *)

(* the run with W in force against the plain run, same fuel: same outcome; final
   states equal but for writer and indent string; what the plain run wrote is a
   sequence of values cs and the indented run wrote indent_chunks W cs flag *)
Theorem C12_indent_simulation_partial : forall reg data ft W fuel t s o,
  fr_registry reg -> fr_template t -> plain_state s -> o_fail_at o = None ->
  indent_related W s o (render_template reg data ft fuel t s)
                       (render_template reg data ft fuel t (with_indent W s o)).
Proof. exact indent_simulation_template. Qed.
Print Assumptions C12_indent_simulation_partial.

Theorem C12_indent_simulation_element_partial : forall reg data ft W fuel e s o,
  fr_registry reg -> fr_element e -> plain_state s -> o_fail_at o = None ->
  indent_related W s o (render_element reg data ft fuel e s)
                       (render_element reg data ft fuel e (with_indent W s o)).
Proof. exact indent_simulation_element. Qed.
Print Assumptions C12_indent_simulation_element_partial.

(* when the text written has no CR and no blank line, the relation is the
   function indent_lines *)
Theorem C12_indent_simulation_text_partial : forall reg data ft W fuel t s o s' t' text,
  fr_registry reg -> fr_template t -> plain_state s -> o_fail_at o = None ->
  render_template reg data ft fuel t s = ROk tt s' ->
  render_template reg data ft fuel t (with_indent W s o) = ROk tt t' ->
  out_text (s_out s') = out_text (s_out s) ++ text -> no_blank_line text ->
  t' = with_indent W s' (s_out t') /\
  out_text (s_out t') = out_text o ++ indent_lines W text (s_trailing_newline s).
Proof. exact indent_simulation_text. Qed.
Print Assumptions C12_indent_simulation_text_partial.

(* registries built on the built-in helpers are in the fragment *)
Theorem C12_builtin_registry_in_fragment : forall reg,
  r_helpers reg = builtin_helpers -> r_decorators reg = [(`"inline", DInline)] ->
  fr_named (r_templates reg) -> fr_registry reg.
Proof. exact builtin_registry_in_fragment. Qed.
Print Assumptions C12_builtin_registry_in_fragment.

(* ====================================================================== *)
(* (C) the standalone call `W{{> p}}` (dt: indent = Some W, indent_before_write
   set) against the same call without indentation, from the same state at a
   line start: same outcome, final states equal but for the writer, and the
   indented call wrote indent_chunks W cs true where cs is what the other
   wrote — PARTIAL: for p (and everything it reaches) in the fragment *)
Theorem C12_standalone_call_partial : forall reg data ft W fuel dt s,
  fr_registry reg -> fr_deco dt -> d_indent dt = Some W -> d_ibw dt = true ->
  call_state s ->
  standalone_related W s
    (render_element reg data ft fuel (ElPartExpr (d_set_indent dt None)) s)
    (render_element reg data ft fuel (ElPartExpr dt) s).
Proof. exact standalone_partial_expr. Qed.
Print Assumptions C12_standalone_call_partial.

Theorem C12_standalone_block_call_partial : forall reg data ft W fuel dt s,
  fr_registry reg -> fr_deco dt -> d_indent dt = Some W -> d_ibw dt = true ->
  call_state s ->
  standalone_related W s
    (render_element reg data ft fuel (ElPartBlock (d_set_indent dt None)) s)
    (render_element reg data ft fuel (ElPartBlock dt) s).
Proof. exact standalone_partial_block. Qed.
Print Assumptions C12_standalone_block_call_partial.

Theorem C12_standalone_call_text_partial : forall reg data ft W fuel dt s s' t' text,
  fr_registry reg -> fr_deco dt -> d_indent dt = Some W -> d_ibw dt = true ->
  call_state s ->
  render_element reg data ft fuel (ElPartExpr (d_set_indent dt None)) s = ROk tt s' ->
  render_element reg data ft fuel (ElPartExpr dt) s = ROk tt t' ->
  out_text (s_out s') = out_text (s_out s) ++ text -> no_blank_line text ->
  t' = set_out s' (s_out t') /\
  out_text (s_out t') = out_text (s_out s) ++ indent_lines W text true.
Proof. exact standalone_partial_text. Qed.
Print Assumptions C12_standalone_call_text_partial.

(* ====================================================================== *)
(* REFUTED outside the fragment (whole renders on the model; candidates for
   replay on the crate) *)

(* (1) q = "x\n{{> p}} y\n", p = "P": the second line of q loses the indentation *)
Theorem C12_linestart_partial_refuted :
  exists parts plain ind,
    out_of (render_with parts (`"{{> q}}" ++ [10]) JNull) = Some plain /\
    out_of (render_with parts (`"  {{> q}}" ++ [10]) JNull) = Some ind /\
    no_blank_line plain /\
    ind <> indent_lines (`"  ") plain true /\
    plain = `"x" ++ [10] ++ `"P y" ++ [10] /\ ind = `"  x" ++ [10] ++ `"P y" ++ [10].
Proof. exact linestart_partial_refuted. Qed.
Print Assumptions C12_linestart_partial_refuted.

(* (2) q = "{{> a}}\n  {{> p}}\n", a = "abc", p = "P": the outer indentation is
   written again in the middle of the line *)
Theorem C12_nested_after_unterminated_refuted :
  exists parts plain ind,
    out_of (render_with parts (`"{{> q}}" ++ [10]) JNull) = Some plain /\
    out_of (render_with parts (`"    {{> q}}" ++ [10]) JNull) = Some ind /\
    no_blank_line plain /\
    ind <> indent_lines (`"    ") plain true /\
    plain = `"abc  P" /\ ind = `"    abc      P".
Proof. exact nested_after_unterminated_refuted. Qed.
Print Assumptions C12_nested_after_unterminated_refuted.

(* (3) the indented output is not a function of the plain output: a blank line
   carries W or not depending on whether it lies inside one written value *)
Theorem C12_blank_line_not_a_function_refuted :
  exists parts data plain ind1 ind2,
    out_of (render_with parts (`"{{> q1}}" ++ [10]) data) = Some plain /\
    out_of (render_with parts (`"{{> q2}}" ++ [10]) data) = Some plain /\
    out_of (render_with parts (`"  {{> q1}}" ++ [10]) data) = Some ind1 /\
    out_of (render_with parts (`"  {{> q2}}" ++ [10]) data) = Some ind2 /\
    ind1 <> ind2 /\
    ind1 = `"  a" ++ [10] ++ [10] ++ `"  b" ++ [10] /\
    ind2 = `"  a" ++ [10] ++ `"  " ++ [10] ++ `"  b" ++ [10].
Proof. exact blank_line_not_a_function_refuted. Qed.
Print Assumptions C12_blank_line_not_a_function_refuted.
