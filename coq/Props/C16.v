(* Props/C16.v — property C16: all render entry points agree; rendering is
   deterministic and shareable.  Proofs in Proofs/RegProofs.v; render_op,
   render_req, cres_map and exec_ops are in Spec/RegistryMap.v.

   NOT covered by the model (tested by the harness only): thread
   interleavings and HashMap iteration order (finding F12). *)
From Coq Require Import List NArith Bool Permutation.
From HB Require Import Reg.RegOps Spec.RegistryMap Proofs.RegProofs.
Import ListNotations.
Open Scope N_scope.

(* entry points 0-3 (by registered name) all run render_named; only the
   *_to_write ones (2, 3) hand the user's writer failure to it *)
Theorem C16_render_entry_named :
  forall (r : registry) (fs : files) (ft : ftable) (e : N) (target : str) (data : json) (fa : option N),
  e < 4 ->
  render_entry r fs ft e target data fa
  = render_named r fs ft target data (if (e =? 2) || (e =? 3) then fa else None).
Proof. exact render_entry_named. Qed.
Print Assumptions C16_render_entry_named.

(* entry points 4-7 (by template text) all run render_string; writer: 6, 7 *)
Theorem C16_render_entry_string :
  forall (r : registry) (fs : files) (ft : ftable) (e : N) (target : str) (data : json) (fa : option N),
  4 <= e ->
  render_entry r fs ft e target data fa
  = render_string r fs ft target data (if (e =? 6) || (e =? 7) then fa else None).
Proof. exact render_entry_string. Qed.
Print Assumptions C16_render_entry_string.

Theorem C16_entries_named_agree :
  forall (r : registry) (fs : files) (ft : ftable) (e1 e2 : N) (target : str) (data : json),
  e1 < 4 -> e2 < 4 ->
  render_entry r fs ft e1 target data None = render_entry r fs ft e2 target data None.
Proof. exact entries_named_agree. Qed.
Print Assumptions C16_entries_named_agree.

Theorem C16_entries_string_agree :
  forall (r : registry) (fs : files) (ft : ftable) (e1 e2 : N) (target : str) (data : json),
  4 <= e1 -> 4 <= e2 ->
  render_entry r fs ft e1 target data None = render_entry r fs ft e2 target data None.
Proof. exact entries_string_agree. Qed.
Print Assumptions C16_entries_string_agree.

(* for every writer: the pairs agree, and the String-returning entry points
   never see a writer failure *)
Theorem C16_entries_pairs_agree :
  forall (r : registry) (fs : files) (ft : ftable) (target : str) (data : json) (fa : option N),
  render_entry r fs ft 0 target data fa = render_entry r fs ft 1 target data fa
  /\ render_entry r fs ft 0 target data fa = render_entry r fs ft 0 target data None
  /\ render_entry r fs ft 2 target data fa = render_entry r fs ft 3 target data fa
  /\ render_entry r fs ft 4 target data fa = render_entry r fs ft 5 target data fa
  /\ render_entry r fs ft 4 target data fa = render_entry r fs ft 4 target data None
  /\ render_entry r fs ft 6 target data fa = render_entry r fs ft 7 target data fa.
Proof. exact entries_pairs_agree. Qed.
Print Assumptions C16_entries_pairs_agree.

(* rendering does not modify the world (registries, files) *)
Theorem C16_render_pure :
  forall (w : world) (e : N) (target : str) (data : json) (fa : option N),
  step_op w (ORender e target data fa)
  = (w, Some (ObRender (render_entry (cur w) (w_files w) (w_ft w) e target data fa))).
Proof. exact render_pure. Qed.
Print Assumptions C16_render_pure.

(* a batch of renders gives, for each, the result of running it alone *)
Theorem C16_render_batch : forall (w : world) (qs : list render_req),
  run_ops w (map render_op qs) = flat_map (fun q => run_ops w [render_op q]) qs.
Proof. exact render_batch. Qed.
Print Assumptions C16_render_batch.

(* in any order *)
Theorem C16_render_batch_perm : forall (w : world) (qs qs' : list render_req),
  Permutation qs qs' ->
  Permutation (run_ops w (map render_op qs)) (run_ops w (map render_op qs')).
Proof. exact render_batch_perm. Qed.
Print Assumptions C16_render_batch_perm.

(* repeated *)
Theorem C16_render_repeat :
  forall (w : world) (e : N) (t : str) (d : json) (f : option N) (k : nat),
  run_ops w (repeat (ORender e t d f) k)
  = repeat (ObRender (render_entry (cur w) (w_files w) (w_ft w) e t d f)) k.
Proof. exact render_repeat. Qed.
Print Assumptions C16_render_repeat.

(* interleaved with any other operations: the render observes the world as it
   is at that point and leaves every other observation and the state alone *)
Theorem C16_render_interleaved :
  forall (w : world) (l1 l2 : list op) (e : N) (t : str) (d : json) (f : option N),
  let w1 := exec_ops w l1 in
  run_ops w (l1 ++ ORender e t d f :: l2)
  = run_ops w l1 ++ ObRender (render_entry (cur w1) (w_files w1) (w_ft w1) e t d f) :: run_ops w1 l2
  /\ run_ops w (l1 ++ l2) = run_ops w l1 ++ run_ops w1 l2
  /\ exec_ops w (l1 ++ ORender e t d f :: l2) = exec_ops w (l1 ++ l2).
Proof. exact render_interleaved. Qed.
Print Assumptions C16_render_interleaved.

(* from a clone of the registry *)
Theorem C16_render_from_clone :
  forall (w : world) (e : N) (t : str) (d : json) (f : option N),
  run_ops w [OClone; OSel true; ORender e t d f] = run_ops w [ORender e t d f].
Proof. exact render_from_clone. Qed.
Print Assumptions C16_render_from_clone.

(* Across the two groups.  The name given in the compile options is used only
   to name the finished root template: *)
Theorem C16_compile2_name : forall (src : str) (o1 o2 : copts),
  o_prevent_indent o1 = o_prevent_indent o2 -> o_is_partial o1 = o_is_partial o2 ->
  compile2 src o2 = cres_map (fun t => t_set_name t (o_name o2)) (compile2 src o1).
Proof. exact compile2_name. Qed.
Print Assumptions C16_compile2_name.

Theorem C16_compile2_named_vs_anonymous : forall (r : registry) (src n : str),
  compile2 src (reg_opts r (Some n))
  = cres_map (fun t => t_set_name t (Some n)) (compile2 src (reg_opts r None)).
Proof. exact compile2_named_vs_anonymous. Qed.
Print Assumptions C16_compile2_named_vs_anonymous.

(* PARTIAL.  Registering src under n and rendering n (entry 0), and rendering
   src directly (entry 4), run the same renderer with the same fuel on
   templates that differ only in the root name, over registries that differ
   only in the entry of n.  Missing: that render_template then gives the same
   result when neither the template nor the partials it reaches refer to n —
   a statement about the render fixpoint (Rt/Render.v), not about RegOps. *)
Theorem C16_cross_group_partial :
  forall (r : registry) (fs : files) (ft : ftable) (n src : str) (data : json) (fa : option N)
         (t : template),
  r_dev r = false ->
  compile2 src (reg_opts r None) = COk t ->
  let t' := t_set_name t (Some n) in
  let r' := register_template r n t' in
  register_template_string r n src = (r', COk tt)
  /\ t_name t = None
  /\ render_entry r' fs ft 0 n data fa
     = finish_render (render_template r' data ft (render_fuel r' t') t' (st_init (Some n) None None))
  /\ render_entry r fs ft 4 src data fa
     = finish_render (render_template r data ft (render_fuel r t) t (st_init None None None)).
Proof. exact cross_group_partial. Qed.
Print Assumptions C16_cross_group_partial.
