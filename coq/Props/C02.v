(* Props/C02.v — property C02 at the render level: the disable_escape flag and
   the ghost trace `s_esc_trace` of the arguments handed to the escape function
   (most recent first).  Statements only; proofs in Proofs/EscapeFlag.v.
   `every_render_fn reg data ft f P` (Spec/RenderAll.v): P holds of every call,
   at fuel f, of every one of the sixteen functions of the render fixpoint;
   `ok_in r s'` / `ends_in r s'`: r is Ok (resp. Ok or Err) with final state s'. *)
From Coq Require Import List NArith.
From HB Require Import Rt.Render Spec.RenderAll Proofs.EscapeFlag.
Import ListNotations.

(* flag_invariant: across an Ok call of any function of the fixpoint the flag
   never goes from false to true (it stays, or is reset to false by a
   triple-brace expression inside) *)
Theorem C02_flag_invariant : forall reg data ft f,
  every_render_fn reg data ft f
    (fun A s r => forall s', ok_in r s' -> s_disable_escape s' = true -> s_disable_escape s = true).
Proof. exact flag_invariant. Qed.
Print Assumptions C02_flag_invariant.

Theorem C02_flag_stays_false : forall reg data ft f,
  every_render_fn reg data ft f
    (fun A s r => forall s', ok_in r s' -> s_disable_escape s = false -> s_disable_escape s' = false).
Proof. exact flag_stays_false. Qed.
Print Assumptions C02_flag_stays_false.

(* a triple-brace expression ends (Ok or Err) with the flag false whatever it
   was before: the code resets to false, not to the previous value *)
Theorem C02_html_resets_flag : forall reg data ft f ht s s',
  ends_in (render_expression reg data ft f ht true s) s' -> s_disable_escape s' = false.
Proof. exact html_resets_flag. Qed.
Print Assumptions C02_html_resets_flag.

(* C02_after_triple: so after an HtmlExpression element the following
   double-brace expressions escape again (C02_once applies: its flag premise
   holds) *)
Theorem C02_after_triple : forall reg data ft f ht s s',
  ends_in (render_element reg data ft f (ElHtml ht) s) s' -> s_disable_escape s' = false.
Proof. exact after_triple. Qed.
Print Assumptions C02_after_triple.

(* REFUTED: "every function other than render_expression with html = true
   preserves the flag exactly".  Because of the reset above, a call entered
   with the flag true (inside a subexpression's private run) comes back with
   false as soon as it contains a triple-brace expression. *)
Theorem C02_flag_exact_preservation_refuted :
  (exists reg data ft f e s s',
      render_element reg data ft f e s = ROk tt s' /\
      s_disable_escape s = true /\ s_disable_escape s' = false) /\
  (exists reg data ft f hid h s s',
      call_helper reg data ft f hid h s = ROk tt s' /\
      s_disable_escape s = true /\ s_disable_escape s' = false).
Proof. exact flag_exact_preservation_refuted. Qed.
Print Assumptions C02_flag_exact_preservation_refuted.

(* C02_once.  A name-only {{expr}} (html = false) whose name is not a helper
   and whose value is present, from a state in which escaping is enabled: the
   escape function is called exactly once, on json_render of the value; what
   is written (through indent_aware_write) is its result.  The premises are
   about the two sub-evaluations the expression performs first. *)
Theorem C02_once : forall reg data ft f ht s name s1 cj s2,
  is_name_only ht = true ->
  expand_as_name reg data ft f (h_name ht) s = ROk name s1 ->
  helper_exists reg s1 name = false ->
  expand_param reg data ft f (h_name ht) s1 = ROk cj s2 ->
  sc_missing (pj_val cj) = false ->
  s_disable_escape s2 = false ->
  let txt := json_render ft (pj_value cj) in
  let s3 := snd (do_escape reg txt s2) in
  render_expression reg data ft (S f) ht false s = indent_aware_write (r_escape reg txt) s3 /\
  s_esc_trace s3 = txt :: s_esc_trace s2 /\
  forall s', ends_in (render_expression reg data ft (S f) ht false s) s' ->
             s_esc_trace s' = txt :: s_esc_trace s2 /\ s_disable_escape s' = false.
Proof. exact once_escaped. Qed.
Print Assumptions C02_once.

(* the same for a data path, where the sub-evaluations leave the state alone;
   without partial indentation the output text grows by exactly esc(txt) *)
Theorem C02_once_path : forall reg data ft f ht pa s cj u s',
  is_name_only ht = true -> h_name ht = PPath pa ->
  helper_exists reg s (path_raw pa) = false ->
  expand_param reg data ft (S f) (PPath pa) s = ROk cj s ->
  sc_missing (pj_val cj) = false ->
  s_disable_escape s = false ->
  s_indent s = None ->
  render_expression reg data ft (S (S f)) ht false s = ROk u s' ->
  out_text (s_out s') = out_text (s_out s) ++ r_escape reg (json_render ft (pj_value cj)) /\
  s_esc_trace s' = json_render ft (pj_value cj) :: s_esc_trace s /\
  s_disable_escape s' = false.
Proof. exact once_escaped_path_text. Qed.
Print Assumptions C02_once_path.

(* a value-returning helper used as {{helper args}} *)
Theorem C02_once_helper : forall reg data ft f hid h s result s1,
  has_call_inner hid = true ->
  call_inner reg hid h s = ROk result s1 ->
  r_strict reg && sc_missing result = false ->
  s_disable_escape s = false ->
  let txt := json_render ft (sc_json result) in
  let s3 := snd (do_escape reg txt s1) in
  call_helper reg data ft (S f) hid h s = indent_aware_write (r_escape reg txt) s3 /\
  forall s', ends_in (call_helper reg data ft (S f) hid h s) s' ->
             s_esc_trace s' = txt :: s_esc_trace s.
Proof. exact once_escaped_helper. Qed.
Print Assumptions C02_once_helper.

(* triple brace: the value is written as is, the escape function sees nothing *)
Theorem C02_never_html : forall reg data ft f ht s name s1 cj s2,
  is_name_only ht = true ->
  expand_as_name reg data ft f (h_name ht) (set_disable_escape s true) = ROk name s1 ->
  helper_exists reg s1 name = false ->
  expand_param reg data ft f (h_name ht) s1 = ROk cj s2 ->
  sc_missing (pj_val cj) = false ->
  s_disable_escape s2 = true ->
  let txt := json_render ft (pj_value cj) in
  render_expression reg data ft (S f) ht true s =
    match indent_aware_write txt s2 with
    | ROk u s' => ROk u (set_disable_escape s' false)
    | RErr e s' => RErr e (set_disable_escape s' false)
    | x => x
    end /\
  forall s', ends_in (render_expression reg data ft (S f) ht true s) s' ->
             s_esc_trace s' = s_esc_trace s2.
Proof. exact never_escaped_html. Qed.
Print Assumptions C02_never_html.

(* template literal text *)
Theorem C02_never_raw : forall reg data ft f v s,
  render_element reg data ft (S f) (ElRaw v) s = indent_aware_write v s /\
  forall s', ends_in (render_element reg data ft (S f) (ElRaw v) s) s' ->
             s_esc_trace s' = s_esc_trace s.
Proof. exact raw_never_escaped. Qed.
Print Assumptions C02_never_raw.

(* values handed to helpers: path / literal / name parameters *)
Theorem C02_never_param : forall reg data ft f p s s',
  (forall e, p <> PSub e) ->
  ends_in (expand_param reg data ft f p s) s' -> s' = s.
Proof. exact param_never_escaped. Qed.
Print Assumptions C02_never_param.

(* subexpression results of value-returning helpers *)
Theorem C02_never_subexpr_value : forall reg data ft f hid h s r s1,
  call_inner reg hid h s = ROk r s1 ->
  call_helper_for_value reg data ft (S f) hid h s = ROk {| pj_rel := None; pj_val := r |} s1 /\
  s_esc_trace s1 = s_esc_trace s /\ s_disable_escape s1 = s_disable_escape s.
Proof. exact subexpr_value_never_escaped. Qed.
Print Assumptions C02_never_subexpr_value.

(* with the flag set the escape step is the identity and records nothing *)
Theorem C02_do_escape_disabled : forall reg content s,
  s_disable_escape s = true -> do_escape reg content s = (content, s).
Proof. exact do_escape_disabled. Qed.
Print Assumptions C02_do_escape_disabled.

(* (c) the trace is append-only across every call of every function *)
Theorem C02_trace_grows : forall reg data ft f,
  every_render_fn reg data ft f
    (fun A s r => forall s', ends_in r s' -> exists l, s_esc_trace s' = l ++ s_esc_trace s).
Proof. exact trace_grows. Qed.
Print Assumptions C02_trace_grows.
