(* Props/C09.v — property C09: a partial renders as its template applied to the
   designated context.  Statements only; proofs in Proofs/PartialSpec.v; the
   specification pieces (resolve_partial, depth_step, partial_context,
   partial_inner, partial_cleanup, is_self) are in Spec/RenderFrameSpec.v and
   run_block_decorators, one_block, assoc_last, base_fields in
   Proofs/PartialSpec.v (each a few lines).  Since the repair of F3/F4 the
   former refutations are replaced by the positive theorems
   C09_partial_block_bound / _every_use / _all_uses / _enter / _closure and
   C09_self_include_element / C09_self_include_after_elements. *)
From HB Require Import Reg.RegOps Spec.RenderFrameSpec Proofs.PartialSpec.

(* partial_spec: when the call's inline decorators ran (state s1), the name is
   not the current template and the partial is found, expand_partial is:
   compute the context (first parameter or current context, merged with the
   hash), render the partial's template from the state whose block stack is
   the single block holding that value (partial-block stack pushed iff the
   call has a block, indent string set), then put back blocks, current name,
   indent and partial-block stack *)
Theorem C09_partial_spec : forall (reg : registry) (data : json) (ft : ftable)
    (f : nat) (d : deco_v) (s s1 : rstate) (partial : template),
  run_block_decorators reg data ft f d s = ROk tt s1 ->
  is_self d s1 = false ->
  resolve_partial reg d s1 = Some partial ->
  expand_partial reg data ft (S f) d s =
  rbind (partial_context data d (depth_step d s1)) (fun merged s3 =>
    match render_template reg data ft f partial (partial_inner d merged s3) with
    | ROk u s7 => ROk u (partial_cleanup d s1 s7)
    | RErr e s7 => RErr e (partial_cleanup d s1 s7)
    | RPanic p => RPanic p
    | RFuel => RFuel
    end).
Proof. exact partial_spec. Qed.
Print Assumptions C09_partial_spec.

Theorem C09_partial_ok_inv : forall (reg : registry) (data : json) (ft : ftable)
    (f : nat) (d : deco_v) (s s' : rstate),
  expand_partial reg data ft (S f) d s = ROk tt s' ->
  exists s1 partial merged s7,
    run_block_decorators reg data ft f d s = ROk tt s1 /\
    is_self d s1 = false /\
    resolve_partial reg d s1 = Some partial /\
    partial_context data d (depth_step d s1) = ROk merged (depth_step d s1) /\
    render_template reg data ft f partial (partial_inner d merged (depth_step d s1)) = ROk tt s7 /\
    s' = partial_cleanup d s1 s7.
Proof. exact partial_ok_inv. Qed.
Print Assumptions C09_partial_ok_inv.

(* what is restored (s1 = the state after the call's inline decorators ran) *)
Theorem C09_partial_restores : forall (reg : registry) (data : json) (ft : ftable)
    (f : nat) (d : deco_v) (s s' : rstate),
  expand_partial reg data ft (S f) d s = ROk tt s' ->
  exists s1, run_block_decorators reg data ft f d s = ROk tt s1 /\
    s_blocks s' = s_blocks s1 /\ s_indent s' = s_indent s1 /\
    s_current s' = s_current s1 /\ s_pb_stack s' = s_pb_stack s1 /\
    s_pb_depth s' = s_pb_depth s1.
Proof. exact partial_restores. Qed.
Print Assumptions C09_partial_restores.

(* and with respect to the state before the call *)
Theorem C09_partial_restored : forall (reg : registry) (data : json) (ft : ftable)
    (f : nat) (d : deco_v) (s s' : rstate),
  expand_partial reg data ft (S f) d s = ROk tt s' -> restored s s'.
Proof. exact partial_restored. Qed.
Print Assumptions C09_partial_restored.

(* hash arguments are for the partial only: afterwards the block stack is the
   caller's own again *)
Theorem C09_hash_invisible_after : forall (reg : registry) (data : json) (ft : ftable)
    (f : nat) (d : deco_v) (s s' : rstate),
  expand_partial reg data ft (S f) d s = ROk tt s' -> s_blocks s' = s_blocks s.
Proof. exact hash_invisible_after. Qed.
Print Assumptions C09_hash_invisible_after.

(* inside the partial the block stack is one block holding the merged value:
   no @-variable of any level, no block parameter, and every path (whatever
   its ../ prefix) is resolved inside the merged value, or from the root data
   when it starts with @root *)
Theorem C09_caller_scopes_hidden : forall (d : deco_v) (merged : json) (s : rstate),
  (forall level name, get_local_var (s_blocks (partial_inner d merged s)) level name = None) /\
  (forall p, get_in_block_params (s_blocks (partial_inner d merged s)) p = None) /\
  (forall segs, parse_json_visitor segs (s_blocks (partial_inner d merged s)) =
                match visitor_scan [] segs 0 with
                | (O, _, true) => ResAbsolute (merge_json_path segs)
                | _ => ResValue (merge_json_path segs) merged
                end).
Proof. exact caller_scopes_hidden. Qed.
Print Assumptions C09_caller_scopes_hidden.

(* in particular ../x inside a partial is x of the merged value *)
Theorem C09_parent_path_inside : forall (v data : json) (segs : list pathseg),
  navigate data (SegRuled R_path_up :: segs) [one_block v] =
  match walk (Some v) (merge_json_path segs) with
  | NavSome v' => NavOk (SDerived v')
  | NavNone => NavOk SMissing
  | NavBadIndex s => NavErr (RInvalidJsonIndex s)
  end.
Proof. exact one_block_up. Qed.
Print Assumptions C09_parent_path_inside.

(* @root paths do not depend on the block stack *)
Theorem C09_root_visible : forall (data : json) (segs : list pathseg) (blocks1 blocks2 : list block),
  navigate data (SegRuled R_path_root :: segs) blocks1 = navigate data (SegRuled R_path_root :: segs) blocks2.
Proof. exact root_visible. Qed.
Print Assumptions C09_root_visible.

(* resolution order: inline partial / @partial-block, else dev-mode template,
   else registered template, else the call's own block *)
Theorem C09_resolve_inline : forall (reg : registry) (d : deco_v) (s : rstate) (p : template),
  get_partial s (dv_name d) = Some p -> resolve_partial reg d s = Some p.
Proof. exact resolve_inline. Qed.
Print Assumptions C09_resolve_inline.

Theorem C09_resolve_dev : forall (reg : registry) (d : deco_v) (s : rstate) dm (p : template),
  get_partial s (dv_name d) = None -> s_dev s = Some dm -> map_get dm (dv_name d) = Some p ->
  resolve_partial reg d s = Some p.
Proof. exact resolve_dev. Qed.
Print Assumptions C09_resolve_dev.

Theorem C09_resolve_registry : forall (reg : registry) (d : deco_v) (s : rstate) (p : template),
  get_partial s (dv_name d) = None ->
  match s_dev s with Some dm => map_get dm (dv_name d) | None => None end = None ->
  map_get (r_templates reg) (dv_name d) = Some p ->
  resolve_partial reg d s = Some p.
Proof. exact resolve_registry. Qed.
Print Assumptions C09_resolve_registry.

Theorem C09_resolve_block : forall (reg : registry) (d : deco_v) (s : rstate),
  get_partial s (dv_name d) = None ->
  match s_dev s with Some dm => map_get dm (dv_name d) | None => None end = None ->
  map_get (r_templates reg) (dv_name d) = None ->
  resolve_partial reg d s = dv_tpl d.
Proof. exact resolve_block. Qed.
Print Assumptions C09_resolve_block.

(* an inline partial is found from its definition onward and shadows a
   registered template of the same name *)
Theorem C09_inline_defined : forall (reg : registry) (s : rstate) (name : str) (t : template) (d : deco_v),
  str_eqb name PARTIAL_BLOCK = false -> dv_name d = name ->
  resolve_partial reg d (set_partials s (map_insert (s_partials s) name t)) = Some t.
Proof. exact inline_defined. Qed.
Print Assumptions C09_inline_defined.

Theorem C09_inline_decorator_defines : forall (reg : registry) (data : json) (ft : ftable)
    (f : nat) (dt : deco_t) (s s1 : rstate) (d : deco_v) (p : pj) (ps : list pj) (name : str) (t : template),
  deco_from_template reg data ft f dt s = ROk d s1 ->
  map_get (r_decorators reg) (dv_name d) = Some DInline ->
  dv_params d = p :: ps -> pj_value p = JStr name -> dv_tpl d = Some t ->
  eval_decorator reg data ft (S f) dt s = ROk tt (set_partials s1 (map_insert (s_partials s1) name t)).
Proof. exact inline_decorator_defines. Qed.
Print Assumptions C09_inline_decorator_defines.

(* a name computed by a subexpression is the rendering of its value *)
Theorem C09_dynamic_name : forall (reg : registry) (data : json) (ft : ftable) (f : nat) (e : element) (s : rstate),
  expand_as_name reg data ft (S f) (PSub e) s =
  rbind (expand_param reg data ft f (PSub e) s) (fun v s1 => ROk (render_json ft (pj_value v)) s1).
Proof. exact dynamic_name. Qed.
Print Assumptions C09_dynamic_name.

(* merge_json: hash keys override (the last binding of a key wins), the other
   fields of the base are kept; base_fields is what the base contributes *)
Theorem C09_merge_json_nil : forall base, merge_json base [] = base.
Proof. exact merge_json_nil. Qed.
Print Assumptions C09_merge_json_nil.

Theorem C09_merge_json_fields : forall base add,
  add <> [] ->
  exists m, merge_json base add = JObj m /\
            forall k, map_get m k = match assoc_last add k with
                                    | Some v => Some v
                                    | None => map_get (base_fields base) k
                                    end.
Proof. exact merge_json_fields. Qed.
Print Assumptions C09_merge_json_fields.

Theorem C09_merge_json_override : forall base add k v,
  assoc_last add k = Some v ->
  exists m, merge_json base add = JObj m /\ map_get m k = Some v.
Proof. exact merge_json_override. Qed.
Print Assumptions C09_merge_json_override.

Theorem C09_merge_json_keep : forall bm add k,
  add <> [] -> assoc_last add k = None ->
  exists m, merge_json (JObj bm) add = JObj m /\ map_get m k = map_get bm k.
Proof. exact merge_json_keep. Qed.
Print Assumptions C09_merge_json_keep.

Theorem C09_merge_json_scalar : forall base add k,
  add <> [] -> (base = JNull \/ (exists b, base = JBool b) \/ (exists n, base = JNum n)) ->
  exists m, merge_json base add = JObj m /\ map_get m k = assoc_last add k.
Proof. exact merge_json_scalar. Qed.
Print Assumptions C09_merge_json_scalar.

(* directly including the template being rendered *)
Theorem C09_self_include : forall (reg : registry) (data : json) (ft : ftable)
    (f : nat) (d : deco_v) (s s1 : rstate),
  run_block_decorators reg data ft f d s = ROk tt s1 ->
  s_current s1 = Some (dv_name d) ->
  expand_partial reg data ft (S f) d s = RErr (mk_err RCannotIncludeSelf) s1.
Proof. exact self_include. Qed.
Print Assumptions C09_self_include.

(* ... in whatever state of the template's body the partial element is
   reached: after any finished elements (blocks included) the current name is
   still the template's, so {{> n}} inside template n is always refused *)
Theorem C09_self_include_element : forall (reg : registry) (data : json) (ft : ftable)
    (f : nat) (dt : deco_t) (s : rstate) (d : deco_v) (s2 : rstate),
  deco_from_template reg data ft (S f) dt s = ROk d s2 ->
  s_current s = Some (dv_name d) -> dv_tpl d = None ->
  exists s3, render_element reg data ft (S (S (S f))) (ElPartExpr dt) s = RErr (mk_err RCannotIncludeSelf) s3.
Proof. exact self_include_element. Qed.
Print Assumptions C09_self_include_element.

Theorem C09_self_include_after_elements : forall (reg : registry) (data : json) (ft : ftable)
    (f f' : nat) (g : nat -> rerror -> rerror) (A : list element) (i : nat) (s0 s1 : rstate) (n : str)
    (dt : deco_t) (d : deco_v) (s2 : rstate),
  fold_idx (fun e idx s' => rmap_err (render_element reg data ft f' e s') (g idx)) A i s0 = ROk tt s1 ->
  s_current s0 = Some n ->
  deco_from_template reg data ft (S f) dt s1 = ROk d s2 -> dv_name d = n -> dv_tpl d = None ->
  exists s3, render_element reg data ft (S (S (S f))) (ElPartExpr dt) s1 = RErr (mk_err RCannotIncludeSelf) s3.
Proof. exact self_include_after_elements. Qed.
Print Assumptions C09_self_include_after_elements.

(* an unknown partial without a block *)
Theorem C09_not_found : forall (reg : registry) (data : json) (ft : ftable)
    (f : nat) (d : deco_v) (s s1 : rstate),
  run_block_decorators reg data ft f d s = ROk tt s1 ->
  is_self d s1 = false ->
  resolve_partial reg d s1 = None ->
  expand_partial reg data ft (S f) d s = RErr (mk_err (RPartialNotFound (dv_name d))) s1.
Proof. exact not_found. Qed.
Print Assumptions C09_not_found.

(* {{> @partial-block}}.  Inside a partial called with a block pb the binding
   is pb, recorded with the depth current at the call *)
Theorem C09_partial_block_bound : forall (d : deco_v) (merged : json) (s : rstate) (pb : template),
  dv_tpl d = Some pb ->
  current_pb (partial_inner d merged s) = Some (pb, s_pb_depth s) /\
  get_partial (partial_inner d merged s) PARTIAL_BLOCK = Some pb.
Proof. exact partial_block_bound. Qed.
Print Assumptions C09_partial_block_bound.

(* every use sees it: after any prefix A of a run of elements the
   @partial-block binding is the one the run started with *)
Theorem C09_partial_block_every_use : forall reg data ft f (g : nat -> rerror -> rerror) A B i s0 s',
  fold_idx (fun e idx s' => rmap_err (render_element reg data ft f e s') (g idx)) (A ++ B) i s0 = ROk tt s' ->
  exists s1,
    fold_idx (fun e idx s' => rmap_err (render_element reg data ft f e s') (g idx)) A i s0 = ROk tt s1 /\
    fold_idx (fun e idx s' => rmap_err (render_element reg data ft f e s') (g idx)) B (i + List.length A)%nat s1
    = ROk tt s' /\
    restored s0 s1 /\
    get_partial s1 PARTIAL_BLOCK = get_partial s0 PARTIAL_BLOCK.
Proof. exact partial_block_every_use. Qed.
Print Assumptions C09_partial_block_every_use.

(* any number of times: inside a partial called with a block pb, before every
   top-level element of the partial's body @partial-block is pb *)
Theorem C09_partial_block_all_uses : forall reg data ft f d merged s1 pb partial A B s',
  dv_tpl d = Some pb ->
  t_els partial = A ++ B ->
  render_template reg data ft (S f) partial (partial_inner d merged s1) = ROk tt s' ->
  exists sA,
    fold_idx (fun e idx s' => rmap_err (render_element reg data ft f e s') (attach_render partial idx)) A 0%nat
             (set_current (partial_inner d merged s1) (t_name partial)) = ROk tt sA /\
    current_pb sA = Some (pb, s_pb_depth s1) /\
    get_partial sA PARTIAL_BLOCK = Some pb.
Proof. exact partial_block_all_uses. Qed.
Print Assumptions C09_partial_block_all_uses.

(* entering {{> @partial-block}} when the binding is (pb, d0): pb is rendered,
   with the depth set to d0 *)
Theorem C09_partial_block_enter : forall (reg : registry) (d : deco_v) (s : rstate) (pb : template) (d0 : Z),
  dv_name d = PARTIAL_BLOCK -> current_pb s = Some (pb, d0) ->
  resolve_partial reg d s = Some pb /\ depth_step d s = set_pb_depth s d0.
Proof. exact partial_block_enter. Qed.
Print Assumptions C09_partial_block_enter.

(* which entry a depth denotes depends only on the entries below it *)
Theorem C09_current_pb_below : forall (sA sB : rstate) (top : list (template * Z)),
  s_pb_depth sB = s_pb_depth sA -> s_pb_stack sB = top ++ s_pb_stack sA ->
  (s_pb_depth sA <= Z.of_nat (List.length (s_pb_stack sA)))%Z ->
  current_pb sB = current_pb sA.
Proof. exact current_pb_below. Qed.
Print Assumptions C09_current_pb_below.

(* closure semantics: a block body pb passed at a call site sc (recorded with
   sc's depth dc) and used later through {{> @partial-block}}, from any state
   s1 whose stack extends sc's and whose binding is (pb, dc), is rendered with
   @partial-block bound exactly as at the call site *)
Theorem C09_partial_block_closure : forall (reg : registry) (d : deco_v) (s1 : rstate) (pb : template)
    (dc : Z) (top : list (template * Z)) (sc : rstate),
  dv_name d = PARTIAL_BLOCK -> current_pb s1 = Some (pb, dc) ->
  s_pb_stack s1 = top ++ s_pb_stack sc -> s_pb_depth sc = dc ->
  (dc <= Z.of_nat (List.length (s_pb_stack sc)))%Z ->
  resolve_partial reg d s1 = Some pb /\
  current_pb (depth_step d s1) = current_pb sc.
Proof. exact partial_block_closure. Qed.
Print Assumptions C09_partial_block_closure.

(* the side condition `depth <= stack height` is part of an invariant (pb_ok,
   Proofs/PartialSpec.v) that holds initially and is kept by every step that
   touches the two fields and by every finished function *)
Theorem C09_pb_ok_invariant :
  (forall root dev fa, pb_ok (st_init root dev fa)) /\
  (forall s s', restored s s' -> pb_ok s -> pb_ok s') /\
  (forall d s, pb_ok s -> pb_ok (depth_step d s)) /\
  (forall d merged s, pb_ok s -> pb_ok (partial_inner d merged s)) /\
  (forall s, pb_ok s -> (s_pb_depth s <= Z.of_nat (List.length (s_pb_stack s)))%Z).
Proof. exact pb_ok_invariant. Qed.
Print Assumptions C09_pb_ok_invariant.

(* the cleanup puts back the depth of the state in which the partial was
   looked up *)
Theorem C09_depth_restored : forall (d : deco_v) (before s : rstate),
  s_pb_depth (partial_cleanup d before s) = s_pb_depth before.
Proof. exact cleanup_restores_depth. Qed.
Print Assumptions C09_depth_restored.
