(* Props/C09.v — property C09: a partial renders as its template applied to the
   designated context.  Statements only; proofs in Proofs/PartialSpec.v; the
   specification pieces (resolve_partial, depth_step, partial_context,
   partial_inner, partial_cleanup, is_self) are in Spec/RenderFrameSpec.v and
   run_block_decorators, one_block, assoc_last, base_fields in
   Proofs/PartialSpec.v (each a few lines).

   The part of the property that is FALSE of the model (finding F3: "any
   number of times") is C09_refuted_twice. *)
From HB Require Import Reg.RegOps Spec.RenderFrameSpec Proofs.PartialSpec.

(* partial_spec: when the call's inline decorators ran (state s1), the name is
   not the current template and the partial is found, expand_partial is:
   compute the context (first parameter or current context, merged with the
   hash), render the partial's template from the state whose block stack is
   the single block holding that value (partial-block stack pushed iff the
   call has a block, indent string set), then put back blocks, current name,
   indent and partial-block stack *)
Theorem C09_partial_spec : forall (reg : registry) (data : json) (ft : ftable)
    (f : nat) (d : deco_v) (s s1 : rstate) (partial : template),
  run_block_decorators reg data ft f d s = ROk tt s1 ->
  is_self d s1 = false ->
  resolve_partial reg d s1 = Some partial ->
  expand_partial reg data ft (S f) d s =
  rbind (partial_context data d (depth_step d s1)) (fun merged s3 =>
    match render_template reg data ft f partial (partial_inner d merged s3) with
    | ROk u s7 => ROk u (partial_cleanup d s1 s7)
    | RErr e s7 => RErr e (partial_cleanup d s1 s7)
    | RPanic p => RPanic p
    | RFuel => RFuel
    end).
Proof. exact partial_spec. Qed.
Print Assumptions C09_partial_spec.

Theorem C09_partial_ok_inv : forall (reg : registry) (data : json) (ft : ftable)
    (f : nat) (d : deco_v) (s s' : rstate),
  expand_partial reg data ft (S f) d s = ROk tt s' ->
  exists s1 partial merged s7,
    run_block_decorators reg data ft f d s = ROk tt s1 /\
    is_self d s1 = false /\
    resolve_partial reg d s1 = Some partial /\
    partial_context data d (depth_step d s1) = ROk merged (depth_step d s1) /\
    render_template reg data ft f partial (partial_inner d merged (depth_step d s1)) = ROk tt s7 /\
    s' = partial_cleanup d s1 s7.
Proof. exact partial_ok_inv. Qed.
Print Assumptions C09_partial_ok_inv.

(* what is restored (s1 = the state after the call's inline decorators ran) *)
Theorem C09_partial_restores : forall (reg : registry) (data : json) (ft : ftable)
    (f : nat) (d : deco_v) (s s' : rstate),
  expand_partial reg data ft (S f) d s = ROk tt s' ->
  exists s1, run_block_decorators reg data ft f d s = ROk tt s1 /\
    s_blocks s' = s_blocks s1 /\ s_indent s' = s_indent s1 /\
    s_current s' = s_current s1 /\ s_pb_stack s' = s_pb_stack s1.
Proof. exact partial_restores. Qed.
Print Assumptions C09_partial_restores.

(* hash arguments are for the partial only: afterwards the block stack is the
   caller's own again *)
Theorem C09_hash_invisible_after : forall (reg : registry) (data : json) (ft : ftable)
    (f : nat) (d : deco_v) (s s' : rstate),
  expand_partial reg data ft (S f) d s = ROk tt s' -> s_blocks s' = s_blocks s.
Proof. exact hash_invisible_after. Qed.
Print Assumptions C09_hash_invisible_after.

(* inside the partial the block stack is one block holding the merged value:
   no @-variable of any level, no block parameter, and every path (whatever
   its ../ prefix) is resolved inside the merged value, or from the root data
   when it starts with @root *)
Theorem C09_caller_scopes_hidden : forall (d : deco_v) (merged : json) (s : rstate),
  (forall level name, get_local_var (s_blocks (partial_inner d merged s)) level name = None) /\
  (forall p, get_in_block_params (s_blocks (partial_inner d merged s)) p = None) /\
  (forall segs, parse_json_visitor segs (s_blocks (partial_inner d merged s)) =
                match visitor_scan [] segs 0 with
                | (O, _, true) => ResAbsolute (merge_json_path segs)
                | _ => ResValue (merge_json_path segs) merged
                end).
Proof. exact caller_scopes_hidden. Qed.
Print Assumptions C09_caller_scopes_hidden.

(* in particular ../x inside a partial is x of the merged value *)
Theorem C09_parent_path_inside : forall (v data : json) (segs : list pathseg),
  navigate data (SegRuled R_path_up :: segs) [one_block v] =
  match walk (Some v) (merge_json_path segs) with
  | NavSome v' => NavOk (SDerived v')
  | NavNone => NavOk SMissing
  | NavBadIndex s => NavErr (RInvalidJsonIndex s)
  end.
Proof. exact one_block_up. Qed.
Print Assumptions C09_parent_path_inside.

(* @root paths do not depend on the block stack *)
Theorem C09_root_visible : forall (data : json) (segs : list pathseg) (blocks1 blocks2 : list block),
  navigate data (SegRuled R_path_root :: segs) blocks1 = navigate data (SegRuled R_path_root :: segs) blocks2.
Proof. exact root_visible. Qed.
Print Assumptions C09_root_visible.

(* resolution order: inline partial / @partial-block, else dev-mode template,
   else registered template, else the call's own block *)
Theorem C09_resolve_inline : forall (reg : registry) (d : deco_v) (s : rstate) (p : template),
  get_partial s (dv_name d) = Some p -> resolve_partial reg d s = Some p.
Proof. exact resolve_inline. Qed.
Print Assumptions C09_resolve_inline.

Theorem C09_resolve_dev : forall (reg : registry) (d : deco_v) (s : rstate) dm (p : template),
  get_partial s (dv_name d) = None -> s_dev s = Some dm -> map_get dm (dv_name d) = Some p ->
  resolve_partial reg d s = Some p.
Proof. exact resolve_dev. Qed.
Print Assumptions C09_resolve_dev.

Theorem C09_resolve_registry : forall (reg : registry) (d : deco_v) (s : rstate) (p : template),
  get_partial s (dv_name d) = None ->
  match s_dev s with Some dm => map_get dm (dv_name d) | None => None end = None ->
  map_get (r_templates reg) (dv_name d) = Some p ->
  resolve_partial reg d s = Some p.
Proof. exact resolve_registry. Qed.
Print Assumptions C09_resolve_registry.

Theorem C09_resolve_block : forall (reg : registry) (d : deco_v) (s : rstate),
  get_partial s (dv_name d) = None ->
  match s_dev s with Some dm => map_get dm (dv_name d) | None => None end = None ->
  map_get (r_templates reg) (dv_name d) = None ->
  resolve_partial reg d s = dv_tpl d.
Proof. exact resolve_block. Qed.
Print Assumptions C09_resolve_block.

(* an inline partial is found from its definition onward and shadows a
   registered template of the same name *)
Theorem C09_inline_defined : forall (reg : registry) (s : rstate) (name : str) (t : template) (d : deco_v),
  str_eqb name PARTIAL_BLOCK = false -> dv_name d = name ->
  resolve_partial reg d (set_partials s (map_insert (s_partials s) name t)) = Some t.
Proof. exact inline_defined. Qed.
Print Assumptions C09_inline_defined.

Theorem C09_inline_decorator_defines : forall (reg : registry) (data : json) (ft : ftable)
    (f : nat) (dt : deco_t) (s s1 : rstate) (d : deco_v) (p : pj) (ps : list pj) (name : str) (t : template),
  deco_from_template reg data ft f dt s = ROk d s1 ->
  map_get (r_decorators reg) (dv_name d) = Some DInline ->
  dv_params d = p :: ps -> pj_value p = JStr name -> dv_tpl d = Some t ->
  eval_decorator reg data ft (S f) dt s = ROk tt (set_partials s1 (map_insert (s_partials s1) name t)).
Proof. exact inline_decorator_defines. Qed.
Print Assumptions C09_inline_decorator_defines.

(* a name computed by a subexpression is the rendering of its value *)
Theorem C09_dynamic_name : forall (reg : registry) (data : json) (ft : ftable) (f : nat) (e : element) (s : rstate),
  expand_as_name reg data ft (S f) (PSub e) s =
  rbind (expand_param reg data ft f (PSub e) s) (fun v s1 => ROk (render_json ft (pj_value v)) s1).
Proof. exact dynamic_name. Qed.
Print Assumptions C09_dynamic_name.

(* merge_json: hash keys override (the last binding of a key wins), the other
   fields of the base are kept; base_fields is what the base contributes *)
Theorem C09_merge_json_nil : forall base, merge_json base [] = base.
Proof. exact merge_json_nil. Qed.
Print Assumptions C09_merge_json_nil.

Theorem C09_merge_json_fields : forall base add,
  add <> [] ->
  exists m, merge_json base add = JObj m /\
            forall k, map_get m k = match assoc_last add k with
                                    | Some v => Some v
                                    | None => map_get (base_fields base) k
                                    end.
Proof. exact merge_json_fields. Qed.
Print Assumptions C09_merge_json_fields.

Theorem C09_merge_json_override : forall base add k v,
  assoc_last add k = Some v ->
  exists m, merge_json base add = JObj m /\ map_get m k = Some v.
Proof. exact merge_json_override. Qed.
Print Assumptions C09_merge_json_override.

Theorem C09_merge_json_keep : forall bm add k,
  add <> [] -> assoc_last add k = None ->
  exists m, merge_json (JObj bm) add = JObj m /\ map_get m k = map_get bm k.
Proof. exact merge_json_keep. Qed.
Print Assumptions C09_merge_json_keep.

Theorem C09_merge_json_scalar : forall base add k,
  add <> [] -> (base = JNull \/ (exists b, base = JBool b) \/ (exists n, base = JNum n)) ->
  exists m, merge_json base add = JObj m /\ map_get m k = assoc_last add k.
Proof. exact merge_json_scalar. Qed.
Print Assumptions C09_merge_json_scalar.

(* directly including the template being rendered *)
Theorem C09_self_include : forall (reg : registry) (data : json) (ft : ftable)
    (f : nat) (d : deco_v) (s s1 : rstate),
  run_block_decorators reg data ft f d s = ROk tt s1 ->
  s_current s1 = Some (dv_name d) ->
  expand_partial reg data ft (S f) d s = RErr (mk_err RCannotIncludeSelf) s1.
Proof. exact self_include. Qed.
Print Assumptions C09_self_include.

(* an unknown partial without a block *)
Theorem C09_not_found : forall (reg : registry) (data : json) (ft : ftable)
    (f : nat) (d : deco_v) (s s1 : rstate),
  run_block_decorators reg data ft f d s = ROk tt s1 ->
  is_self d s1 = false ->
  resolve_partial reg d s1 = None ->
  expand_partial reg data ft (S f) d s = RErr (mk_err (RPartialNotFound (dv_name d))) s1.
Proof. exact not_found. Qed.
Print Assumptions C09_not_found.

(* {{> @partial-block}}: the first use inside a partial called with a block
   designates that block *)
Theorem C09_partial_block_first_use : forall (d : deco_v) (merged : json) (s1 : rstate) (pb : template),
  dv_tpl d = Some pb -> str_eqb (dv_name d) PARTIAL_BLOCK = false ->
  (0 <= s_pb_depth s1 <= 1)%Z ->
  get_partial (partial_inner d merged (depth_step d s1)) PARTIAL_BLOCK = Some pb.
Proof. exact partial_block_first_use. Qed.
Print Assumptions C09_partial_block_first_use.

(* F3: "any number of times" is false of the model: with
   p = {{> @partial-block}}{{> @partial-block}} and m = {{#> p}}D{{/p}},
   rendering m writes D once and then fails on the second use *)
Theorem C09_refuted_twice :
  exists reg data ft fuel t s e s',
    t = reg_tpl reg (`"m") /\
    map_get (r_templates reg) (`"p") = Some (reg_tpl reg (`"p")) /\
    (exists d1 d2 d0 b, t_els (reg_tpl reg (`"p")) = [ElPartExpr d1; ElPartExpr d2] /\
                        as_name (d_name d1) = Some PARTIAL_BLOCK /\ as_name (d_name d2) = Some PARTIAL_BLOCK /\
                        t_els t = [ElPartBlock d0] /\ d_name d0 = PName (`"p") /\
                        d_tpl d0 = Some b /\ t_els b = [ElRaw (`"D")]) /\
    render_template reg data ft fuel t s = RErr e s' /\
    e_reason e = RPartialNotFound PARTIAL_BLOCK /\
    out_text (s_out s') = `"D".
Proof. exact refuted_twice. Qed.
Print Assumptions C09_refuted_twice.

Theorem C09_refuted_twice_entry :
  exists e, render_named f3_twice_reg [] [] (`"m") JNull None = RoErr e (`"D") [] /\
            e_reason e = RPartialNotFound PARTIAL_BLOCK.
Proof. exact refuted_twice_entry. Qed.
Print Assumptions C09_refuted_twice_entry.

(* the reason: entering @partial-block increments the depth and the cleanup
   leaves the depth alone *)
Theorem C09_depth_never_restored : forall (d : deco_v) (before s : rstate),
  (dv_name d = PARTIAL_BLOCK -> s_pb_depth (depth_step d s) = (s_pb_depth s + 1)%Z) /\
  s_pb_depth (partial_cleanup d before s) = s_pb_depth s.
Proof. intros d before s. split; [apply depth_step_block|apply cleanup_keeps_depth]. Qed.
Print Assumptions C09_depth_never_restored.
