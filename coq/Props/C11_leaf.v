(* Props/C11_leaf.v — property C11, leaf level: each support::str predicate
   equals its specification phrase (space = 32, tab = 9, LF = 10, CR = 13).
   Statements only; proofs in Proofs/LeafStr.v.  The conservation theorem over
   the compile fold is proved elsewhere. *)
From HB Require Import Base.Str Proofs.LeafStr.
Open Scope N_scope.

(* the text after the last LF/CR of s (all of s if there is none) is spaces/tabs *)
Theorem C11_ends_with_empty_line : forall s,
  ends_with_empty_line s = true <->
  exists p t, s = p ++ t /\ Forall (fun c => c = 32 \/ c = 9) t /\
    (p = [] \/ exists p' c, p = p' ++ [c] /\ (c = 10 \/ c = 13)).
Proof. exact ends_with_empty_line_spec. Qed.
Print Assumptions C11_ends_with_empty_line.

(* s is spaces/tabs followed by an LF or CR *)
Theorem C11_starts_with_empty_line : forall s,
  starts_with_empty_line s = true <->
  exists b c r, s = b ++ c :: r /\ Forall (fun c => c = 32 \/ c = 9) b /\ (c = 10 \/ c = 13).
Proof. exact starts_with_empty_line_spec. Qed.
Print Assumptions C11_starts_with_empty_line.

(* strip_first_newline removes exactly one leading LF or CRLF and nothing else *)
Theorem C11_strip_first_newline : forall s,
  (exists r, s = 10 :: r /\ strip_first_newline s = r) \/
  (exists r, s = 13 :: 10 :: r /\ strip_first_newline s = r) \/
  ((forall r, s <> 10 :: r) /\ (forall r, s <> 13 :: 10 :: r) /\ strip_first_newline s = s).
Proof. exact strip_first_newline_cases. Qed.
Print Assumptions C11_strip_first_newline.

(* the CR asymmetry (finding F13): a lone CR is a line boundary for both
   predicates ... *)
Theorem C11_lone_cr_is_boundary_start : forall r, starts_with_empty_line (13 :: r) = true.
Proof. exact lone_cr_is_boundary_start. Qed.
Print Assumptions C11_lone_cr_is_boundary_start.

Theorem C11_lone_cr_is_boundary_end : forall p, ends_with_empty_line (p ++ [13]) = true.
Proof. exact lone_cr_is_boundary_end. Qed.
Print Assumptions C11_lone_cr_is_boundary_end.

(* ... but strip_first_newline does not remove it *)
Theorem C11_lone_cr_not_stripped : forall r,
  (forall r', r <> 10 :: r') -> strip_first_newline (13 :: r) = 13 :: r.
Proof. exact lone_cr_not_stripped. Qed.
Print Assumptions C11_lone_cr_not_stripped.

(* w is the maximal non-empty run of spaces/tabs at the end of s *)
Theorem C11_find_trailing_whitespace_chars : forall s w,
  find_trailing_whitespace_chars s = Some w <->
  w <> [] /\ Forall (fun c => c = 32 \/ c = 9) w /\
  exists p, s = p ++ w /\ (forall p' c, p = p' ++ [c] -> ~ (c = 32 \/ c = 9)).
Proof. exact find_trailing_whitespace_chars_spec. Qed.
Print Assumptions C11_find_trailing_whitespace_chars.

Theorem C11_find_trailing_whitespace_chars_none : forall s,
  find_trailing_whitespace_chars s = None <->
  (forall p c, s = p ++ [c] -> ~ (c = 32 \/ c = 9)).
Proof. exact find_trailing_whitespace_chars_none. Qed.
Print Assumptions C11_find_trailing_whitespace_chars_none.

(* trim_start removes exactly the maximal prefix of is_ws characters *)
Theorem C11_trim_start : forall s,
  exists pre, s = pre ++ trim_start s /\
    Forall (fun c => is_ws c = true) pre /\
    (forall c r, trim_start s = c :: r -> is_ws c = false).
Proof. exact trim_start_spec. Qed.
Print Assumptions C11_trim_start.

Theorem C11_trim_start_unique : forall pre r,
  Forall (fun c => is_ws c = true) pre ->
  (forall c r', r = c :: r' -> is_ws c = false) ->
  trim_start (pre ++ r) = r.
Proof. exact trim_start_unique. Qed.
Print Assumptions C11_trim_start_unique.

(* trim_end removes exactly the maximal suffix of is_ws characters *)
Theorem C11_trim_end : forall s,
  exists suf, s = trim_end s ++ suf /\
    Forall (fun c => is_ws c = true) suf /\
    (forall p c, trim_end s = p ++ [c] -> is_ws c = false).
Proof. exact trim_end_spec. Qed.
Print Assumptions C11_trim_end.

Theorem C11_trim_end_unique : forall p suf,
  Forall (fun c => is_ws c = true) suf ->
  (forall p' c, p = p' ++ [c] -> is_ws c = false) ->
  trim_end (p ++ suf) = p.
Proof. exact trim_end_unique. Qed.
Print Assumptions C11_trim_end_unique.
