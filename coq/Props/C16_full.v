(* Props/C16_full.v — property C16, across the two groups of entry points:
   registering a template text under a name n and rendering n (entry points
   0-3) against rendering the same text directly (entry points 4-7).
   Statements only; proofs in Proofs/CrossGroup.v; vocabulary (np_template,
   np_registry, no_state_probe, root_named, name_root, upd, cur_rel, run_rel,
   st_np, outcome_rel, sim_at) in Spec/CrossGroupSpec.v.

   HYPOTHESIS.  No partial tag can reach the name n: in the text and in every
   other registered template each partial tag has a static name (identifier,
   path spelling or literal — not a subexpression) different from n, at every
   depth (block bodies, inline partials, partial blocks, subexpressions); and
   the `state` probe helper of the test protocol is not registered.  Dev mode
   is off, as in C16_cross_group_partial.

   CONCLUSION.  The two observations are EQUAL — same outcome kind, same bytes
   accepted by the writer, same number of writes, same LOG, same error reason
   with its payload, same line and column — except that an error carrying no
   template name in the unnamed run carries the root's name n in the named run
   (`name_root`).  This difference is by design: entries 4-7 render an unnamed
   template.

   What else depends on the root's name when the hypothesis fails is shown by
   the examples dep_* at the end of Proofs/CrossGroup.v (self-inclusion at top
   level / inside a block / through a dynamic name; the state probe). *)
From Coq Require Import List NArith Bool.
From HB Require Import Rt.Render Reg.RegOps Spec.CrossGroupSpec Proofs.CrossGroup.
Import ListNotations.

(* the announced corollary: entry 0 on the registered text, entry 4 on the text *)
Theorem C16_cross_group :
  forall (r : registry) (fs : files) (ft : ftable) (n src : str) (data : json) (fa : option N)
         (t : template),
  r_dev r = false ->
  compile2 src (reg_opts r None) = COk t ->
  np_template n ft t -> np_registry n ft r -> no_state_probe r ->
  register_template_string r n src = (register_template r n (t_set_name t (Some n)), COk tt)
  /\ render_entry (register_template r n (t_set_name t (Some n))) fs ft 0 n data fa
     = name_root n (render_entry r fs ft 4 src data fa).
Proof. exact cross_group. Qed.
Print Assumptions C16_cross_group.

(* every entry point by name against every entry point by text that uses the
   caller's writer in the same way (so writer failures included) *)
Theorem C16_cross_group_entries :
  forall (r : registry) (fs : files) (ft : ftable) (n src : str) (data : json) (fa : option N)
         (t : template) (e1 e2 : N),
  r_dev r = false ->
  compile2 src (reg_opts r None) = COk t ->
  np_template n ft t -> np_registry n ft r -> no_state_probe r ->
  (e1 < 4)%N -> (4 <= e2)%N ->
  ((e1 =? 2) || (e1 =? 3) = (e2 =? 6) || (e2 =? 7))%N%bool ->
  render_entry (register_template r n (t_set_name t (Some n))) fs ft e1 n data fa
  = name_root n (render_entry r fs ft e2 src data fa).
Proof. exact cross_group_entries. Qed.
Print Assumptions C16_cross_group_entries.

Theorem C16_cross_named_string :
  forall (r : registry) (fs : files) (ft : ftable) (n src : str) (data : json) (fa : option N)
         (t : template),
  r_dev r = false ->
  compile2 src (reg_opts r None) = COk t ->
  np_template n ft t -> np_registry n ft r -> no_state_probe r ->
  render_named (register_template r n (t_set_name t (Some n))) fs ft n data fa
  = name_root n (render_string r fs ft src data fa).
Proof. exact cross_named_string. Qed.
Print Assumptions C16_cross_named_string.

(* the render level, for any fuel and any pair of related start states: the
   unnamed root t under registry r against the root named n under a registry
   that differs from r at most in the template stored under n (and r_sources) *)
Theorem C16_root_observation :
  forall (n : str) (ft : ftable) (data : json) (r : registry)
         (T' : list (str * template)) (S' : list (str * str)) (root : option str),
  (forall m, m <> n -> map_get T' m = map_get (r_templates r) m) ->
  np_registry n ft r -> no_state_probe r ->
  forall (fuel : nat) (t : template) (s : rstate) (c : option str),
  t_name t = None -> np_template n ft t -> st_np n ft s ->
  cur_rel n (s_current s) c ->
  finish_render (render_template (reg_with r T' S') data ft fuel (t_set_name t (Some n)) (upd s root c))
  = name_root n (finish_render (render_template r data ft fuel t s)).
Proof. exact root_observation. Qed.
Print Assumptions C16_root_observation.

(* the same with the final states: related (equal but for root_template and
   current_template), error of the named run = error of the unnamed run with
   the root's name filled in *)
Theorem C16_root_simulation :
  forall (n : str) (ft : ftable) (data : json) (r : registry)
         (T' : list (str * template)) (S' : list (str * str)) (root : option str),
  (forall m, m <> n -> map_get T' m = map_get (r_templates r) m) ->
  np_registry n ft r -> no_state_probe r ->
  forall (fuel : nat) (t : template) (s : rstate) (c : option str),
  t_name t = None -> np_template n ft t -> st_np n ft s ->
  cur_rel n (s_current s) c ->
  outcome_rel n ft root (fun e e' => e' = root_named n e)
    (render_template r data ft fuel t s)
    (render_template (reg_with r T' S') data ft fuel (t_set_name t (Some n)) (upd s root c)).
Proof. exact root_simulation. Qed.
Print Assumptions C16_root_simulation.

(* the two-run simulation of all sixteen functions of the render fixpoint, on
   equal arguments, for every fuel: equal values, EQUAL errors, related states *)
Theorem C16_simulation :
  forall (n : str) (ft : ftable) (data : json) (r : registry)
         (T' : list (str * template)) (S' : list (str * str)) (root : option str),
  (forall m, m <> n -> map_get T' m = map_get (r_templates r) m) ->
  np_registry n ft r -> no_state_probe r ->
  forall f : nat, sim_at n ft data r T' S' root f.
Proof. exact sim_all. Qed.
Print Assumptions C16_simulation.

(* the only thing the root's name changes in an error *)
Theorem C16_attach_render_root : forall (n : str) (t : template) (idx : nat) (e : rerror),
  t_name t = None ->
  attach_render (t_set_name t (Some n)) idx e = root_named n (attach_render t idx e).
Proof. exact attach_render_root. Qed.
Print Assumptions C16_attach_render_root.
