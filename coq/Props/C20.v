(* Props/C20.v — property C20: macro-defined helpers (handlebars_helper!)
   enforce their declared signature.  Statements only; proofs in
   Proofs/MacroProofs.v; the vocabulary (arg_delivers, arg_absent, arg_illtyped,
   args_ok_before, args_all_ok, opt_delivers, opt_ok, opt_illtyped,
   opts_ok_before, opts_all_ok, delivered, all_args, all_kwargs, u64_json,
   settled) is in Spec/MacroSpec.v.

   Every theorem quantifies over an ARBITRARY signature `sg` and body, an
   arbitrary helper value `h` and both strictness settings.  `macro_call` has
   type `rreason + json`: the expansion has no panic outcome by construction;
   C20_macro_no_panic states the same for the render functions that call it. *)
From Coq Require Import List ZArith NArith.
From HB Require Import Rt.Render Spec.MacroSpec Proofs.MacroProofs.
Import ListNotations.

(* ---- success: what the body receives ---- *)

(* param_i_from_arg_i, option_default, args_all, kwargs_all in one statement:
   on success the body was called with ps, os, ALL positional values in order
   and ALL hash (key, value) pairs in hash order, where the i-th element of ps
   is conv τ_i of the i-th argument and the k-th element of os is conv τ of the
   same-named hash argument, or the declared default when there is none *)
Theorem C20_param_i_from_arg_i : forall sg body strict h v,
  macro_call sg body strict h = inr v ->
  exists ps os : list mval,
    v = body ps os (map pj_value (hv_params h))
                   (map (fun kv : str * pj => (fst kv, pj_value (snd kv))) (hv_hash h))
    /\ length ps = length (ms_params sg)
    /\ (forall i pname t, nth_error (ms_params sg) i = Some (pname, t) ->
          exists pv, nth_error ps i = Some pv /\
            exists x, nth_error (hv_params h) i = Some x
                   /\ (strict = true -> sc_missing (pj_val x) = false)
                   /\ conv t (pj_value x) = Some pv)
    /\ length os = length (ms_opts sg)
    /\ (forall k oname t dflt, nth_error (ms_opts sg) k = Some (oname, t, dflt) ->
          exists ov, nth_error os k = Some ov /\
            match map_get (hv_hash h) oname with
            | Some x => conv t (pj_value x) = Some ov
            | None => ov = dflt
            end).
Proof. exact param_i_from_arg_i. Qed.
Print Assumptions C20_param_i_from_arg_i.

Theorem C20_args_kwargs_all : forall sg body strict h v,
  macro_call sg body strict h = inr v ->
  exists ps os,
    v = body ps os (map pj_value (hv_params h))
                   (map (fun kv : str * pj => (fst kv, pj_value (snd kv))) (hv_hash h)).
Proof. exact args_kwargs_all. Qed.
Print Assumptions C20_args_kwargs_all.

(* the Helper value carries one entry per template argument and the hash keys
   in the template's (key-sorted) order, so *args / **kwargs are complete *)
Theorem C20_helper_value_shape : forall reg data ft f ht s h s',
  helper_from_template reg data ft f ht s = ROk h s' ->
  length (hv_params h) = length (h_params ht) /\
  map fst (hv_hash h) = map fst (h_hash ht) /\
  map fst (all_kwargs h) = map fst (h_hash ht) /\
  length (all_args h) = length (h_params ht).
Proof. exact helper_from_template_shape. Qed.
Print Assumptions C20_helper_value_shape.

(* converse: when every declared parameter and option is acceptable the call succeeds *)
Theorem C20_all_ok_delivers : forall sg body strict h,
  args_all_ok strict (hv_params h) (ms_params sg) ->
  opts_all_ok (hv_hash h) (ms_opts sg) ->
  exists ps os, delivered sg strict h ps os /\
    macro_call sg body strict h = inr (body ps os (all_args h) (all_kwargs h)).
Proof. exact all_ok_delivers. Qed.
Print Assumptions C20_all_ok_delivers.

(* ---- errors: the first failing parameter, else the first ill-typed option ---- *)

(* the exact four-way characterisation of macro_call *)
Theorem C20_outcome_exact : forall sg body strict h,
  (exists i pn t, nth_error (ms_params sg) i = Some (pn, t) /\
     args_ok_before strict (hv_params h) (ms_params sg) i /\
     arg_absent strict (hv_params h) i /\
     macro_call sg body strict h = inl (RParamNotFoundForName (ms_name sg) pn))
  \/
  (exists i pn t, nth_error (ms_params sg) i = Some (pn, t) /\
     args_ok_before strict (hv_params h) (ms_params sg) i /\
     arg_illtyped strict (hv_params h) i t /\
     macro_call sg body strict h = inl (RParamTypeMismatchForName (ms_name sg) pn (mtype_name t)))
  \/
  (args_all_ok strict (hv_params h) (ms_params sg) /\
   exists k on t d, nth_error (ms_opts sg) k = Some (on, t, d) /\
     opts_ok_before (hv_hash h) (ms_opts sg) k /\
     opt_illtyped (hv_hash h) on t /\
     macro_call sg body strict h = inl (RHashTypeMismatchForName (ms_name sg) on (mtype_name t)))
  \/
  (args_all_ok strict (hv_params h) (ms_params sg) /\
   opts_all_ok (hv_hash h) (ms_opts sg) /\
   exists ps os, delivered sg strict h ps os /\
     macro_call sg body strict h = inr (body ps os (all_args h) (all_kwargs h))).
Proof. exact macro_call_cases. Qed.
Print Assumptions C20_outcome_exact.

(* missing_required: the i-th declared parameter has no i-th argument, or
   (strict) its argument is a missing value, and all earlier ones are fine *)
Theorem C20_missing_required : forall sg body strict h i pname t,
  nth_error (ms_params sg) i = Some (pname, t) ->
  (forall j pn tj, (j < i)%nat -> nth_error (ms_params sg) j = Some (pn, tj) ->
     exists v x, nth_error (hv_params h) j = Some x
              /\ (strict = true -> sc_missing (pj_val x) = false)
              /\ conv tj (pj_value x) = Some v) ->
  (nth_error (hv_params h) i = None \/
   exists x, nth_error (hv_params h) i = Some x /\ strict = true /\ sc_missing (pj_val x) = true) ->
  macro_call sg body strict h = inl (RParamNotFoundForName (ms_name sg) pname).
Proof. exact missing_required. Qed.
Print Assumptions C20_missing_required.

Theorem C20_missing_required_iff : forall sg body strict h n p,
  macro_call sg body strict h = inl (RParamNotFoundForName n p) <->
  exists i t, n = ms_name sg /\ nth_error (ms_params sg) i = Some (p, t) /\
    args_ok_before strict (hv_params h) (ms_params sg) i /\
    arg_absent strict (hv_params h) i.
Proof. exact param_not_found_iff. Qed.
Print Assumptions C20_missing_required_iff.

(* type_mismatch: the first failing parameter fails by conv τ_i v = None *)
Theorem C20_type_mismatch : forall sg body strict h i pname t,
  nth_error (ms_params sg) i = Some (pname, t) ->
  (forall j pn tj, (j < i)%nat -> nth_error (ms_params sg) j = Some (pn, tj) ->
     exists v x, nth_error (hv_params h) j = Some x
              /\ (strict = true -> sc_missing (pj_val x) = false)
              /\ conv tj (pj_value x) = Some v) ->
  (exists x, nth_error (hv_params h) i = Some x
          /\ (strict = true -> sc_missing (pj_val x) = false)
          /\ conv t (pj_value x) = None) ->
  macro_call sg body strict h
  = inl (RParamTypeMismatchForName (ms_name sg) pname (mtype_name t)).
Proof. exact type_mismatch. Qed.
Print Assumptions C20_type_mismatch.

Theorem C20_type_mismatch_iff : forall sg body strict h n p ty,
  macro_call sg body strict h = inl (RParamTypeMismatchForName n p ty) <->
  exists i t, n = ms_name sg /\ ty = mtype_name t /\
    nth_error (ms_params sg) i = Some (p, t) /\
    args_ok_before strict (hv_params h) (ms_params sg) i /\
    arg_illtyped strict (hv_params h) i t.
Proof. exact type_mismatch_iff. Qed.
Print Assumptions C20_type_mismatch_iff.

(* option_mismatch: all parameters fine, first ill-typed option decides *)
Theorem C20_option_mismatch : forall sg body strict h k oname t dflt,
  args_all_ok strict (hv_params h) (ms_params sg) ->
  nth_error (ms_opts sg) k = Some (oname, t, dflt) ->
  opts_ok_before (hv_hash h) (ms_opts sg) k ->
  (exists x, map_get (hv_hash h) oname = Some x /\ conv t (pj_value x) = None) ->
  macro_call sg body strict h
  = inl (RHashTypeMismatchForName (ms_name sg) oname (mtype_name t)).
Proof. exact option_mismatch. Qed.
Print Assumptions C20_option_mismatch.

Theorem C20_option_mismatch_iff : forall sg body strict h n o ty,
  macro_call sg body strict h = inl (RHashTypeMismatchForName n o ty) <->
  args_all_ok strict (hv_params h) (ms_params sg) /\
  exists k t d, n = ms_name sg /\ ty = mtype_name t /\
    nth_error (ms_opts sg) k = Some (o, t, d) /\
    opts_ok_before (hv_hash h) (ms_opts sg) k /\
    opt_illtyped (hv_hash h) o t.
Proof. exact hash_mismatch_iff. Qed.
Print Assumptions C20_option_mismatch_iff.

(* the only error reasons there are *)
Theorem C20_errors_only : forall sg body strict h e,
  macro_call sg body strict h = inl e ->
  (exists p, e = RParamNotFoundForName (ms_name sg) p) \/
  (exists p ty, e = RParamTypeMismatchForName (ms_name sg) p ty) \/
  (exists o ty, e = RHashTypeMismatchForName (ms_name sg) o ty).
Proof. exact macro_errors_only. Qed.
Print Assumptions C20_errors_only.

(* never a silent default: a PRESENT option of the wrong type is an error ... *)
Theorem C20_no_silent_default : forall sg body strict h k oname t dflt x,
  nth_error (ms_opts sg) k = Some (oname, t, dflt) ->
  map_get (hv_hash h) oname = Some x ->
  conv t (pj_value x) = None ->
  exists e, macro_call sg body strict h = inl e.
Proof. exact no_silent_default. Qed.
Print Assumptions C20_no_silent_default.

(* ... and so is a present positional argument of the wrong type *)
Theorem C20_no_illtyped_argument : forall sg body strict h i pname t x,
  nth_error (ms_params sg) i = Some (pname, t) ->
  nth_error (hv_params h) i = Some x ->
  conv t (pj_value x) = None ->
  exists e, macro_call sg body strict h = inl e.
Proof. exact no_illtyped_argument. Qed.
Print Assumptions C20_no_illtyped_argument.

(* ---- conv: the table per type token (serde_json's as_* accessors) ---- *)
Theorem C20_conv_accepts : forall v : json,
  (conv TStr v <> None <-> exists s, v = JStr s) /\
  (conv TI64 v <> None <->
     (exists n, v = JNum (PosInt n) /\ (n <= i64_max)%N) \/ (exists z, v = JNum (NegInt z))) /\
  (conv TU64 v <> None <-> exists n, v = JNum (PosInt n)) /\
  (conv TF64 v <> None -> exists x, v = JNum x) /\
  (forall x, v = JNum x -> num_wf x = true -> conv TF64 v <> None) /\
  (conv TBool v <> None <-> exists b, v = JBool b) /\
  (conv TArr v <> None <-> exists l, v = JArr l) /\
  (conv TObj v <> None <-> exists m, v = JObj m) /\
  (conv TNull v <> None <-> v = JNull) /\
  (conv TJson v <> None) /\
  (conv TVecU64 v <> None <-> exists ns, v = JArr (map u64_json ns)).
Proof. exact conv_accepts. Qed.
Print Assumptions C20_conv_accepts.

Theorem C20_conv_values :
  (forall s, conv TStr (JStr s) = Some (VStr s)) /\
  (forall n, (n <= i64_max)%N -> conv TI64 (JNum (PosInt n)) = Some (VI64 (Z.of_N n))) /\
  (forall z, conv TI64 (JNum (NegInt z)) = Some (VI64 z)) /\
  (forall n, conv TU64 (JNum (PosInt n)) = Some (VU64 n)) /\
  (forall x, conv TF64 (JNum x) = option_map VF64 (f64_of_num x)) /\
  (forall b, conv TF64 (JNum (Float b)) = Some (VF64 b)) /\
  (forall b, conv TBool (JBool b) = Some (VBool b)) /\
  (forall l, conv TArr (JArr l) = Some (VArr l)) /\
  (forall m, conv TObj (JObj m) = Some (VObj m)) /\
  (conv TNull JNull = Some VNull) /\
  (forall v, conv TJson v = Some (VJson v)) /\
  (forall ns, conv TVecU64 (JArr (map u64_json ns)) = Some (VVec ns)).
Proof. exact conv_values. Qed.
Print Assumptions C20_conv_values.

Theorem C20_conv_rejects :
  (forall b, conv TI64 (JNum (Float b)) = None) /\
  (forall n, (i64_max < n)%N -> conv TI64 (JNum (PosInt n)) = None) /\
  (forall z, conv TU64 (JNum (NegInt z)) = None) /\
  (forall b, conv TU64 (JNum (Float b)) = None).
Proof. exact conv_rejects. Qed.
Print Assumptions C20_conv_rejects.

(* FALSE of the model as an unrestricted claim: "f64 accepts every number".
   The model's `num` type does not bound integers; beyond ~2^1024 the
   integer→double conversion overflows and conv fails.  For well-formed
   numbers (num_wf: u64 / i64 / finite double) acceptance is proved above. *)
Theorem C20_conv_f64_every_num_refuted : exists x, conv TF64 (JNum x) = None.
Proof. exact conv_f64_every_num_refuted. Qed.
Print Assumptions C20_conv_f64_every_num_refuted.

(* ---- result_typed ---- *)

(* call_inner of a macro helper with an arbitrary signature: the typed JSON
   value (state unchanged) or the signature error (state unchanged) *)
Theorem C20_result_typed_inner : forall reg sg body h s,
  macro_inner reg sg body h s =
  match macro_call sg body (r_strict reg) h with
  | inl e => RErr (mk_err e) s
  | inr v => ROk (SDerived v) s
  end.
Proof. exact macro_inner_result. Qed.
Print Assumptions C20_result_typed_inner.

Theorem C20_result_typed : forall reg m h s,
  call_inner reg (HMacro m) h s =
  match macro_call (macro_sig m) (macro_body m) (r_strict reg) h with
  | inl e => RErr (mk_err e) s
  | inr v => ROk (SDerived v) s
  end.
Proof. exact call_inner_macro. Qed.
Print Assumptions C20_result_typed.

(* subexpression callers receive the JSON value, not text *)
Theorem C20_result_to_subexpression : forall reg data ft f m h s,
  call_helper_for_value reg data ft (S f) (HMacro m) h s =
  match macro_call (macro_sig m) (macro_body m) (r_strict reg) h with
  | inl e => RErr (mk_err e) s
  | inr v => ROk {| pj_rel := None; pj_val := SDerived v |} s
  end.
Proof. exact call_helper_for_value_macro. Qed.
Print Assumptions C20_result_to_subexpression.

(* HelperDef::call of any helper that has a call_inner *)
Theorem C20_call_unfold : forall reg data ft f hid h s,
  has_call_inner hid = true ->
  call_helper reg data ft (S f) hid h s =
  match call_inner reg hid h s with
  | ROk result s1 =>
      if (r_strict reg && sc_missing result)%bool then strict_error None s1
      else let '(output, s2) := do_escape reg (json_render ft (sc_json result)) s1 in
           indent_aware_write output s2
  | RErr e s1 => if is_unimplemented e then ROk tt s1 else RErr e s1
  | RPanic p => RPanic p
  | RFuel => RFuel
  end.
Proof. exact call_helper_has_inner. Qed.
Print Assumptions C20_call_unfold.

(* as an expression the value is rendered, escaped and written *)
Theorem C20_result_written_escaped : forall reg data ft f m h s,
  call_helper reg data ft (S f) (HMacro m) h s =
  match macro_call (macro_sig m) (macro_body m) (r_strict reg) h with
  | inl e => RErr (mk_err e) s
  | inr v => let '(output, s2) := do_escape reg (json_render ft v) s in
             indent_aware_write output s2
  end.
Proof. exact call_helper_macro. Qed.
Print Assumptions C20_result_written_escaped.

(* ... where do_escape applies the registry's escape function exactly once
   (unless escaping is disabled, e.g. inside {{{ }}}) and writes nothing itself *)
Theorem C20_escape_once : forall reg c s,
  s_disable_escape s = false ->
  fst (do_escape reg c s) = r_escape reg c /\
  s_esc_trace (snd (do_escape reg c s)) = c :: s_esc_trace s /\
  s_out (snd (do_escape reg c s)) = s_out s.
Proof. exact do_escape_once. Qed.
Print Assumptions C20_escape_once.

(* never a panic (and never fuel exhaustion) on any of the three call paths *)
Theorem C20_macro_no_panic : forall reg data ft f m h s,
  settled (call_inner reg (HMacro m) h s) /\
  settled (call_helper_for_value reg data ft (S f) (HMacro m) h s) /\
  settled (call_helper reg data ft (S f) (HMacro m) h s).
Proof. exact macro_no_panic. Qed.
Print Assumptions C20_macro_no_panic.

(* ---- two members of the harness family as instances of the general theorems ---- *)

(* mo1(a: i64, {k: i64 = 7}) *)
Theorem C20_family_M_o1 : forall strict h v,
  macro_call (macro_sig M_o1) (macro_body M_o1) strict h = inr v ->
  exists x a k,
    nth_error (hv_params h) 0 = Some x /\
    (strict = true -> sc_missing (pj_val x) = false) /\
    conv TI64 (pj_value x) = Some (VI64 a) /\
    match map_get (hv_hash h) (`"k") with
    | Some y => conv TI64 (pj_value y) = Some (VI64 k)
    | None => k = 7%Z
    end /\
    v = pfx "mo1:" (z_to_dec a ++ `":" ++ z_to_dec k).
Proof. exact M_o1_delivery. Qed.
Print Assumptions C20_family_M_o1.

Theorem C20_family_M_o1_missing : forall strict h,
  hv_params h = [] ->
  macro_call (macro_sig M_o1) (macro_body M_o1) strict h
  = inl (RParamNotFoundForName (`"mo1") (`"a")).
Proof. exact M_o1_missing. Qed.
Print Assumptions C20_family_M_o1_missing.

Theorem C20_family_M_o1_option_mismatch : forall strict h x y,
  hv_params h = [x] -> (strict = true -> sc_missing (pj_val x) = false) ->
  conv TI64 (pj_value x) <> None ->
  map_get (hv_hash h) (`"k") = Some y -> conv TI64 (pj_value y) = None ->
  macro_call (macro_sig M_o1) (macro_body M_o1) strict h
  = inl (RHashTypeMismatchForName (`"mo1") (`"k") (`"i64")).
Proof. exact M_o1_option_mismatch. Qed.
Print Assumptions C20_family_M_o1_option_mismatch.

(* m2(a: i64, b: str) *)
Theorem C20_family_M_2 : forall strict h v,
  macro_call (macro_sig M_2) (macro_body M_2) strict h = inr v ->
  exists x y a b,
    nth_error (hv_params h) 0 = Some x /\ nth_error (hv_params h) 1 = Some y /\
    conv TI64 (pj_value x) = Some (VI64 a) /\ pj_value y = JStr b /\
    v = pfx "m2:" (z_to_dec a ++ `":" ++ b).
Proof. exact M_2_delivery. Qed.
Print Assumptions C20_family_M_2.

Theorem C20_family_M_2_second_illtyped : forall strict h x y,
  hv_params h = [x; y] ->
  (strict = true -> sc_missing (pj_val x) = false) ->
  (strict = true -> sc_missing (pj_val y) = false) ->
  conv TI64 (pj_value x) <> None ->
  (forall s, pj_value y <> JStr s) ->
  macro_call (macro_sig M_2) (macro_body M_2) strict h
  = inl (RParamTypeMismatchForName (`"m2") (`"b") (`"str")).
Proof. exact M_2_second_illtyped. Qed.
Print Assumptions C20_family_M_2_second_illtyped.
