(* Props/C03_full.v — property C03 for whole templates.

   Vocabulary: Spec/StripTags.v (strip_tags, raw_text_of, flat_plain,
   main_spans, tiles, covered, ws_char), Spec/WsSpec.v (prev_end).

   1. Tiling (every source, blocks included): the main-level tokens of the
      parse — raw text, tags, comments, block tags at every nesting depth —
      come in order, do not overlap and lie inside the source; every character
      outside their spans is a space, tab, LF or CR; and the loop's prev_end is
      always the end of the last such token.
   2. Conservation, flat fragment: for a source without blocks, without `~` and
      without a comment / partial / decorator tag standing alone on its line,
      the raw text of the compiled template, in order, is the source with its
      tag spans deleted and the escapes resolved; if moreover the tags write
      nothing when rendered, that is the rendered output.
   The same with blocks (bodies in document order), and — for every source,
   with the `~` / standalone trims of Props/C11.v firing — conservation up to
   the whitespace they remove, are Props/C03_blocks.v. *)
From Coq Require Import List NArith Bool.
From HB Require Import Base.Str Peg.Peg Peg.Grammar Tpl.Ast Tpl.Compile Spec.AlignedSpec Spec.WsSpec
  Spec.WfTokens Spec.StripTags Rt.State Rt.Eval Rt.Render Proofs.Conservation.
Import ListNotations.
Open Scope N_scope.

(* ---------- 1. the tiling ---------- *)
Theorem C03_tokens_tile_source : forall fuel src ts,
  hb_parse fuel R_handlebars src = Parsed ts ->
  tiles 0 (len src) (main_spans (filter not_escape ts)).
Proof. exact tokens_tile_source. Qed.
Print Assumptions C03_tokens_tile_source.

Theorem C03_gaps_are_blank : forall fuel src ts,
  hb_parse fuel R_handlebars src = Parsed ts ->
  forall x c, nth_error src (N.to_nat x) = Some c ->
  covered (main_spans (filter not_escape ts)) x = false -> ws_char c = true.
Proof. exact gaps_blank. Qed.
Print Assumptions C03_gaps_are_blank.

Theorem C03_prev_end_is_last_token_end : forall src all opts f c pr it c' it',
  step src all opts f c pr it = COk (c', it') ->
  prev_end c' = match tag_classify (tk_rule pr) with KTemplate => prev_end c | _ => tk_end pr end.
Proof. exact step_prev_end. Qed.
Print Assumptions C03_prev_end_is_last_token_end.

(* ---------- 2. conservation, flat fragment ---------- *)
Theorem C03_conservation_flat : forall src opts ts t,
  hb_parse (peg_fuel src) R_handlebars src = Parsed ts ->
  flat_plain src opts ts = true ->
  compile2 src opts = COk t ->
  raw_text_of (t_els t) = strip_tags src ts (filter not_escape ts) 0.
Proof. exact conservation_flat. Qed.
Print Assumptions C03_conservation_flat.

(* without escape tokens the stripped text is made of plain slices of src *)
Theorem C03_strip_tags_plain : forall src all,
  (forall t, In t all -> is_rule R_escape t = false) ->
  forall it pe0, strip_tags src all it pe0 = strip_tags_plain src it pe0.
Proof. exact strip_tags_no_escape. Qed.
Print Assumptions C03_strip_tags_plain.

(* rendering: if every element that is not raw text writes nothing and leaves
   the state alone (comments always do), the output is the stripped source *)
Theorem C03_conservation_flat_renders : forall src opts ts t reg data ft f root dev,
  hb_parse (peg_fuel src) R_handlebars src = Parsed ts ->
  flat_plain src opts ts = true ->
  compile2 src opts = COk t ->
  (1 <= f)%nat ->
  (forall el st', In el (t_els t) -> match el with ElRaw _ => True
                                | _ => render_element reg data ft f el st' = ROk tt st' end) ->
  exists st', render_template reg data ft (S f) t (st_init root dev None) = ROk tt st'
    /\ out_text (s_out st') = strip_tags src ts (filter not_escape ts) 0.
Proof. exact conservation_flat_renders. Qed.
Print Assumptions C03_conservation_flat_renders.

(* any template whose non-raw elements are silent renders to its raw text *)
Theorem C03_silent_tags_render_raw_text : forall reg data ft f t st,
  s_indent st = None -> o_fail_at (s_out st) = None -> (1 <= f)%nat ->
  (forall el st', In el (t_els t) -> match el with ElRaw _ => True
                                | _ => render_element reg data ft f el st' = ROk tt st' end) ->
  exists st', render_template reg data ft (S f) t st = ROk tt st'
    /\ out_text (s_out st') = out_text (s_out st) ++ raw_text_of (t_els t).
Proof. exact render_silent_tags. Qed.
Print Assumptions C03_silent_tags_render_raw_text.
