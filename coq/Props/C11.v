(* Props/C11.v — property C11 (and the C03 clause "whitespace is removed only
   where a ~ marker or the standalone rule says so"), compile-loop level: the
   flag discipline of `step` (Tpl/Compile.v) for EVERY tag class, every state,
   every token and every fuel — no token-stream hypothesis.
   Vocabulary (Spec/WsSpec.v): prev_end, ws_text (what c_omit / c_trim do to the
   following text), unescape, lead_trim (leading ~), standalone / line_end_after /
   line_start_before / sa_trim (the standalone rule on the source as written),
   tag_expr (the tag's parsed expression; for a chained else the optional ~ token
   is or-ed into es_pre), tag_ws_stack (the stack as the tag's own effect sees
   it), own_effect, trailing_push; trailing_fires is in Spec/AlignedSpec.v.
   Leaf specifications of the string predicates: Props/C11_leaf.v.
   Statements only; proofs in Proofs/WsProofs.v. *)
From HB Require Import Tpl.Compile Spec.AlignedSpec Spec.WsSpec Proofs.WsProofs.
Open Scope N_scope.

(* 1. omit_pro_ws never survives a tag: after a tag that carries an expression it
   is exactly "this tag has a trailing ~"; after a comment it is false; text
   tokens (and template / other tokens, which are not tags) leave it as it is *)
Theorem C11_omit_flag : forall src all_tokens opts fuel c pr it c' it',
  step src all_tokens opts fuel c pr it = COk (c', it') ->
  match tag_classify (tk_rule pr) with
  | KComment _ => c_omit c' = false
  | KTemplate | KRawText | KRawBlockText | KOtherRule => c_omit c' = c_omit c
  | _ => exists e, tag_expr src fuel pr it = COk (e, it') /\ c_omit c' = es_pro e
  end.
Proof. exact omit_flag. Qed.
Print Assumptions C11_omit_flag.

(* 2. trim_line_required is the standalone verdict of the tag just seen (a closed
   function of source, token and the is_partial option), false after a value
   expression and after a raw_text element; a raw_block_text uses it without
   resetting it (the raw_block_end that follows sets it); the trailing-string
   pre-step in front of any other token consumes it *)
Theorem C11_trim_flag : forall src all_tokens opts fuel c pr it c' it',
  step src all_tokens opts fuel c pr it = COk (c', it') ->
  match tag_classify (tk_rule pr) with
  | KBlockStart _ | KInvert _ | KHelperEnd | KDecoEnd _ | KDecoExpr _ | KComment _ =>
      c_trim c' = standalone src pr (o_is_partial opts)
  | KValueExpr _ | KRawText => c_trim c' = false
  | KRawBlockText | KTemplate => c_trim c' = c_trim c
  | KOtherRule => c_trim c' = if trailing_fires c pr then false else c_trim c
  end.
Proof. exact trim_flag. Qed.
Print Assumptions C11_trim_flag.

(* 3. looking back: the tag's own effect (push / pop, see own_effect) acts on
   tag_ws_stack .. (es_pre e) (stack after the pre-step), i.e. on the stack in
   which at most the last raw element of the FRONT template was rewritten: by
   trim_end iff the expression has a leading ~ (es_pre, including the chained
   else's ~ via es_or_pre), then by trim_end_blank iff the tag stands alone on
   its line (and prevent_indent) — and nothing else *)
Theorem C11_leading_tilde : forall src all_tokens opts fuel c pr it c' it',
  step src all_tokens opts fuel c pr it = COk (c', it') ->
  let lc := line_col src (tk_start pr) in
  let cls := tag_classify (tk_rule pr) in
  expr_class cls = true ->
  exists c1 e,
    trailing_string src c pr lc = COk c1 /\
    tag_expr src fuel pr it = COk (e, it') /\
    own_effect cls lc (tag_ws_stack src opts cls pr (es_pre e) (c_ts c1)) (c_ts c').
Proof. exact leading_tilde. Qed.
Print Assumptions C11_leading_tilde.

Theorem C11_comment : forall src all_tokens opts fuel c pr it c' it' compact,
  step src all_tokens opts fuel c pr it = COk (c', it') ->
  tag_classify (tk_rule pr) = KComment compact ->
  exists c1,
    trailing_string src c pr (line_col src (tk_start pr)) = COk c1 /\
    own_effect (KComment compact) (line_col src (tk_start pr))
               (tag_ws_stack src opts (KComment compact) pr false (c_ts c1)) (c_ts c') /\
    it' = it.
Proof. exact comment_ws. Qed.
Print Assumptions C11_comment.

(* the rewriting function of lead_trim / sa_trim touches only a last RAW element *)
Theorem C11_map_last_raw :
  (forall f n es s m, map_last_raw f (MkT n (es ++ [ElRaw s]) m) = MkT n (es ++ [ElRaw (f s)]) m) /\
  (forall f n es e m, (forall s, e <> ElRaw s) ->
                      map_last_raw f (MkT n (es ++ [e]) m) = MkT n (es ++ [e]) m) /\
  (forall f n m, map_last_raw f (MkT n [] m) = MkT n [] m).
Proof. exact (conj map_last_raw_raw (conj map_last_raw_other map_last_raw_empty)). Qed.
Print Assumptions C11_map_last_raw.

(* no leading ~ and not alone on its line: the text in front of the tag is untouched *)
Theorem C11_no_trim_otherwise : forall src opts cls pr ts,
  match standalone_capable opts cls with
  | None => True
  | Some pi => line_end_after src pr (o_is_partial opts) && (pi && line_start_before src pr) = false
  end ->
  tag_ws_stack src opts cls pr false ts = ts.
Proof. exact tag_ws_stack_id. Qed.
Print Assumptions C11_no_trim_otherwise.

(* 4. the text element: a raw_text token pushes the source slice from the end of
   the previous main-level token (so including the whitespace pest skipped) to
   its own end, escapes removed, then trimmed as the two flags say; it resets
   c_trim and leaves c_omit *)
Theorem C11_text_element : forall src all_tokens opts fuel c pr it c' it',
  step src all_tokens opts fuel c pr it = COk (c', it') ->
  tag_classify (tk_rule pr) = KRawText ->
  exists txt s t r,
    slice src (prev_end c) (tk_end pr) = Some txt /\
    unescape all_tokens pr txt = COk s /\
    c_ts c = t :: r /\
    c_ts c' = t_push t (ElRaw (ws_text (c_omit c) (c_trim c) s)) (line_col src (tk_start pr)) :: r /\
    c_omit c' = c_omit c /\ c_trim c' = false /\ it' = it.
Proof. exact text_element. Qed.
Print Assumptions C11_text_element.

Theorem C11_raw_block_text_element : forall src all_tokens opts fuel c pr it c' it',
  step src all_tokens opts fuel c pr it = COk (c', it') ->
  tag_classify (tk_rule pr) = KRawBlockText ->
  exists txt s,
    slice src (prev_end c) (tk_end pr) = Some txt /\
    unescape all_tokens pr txt = COk s /\
    c_ts c' = t_push t_empty (ElRaw (ws_text (c_omit c) (c_trim c) s)) (line_col src (tk_start pr))
              :: c_ts c /\
    c_omit c' = c_omit c /\ c_trim c' = c_trim c /\ it' = it.
Proof. exact raw_block_text_element. Qed.
Print Assumptions C11_raw_block_text_element.

(* the trailing-string pre-step (whitespace pest skipped in front of a non-text
   token): skipped altogether when c_omit is set; otherwise the slice from the
   previous token's end to the tag's start, with only the standalone trimming
   (never trim_start), and c_trim is consumed *)
Theorem C11_trailing_string : forall src c pr lc c1,
  trailing_string src c pr lc = COk c1 ->
  c_omit c1 = c_omit c /\ c_hs c1 = c_hs c /\ c_ds c1 = c_ds c /\ c_end c1 = c_end c /\
  if trailing_fires c pr
  then c_omit c = false /\ c_trim c1 = false /\
       exists txt, slice src (prev_end c) (tk_start pr) = Some txt
                   /\ trailing_push c pr lc (ElRaw (ws_text false (c_trim c) txt)) (c_ts c1)
  else c1 = c.
Proof. exact trailing_string_spec. Qed.
Print Assumptions C11_trailing_string.

(* C03: with both flags down the text between two tags is pushed VERBATIM *)
Theorem C03_text_verbatim_step : forall src all_tokens opts fuel c pr it c' it',
  step src all_tokens opts fuel c pr it = COk (c', it') ->
  tag_classify (tk_rule pr) = KRawText ->
  c_omit c = false -> c_trim c = false -> inner_escapes all_tokens pr = [] ->
  exists txt t r,
    slice src (prev_end c) (tk_end pr) = Some txt /\
    c_ts c = t :: r /\
    c_ts c' = t_push t (ElRaw txt) (line_col src (tk_start pr)) :: r.
Proof. exact text_verbatim_step. Qed.
Print Assumptions C03_text_verbatim_step.

Theorem C03_trailing_verbatim_step : forall src c pr lc c1,
  trailing_string src c pr lc = COk c1 ->
  trailing_fires c pr = true -> c_trim c = false ->
  exists txt, slice src (prev_end c) (tk_start pr) = Some txt
              /\ trailing_push c pr lc (ElRaw txt) (c_ts c1).
Proof. exact trailing_verbatim_step. Qed.
Print Assumptions C03_trailing_verbatim_step.

(* 5. the standalone check: verdict and only side effect, as closed functions of
   the source around the tag ... *)
Theorem C11_standalone_spec : forall src ts pr prevent_indent is_partial b ts',
  process_standalone_statement src ts pr prevent_indent is_partial = COk (b, ts') ->
  b = standalone src pr is_partial /\ ts' = sa_trim src pr prevent_indent is_partial ts.
Proof. exact process_standalone_statement_spec. Qed.
Print Assumptions C11_standalone_spec.

(* ... it succeeds whenever the token lies inside the source and a front template exists ... *)
Theorem C11_standalone_total : forall src ts pr prevent_indent is_partial,
  (exists after, suffix_from src (tk_end pr) = Some after) ->
  (exists before, prefix_to src (tk_start pr) = Some before) ->
  ts <> [] ->
  process_standalone_statement src ts pr prevent_indent is_partial
  = COk (standalone src pr is_partial, sa_trim src pr prevent_indent is_partial ts).
Proof. exact process_standalone_statement_ok. Qed.
Print Assumptions C11_standalone_total.

(* ... and the verdict in the words of the property (32 space, 9 tab, 10 LF, 13 CR;
   the phrases are those of C11_starts_with_empty_line / C11_ends_with_empty_line):
   after the tag come blanks and a line break — or, in a non-partial template,
   only blanks up to the end —, and before the tag only blanks back to the
   previous line break or to the start of the template *)
Theorem C11_standalone_closed_form : forall src pr is_partial,
  standalone src pr is_partial = true <->
  exists before after,
    prefix_to src (tk_start pr) = Some before /\ suffix_from src (tk_end pr) = Some after /\
    ((exists b c r, after = b ++ c :: r /\ Forall (fun c => c = 32 \/ c = 9) b /\ (c = 10 \/ c = 13))
     \/ (is_partial = false /\ Forall (fun c => c = 32 \/ c = 9) after)) /\
    (tk_start pr = 0
     \/ exists p t, before = p ++ t /\ Forall (fun c => c = 32 \/ c = 9) t /\
          (p = [] \/ exists p' c, p = p' ++ [c] /\ (c = 10 \/ c = 13))).
Proof. exact standalone_closed_form. Qed.
Print Assumptions C11_standalone_closed_form.
