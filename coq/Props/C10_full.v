(* Props/C10_full.v — property C10, third clause: strict mode only ADDS errors,
   and only errors of two reasons (strict_only_reason, Spec/StrictOnlySpec.v):
     RMissingVariable _          expression on a missing value, each / with
                                 without else, lookup of an absent key, a value
                                 helper returning a missing value;
     RParamNotFoundForName _ _   a handlebars_helper! macro helper (eq, ne, gt,
                                 ..., not, len, user macros) given a missing
                                 positional parameter: macros.rs rejects it in
                                 strict mode with this reason, NOT with
                                 MissingVariable.
   `so x y` (Spec/StrictOnlySpec.v): the strict outcome x coincides with the
   non-strict outcome y (same value / error / panic site, same final state) or
   is an error with a strict-only reason.  Statements only; proofs in
   Proofs/StrictOnly.v.  Together with C10_mono (Props/C10.v: a strict success
   is the same non-strict success) and C10_missing* (when the errors are
   raised) this closes C10. *)
From HB Require Import Reg.RegOps Spec.StrictOnlySpec Proofs.StrictOnly.

Theorem C10_only_missing_variable : forall (reg_s reg_n : registry),
  r_templates reg_s = r_templates reg_n -> r_sources reg_s = r_sources reg_n ->
  r_helpers reg_s = r_helpers reg_n -> r_decorators reg_s = r_decorators reg_n ->
  r_escape reg_s = r_escape reg_n -> r_esc_mark reg_s = r_esc_mark reg_n ->
  r_dev reg_s = r_dev reg_n -> r_prevent_indent reg_s = r_prevent_indent reg_n ->
  r_strict reg_s = true -> r_strict reg_n = false ->
  forall (data : json) (ft : ftable) (fuel : nat) (t : template) (s : rstate) (u : unit) (s' : rstate),
    render_template reg_n data ft fuel t s = ROk u s' ->
    render_template reg_s data ft fuel t s = ROk u s' \/
    exists e s'', render_template reg_s data ft fuel t s = RErr e s'' /\
                  strict_only_reason (e_reason e) = true.
Proof. exact only_missing_variable. Qed.
Print Assumptions C10_only_missing_variable.

Theorem C10_only_missing_variable_element : forall (reg_s reg_n : registry),
  r_templates reg_s = r_templates reg_n -> r_sources reg_s = r_sources reg_n ->
  r_helpers reg_s = r_helpers reg_n -> r_decorators reg_s = r_decorators reg_n ->
  r_escape reg_s = r_escape reg_n -> r_esc_mark reg_s = r_esc_mark reg_n ->
  r_dev reg_s = r_dev reg_n -> r_prevent_indent reg_s = r_prevent_indent reg_n ->
  r_strict reg_s = true -> r_strict reg_n = false ->
  forall (data : json) (ft : ftable) (fuel : nat) (e : element) (s : rstate) (u : unit) (s' : rstate),
    render_element reg_n data ft fuel e s = ROk u s' ->
    render_element reg_s data ft fuel e s = ROk u s' \/
    exists er s'', render_element reg_s data ft fuel e s = RErr er s'' /\
                   strict_only_reason (e_reason er) = true.
Proof. exact only_missing_variable_element. Qed.
Print Assumptions C10_only_missing_variable_element.

(* all sixteen functions, and every non-strict outcome (not only successes):
   the strict run never has a different error, a panic or a fuel exhaustion
   that the non-strict run does not have *)
Theorem C10_strict_only_all : forall (reg_s reg_n : registry),
  r_templates reg_s = r_templates reg_n -> r_sources reg_s = r_sources reg_n ->
  r_helpers reg_s = r_helpers reg_n -> r_decorators reg_s = r_decorators reg_n ->
  r_escape reg_s = r_escape reg_n -> r_esc_mark reg_s = r_esc_mark reg_n ->
  r_dev reg_s = r_dev reg_n -> r_prevent_indent reg_s = r_prevent_indent reg_n ->
  r_strict reg_s = true -> r_strict reg_n = false ->
  forall (data : json) (ft : ftable) (fuel : nat),
    (forall t s, so (render_template reg_s data ft fuel t s) (render_template reg_n data ft fuel t s)) /\
    (forall t s, so (eval_template reg_s data ft fuel t s) (eval_template reg_n data ft fuel t s)) /\
    (forall t s, so (opt_render reg_s data ft fuel t s) (opt_render reg_n data ft fuel t s)) /\
    (forall e s, so (render_element reg_s data ft fuel e s) (render_element reg_n data ft fuel e s)) /\
    (forall e s, so (eval_element reg_s data ft fuel e s) (eval_element reg_n data ft fuel e s)) /\
    (forall ht html s, so (render_expression reg_s data ft fuel ht html s)
                          (render_expression reg_n data ft fuel ht html s)) /\
    (forall ht s, so (render_helper reg_s data ft fuel ht s) (render_helper reg_n data ft fuel ht s)) /\
    (forall ht s, so (helper_from_template reg_s data ft fuel ht s)
                     (helper_from_template reg_n data ft fuel ht s)) /\
    (forall dt s, so (deco_from_template reg_s data ft fuel dt s) (deco_from_template reg_n data ft fuel dt s)) /\
    (forall p s, so (expand_as_name reg_s data ft fuel p s) (expand_as_name reg_n data ft fuel p s)) /\
    (forall p s, so (expand_param reg_s data ft fuel p s) (expand_param reg_n data ft fuel p s)) /\
    (forall hid h s, so (call_helper_for_value reg_s data ft fuel hid h s)
                        (call_helper_for_value reg_n data ft fuel hid h s)) /\
    (forall hid h s, so (call_helper reg_s data ft fuel hid h s) (call_helper reg_n data ft fuel hid h s)) /\
    (forall dt s, so (eval_decorator reg_s data ft fuel dt s) (eval_decorator reg_n data ft fuel dt s)) /\
    (forall dt s, so (render_partial reg_s data ft fuel dt s) (render_partial reg_n data ft fuel dt s)) /\
    (forall d s, so (expand_partial reg_s data ft fuel d s) (expand_partial reg_n data ft fuel d s)).
Proof. exact two_only_at. Qed.
Print Assumptions C10_strict_only_all.

(* the eight registry entry points *)
Theorem C10_strict_only_entry : forall (reg_s reg_n : registry),
  r_templates reg_s = r_templates reg_n -> r_sources reg_s = r_sources reg_n ->
  r_helpers reg_s = r_helpers reg_n -> r_decorators reg_s = r_decorators reg_n ->
  r_escape reg_s = r_escape reg_n -> r_esc_mark reg_s = r_esc_mark reg_n ->
  r_dev reg_s = r_dev reg_n -> r_prevent_indent reg_s = r_prevent_indent reg_n ->
  r_strict reg_s = true -> r_strict reg_n = false ->
  forall (data : json) (ft : ftable) (fs : files) (entry : N) (target : str) (fail_at : option N),
    so_obs (render_entry reg_s fs ft entry target data fail_at)
           (render_entry reg_n fs ft entry target data fail_at).
Proof. exact only_entry. Qed.
Print Assumptions C10_strict_only_entry.

Theorem C10_only_missing_variable_entry : forall (reg_s reg_n : registry),
  r_templates reg_s = r_templates reg_n -> r_sources reg_s = r_sources reg_n ->
  r_helpers reg_s = r_helpers reg_n -> r_decorators reg_s = r_decorators reg_n ->
  r_escape reg_s = r_escape reg_n -> r_esc_mark reg_s = r_esc_mark reg_n ->
  r_dev reg_s = r_dev reg_n -> r_prevent_indent reg_s = r_prevent_indent reg_n ->
  r_strict reg_s = true -> r_strict reg_n = false ->
  forall (data : json) (ft : ftable) (fs : files) (entry : N) (target : str) (fail_at : option N)
         (out log : str) (n : N),
    render_entry reg_n fs ft entry target data fail_at = RoOk out log n ->
    render_entry reg_s fs ft entry target data fail_at = RoOk out log n \/
    exists e accepted log', render_entry reg_s fs ft entry target data fail_at = RoErr e accepted log' /\
                            strict_only_reason (e_reason e) = true.
Proof. exact only_entry_ok. Qed.
Print Assumptions C10_only_missing_variable_entry.

(* the macro expansion itself: strict coincides or rejects a missing parameter *)
Theorem C10_macro_call_strict_only : forall sg body h,
  macro_call sg body true h = macro_call sg body false h \/
  exists p, macro_call sg body true h = inl (RParamNotFoundForName (ms_name sg) p).
Proof. exact macro_call_so. Qed.
Print Assumptions C10_macro_call_strict_only.
