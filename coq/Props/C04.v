(* Props/C04.v — property C04: compiling any string terminates with a template
   or a TemplateError.  Statements only; proofs in Proofs/PegFacts.v,
   Proofs/PegTermination.v, Proofs/CompileNoPanic.v, Proofs/CompileStages.v,
   Proofs/CompilePositions.v, Proofs/CompileTermination.v, Proofs/PegForest.v,
   Proofs/GrammarSchema.v; the token grammar wf_tokens is in Spec/WfTokens.v.

   Status of the pieces:
   * C04_chain_tilde_compiles        the former F1 witness `{{~else if}}` compiles (defect fixed).
   * C04_positions, C04_line_col_inside, C04_error_kinds
                                     full (every source).
   * C04_eval_fuel_mono, C04_eval_good, C04_quiet_no_tokens, C04_parse_spans
                                     full, generic in the grammar.
   * C04_wf_grammar, C04_rep_progress, C04_peg_terminates, C04_compile_terminates
                                     full: the PEG interpreter on the generated grammar needs fuel
                                     hb_K + (hb_K+1)*|src| at most, peg_fuel src dominates it, and
                                     the fold's own fuel 16 + 4*|tokens| suffices for main_loop, the
                                     tag-body parsers and the else-chain reversal: compile2 never
                                     returns CFuel (with the outcome type this is "never hangs").
   * C04_tag_parsers_no_panic, C04_no_panic_wf_tokens
                                     the compile2 fold never panics on token lists in wf_tokens.
   * C04_schema                      full: every token list the PEG interpreter yields for the
                                     generated grammar is in wf_tokens, its escapes are ordered.
   * C04_no_panic, C04_compile_total full, unconditional: for every source and all options
                                     compile2 returns a template or a TemplateError — no panic,
                                     no fuel exhaustion. *)
From Coq Require Import List NArith Lia.
From HB Require Import Peg.Peg Peg.Grammar Tpl.Ast Tpl.Compile Spec.WfTokens
  Proofs.PegFacts Proofs.PegTermination Proofs.CompileNoPanic Proofs.CompileStages Proofs.CompilePositions
  Proofs.CompileTermination Proofs.PegForest Proofs.GrammarSchema Proofs.GrammarTemplates.
Import ListNotations.
Open Scope N_scope.

(* ---------- the chained else accepts a leading `~` (was finding F1) ---------- *)
Theorem C04_chain_tilde_compiles :
  compile2 (`"{{#if a}}A{{~else if b}}B{{/if}}") default_opts =
  COk (MkT None
        [ElBlock
           (MkH (PName (`"if")) [PPath (PathRelative [SegNamed (`"a")] (`"a"))] [] None
              (Some (MkT None [ElRaw (`"A")] [(1, 10)]))
              (Some (MkT None
                       [ElBlock
                          (MkH (PName (`"if")) [PPath (PathRelative [SegNamed (`"b")] (`"b"))] [] None
                             (Some (MkT None [ElRaw (`"B")] [(1, 25)])) None true true false)] []))
              true true false)]
        [(1, 1)]).
Proof. exact chain_tilde_compiles. Qed.
Print Assumptions C04_chain_tilde_compiles.

(* ---------- error positions ---------- *)
Theorem C04_line_col_inside : forall (s : str) (pos l c : N),
  line_col s pos = (l, c) ->
  1 <= l /\ l <= 1 + count_lf s /\ 1 <= c /\ c <= 1 + pos /\ c <= 1 + len s.
Proof. exact line_col_inside. Qed.
Print Assumptions C04_line_col_inside.

(* a mismatched block end reported by compile2 carries pest's line/column of
   the start of a closing-tag token of the parsed source; that start is inside
   the source and the line/column are within the source's lines *)
Theorem C04_positions : forall src opts e, compile2 src opts = CErr e ->
  match e with
  | TEMismatchHelper _ _ l c | TEMismatchDeco _ _ l c =>
      exists ts pr, hb_parse (peg_fuel src) R_handlebars src = Parsed ts /\ In pr ts /\
        (match e with TEMismatchHelper _ _ _ _ => tag_classify (tk_rule pr) = KHelperEnd
                    | _ => exists b, tag_classify (tk_rule pr) = KDecoEnd b end) /\
        tk_start pr <= len src /\ line_col src (tk_start pr) = (l, c) /\
        1 <= l /\ l <= 1 + count_lf src /\ 1 <= c /\ c <= 1 + tk_start pr
  | _ => True
  end.
Proof. exact mismatch_positions. Qed.
Print Assumptions C04_positions.

(* the errors compile2 can return: syntax, mismatch (helper/decorator), invalid parameter *)
Theorem C04_error_kinds : forall src opts e, compile2 src opts = CErr e ->
  match e with TEIo => False | _ => True end.
Proof. exact compile2_error_kinds. Qed.
Print Assumptions C04_error_kinds.

(* ---------- the PEG interpreter, for any grammar ---------- *)
Theorem C04_eval_fuel_mono : forall (rule : Type) (defs : rule -> rkind * expr rule) (ws : expr rule)
    f e at_ q inp pos r,
  eval rule defs ws f e at_ q inp pos = r -> r <> OutOfFuel ->
  forall f', (f <= f')%nat -> eval rule defs ws f' e at_ q inp pos = r.
Proof. exact eval_fuel_mono. Qed.
Print Assumptions C04_eval_fuel_mono.

Theorem C04_eval_good : forall (rule : Type) (defs : rule -> rkind * expr rule) (ws : expr rule)
    f e at_ q inp pos pos' rest ts,
  eval rule defs ws f e at_ q inp pos = Ok pos' rest ts ->
  pos <= pos' /\
  (exists consumed, inp = consumed ++ rest /\ len consumed = pos' - pos) /\
  Forall (fun t => pos <= tk_start t /\ tk_start t <= tk_end t /\ tk_end t <= pos') ts.
Proof. exact eval_good_spans. Qed.
Print Assumptions C04_eval_good.

Theorem C04_quiet_no_tokens : forall (rule : Type) (defs : rule -> rkind * expr rule) (ws : expr rule)
    f e at_ inp pos pos' rest ts,
  eval rule defs ws f e at_ true inp pos = Ok pos' rest ts -> ts = [].
Proof. exact quiet_no_tokens. Qed.
Print Assumptions C04_quiet_no_tokens.

Theorem C04_parse_spans : forall fuel start src ts,
  hb_parse fuel start src = Parsed ts ->
  Forall (fun t => tk_start t <= tk_end t /\ tk_end t <= len src) ts.
Proof. exact hb_parse_spans. Qed.
Print Assumptions C04_parse_spans.

(* ---------- never hangs: the PEG part ---------- *)
(* the executable well-formedness analysis (no nullable repetition body, no
   left recursion) accepts the generated grammar *)
Theorem C04_wf_grammar : wf_grammar = true.
Proof. exact wf_grammar_hb. Qed.
Print Assumptions C04_wf_grammar.

(* progress: every repetition body of the grammar, and every whole iteration
   `skip ~ body`, consumes at least one character when it succeeds *)
Theorem C04_rep_progress : forall r a, In a (rep_bodies rule (snd (hb_defs r))) ->
  forall f at_ q inp pos pos' rest ts,
  (hb_eval f a at_ q inp pos = Ok pos' rest ts -> pos < pos') /\
  (hb_eval f (ESeq ESkip a) at_ q inp pos = Ok pos' rest ts -> pos < pos').
Proof. exact hb_rep_progress. Qed.
Print Assumptions C04_rep_progress.

(* fuel linear in the input length suffices, for every start rule *)
Theorem C04_peg_terminates : exists a b : nat, forall start src fuel,
  (a + b * length src <= fuel)%nat -> hb_parse fuel start src <> ParseOutOfFuel.
Proof. exact hb_parse_terminates. Qed.
Print Assumptions C04_peg_terminates.

(* compile2 never runs out of fuel: for every source and all options the outcome
   is never CFuel *)
Theorem C04_compile_terminates : forall src opts, compile2 src opts <> CFuel.
Proof. exact compile2_terminates. Qed.
Print Assumptions C04_compile_terminates.

(* the PEG stage alone, with the fuel compile2 passes, for every start rule *)
Theorem C04_peg_stage_terminates : forall src start,
  hb_parse (peg_fuel src) start src <> ParseOutOfFuel.
Proof. exact peg_stage_terminates. Qed.
Print Assumptions C04_peg_stage_terminates.

(* ---------- no panic in the compile2 fold over wf_tokens ---------- *)
(* the tag-body parser consumes exactly the tag's tokens and never panics *)
Theorem C04_tag_parsers_no_panic : forall src fuel limit l rest,
  tag_toks limit l -> Forall (span_ok src) l ->
  match rest with [] => True | t :: _ => limit <= tk_end t end ->
  match parse_expression src fuel (l ++ rest) limit with
  | COk r => snd r = rest
  | CPanic _ => False
  | _ => True
  end.
Proof. intros src fuel. exact (proj1 (discipline src fuel)). Qed.
Print Assumptions C04_tag_parsers_no_panic.

Theorem C04_no_panic_wf_tokens : forall src opts,
  (forall ts, hb_parse (peg_fuel src) R_handlebars src = Parsed ts ->
              wf_tokens (filter not_escape ts) /\ escapes_sorted ts) ->
  forall site, compile2 src opts <> CPanic site.
Proof. exact compile2_no_panic_wf. Qed.
Print Assumptions C04_no_panic_wf_tokens.

(* ---------- the grammar-schema theorem ---------- *)
Theorem C04_schema : forall fuel src ts,
  hb_parse fuel R_handlebars src = Parsed ts ->
  wf_tokens (filter not_escape ts) /\ escapes_sorted ts.
Proof. exact hb_parse_wf. Qed.
Print Assumptions C04_schema.

(* ---------- compile2 never panics: every source, all options ---------- *)
Theorem C04_no_panic : forall src opts site, compile2 src opts <> CPanic site.
Proof. exact compile2_no_panic. Qed.
Print Assumptions C04_no_panic.

(* compiling any string ends with a template or a TemplateError *)
Theorem C04_compile_total : forall src opts,
  (exists t, compile2 src opts = COk t) \/ (exists e, compile2 src opts = CErr e).
Proof. exact compile2_total. Qed.
Print Assumptions C04_compile_total.
