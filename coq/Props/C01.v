(* Props/C01.v — property C01: path expressions resolve to the value the scope
   rules designate.  Statements only; the declarative semantics (`scope`,
   `designate`, `start_of`, `descend`, `nonindex_into_array`, `explicit_this`,
   `head_is_param`) and the refinement relation `R` between the model's block
   stack and a scope stack are in Spec/Scope.v; proofs in Proofs/PathProofs.v
   and Proofs/EachProofs.v.

   Three classes of paths are REFUTED on the pinned tree (the model, validated
   against the crate, departs from the property text):
     F9   a non-numeric segment applied to an array is an InvalidJsonIndex
          error, not "nothing"            (C01_refuted_array_key)
     F16  `../name` with `name` a block parameter of an enclosing block yields
          the parameter                   (C01_refuted_up_param)
     F17  `this.name` / `./name` likewise (C01_refuted_this_param); the prefix
          is not even present in the path AST (`this` is filtered out when the
          segment list is built), only in the raw spelling `path_raw`, which is
          why the spec reads `explicit_this raw`.
   C01_paths is the strongest true variant: it covers every grammar-shaped
   relative path under the executable side condition "if the path carries ../
   or an explicit this-prefix then its head is not a block-parameter name"
   and describes the F9 error outcome exactly. *)
From Coq Require Import List NArith.
From HB Require Import Rt.Render Spec.Scope Proofs.PathProofs Proofs.EachProofs.
Import ListNotations.
Open Scope N_scope.
Open Scope list_scope.

(* ---------- R: established initially, preserved by with / each / partial ---------- *)
Theorem C01_R_init : forall D, R D [block_new] [root_scope D].
Proof. exact R_init. Qed.
Print Assumptions C01_R_init.

(* the With arm pushes with_block, which is R-related to with_scope *)
Theorem C01_R_with : forall reg data ft f h s param rest,
  hv_params h = param :: rest ->
  is_truthy false (pj_value param) = true ->
  call_helper reg data ft (S f) HWith h s =
  rbind (opt_render reg data ft f (hv_tpl h) (push_block (with_block (hv_bp h) param) s))
        (fun _ s1 => ROk tt (pop_block s1)).
Proof. exact with_unfold. Qed.
Print Assumptions C01_R_with.

Theorem C01_R_with_rel : forall D blocks scopes bp param,
  R D blocks scopes -> pj_ok D param ->
  R D (with_block bp param :: blocks) (with_scope bp (pj_value param) :: scopes).
Proof. exact R_with. Qed.
Print Assumptions C01_R_with_rel.

(* parameters produced by navigation satisfy pj_ok *)
Theorem C01_navigate_pj_ok : forall D segs blocks r rel,
  navigate D segs blocks = NavOk r -> pj_ok D {| pj_rel := rel; pj_val := r |}.
Proof. exact navigate_pj_ok. Qed.
Print Assumptions C01_navigate_pj_ok.

(* iteration i of an each (the block is the closed form each_block, shown in
   C07 to be what each_iter_setup builds, on the first iteration by pushing
   the index segment and on later ones by overwriting it) *)
Theorem C01_R_each : forall D blocks scopes bp path n i key v,
  R D blocks scopes ->
  (forall p, path = Some p ->
             walk (Some D) (p ++ [match key with Some k => k | None => n_to_dec (N.of_nat i) end])
             = NavSome v) ->
  R D (each_block bp path n i key v :: blocks) (each_scope bp n i key v :: scopes).
Proof. exact R_each. Qed.
Print Assumptions C01_R_each.

(* the single block expand_partial installs (`set_blocks s3
   [b_set_base_value block_new merged]` in Rt/Render.v) *)
Theorem C01_R_partial : forall D merged,
  R D [b_set_base_value block_new merged] [partial_scope merged].
Proof. exact R_partial. Qed.
Print Assumptions C01_R_partial.

(* ---------- the main theorem ---------- *)
(* k leading ../ (k within the stack) followed by named segments; `this`,
   `./`, separators and [literal] brackets leave no trace in the segment list *)
Theorem C01_paths : forall D blocks scopes k ns raw,
  R D blocks scopes ->
  (k < length scopes)%nat ->
  ((0 < k)%nat \/ explicit_this raw = true -> head_is_param scopes ns = false) ->
  let segs := repeat (SegRuled R_path_up) k ++ map SegNamed ns in
  match navigate D segs blocks with
  | NavOk r =>
      designate scopes D (PathRelative segs raw) = (if sc_missing r then None else Some (sc_json r))
  | NavErr e =>
      exists v names s, start_of scopes D segs raw = Some (v, names)
                        /\ nonindex_into_array v names s /\ e = RInvalidJsonIndex s
  | NavPanic => False
  end.
Proof. exact paths. Qed.
Print Assumptions C01_paths.

(* F9 characterised: the error arises exactly when the designated walk meets
   an array with a segment that is not an index *)
Theorem C01_array_key_error : forall D blocks scopes k ns raw s,
  R D blocks scopes ->
  (k < length scopes)%nat ->
  ((0 < k)%nat \/ explicit_this raw = true -> head_is_param scopes ns = false) ->
  let segs := repeat (SegRuled R_path_up) k ++ map SegNamed ns in
  navigate D segs blocks = NavErr (RInvalidJsonIndex s)
  <-> exists v names, start_of scopes D segs raw = Some (v, names) /\ nonindex_into_array v names s.
Proof. exact array_key_error. Qed.
Print Assumptions C01_array_key_error.

(* @root.s... walks the render data, whatever the stack *)
Theorem C01_paths_root : forall D blocks scopes rest raw,
  let segs := SegRuled R_path_root :: rest in
  match navigate D segs blocks with
  | NavOk r =>
      designate scopes D (PathRelative segs raw) = (if sc_missing r then None else Some (sc_json r))
      /\ descend D (seg_names rest) = (if sc_missing r then None else Some (sc_json r))
  | NavErr e => exists s, nonindex_into_array D (seg_names rest) s /\ e = RInvalidJsonIndex s
  | NavPanic => False
  end.
Proof. exact paths_root. Qed.
Print Assumptions C01_paths_root.

(* @x and @../x read the iteration variables of the scope at that level *)
Theorem C01_locals : forall D scopes level name raw s,
  R D (s_blocks s) scopes ->
  evaluate2 D (PathLocal level name raw) s =
  ROk (match designate scopes D (PathLocal level name raw) with
       | Some v => SDerived v
       | None => SMissing
       end) s.
Proof. exact locals. Qed.
Print Assumptions C01_locals.

(* the same at RenderContext::evaluate2: state unchanged, no panic, no fuel *)
Theorem C01_paths_evaluate2 : forall D scopes k ns raw st,
  R D (s_blocks st) scopes ->
  (k < length scopes)%nat ->
  ((0 < k)%nat \/ explicit_this raw = true -> head_is_param scopes ns = false) ->
  let p := PathRelative (repeat (SegRuled R_path_up) k ++ map SegNamed ns) raw in
  match evaluate2 D p st with
  | ROk r st' => st' = st /\ designate scopes D p = (if sc_missing r then None else Some (sc_json r))
  | RErr e st' => st' = st /\ exists s, e = mk_err (RInvalidJsonIndex s)
  | RPanic _ => False
  | RFuel => False
  end.
Proof. exact paths_evaluate2. Qed.
Print Assumptions C01_paths_evaluate2.

(* {{path}} writes the rendered, escaped value evaluate2 returns (and nothing
   for a missing value in non-strict mode without a helperMissing hook) *)
Theorem C01_render_path_expr : forall reg data ft f p s r bp tpl inv chain ibw,
  helper_exists reg s (path_raw p) = false ->
  s_modified s = None ->
  evaluate2 data p s = ROk r s ->
  render_expression reg data ft (S (S f)) (MkH (PPath p) [] [] bp tpl inv false chain ibw) false s =
  if sc_missing r then
    if r_strict reg then RErr (mk_err (RMissingVariable (Some (path_raw p)))) s
    else match find_reg_helper reg HELPER_MISSING with
         | Some hook =>
             rbind (helper_from_template reg data ft (S f)
                      (MkH (PPath p) [] [] bp tpl inv false chain ibw) s)
                   (fun h s3 => call_helper reg data ft (S f) hook h s3)
         | None => ROk tt s
         end
  else
    let '(output, s1) := do_escape reg (json_render ft (sc_json r)) s in
    indent_aware_write output s1.
Proof. exact render_path_expr. Qed.
Print Assumptions C01_render_path_expr.

(* ---------- the refuted classes, with witnesses ---------- *)
Theorem C01_refuted_array_key :
  exists D blocks scopes ns raw s,
    R D blocks scopes
    /\ designate scopes D (PathRelative (map SegNamed ns) raw) = None
    /\ navigate D (map SegNamed ns) blocks = NavErr (RInvalidJsonIndex s).
Proof. exact refuted_array_key. Qed.
Print Assumptions C01_refuted_array_key.

Theorem C01_refuted_up_param :
  exists D blocks scopes k ns raw r,
    R D blocks scopes /\ (k < length scopes)%nat
    /\ navigate D (repeat (SegRuled R_path_up) k ++ map SegNamed ns) blocks = NavOk r
    /\ designate scopes D (PathRelative (repeat (SegRuled R_path_up) k ++ map SegNamed ns) raw)
       <> (if sc_missing r then None else Some (sc_json r)).
Proof. exact refuted_up_param. Qed.
Print Assumptions C01_refuted_up_param.

Theorem C01_refuted_this_param :
  exists D scopes raw p st r,
    R D (s_blocks st) scopes
    /\ explicit_this raw = true
    /\ path_parse raw = Some p
    /\ evaluate D raw st = ROk r st
    /\ designate scopes D p <> (if sc_missing r then None else Some (sc_json r)).
Proof. exact refuted_this_param. Qed.
Print Assumptions C01_refuted_this_param.

(* F16 in positive form: when the head names a block parameter of any
   enclosing block the leading ../ are ignored *)
Theorem C01_up_param_ignored : forall D blocks k n more x,
  get_in_block_params blocks n = Some x ->
  navigate D (repeat (SegRuled R_path_up) k ++ map SegNamed (n :: more)) blocks
  = navigate D (map SegNamed (n :: more)) blocks.
Proof. exact navigate_up_param_ignored. Qed.
Print Assumptions C01_up_param_ignored.

(* ---------- outside the property's quantifier, pinned ---------- *)
(* ../ beyond the outermost scope resolves in the innermost block *)
Theorem C01_up_beyond : forall D blocks k ns,
  (length blocks <= k)%nat ->
  navigate D (repeat (SegRuled R_path_up) k ++ map SegNamed ns) blocks
  = navigate D (map SegNamed ns) blocks.
Proof. exact navigate_up_beyond. Qed.
Print Assumptions C01_up_beyond.

(* the slice panic of parse_json_visitor is unreachable for every segment list *)
Theorem C01_navigate_never_panics : forall D segs blocks, navigate D segs blocks <> NavPanic.
Proof. exact navigate_never_panics. Qed.
Print Assumptions C01_navigate_never_panics.

(* ---------- textual forms ---------- *)
Theorem C01_render_forms : forall ft,
  (forall s, json_render ft (JStr s) = s)
  /\ (forall n, json_render ft (JNum n) = num_render ft n)
  /\ json_render ft (JBool true) = `"true"
  /\ json_render ft (JBool false) = `"false"
  /\ json_render ft JNull = []
  /\ (forall l, json_render ft (JArr l) = `"[" ++ join (`", ") (map (json_render ft) l) ++ `"]")
  /\ (forall m, json_render ft (JObj m) = `"[object]").
Proof. exact render_forms. Qed.
Print Assumptions C01_render_forms.

(* ---------- lookup ---------- *)
Theorem C01_parse_usize_n_to_dec : forall i, i <= u64_max -> parse_usize (n_to_dec i) = Some i.
Proof. exact parse_usize_n_to_dec. Qed.
Print Assumptions C01_parse_usize_n_to_dec.

(* string key on an object = one walk step along that key *)
Theorem C01_lookup_object : forall reg h s coll idx rest m k,
  hv_params h = coll :: idx :: rest -> pj_value coll = JObj m -> pj_value idx = JStr k ->
  call_inner reg HLookup h s =
  match get_data (Some (JObj m)) k with
  | NavSome v => ROk (SDerived v) s
  | _ => if r_strict reg then strict_error None s else ROk (SDerived JNull) s
  end.
Proof. exact lookup_object. Qed.
Print Assumptions C01_lookup_object.

Theorem C01_lookup_array : forall reg h s coll idx rest l i,
  hv_params h = coll :: idx :: rest -> pj_value coll = JArr l -> pj_value idx = JNum (PosInt i) ->
  call_inner reg HLookup h s =
  match nth_error l (N.to_nat i) with
  | Some v => ROk (SDerived v) s
  | None => if r_strict reg then strict_error None s else ROk (SDerived JNull) s
  end.
Proof. exact lookup_array. Qed.
Print Assumptions C01_lookup_array.

(* integer index on an array (as_u64 of the number) = one walk step along the
   decimal spelling of the index (parse_usize of the text) *)
Theorem C01_lookup_array_walk : forall reg h s coll idx rest l i,
  hv_params h = coll :: idx :: rest -> pj_value coll = JArr l -> pj_value idx = JNum (PosInt i) ->
  i <= u64_max ->
  call_inner reg HLookup h s =
  match get_data (Some (JArr l)) (n_to_dec i) with
  | NavSome v => ROk (SDerived v) s
  | _ => if r_strict reg then strict_error None s else ROk (SDerived JNull) s
  end.
Proof. exact lookup_array_walk. Qed.
Print Assumptions C01_lookup_array_walk.

Theorem C01_lookup_other : forall reg h s coll idx rest,
  hv_params h = coll :: idx :: rest ->
  match pj_value coll, pj_value idx with
  | JObj _, JStr _ => False
  | JArr _, JNum (PosInt _) => False
  | _, _ => True
  end ->
  call_inner reg HLookup h s =
  if r_strict reg then strict_error None s else ROk (SDerived JNull) s.
Proof. exact lookup_other. Qed.
Print Assumptions C01_lookup_other.

(* ---------- evaluate() ---------- *)
(* PARTIAL: a helper author's evaluate(raw) is evaluate2 of the runtime parse
   of raw, and that parse keeps the spelling.  Missing: that the segment list
   `path_parse raw` produces equals the one the template compiler produced for
   the same spelling written inline (both run parse_json_path over the PEG
   tokens of rule `path_inline`, but from different start rules — `path` vs
   `reference` inside `handlebars`; needs reasoning about the PEG parser). *)
Theorem C01_evaluate_partial : forall data raw s,
  match path_parse raw with
  | Some p => path_raw p = raw /\ evaluate data raw s = evaluate2 data p s
  | None => evaluate data raw s = rfail (RInvalidJsonPath raw) s
  end.
Proof. exact evaluate_parsed. Qed.
Print Assumptions C01_evaluate_partial.
