(* Props/C03.v — property C03: template text outside tags is reproduced
   verbatim.  Statements only; proofs in Proofs/TagFree.v.
   "s contains no {{" is written out as: forall a b, s <> a ++ [123;123] ++ b
   (123 is the code point of '{').
   Proved here: the tag-free case end to end (PEG parse on the generated
   grammar, compile2, render), the empty source, and the render-level facts for
   raw text and comments.  NOT covered by these theorems (left to the
   differential run): text between/around tags (C03_conservation), the '\{{'
   escape (C03_quote), and raw-block bodies in general (a concrete instance with
   leading whitespace kept is Proofs/TagFree.raw_block_keeps_leading_whitespace). *)
From Coq Require Import List NArith Lia.
From HB Require Import Peg.Grammar Tpl.Compile Rt.State Rt.Eval Rt.Render Proofs.TagFree.
Import ListNotations.
Open Scope N_scope.

(* the pest token stream of a non-empty source without "{{", for every fuel
   from an explicit linear bound on: template, one raw_text spanning the whole
   source (leading and trailing whitespace included), EOI *)
Theorem C03_tagfree_parse : forall (s : str) (fuel : nat),
  s <> [] -> (forall a b, s <> a ++ [123; 123] ++ b) ->
  (50 + length s <= fuel)%nat ->
  hb_parse fuel R_handlebars s
  = Parsed [(R_template, 0, len s); (R_raw_text, 0, len s); (R_EOI, len s, len s)].
Proof. exact tagfree_parse. Qed.
Print Assumptions C03_tagfree_parse.

(* compile2 of a non-empty source without "{{" is the single raw element *)
Theorem C03_tagfree : forall (s : str) (opts : copts),
  s <> [] -> (forall a b, s <> a ++ [123; 123] ++ b) ->
  compile2 s opts = COk (MkT (o_name opts) [ElRaw s] [(1, 1)]).
Proof. exact tagfree_compile. Qed.
Print Assumptions C03_tagfree.

Theorem C03_empty : forall opts : copts, compile2 [] opts = COk (MkT (o_name opts) [] []).
Proof. exact empty_compile. Qed.
Print Assumptions C03_empty.

(* a template without "{{" renders to itself, for any registry, data, float
   table, start state parameters and any fuel >= 2 (writer that does not fail) *)
Theorem C03_tagfree_renders_itself : forall (s : str) (opts : copts),
  (forall a b, s <> a ++ [123; 123] ++ b) ->
  exists t, compile2 s opts = COk t /\
    forall reg data ft fuel root dev, (2 <= fuel)%nat ->
    exists st', render_template reg data ft fuel t (st_init root dev None) = ROk tt st'
      /\ out_text (s_out st') = s.
Proof. exact tagfree_renders_itself. Qed.
Print Assumptions C03_tagfree_renders_itself.

(* a raw element appends exactly its text when no indent string is active and
   the writer does not fail; the two side conditions are preserved *)
Theorem C03_raw_element : forall reg data ft fuel (v : str) (st : rstate),
  s_indent st = None -> o_fail_at (s_out st) = None -> (1 <= fuel)%nat ->
  exists st', render_element reg data ft fuel (ElRaw v) st = ROk tt st'
    /\ out_text (s_out st') = out_text (s_out st) ++ v
    /\ o_fail_at (s_out st') = None
    /\ s_indent st' = None.
Proof. exact raw_element_writes. Qed.
Print Assumptions C03_raw_element.

(* a comment writes nothing and leaves the render state unchanged *)
Theorem C03_comment : forall reg data ft fuel (c : str) (st : rstate), (1 <= fuel)%nat ->
  render_element reg data ft fuel (ElComment c) st = ROk tt st.
Proof. exact comment_element_silent. Qed.
Print Assumptions C03_comment.
