(* Props/C15_order.v — property C15, the order laws: gt/gte/lt/lte on two JSON numbers ARE the
   strict / non-strict order of their exact rational values; that order is transitive and
   trichotomous; string lt is transitive; eq is reflexive and symmetric for every JSON value and
   excludes gt and lt.  Statements only; proofs in Proofs/OrderLaws.v. *)
From Coq Require Import QArith Bool.
From HB Require Import Base.Json Proofs.NumProofs Proofs.OrderLaws.

Theorem C15_gt_nums_iff : forall a b : num, h_gt (JNum a) (JNum b) = true <-> (num_q b < num_q a)%Q.
Proof. exact gt_nums_iff. Qed.
Print Assumptions C15_gt_nums_iff.

Theorem C15_lt_nums_iff : forall a b : num, h_lt (JNum a) (JNum b) = true <-> (num_q a < num_q b)%Q.
Proof. exact lt_nums_iff. Qed.
Print Assumptions C15_lt_nums_iff.

Theorem C15_gte_nums_iff : forall a b : num, h_gte (JNum a) (JNum b) = true <-> (num_q b <= num_q a)%Q.
Proof. exact gte_nums_iff. Qed.
Print Assumptions C15_gte_nums_iff.

Theorem C15_lte_nums_iff : forall a b : num, h_lte (JNum a) (JNum b) = true <-> (num_q a <= num_q b)%Q.
Proof. exact lte_nums_iff. Qed.
Print Assumptions C15_lte_nums_iff.

Theorem C15_gt_trans_nums : forall a b c : num,
  h_gt (JNum a) (JNum b) = true -> h_gt (JNum b) (JNum c) = true -> h_gt (JNum a) (JNum c) = true.
Proof. exact gt_trans_nums. Qed.
Print Assumptions C15_gt_trans_nums.

Theorem C15_gte_trans_nums : forall a b c : num,
  h_gte (JNum a) (JNum b) = true -> h_gte (JNum b) (JNum c) = true -> h_gte (JNum a) (JNum c) = true.
Proof. exact gte_trans_nums. Qed.
Print Assumptions C15_gte_trans_nums.

Theorem C15_nums_trichotomy : forall a b : num,
  let x := JNum a in let y := JNum b in
  (h_lt x y = true /\ h_gt x y = false /\ (h_gte x y && h_lte x y) = false) \/
  (h_lt x y = false /\ h_gt x y = true /\ (h_gte x y && h_lte x y) = false) \/
  (h_lt x y = false /\ h_gt x y = false /\ (h_gte x y && h_lte x y) = true /\ (num_q a == num_q b)%Q).
Proof. exact nums_trichotomy. Qed.
Print Assumptions C15_nums_trichotomy.

Theorem C15_gte_lte_both_nums : forall a b : num,
  h_gte (JNum a) (JNum b) = true /\ h_lte (JNum a) (JNum b) = true <-> (num_q a == num_q b)%Q.
Proof. exact gte_lte_both_nums. Qed.
Print Assumptions C15_gte_lte_both_nums.

Theorem C15_lt_trans_strs : forall a b c : str,
  h_lt (JStr a) (JStr b) = true -> h_lt (JStr b) (JStr c) = true -> h_lt (JStr a) (JStr c) = true.
Proof. exact lt_trans_strs. Qed.
Print Assumptions C15_lt_trans_strs.

Theorem C15_lt_irrefl : forall x : json, h_lt x x = false.
Proof. exact lt_irrefl. Qed.
Print Assumptions C15_lt_irrefl.

Theorem C15_gt_asym : forall x y : json, h_gt x y = true -> h_gt y x = false.
Proof. exact gt_asym. Qed.
Print Assumptions C15_gt_asym.

Theorem C15_eq_refl : forall x : json, h_eq x x = true.
Proof. exact eq_refl_json. Qed.
Print Assumptions C15_eq_refl.

Theorem C15_eq_sym : forall x y : json, h_eq x y = h_eq y x.
Proof. exact eq_sym_json. Qed.
Print Assumptions C15_eq_sym.

Theorem C15_eq_excludes_strict : forall x y : json,
  h_eq x y = true -> h_gt x y = false /\ h_lt x y = false.
Proof. exact eq_excludes_strict. Qed.
Print Assumptions C15_eq_excludes_strict.

(* non-vacuity: the premises are met by concrete values in different representations *)
Example C15_order_witness :
  h_gt (JNum (PosInt 3)) (JNum (NegInt (-2))) = true /\
  h_gt (JNum (NegInt (-2))) (JNum (NegInt (-7))) = true /\
  h_eq (JArr [JNum (PosInt 1); JStr []]) (JArr [JNum (PosInt 1); JStr []]) = true.
Proof. vm_compute. repeat split. Qed.
