(* Props/C03_blocks.v — property C03 for templates WITH blocks: conservation of
   the template text.

   Vocabulary: Spec/StripTags.v (strip_tags: the source with its tag spans
   deleted and the escapes resolved; a raw_block_text token — the body of
   {{{{raw}}}}...{{{{/raw}}}}, tags inside it included — is kept like raw text),
   Spec/StripTagsBlocks.v (all_raw_text: the raw text of a compiled template in
   document order, with the bodies of helper blocks, else chains, raw blocks and
   decorator / partial blocks; blocks_plain: no `~` token, and no block start /
   else / block end / comment / partial / decorator tag alone on its line, so
   that no whitespace trim fires).
   Spec/NonWs.v (nonws: a string with its whitespace — Rust's
   char::is_whitespace, which contains everything the `~` trim, the standalone
   rule and pest's implicit skipping can remove — filtered out).
   Statements only; proofs in Proofs/ConservationBlocks.v and
   Proofs/ConservationBlocksWs.v. *)
From Coq Require Import List NArith Bool.
From HB Require Import Base.Str Peg.Peg Peg.Grammar Tpl.Ast Tpl.Compile Spec.AlignedSpec Spec.WsSpec
  Spec.WfTokens Spec.StripTags Spec.StripTagsBlocks Spec.NonWs Proofs.ConservationBlocks
  Proofs.ConservationBlocksWs.
Import ListNotations.
Open Scope N_scope.

(* every character of the source outside the tags appears exactly once and in
   document order in the compiled template, at whatever block depth *)
Theorem C03_conservation_blocks : forall src opts ts t,
  hb_parse (peg_fuel src) R_handlebars src = Parsed ts ->
  blocks_plain src opts ts = true ->
  compile2 src opts = COk t ->
  all_raw_text (t_els t) = strip_tags src ts (filter not_escape ts) 0.
Proof. exact conservation_blocks. Qed.
Print Assumptions C03_conservation_blocks.

(* the hypotheses are satisfiable: a source with a nested block, an else chain,
   a plain else, a raw block with a tag inside, an inline partial, a comment and
   an escape (Proofs/ConservationBlocks.v, cb_src) *)
Theorem C03_conservation_blocks_example :
  exists ts t,
    hb_parse (peg_fuel cb_src) R_handlebars cb_src = Parsed ts /\
    blocks_plain cb_src default_opts ts = true /\
    compile2 cb_src default_opts = COk t /\
    all_raw_text (t_els t) = strip_tags cb_src ts (filter not_escape ts) 0 /\
    all_raw_text (t_els t) = `"a b cd ef {{g}} h  {{r}} j l".
Proof. exact conservation_blocks_example. Qed.
Print Assumptions C03_conservation_blocks_example.

(* WITHOUT the no-trim hypothesis, for every compilable source: up to whitespace
   the compiled template still holds exactly the text outside the tags, in
   document order — `~` and the standalone rule remove whitespace only, and
   never add or reorder anything *)
Theorem C03_conservation_blocks_ws : forall src opts ts t,
  hb_parse (peg_fuel src) R_handlebars src = Parsed ts ->
  compile2 src opts = COk t ->
  nonws (all_raw_text (t_els t)) = nonws (strip_tags src ts (filter not_escape ts) 0).
Proof. exact conservation_blocks_ws. Qed.
Print Assumptions C03_conservation_blocks_ws.

(* a source in which every trim fires (Proofs/ConservationBlocksWs.v, cbw_src):
   blocks_plain is false, the exact equality fails, the equality up to
   whitespace holds *)
Theorem C03_conservation_blocks_ws_example :
  exists ts t,
    hb_parse (peg_fuel cbw_src) R_handlebars cbw_src = Parsed ts /\
    blocks_plain cbw_src default_opts ts = false /\
    compile2 cbw_src default_opts = COk t /\
    all_raw_text (t_els t) <> strip_tags cbw_src ts (filter not_escape ts) 0 /\
    nonws (all_raw_text (t_els t)) = nonws (strip_tags cbw_src ts (filter not_escape ts) 0) /\
    nonws (all_raw_text (t_els t)) = `"abcdefgh".
Proof. exact conservation_blocks_ws_example. Qed.
Print Assumptions C03_conservation_blocks_ws_example.
