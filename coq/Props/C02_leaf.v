(* Props/C02_leaf.v — property C02, leaf level: the default escape function
   html_escape (escape_html / escape_char of Rt/Eval.v).  Statements only;
   proofs in Proofs/LeafEscape.v; the vocabulary (html_entities, html_special,
   esc_token, unescape_html) is in Spec/EscapeSpec.v.  The render-wide
   "exactly once / never" theorems are proved elsewhere.
   Code points: < 60, > 62, double quote 34, & 38, apostrophe 39, backtick 96, = 61. *)
From HB Require Import Rt.Eval Spec.EscapeSpec Proofs.LeafEscape.
Open Scope N_scope.

(* (a) homomorphism *)
Theorem C02_escape_html_app : forall a b,
  escape_html (a ++ b) = escape_html a ++ escape_html b.
Proof. exact escape_html_app. Qed.
Print Assumptions C02_escape_html_app.

Theorem C02_escape_html_concat_map : forall s, escape_html s = concat (map escape_char s).
Proof. exact escape_html_concat_map. Qed.
Print Assumptions C02_escape_html_concat_map.

(* (b) one character, for EVERY c : N *)
Theorem C02_escape_char_cases : forall c,
  (In c (38 :: html_special) /\ In (escape_char c, c) html_entities) \/
  (~ In c (38 :: html_special) /\ escape_char c = [c]).
Proof. exact escape_char_cases. Qed.
Print Assumptions C02_escape_char_cases.

Theorem C02_esc_char_alphabet : forall c,
  (forall x, In x (escape_char c) -> ~ In x [60; 62; 34; 39; 96; 61]) /\
  (forall pre post, escape_char c = pre ++ 38 :: post ->
     pre = [] /\ In (escape_char c) (map fst html_entities)).
Proof. exact esc_char_alphabet. Qed.
Print Assumptions C02_esc_char_alphabet.

(* (b) strings: none of the six characters occurs in the output ... *)
Theorem C02_escape_html_alphabet : forall s x,
  In x (escape_html s) -> ~ In x [60; 62; 34; 39; 96; 61].
Proof. exact escape_html_alphabet. Qed.
Print Assumptions C02_escape_html_alphabet.

(* ... every '&' of the output is the first character of one of the seven entities ... *)
Theorem C02_escape_html_amp : forall s pre post,
  escape_html s = pre ++ 38 :: post ->
  exists e post', In e (map fst html_entities) /\ 38 :: post = e ++ post'.
Proof. exact escape_html_amp. Qed.
Print Assumptions C02_escape_html_amp.

(* ... and the output is a sequence of tokens, one per input character, each a
   harmless character or an entity *)
Theorem C02_escape_html_tokens : forall s,
  escape_html s = concat (map escape_char s) /\ Forall esc_token (map escape_char s).
Proof. exact escape_html_tokens. Qed.
Print Assumptions C02_escape_html_tokens.

(* (c) injectivity: the original value can be recovered *)
Theorem C02_unescape_escape : forall s, unescape_html (escape_html s) = s.
Proof. exact unescape_escape. Qed.
Print Assumptions C02_unescape_escape.

Theorem C02_escape_injective : forall s1 s2, escape_html s1 = escape_html s2 -> s1 = s2.
Proof. exact escape_injective. Qed.
Print Assumptions C02_escape_injective.
