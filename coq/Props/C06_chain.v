(* Props/C06_chain.v — property C06, compiler half (`chain_compile`): the
   else-chain of a helper block is compiled to the properly nested structure,
   for chains of every length.  Spec/ChainSpec.v holds the driver `chain_ops`
   (the operations `step` performs on the front of the helper stack, in the
   order the tags of one block arrive) and the target structure `nest`.
   Statements only; proofs in Proofs/ChainProofs.v. *)
From HB Require Import Tpl.Compile Spec.ChainSpec Proofs.ChainProofs.

(* For every number n >= 0 of `{{else <e_i>}}` links, every tag content and
   body, with and without a final `{{else}}`: the in-place list reversal of
   set_chain_template / insert_inverse_node / revert_chain_and_set yields
     H(e0, tpl = b0, inv = T[H(e1, tpl = b1, inv = T[ ... H(en, tpl = bn, inv = final else) ])])
   (T[h] = MkT None [ElBlock h] []), with fuel n+1 — in particular never
   CPanic (both assert_eq! sites are unreachable) and never CFuel. *)
Theorem C06_chain_compile : forall fuel e0 ibw0 b0 (links : list link) final_else,
  (length links < fuel)%nat ->
  chain_ops fuel e0 ibw0 b0 links final_else
  = COk (MkH (es_name e0) (es_params e0) (es_hash e0) (es_bp e0)
             (Some b0) (nest links final_else)
             true (match links with [] => false | _ => true end) ibw0).
Proof. exact chain_compile. Qed.
Print Assumptions C06_chain_compile.

(* {{#h}}b0{{else}}b1{{/h}} and {{#h}}b0{{/h}} *)
Theorem C06_if_else_compile : forall fuel e0 ibw0 b0 b1,
  chain_ops fuel e0 ibw0 b0 [] (Some b1)
  = COk (MkH (es_name e0) (es_params e0) (es_hash e0) (es_bp e0) (Some b0) (Some b1) true false ibw0).
Proof. exact if_else_compile. Qed.
Print Assumptions C06_if_else_compile.

Theorem C06_if_compile : forall fuel e0 ibw0 b0,
  chain_ops fuel e0 ibw0 b0 [] None
  = COk (MkH (es_name e0) (es_params e0) (es_hash e0) (es_bp e0) (Some b0) None true false ibw0).
Proof. exact if_compile. Qed.
Print Assumptions C06_if_compile.

(* `step` performs exactly the operations of chain_ops on the front of c_hs:
   block start pushes `mk_helper e true false ibw` ... *)
Theorem C06_step_helper_block_start :
  forall src all_tokens opts fuel c pr it c1 e ts1 it1 trim t r,
  tk_rule pr = R_helper_block_start ->
  trailing_string src c pr (line_col src (tk_start pr)) = COk c1 ->
  tag_prologue src fuel c1 pr it = COk (e, ts1, it1) ->
  process_standalone_statement src ts1 pr true (o_is_partial opts) = COk (trim, t :: r) ->
  step src all_tokens opts fuel c pr it
  = COk ({| c_ts := t_push_map t (line_col src (tk_start pr)) :: r;
            c_hs := mk_helper e true false (trim && negb (es_pre e)) :: c_hs c;
            c_ds := c_ds c; c_omit := es_pro e; c_trim := trim;
            c_end := Some (tk_end pr) |}, it1).
Proof. exact step_helper_block_start. Qed.
Print Assumptions C06_step_helper_block_start.

(* ... `{{else <e>}}` pops the finished body t and applies link_op ... *)
Theorem C06_step_invert_chain_tag :
  forall src all_tokens opts fuel c pr it c1 nm it0 e ts1 it1 trim t ts3 h hs,
  tk_rule pr = R_invert_chain_tag ->
  trailing_string src c pr (line_col src (tk_start pr)) = COk c1 ->
  parse_name src fuel it = COk (nm, it0) ->
  tag_prologue src fuel c1 pr it0 = COk (e, ts1, it1) ->
  process_standalone_statement src ts1 pr true (o_is_partial opts) = COk (trim, t :: ts3) ->
  c_hs c = h :: hs ->
  step src all_tokens opts fuel c pr it
  = do h' <- link_op h t e (trim && negb (es_pre e));
    COk ({| c_ts := ts3; c_hs := h' :: hs; c_ds := c_ds c; c_omit := es_pro e;
            c_trim := trim; c_end := Some (tk_end pr) |}, it1).
Proof. exact step_invert_chain_tag. Qed.
Print Assumptions C06_step_invert_chain_tag.

(* ... `{{~else <e>}}` (leading tilde on a chain tag): the `~` token in front of
   the `else` item is consumed before parse_name; the tag compiles like
   `{{else <e>}}` with omit_pre_ws set: the whitespace in front of the tag is
   always trimmed (remove_previous_whitespace) and the link never indents
   (indent_before_write = false) ... *)
Theorem C06_step_invert_chain_tag_tilde :
  forall src all_tokens opts fuel c pr t0 it c1 nm it0 e0 it1 ts1 trim t ts3 h hs,
  tk_rule pr = R_invert_chain_tag ->
  trailing_string src c pr (line_col src (tk_start pr)) = COk c1 ->
  is_rule R_leading_tilde_to_omit_whitespace t0 = true ->
  parse_name src fuel it = COk (nm, it0) ->
  parse_expression src fuel it0 (tk_end pr) = COk (e0, it1) ->
  remove_previous_whitespace (c_ts c1) = COk ts1 ->
  process_standalone_statement src ts1 pr true (o_is_partial opts) = COk (trim, t :: ts3) ->
  c_hs c = h :: hs ->
  step src all_tokens opts fuel c pr (t0 :: it)
  = do h' <- link_op h t (es_or_pre e0 true) false;
    COk ({| c_ts := ts3; c_hs := h' :: hs; c_ds := c_ds c; c_omit := es_pro e0;
            c_trim := trim; c_end := Some (tk_end pr) |}, it1).
Proof. exact step_invert_chain_tag_tilde. Qed.
Print Assumptions C06_step_invert_chain_tag_tilde.

(* ... both forms at once: chain_pre says whether a `~` token precedes the else item ... *)
Theorem C06_step_invert_chain_tag_gen :
  forall src all_tokens opts fuel c pr it c1 chain_pre ita nm it0 e0 it1 ts1 trim t ts3 h hs,
  tk_rule pr = R_invert_chain_tag ->
  trailing_string src c pr (line_col src (tk_start pr)) = COk c1 ->
  match it with
  | t0 :: it' => if is_rule R_leading_tilde_to_omit_whitespace t0 then (true, it') else (false, it)
  | [] => (false, it)
  end = (chain_pre, ita) ->
  parse_name src fuel ita = COk (nm, it0) ->
  parse_expression src fuel it0 (tk_end pr) = COk (e0, it1) ->
  (if es_pre (es_or_pre e0 chain_pre) then remove_previous_whitespace (c_ts c1) else COk (c_ts c1))
    = COk ts1 ->
  process_standalone_statement src ts1 pr true (o_is_partial opts) = COk (trim, t :: ts3) ->
  c_hs c = h :: hs ->
  step src all_tokens opts fuel c pr it
  = do h' <- link_op h t (es_or_pre e0 chain_pre) (trim && negb (es_pre (es_or_pre e0 chain_pre)));
    COk ({| c_ts := ts3; c_hs := h' :: hs; c_ds := c_ds c; c_omit := es_pro e0;
            c_trim := trim; c_end := Some (tk_end pr) |}, it1).
Proof. exact step_invert_chain_tag_gen. Qed.
Print Assumptions C06_step_invert_chain_tag_gen.

(* ... and the helper node built for the link does not depend on the tilde: link_op
   reads only name, params, hash and block params of the tag, so chain_compile
   (quantified over every espec) covers `{{~else <e>}}` links as it stands ... *)
Theorem C06_link_op_tilde : forall h t e b w, link_op h t (es_or_pre e b) w = link_op h t e w.
Proof. exact link_op_es_or_pre. Qed.
Print Assumptions C06_link_op_tilde.

(* ... a plain `{{else}}` pops the finished body and applies set_chain_template only ... *)
Theorem C06_step_invert_tag :
  forall src all_tokens opts fuel c pr it c1 e ts1 it1 trim t ts3 h hs,
  tk_rule pr = R_invert_tag ->
  trailing_string src c pr (line_col src (tk_start pr)) = COk c1 ->
  tag_prologue src fuel c1 pr it = COk (e, ts1, it1) ->
  process_standalone_statement src ts1 pr true (o_is_partial opts) = COk (trim, t :: ts3) ->
  c_hs c = h :: hs ->
  step src all_tokens opts fuel c pr it
  = do h' <- set_chain_template h (Some t);
    COk ({| c_ts := ts3; c_hs := h' :: hs; c_ds := c_ds c; c_omit := es_pro e;
            c_trim := trim; c_end := Some (tk_end pr) |}, it1).
Proof. exact step_invert_tag. Qed.
Print Assumptions C06_step_invert_tag.

(* ... and the block end pops the last body, applies revert_chain_and_set and
   appends the finished block to the parent template. *)
Theorem C06_step_helper_block_end :
  forall src all_tokens opts fuel c pr it c1 e ts1 it1 trim prev_t t r h hs,
  tk_rule pr = R_helper_block_end ->
  trailing_string src c pr (line_col src (tk_start pr)) = COk c1 ->
  tag_prologue src fuel c1 pr it = COk (e, ts1, it1) ->
  process_standalone_statement src ts1 pr true (o_is_partial opts) = COk (trim, prev_t :: t :: r) ->
  c_hs c = h :: hs ->
  opt_str_eqb (as_name (h_name h)) (as_name (es_name e)) = true ->
  step src all_tokens opts fuel c pr it
  = do h' <- revert_chain_and_set fuel h (Some prev_t);
    COk ({| c_ts := t_push_el t (ElBlock h') :: r; c_hs := hs; c_ds := c_ds c;
            c_omit := es_pro e; c_trim := trim; c_end := Some (tk_end pr) |}, it1).
Proof. exact step_helper_block_end. Qed.
Print Assumptions C06_step_helper_block_end.
