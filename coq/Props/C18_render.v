(* Props/C18_render.v — property C18, render half: a render error points at the
   tag that failed.  Statements only; proofs in Proofs/ErrorPos.v.  Together
   with Props/C18_map.v (entry i of t_map is line_col of the tag of element i)
   this gives the position a user sees.
   `error_provenance` (Spec/ErrorOrigin.v): e is freshly raised (= mk_err r: no
   name, line, column) or is attach_render t idx e0 / attach_eval t idx e0 for
   the error e0 of the idx-th element of t failing in render_element /
   eval_element. *)
From Coq Require Import List NArith.
From HB Require Import Rt.Render Spec.RenderAll Spec.ErrorOrigin Proofs.ErrorPos.
Import ListNotations.
Open Scope N_scope.

(* 1. Template::render fails at the FIRST failing element: the elements before
   idx rendered (s0 is the state after them, from set_current s (t_name t)),
   element idx failed with e0 in the final state, and the error returned is
   exactly attach_render t idx e0 *)
Theorem C18_render_error_origin : forall reg data ft f t s e s',
  render_template reg data ft (S f) t s = RErr e s' ->
  exists idx el s0 e0,
    nth_error (t_els t) idx = Some el /\
    fold_idx (fun x _ s1 => render_element reg data ft f x s1) (firstn idx (t_els t)) 0
             (set_current s (t_name t)) = ROk tt s0 /\
    render_element reg data ft f el s0 = RErr e0 s' /\
    e = attach_render t idx e0.
Proof. exact render_error_origin. Qed.
Print Assumptions C18_render_error_origin.

(* and conversely *)
Theorem C18_render_error_at : forall reg data ft f t s idx el s0 e0 s',
  nth_error (t_els t) idx = Some el ->
  fold_idx (fun x _ s1 => render_element reg data ft f x s1) (firstn idx (t_els t)) 0
           (set_current s (t_name t)) = ROk tt s0 ->
  render_element reg data ft f el s0 = RErr e0 s' ->
  render_template reg data ft (S f) t s = RErr (attach_render t idx e0) s'.
Proof. exact render_error_at. Qed.
Print Assumptions C18_render_error_at.

(* Template::eval (decorators of a partial-block body), with attach_eval *)
Theorem C18_eval_error_origin : forall reg data ft f t s e s',
  eval_template reg data ft (S f) t s = RErr e s' ->
  exists idx el s0 e0,
    nth_error (t_els t) idx = Some el /\
    fold_idx (fun x _ s1 => eval_element reg data ft f x s1) (firstn idx (t_els t)) 0 s = ROk tt s0 /\
    eval_element reg data ft f el s0 = RErr e0 s' /\
    e = attach_eval t idx e0.
Proof. exact eval_error_origin. Qed.
Print Assumptions C18_eval_error_origin.

(* 2. what the decoration does.  The reason is kept.  Line and column: kept as
   they are when e0 already has a LINE (the innermost failing template wins);
   otherwise both are set from the idx-th entry of t_map; when idx is beyond
   t_map (the synthesised one-element templates around else-chain links have no
   entry) they stay as they were, for an outer template to fill.  The template
   name: kept when present, else t_name t (None for block bodies: an outer named
   template fills it). *)
Theorem C18_attach_render_spec : forall t idx e0,
  let e := attach_render t idx e0 in
  e_reason e = e_reason e0 /\
  e_line e = match e_line e0 with
             | Some l => Some l
             | None => match nth_error (t_map t) idx with Some (l, _) => Some l | None => None end
             end /\
  e_col e = match e_line e0 with
            | Some _ => e_col e0
            | None => match nth_error (t_map t) idx with Some (_, c) => Some c | None => e_col e0 end
            end /\
  e_tpl e = match e_tpl e0 with Some n => Some n | None => t_name t end.
Proof. exact attach_render_spec. Qed.
Print Assumptions C18_attach_render_spec.

(* Template::eval: the same for the position; the template name is OVERWRITTEN
   with t_name t whatever it was *)
Theorem C18_attach_eval_spec : forall t idx e0,
  let e := attach_eval t idx e0 in
  e_reason e = e_reason e0 /\
  e_line e = match e_line e0 with
             | Some l => Some l
             | None => match nth_error (t_map t) idx with Some (l, _) => Some l | None => None end
             end /\
  e_col e = match e_line e0 with
            | Some _ => e_col e0
            | None => match nth_error (t_map t) idx with Some (_, c) => Some c | None => e_col e0 end
            end /\
  e_tpl e = t_name t.
Proof. exact attach_eval_spec. Qed.
Print Assumptions C18_attach_eval_spec.

(* once set, a position is never overwritten on the way out (by either
   decoration), and a template name never by Template::render *)
Theorem C18_position_kept : forall t idx e0,
  e_line e0 <> None ->
  e_line (attach_render t idx e0) = e_line e0 /\ e_col (attach_render t idx e0) = e_col e0 /\
  e_line (attach_eval t idx e0) = e_line e0 /\ e_col (attach_eval t idx e0) = e_col e0.
Proof. exact position_kept. Qed.
Print Assumptions C18_position_kept.

Theorem C18_template_name_kept : forall t idx e0,
  e_tpl e0 <> None -> e_tpl (attach_render t idx e0) = e_tpl e0.
Proof. exact template_name_kept. Qed.
Print Assumptions C18_template_name_kept.

(* 3. nothing else touches an error: whatever error any of the sixteen functions
   of the render fixpoint returns, at any fuel, is freshly raised or is exactly
   the result of one Template::render / Template::eval decoration step — no arm
   of render_element, render_expression, render_helper, call_helper,
   call_helper_for_value, expand_param, eval_decorator, render_partial or
   expand_partial re-decorates, overwrites or drops anything *)
Theorem C18_error_untouched_elsewhere : forall reg data ft f,
  every_render_fn reg data ft f
    (fun A s r => forall e s', r = RErr e s' -> error_provenance reg data ft e).
Proof. exact error_untouched_elsewhere. Qed.
Print Assumptions C18_error_untouched_elsewhere.

(* the position a user sees *)
Theorem C18_error_position_innermost : forall reg data ft f t s e s',
  render_template reg data ft (S f) t s = RErr e s' ->
  exists idx el s0 e0,
    nth_error (t_els t) idx = Some el /\
    render_element reg data ft f el s0 = RErr e0 s' /\
    error_provenance reg data ft e0 /\
    e_reason e = e_reason e0 /\
    (e_line e0 = None ->
       e_line e = match nth_error (t_map t) idx with Some (l, _) => Some l | None => None end /\
       e_col e = match nth_error (t_map t) idx with Some (_, c) => Some c | None => e_col e0 end) /\
    (e_line e0 <> None -> e_line e = e_line e0 /\ e_col e = e_col e0) /\
    e_tpl e = match e_tpl e0 with Some n => Some n | None => t_name t end.
Proof. exact error_position_innermost. Qed.
Print Assumptions C18_error_position_innermost.

(* the failing element raised the error itself: its own tag's line and column,
   the name of the template it is written in *)
Theorem C18_leaf_error_position : forall reg data ft f t s idx el s0 r s' l c,
  nth_error (t_els t) idx = Some el ->
  fold_idx (fun x _ s1 => render_element reg data ft f x s1) (firstn idx (t_els t)) 0
           (set_current s (t_name t)) = ROk tt s0 ->
  render_element reg data ft f el s0 = RErr (mk_err r) s' ->
  nth_error (t_map t) idx = Some (l, c) ->
  render_template reg data ft (S f) t s =
    RErr {| e_reason := r; e_tpl := t_name t; e_line := Some l; e_col := Some c |} s'.
Proof. exact leaf_error_position. Qed.
Print Assumptions C18_leaf_error_position.

(* the failing element's error came out of an inner template t1 (block body,
   else branch, partial, partial block) that positioned it at its element j:
   the inner line and column are returned; the name is t1's if it has one, else
   the enclosing template's *)
Theorem C18_nested_error_position : forall reg data ft f t s idx el s0 s' t1 j r l c,
  nth_error (t_els t) idx = Some el ->
  fold_idx (fun x _ s1 => render_element reg data ft f x s1) (firstn idx (t_els t)) 0
           (set_current s (t_name t)) = ROk tt s0 ->
  render_element reg data ft f el s0 = RErr (attach_render t1 j (mk_err r)) s' ->
  nth_error (t_map t1) j = Some (l, c) ->
  render_template reg data ft (S f) t s =
    RErr {| e_reason := r;
            e_tpl := match t_name t1 with Some n => Some n | None => t_name t end;
            e_line := Some l; e_col := Some c |} s'.
Proof. exact nested_error_position. Qed.
Print Assumptions C18_nested_error_position.

(* two elements that raise their error themselves *)
Theorem C18_strict_missing_is_fresh : forall reg data ft f ht (html : bool) s name s1 cj s2,
  is_name_only ht = true ->
  expand_as_name reg data ft f (h_name ht) (if html then set_disable_escape s true else s)
    = ROk name s1 ->
  helper_exists reg s1 name = false ->
  expand_param reg data ft f (h_name ht) s1 = ROk cj s2 ->
  sc_missing (pj_val cj) = true ->
  r_strict reg = true ->
  render_expression reg data ft (S f) ht html s =
    RErr (mk_err (RMissingVariable (pj_rel cj))) (if html then set_disable_escape s2 false else s2).
Proof. exact strict_missing_is_fresh. Qed.
Print Assumptions C18_strict_missing_is_fresh.

Theorem C18_helper_not_found_is_fresh : forall reg data ft f ht s h s1,
  helper_from_template reg data ft f ht s = ROk h s1 ->
  find_local_helper s1 (hv_name h) = None ->
  find_reg_helper reg (hv_name h) = None ->
  find_reg_helper reg (if h_block ht then BLOCK_HELPER_MISSING else HELPER_MISSING) = None ->
  render_helper reg data ft (S f) ht s = RErr (mk_err (RHelperNotFound (hv_name h))) s1.
Proof. exact helper_not_found_is_fresh. Qed.
Print Assumptions C18_helper_not_found_is_fresh.
