(* Props/C10.v — property C10: strict mode only adds errors, it never changes
   successful output.  Statements only; proofs in Proofs/StrictMono.v. *)
From HB Require Import Reg.RegOps Spec.RenderFrameSpec Proofs.StrictMono.

(* Whenever a strict render succeeds, the non-strict render from the same state
   gives the very same final state (output buffer s_out included). *)
Theorem C10_mono : forall (reg_s reg_n : registry),
  r_templates reg_s = r_templates reg_n -> r_sources reg_s = r_sources reg_n ->
  r_helpers reg_s = r_helpers reg_n -> r_decorators reg_s = r_decorators reg_n ->
  r_escape reg_s = r_escape reg_n -> r_esc_mark reg_s = r_esc_mark reg_n ->
  r_dev reg_s = r_dev reg_n -> r_prevent_indent reg_s = r_prevent_indent reg_n ->
  r_strict reg_s = true -> r_strict reg_n = false ->
  forall (data : json) (ft : ftable) (fuel : nat) (t : template) (s s' : rstate),
    render_template reg_s data ft fuel t s = ROk tt s' ->
    render_template reg_n data ft fuel t s = ROk tt s'.
Proof. exact strict_mono. Qed.
Print Assumptions C10_mono.

(* the same at each of the eight registry entry points: equal output, log and
   number of writes *)
Theorem C10_mono_entry : forall (reg_s reg_n : registry),
  r_templates reg_s = r_templates reg_n -> r_sources reg_s = r_sources reg_n ->
  r_helpers reg_s = r_helpers reg_n -> r_decorators reg_s = r_decorators reg_n ->
  r_escape reg_s = r_escape reg_n -> r_esc_mark reg_s = r_esc_mark reg_n ->
  r_dev reg_s = r_dev reg_n -> r_prevent_indent reg_s = r_prevent_indent reg_n ->
  r_strict reg_s = true -> r_strict reg_n = false ->
  forall (data : json) (ft : ftable) (fs : files) (entry : N) (target : str) (fail_at : option N)
         (out log : str) (n : N),
    render_entry reg_s fs ft entry target data fail_at = RoOk out log n ->
    render_entry reg_n fs ft entry target data fail_at = RoOk out log n.
Proof. exact strict_mono_entry. Qed.
Print Assumptions C10_mono_entry.

(* the simulation for every function of the render fixpoint *)
Theorem C10_mono_all : forall (reg_s reg_n : registry),
  r_templates reg_s = r_templates reg_n -> r_sources reg_s = r_sources reg_n ->
  r_helpers reg_s = r_helpers reg_n -> r_decorators reg_s = r_decorators reg_n ->
  r_escape reg_s = r_escape reg_n -> r_esc_mark reg_s = r_esc_mark reg_n ->
  r_dev reg_s = r_dev reg_n -> r_prevent_indent reg_s = r_prevent_indent reg_n ->
  r_strict reg_s = true -> r_strict reg_n = false ->
  forall (data : json) (ft : ftable) (fuel : nat),
    (forall t s s', render_template reg_s data ft fuel t s = ROk tt s' ->
                    render_template reg_n data ft fuel t s = ROk tt s') /\
    (forall t s s', eval_template reg_s data ft fuel t s = ROk tt s' ->
                    eval_template reg_n data ft fuel t s = ROk tt s') /\
    (forall t s s', opt_render reg_s data ft fuel t s = ROk tt s' ->
                    opt_render reg_n data ft fuel t s = ROk tt s') /\
    (forall e s s', render_element reg_s data ft fuel e s = ROk tt s' ->
                    render_element reg_n data ft fuel e s = ROk tt s') /\
    (forall e s s', eval_element reg_s data ft fuel e s = ROk tt s' ->
                    eval_element reg_n data ft fuel e s = ROk tt s') /\
    (forall ht html s s', render_expression reg_s data ft fuel ht html s = ROk tt s' ->
                          render_expression reg_n data ft fuel ht html s = ROk tt s') /\
    (forall ht s s', render_helper reg_s data ft fuel ht s = ROk tt s' ->
                     render_helper reg_n data ft fuel ht s = ROk tt s') /\
    (forall ht s h s', helper_from_template reg_s data ft fuel ht s = ROk h s' ->
                       helper_from_template reg_n data ft fuel ht s = ROk h s') /\
    (forall dt s d s', deco_from_template reg_s data ft fuel dt s = ROk d s' ->
                       deco_from_template reg_n data ft fuel dt s = ROk d s') /\
    (forall p s n s', expand_as_name reg_s data ft fuel p s = ROk n s' ->
                      expand_as_name reg_n data ft fuel p s = ROk n s') /\
    (forall p s v s', expand_param reg_s data ft fuel p s = ROk v s' ->
                      expand_param reg_n data ft fuel p s = ROk v s') /\
    (forall hid h s v s', call_helper_for_value reg_s data ft fuel hid h s = ROk v s' ->
                          call_helper_for_value reg_n data ft fuel hid h s = ROk v s') /\
    (forall hid h s s', call_helper reg_s data ft fuel hid h s = ROk tt s' ->
                        call_helper reg_n data ft fuel hid h s = ROk tt s') /\
    (forall dt s s', eval_decorator reg_s data ft fuel dt s = ROk tt s' ->
                     eval_decorator reg_n data ft fuel dt s = ROk tt s') /\
    (forall dt s s', render_partial reg_s data ft fuel dt s = ROk tt s' ->
                     render_partial reg_n data ft fuel dt s = ROk tt s') /\
    (forall d s s', expand_partial reg_s data ft fuel d s = ROk tt s' ->
                    expand_partial reg_n data ft fuel d s = ROk tt s').
Proof. exact two_mono_at. Qed.
Print Assumptions C10_mono_all.

(* the helper-macro expansion: a strict success is a non-strict success *)
Theorem C10_macro_call_mono : forall sg body h v,
  macro_call sg body true h = inr v -> macro_call sg body false h = inr v.
Proof. exact macro_call_mono. Qed.
Print Assumptions C10_macro_call_mono.

(* {{path}} for a path that designates no value (and is not a helper name) *)
Theorem C10_missing : forall (reg : registry) (data : json) (ft : ftable),
  r_strict reg = true ->
  forall (f : nat) (ht : helper_t) (p : path) (s : rstate),
    is_name_only ht = true -> h_name ht = PPath p ->
    helper_exists reg s (path_raw p) = false ->
    s_modified s = None ->
    evaluate2 data p s = ROk SMissing s ->
    render_element reg data ft (S (S (S f))) (ElExpr ht) s
    = RErr (mk_err (RMissingVariable (Some (path_raw p)))) s.
Proof. exact missing_expr. Qed.
Print Assumptions C10_missing.

(* each on a value that is neither an array nor an object, no else branch *)
Theorem C10_missing_each : forall (reg : registry) (data : json) (ft : ftable),
  r_strict reg = true ->
  forall (f : nat) (h : helper_v) (param : pj) (t : template) (s : rstate),
    nth_error (hv_params h) 0 = Some param -> hv_tpl h = Some t -> hv_inv h = None ->
    (forall l, pj_value param <> JArr l) -> (forall m, pj_value param <> JObj m) ->
    call_helper reg data ft (S f) HEach h s = RErr (mk_err (RMissingVariable (pj_rel param))) s.
Proof. exact missing_each. Qed.
Print Assumptions C10_missing_each.

(* with on a non-truthy value, no else branch *)
Theorem C10_missing_with : forall (reg : registry) (data : json) (ft : ftable),
  r_strict reg = true ->
  forall (f : nat) (h : helper_v) (param : pj) (s : rstate),
    nth_error (hv_params h) 0 = Some param -> hv_inv h = None ->
    is_truthy false (pj_value param) = false ->
    call_helper reg data ft (S f) HWith h s = RErr (mk_err (RMissingVariable (pj_rel param))) s.
Proof. exact missing_with. Qed.
Print Assumptions C10_missing_with.

(* lookup of an absent key / index, as a block-or-expression helper and as a
   subexpression; lookup_value (Spec/RenderFrameSpec.v) is the value designated:
   array element by u64 index, object field by string key, else nothing *)
Theorem C10_missing_lookup : forall (reg : registry) (data : json) (ft : ftable),
  r_strict reg = true ->
  forall (f : nat) (h : helper_v) (coll index : pj) (s : rstate),
    nth_error (hv_params h) 0 = Some coll -> nth_error (hv_params h) 1 = Some index ->
    lookup_value (pj_value coll) (pj_value index) = None ->
    call_helper reg data ft (S f) HLookup h s = RErr (mk_err (RMissingVariable None)) s /\
    call_helper_for_value reg data ft (S f) HLookup h s = RErr (mk_err (RMissingVariable None)) s.
Proof. exact missing_lookup. Qed.
Print Assumptions C10_missing_lookup.
