(* Props/C04_reg.v — property C04, last sentence: a rejected registration
   leaves the registry as it was.  Proofs in Proofs/RegProofs.v. *)
From Coq Require Import List NArith.
From HB Require Import Reg.RegOps Proofs.RegProofs.

Theorem C04_registry_unchanged : forall (r : registry) (n src : str) (e : terror),
  compile2 src (reg_opts r (Some n)) = CErr e ->
  register_template_string r n src = (r, CErr e).
Proof. exact registry_unchanged_string_err. Qed.
Print Assumptions C04_registry_unchanged.

(* whatever the failure (template error, or a panic / fuel outcome of the model) *)
Theorem C04_registry_unchanged_string : forall (r : registry) (n src : str),
  snd (register_template_string r n src) <> COk tt -> fst (register_template_string r n src) = r.
Proof. exact registry_unchanged_string. Qed.
Print Assumptions C04_registry_unchanged_string.

Theorem C04_registry_unchanged_file : forall (r : registry) (fs : files) (n p : str),
  snd (register_template_file r fs n p) <> COk tt -> fst (register_template_file r fs n p) = r.
Proof. exact registry_unchanged_file. Qed.
Print Assumptions C04_registry_unchanged_file.

(* in the case interpreter: after a rejected register_template_string /
   register_partial / register_template_file the selected registry, registry A
   and (when A is selected) the clone are as before *)
Theorem C04_registry_unchanged_step : forall (w : world) (o : op) (res : cres unit),
  (exists n s, o = ORegs n s \/ o = ORegp n s \/ o = ORegf n s) ->
  snd (step_op w o) = Some (ObUnit res) -> res <> COk tt ->
  cur (fst (step_op w o)) = cur w /\ w_a (fst (step_op w o)) = w_a w
  /\ (w_sel w = false -> w_b (fst (step_op w o)) = w_b w).
Proof. exact registry_unchanged_step. Qed.
Print Assumptions C04_registry_unchanged_step.
