(* Props/C19.v — property C19: output is streamed append-only; writer failures
   surface as errors.  Statements only; proofs in Proofs/WriterPrefix.v and
   Proofs/WriterFault.v.
   Vocabulary: `every_render_fn`, `every_render_fn2`, `ends_in` (Spec/RenderAll.v);
   `out_extends o o'`, `with_fault k s`, `fault_outcome k r rk` (Spec/Writer.v):
     out_extends o o' := exists l, o_chunks o' = l ++ o_chunks o /\
        o_writes o' = o_writes o + N.of_nat (length l) /\ Forall (fun c => c <> []) l /\
        o_fail_at o' = o_fail_at o /\
        (forall k, o_fail_at o = Some k -> o_writes o <= k -> o_writes o' <= k)
   (chunks are kept most recent first, so `l ++ old` is old followed by l). *)
From Coq Require Import List NArith.
From HB Require Import Rt.Render Spec.RenderAll Spec.Writer Proofs.WriterPrefix Proofs.WriterFault
  Proofs.WriterIo.
Import ListNotations.
Open Scope N_scope.

(* no_retract: across every call of every function of the render fixpoint, in
   Ok and Err outcomes, the writer buffer only grows: accepted chunks stay in
   place, new ones are non-empty and counted, the fault index is constant and
   the number of accepted calls never passes it *)
Theorem C19_no_retract : forall reg data ft f,
  every_render_fn reg data ft f
    (fun A s r => forall s', ends_in r s' -> out_extends (s_out s) (s_out s')).
Proof. exact no_retract. Qed.
Print Assumptions C19_no_retract.

(* the bytes handed to the writer at any moment are a prefix of those handed
   over later *)
Theorem C19_text_only_grows : forall reg data ft f,
  every_render_fn reg data ft f
    (fun A s r => forall s', ends_in r s' -> exists t, out_text (s_out s') = out_text (s_out s) ++ t).
Proof. exact text_only_grows. Qed.
Print Assumptions C19_text_only_grows.

(* subexpr_private: a subexpression's helper writes to a private buffer; the
   enclosing writer buffer is exactly what it was, in Ok and Err outcomes *)
Theorem C19_subexpr_private : forall reg data ft f hid h s s',
  ends_in (call_helper_for_value reg data ft f hid h s) s' -> s_out s' = s_out s.
Proof. exact subexpr_private. Qed.
Print Assumptions C19_subexpr_private.

(* writer_prefix, for every function of the fixpoint: run it from a state s whose
   writer never fails and from the same state with the writer failing at call k
   (0-based, k not yet reached).  Either the fault is never hit and the outcomes
   agree (same value / error / panic site, same final state up to the armed
   fault, at most k calls accepted), or the second run returns Err(IOError)
   with exactly k calls accepted, and those chunks are a proper prefix of the
   chunk sequence of whatever state the first run ends in.  In particular the
   faulty run is never Ok past the fault and panics only where the fault-free
   run panics. *)
Theorem C19_writer_prefix_all : forall k reg data ft f,
  every_render_fn2 reg data ft f (with_fault k)
    (fun A s r rk => o_fail_at (s_out s) = None -> o_writes (s_out s) <= k -> fault_outcome k r rk).
Proof. exact writer_prefix_all. Qed.
Print Assumptions C19_writer_prefix_all.

Theorem C19_writer_prefix : forall k reg data ft fuel t s,
  o_fail_at (s_out s) = None -> o_writes (s_out s) <= k ->
  fault_outcome k (render_template reg data ft fuel t s)
                  (render_template reg data ft fuel t (with_fault k s)).
Proof. exact writer_prefix. Qed.
Print Assumptions C19_writer_prefix.

(* from the initial state of a render call, against a successful fault-free
   render: the failing writer either is never hit (at most k calls) and the
   result is the same, or render returns Err(IOError) and the accepted chunks
   are exactly the first k chunks of the fault-free run *)
Theorem C19_writer_prefix_top : forall reg data ft fuel t root dev k a s1,
  render_template reg data ft fuel t (st_init root dev None) = ROk a s1 ->
  (o_writes (s_out s1) <= k /\
   render_template reg data ft fuel t (st_init root dev (Some k)) = ROk a (with_fault k s1))
  \/
  (k < o_writes (s_out s1) /\
   exists e sk', render_template reg data ft fuel t (st_init root dev (Some k)) = RErr e sk' /\
                 e_reason e = RIOError /\ o_writes (s_out sk') = k /\
                 rev (o_chunks (s_out sk')) = firstn (N.to_nat k) (rev (o_chunks (s_out s1)))).
Proof. exact writer_prefix_top. Qed.
Print Assumptions C19_writer_prefix_top.

Theorem C19_writer_prefix_text : forall reg data ft fuel t root dev k a s1 sk',
  render_template reg data ft fuel t (st_init root dev None) = ROk a s1 ->
  ends_in (render_template reg data ft fuel t (st_init root dev (Some k))) sk' ->
  exists rest, out_text (s_out s1) = out_text (s_out sk') ++ rest.
Proof. exact writer_prefix_text. Qed.
Print Assumptions C19_writer_prefix_text.

Theorem C19_fault_surfaces : forall reg data ft fuel t root dev k a s1,
  render_template reg data ft fuel t (st_init root dev None) = ROk a s1 ->
  k < o_writes (s_out s1) ->
  exists e sk', render_template reg data ft fuel t (st_init root dev (Some k)) = RErr e sk' /\
                e_reason e = RIOError.
Proof. exact fault_surfaces. Qed.
Print Assumptions C19_fault_surfaces.

(* an IOError is only ever the writer's: every Err outcome of any function of the
   fixpoint whose reason is IOError ends in a state whose writer has a fault
   index that its count of accepted calls has reached *)
Theorem C19_io_error_only_at_fault : forall reg data ft f,
  every_render_fn reg data ft f
    (fun A s r => forall e s', r = RErr e s' -> e_reason e = RIOError ->
                  exists k, o_fail_at (s_out s') = Some k /\ k <= o_writes (s_out s')).
Proof. exact io_error_only_at_fault. Qed.
Print Assumptions C19_io_error_only_at_fault.

(* so it needs a failing writer to begin with (with `o_fail_at = None` no
   IOError can come out), and, entered before the fault, it comes out with
   exactly k calls accepted: nothing is written after the failure *)
Theorem C19_io_error_needs_fault : forall reg data ft f,
  every_render_fn reg data ft f
    (fun A s r => forall e s', r = RErr e s' -> e_reason e = RIOError ->
       exists k, o_fail_at (s_out s) = Some k /\
                 (o_writes (s_out s) <= k -> o_writes (s_out s') = k)).
Proof. exact io_error_needs_fault. Qed.
Print Assumptions C19_io_error_needs_fault.
