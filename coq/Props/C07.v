(* Props/C07.v — property C07: each visits every element once, in order, with
   correct iteration variables.  Statements only; `each_block`, `each_scope`,
   `each_locals`, `each_key_json` (the closed form of the block / scope of
   iteration i), `each_pre` (the loop invariant on the front block), `iter_run`
   (the run of a loop with the text each iteration appends) and `block_rel`
   are in Spec/Scope.v; proofs in Proofs/EachProofs.v.

   The frame property of the body ("a completed render of the body leaves the
   block stack as it found it", C08) and the append-only property of the
   writer are hypotheses here; they are proved for render_template elsewhere.
   Bound written in a statement: C07_each_scope_R_array needs the index to fit
   in a u64 (arrays longer than 2^64 do not exist in the crate). *)
From Coq Require Import List NArith.
From HB Require Import Rt.Render Spec.Scope Proofs.PathProofs Proofs.EachProofs.
Import ListNotations.
Open Scope N_scope.
Open Scope list_scope.

(* ---------- the arm, unfolded ---------- *)
Theorem C07_each_array_unfold : forall reg data ft f h s value rest t l,
  hv_params h = value :: rest -> hv_tpl h = Some t -> pj_value value = JArr l ->
  (l <> [] \/ hv_inv h = None) ->
  call_helper reg data ft (S f) HEach h s =
  rbind (fold_idx (fun v i s' =>
                     render_template reg data ft f t
                       (each_iter_setup h (sc_context_path (pj_val value)) (length l) i None v s'))
                  l O (push_block (create_block value) s))
        (fun _ s1 => ROk tt (pop_block s1)).
Proof. exact each_array_unfold. Qed.
Print Assumptions C07_each_array_unfold.

Theorem C07_each_object_unfold : forall reg data ft f h s value rest t m,
  hv_params h = value :: rest -> hv_tpl h = Some t -> pj_value value = JObj m ->
  (m <> [] \/ hv_inv h = None) ->
  call_helper reg data ft (S f) HEach h s =
  rbind (fold_idx (fun (kv : str * json) i s' =>
                     render_template reg data ft f t
                       (each_iter_setup h (sc_context_path (pj_val value)) (length m) i
                                        (Some (fst kv)) (snd kv) s'))
                  m O (push_block (create_block value) s))
        (fun _ s1 => ROk tt (pop_block s1)).
Proof. exact each_object_unfold. Qed.
Print Assumptions C07_each_object_unfold.

(* ---------- one iteration's setup ---------- *)
(* if the front block is what create_block made (i = 0) or the block of
   iteration i-1 (`each_pre`), the setup of iteration i replaces it by
   each_block ... i: locals first = (i = 0), last = (i = n-1), index = i,
   key = the key; base path = path ++ [index or key] (pushed when i = 0,
   last segment overwritten when i > 0) or base value = the element; block
   parameters first |-> element, second |-> index / key *)
Theorem C07_each_iter_setup : forall h path n i key v s b rest keyed,
  s_blocks s = b :: rest ->
  is_some key = keyed ->
  each_pre (hv_bp h) path keyed i b ->
  each_iter_setup h path n i key v s = set_blocks s (each_block (hv_bp h) path n i key v :: rest).
Proof. exact each_iter_setup_front. Qed.
Print Assumptions C07_each_iter_setup.

Theorem C07_each_pre_create : forall bp value keyed,
  each_pre bp (sc_context_path (pj_val value)) keyed 0 (create_block value).
Proof. exact each_pre_create. Qed.
Print Assumptions C07_each_pre_create.

Theorem C07_each_pre_next : forall bp path keyed n i key v,
  is_some key = keyed ->
  each_pre bp path keyed (S i) (each_block bp path n i key v).
Proof. exact each_pre_next. Qed.
Print Assumptions C07_each_pre_next.

(* ---------- the loop in closed form ---------- *)
(* once per element, in list order, iteration i with each_block ... i on top
   of the caller's block stack, the rest of the state threaded through; at
   the end the caller's block stack is back *)
Theorem C07_each_array : forall reg data ft f h s value rest t l,
  hv_params h = value :: rest -> hv_tpl h = Some t -> pj_value value = JArr l ->
  (l <> [] \/ hv_inv h = None) ->
  (forall s1 s2, render_template reg data ft f t s1 = ROk tt s2 -> s_blocks s2 = s_blocks s1) ->
  call_helper reg data ft (S f) HEach h s =
  rbind (fold_idx (fun v i s' =>
                     render_template reg data ft f t
                       (set_blocks s' (each_block (hv_bp h) (sc_context_path (pj_val value))
                                                  (length l) i None v :: s_blocks s)))
                  l O s)
        (fun _ s1 => ROk tt (set_blocks s1 (s_blocks s))).
Proof. exact each_array. Qed.
Print Assumptions C07_each_array.

(* objects: entries in the order of the association list (sorted keys) *)
Theorem C07_each_object : forall reg data ft f h s value rest t m,
  hv_params h = value :: rest -> hv_tpl h = Some t -> pj_value value = JObj m ->
  (m <> [] \/ hv_inv h = None) ->
  (forall s1 s2, render_template reg data ft f t s1 = ROk tt s2 -> s_blocks s2 = s_blocks s1) ->
  call_helper reg data ft (S f) HEach h s =
  rbind (fold_idx (fun (kv : str * json) i s' =>
                     render_template reg data ft f t
                       (set_blocks s' (each_block (hv_bp h) (sc_context_path (pj_val value))
                                                  (length m) i (Some (fst kv)) (snd kv) :: s_blocks s)))
                  m O s)
        (fun _ s1 => ROk tt (set_blocks s1 (s_blocks s))).
Proof. exact each_object. Qed.
Print Assumptions C07_each_object.

(* ---------- the output is the concatenation, in order ---------- *)
Theorem C07_each_array_output : forall reg data ft f h s value rest t l s',
  hv_params h = value :: rest -> hv_tpl h = Some t -> pj_value value = JArr l ->
  (l <> [] \/ hv_inv h = None) ->
  (forall s1 s2, render_template reg data ft f t s1 = ROk tt s2 -> s_blocks s2 = s_blocks s1) ->
  (forall s1 s2, render_template reg data ft f t s1 = ROk tt s2 ->
                 exists d, out_text (s_out s2) = out_text (s_out s1) ++ d) ->
  call_helper reg data ft (S f) HEach h s = ROk tt s' ->
  exists ds s_last,
    iter_run (fun v i s1 =>
                render_template reg data ft f t
                  (set_blocks s1 (each_block (hv_bp h) (sc_context_path (pj_val value))
                                             (length l) i None v :: s_blocks s)))
             l O s ds s_last
    /\ s' = set_blocks s_last (s_blocks s)
    /\ length ds = length l
    /\ out_text (s_out s') = out_text (s_out s) ++ concat ds.
Proof. exact each_array_output. Qed.
Print Assumptions C07_each_array_output.

Theorem C07_each_object_output : forall reg data ft f h s value rest t m s',
  hv_params h = value :: rest -> hv_tpl h = Some t -> pj_value value = JObj m ->
  (m <> [] \/ hv_inv h = None) ->
  (forall s1 s2, render_template reg data ft f t s1 = ROk tt s2 -> s_blocks s2 = s_blocks s1) ->
  (forall s1 s2, render_template reg data ft f t s1 = ROk tt s2 ->
                 exists d, out_text (s_out s2) = out_text (s_out s1) ++ d) ->
  call_helper reg data ft (S f) HEach h s = ROk tt s' ->
  exists ds s_last,
    iter_run (fun (kv : str * json) i s1 =>
                render_template reg data ft f t
                  (set_blocks s1 (each_block (hv_bp h) (sc_context_path (pj_val value))
                                             (length m) i (Some (fst kv)) (snd kv) :: s_blocks s)))
             m O s ds s_last
    /\ s' = set_blocks s_last (s_blocks s)
    /\ length ds = length m
    /\ out_text (s_out s') = out_text (s_out s) ++ concat ds.
Proof. exact each_object_output. Qed.
Print Assumptions C07_each_object_output.

(* ---------- each_scope_R: ties C07 to C01 ---------- *)
Theorem C07_each_scope_R : forall D bp path n i key v,
  (forall p, path = Some p ->
             walk (Some D) (p ++ [match key with Some k => k | None => n_to_dec (N.of_nat i) end])
             = NavSome v) ->
  block_rel D (each_block bp path n i key v) (each_scope bp n i key v).
Proof. exact each_scope_R. Qed.
Print Assumptions C07_each_scope_R.

(* collection reached by a context path p: array element i *)
Theorem C07_each_scope_R_array : forall D bp p l n i v,
  walk (Some D) p = NavSome (JArr l) ->
  nth_error l i = Some v ->
  N.of_nat i <= u64_max ->
  block_rel D (each_block bp (Some p) n i None v) (each_scope bp n i None v).
Proof. exact each_scope_R_array. Qed.
Print Assumptions C07_each_scope_R_array.

(* ... object entry i (keys strictly sorted, as in every wf_json object) *)
Theorem C07_each_scope_R_object : forall D bp p m n i k v,
  walk (Some D) p = NavSome (JObj m) ->
  keys_sorted m = true ->
  nth_error m i = Some (k, v) ->
  block_rel D (each_block bp (Some p) n i (Some k) v) (each_scope bp n i (Some k) v).
Proof. exact each_scope_R_object. Qed.
Print Assumptions C07_each_scope_R_object.

(* collection without a context path (literal, subexpression result, ...) *)
Theorem C07_each_scope_R_value : forall D bp n i key v,
  block_rel D (each_block bp None n i key v) (each_scope bp n i key v).
Proof. exact each_scope_R_value. Qed.
Print Assumptions C07_each_scope_R_value.

(* ---------- each_empty ---------- *)
(* empty collection with an else body, or a value that is neither an array
   nor an object: the else body if present, otherwise nothing (non-strict) /
   MissingVariable (strict) *)
Theorem C07_each_empty : forall reg data ft f h s value rest t,
  hv_params h = value :: rest -> hv_tpl h = Some t ->
  match pj_value value with
  | JArr l => l = [] /\ hv_inv h <> None
  | JObj m => m = [] /\ hv_inv h <> None
  | _ => True
  end ->
  call_helper reg data ft (S f) HEach h s =
  match hv_inv h with
  | Some et => render_template reg data ft f et s
  | None => if r_strict reg then RErr (mk_err (RMissingVariable (pj_rel value))) s else ROk tt s
  end.
Proof. exact each_otherwise. Qed.
Print Assumptions C07_each_empty.

(* empty collection, no else body: a block is pushed and popped, nothing is
   rendered and the state is unchanged (also in strict mode) *)
Theorem C07_each_empty_no_inverse : forall reg data ft f h s value rest t,
  hv_params h = value :: rest -> hv_tpl h = Some t -> hv_inv h = None ->
  (pj_value value = JArr [] \/ pj_value value = JObj []) ->
  call_helper reg data ft (S f) HEach h s = ROk tt (pop_block (push_block (create_block value) s))
  /\ pop_block (push_block (create_block value) s) = s.
Proof. exact each_empty_no_inverse. Qed.
Print Assumptions C07_each_empty_no_inverse.

Theorem C07_each_no_template : forall reg data ft f h s value rest,
  hv_params h = value :: rest -> hv_tpl h = None ->
  call_helper reg data ft (S f) HEach h s = ROk tt s.
Proof. exact each_no_template. Qed.
Print Assumptions C07_each_no_template.

Theorem C07_each_no_param : forall reg data ft f h s,
  hv_params h = [] ->
  call_helper reg data ft (S f) HEach h s = RErr (mk_err (RParamNotFoundForIndex (`"each") 0)) s.
Proof. exact each_no_param. Qed.
Print Assumptions C07_each_no_param.

(* ---------- nested each ---------- *)
(* during iteration j of an inner each whose block sits directly on the block
   of iteration i of an outer each, level 1 (@../x) reads the outer
   iteration's variables and level 0 the inner one's *)
Theorem C07_each_nested_locals : forall h2 path2 n2 j key2 v2 s inner bp path n i key v rest,
  s_blocks s = inner :: each_block bp path n i key v :: rest ->
  let blocks := s_blocks (each_iter_setup h2 path2 n2 j key2 v2 s) in
  get_local_var blocks 1 (`"index") = Some (JNum (PosInt (N.of_nat i)))
  /\ get_local_var blocks 1 (`"first") = Some (JBool (Nat.eqb i 0))
  /\ get_local_var blocks 1 (`"last") = Some (JBool (Nat.eqb i (n - 1)))
  /\ get_local_var blocks 1 (`"key") = option_map JStr key
  /\ get_local_var blocks 0 (`"index") = Some (JNum (PosInt (N.of_nat j))).
Proof. exact each_nested_locals. Qed.
Print Assumptions C07_each_nested_locals.
