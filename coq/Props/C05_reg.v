(* Props/C05_reg.v — property C05, last sentence: a failed render leaves the
   registry usable and later renders unaffected.  Proofs in Proofs/RegProofs.v;
   exec_ops (Spec/RegistryMap.v) is the world after a sequence of operations. *)
From Coq Require Import List NArith.
From HB Require Import Reg.RegOps Spec.RegistryMap Proofs.RegProofs.
Import ListNotations.

(* a render that fails anywhere in any sequence of operations: every other
   observation and the final state are those of the sequence without it *)
Theorem C05_after_failed_render :
  forall (w : world) (l1 l2 : list op) (e : N) (t : str) (d : json) (f : option N)
         (err : rerror) (acc lg : str),
  let w1 := exec_ops w l1 in
  render_entry (cur w1) (w_files w1) (w_ft w1) e t d f = RoErr err acc lg ->
  run_ops w (l1 ++ ORender e t d f :: l2)
  = run_ops w l1 ++ ObRender (RoErr err acc lg) :: run_ops w1 l2
  /\ run_ops w (l1 ++ l2) = run_ops w l1 ++ run_ops w1 l2
  /\ exec_ops w (l1 ++ ORender e t d f :: l2) = exec_ops w (l1 ++ l2).
Proof. exact after_failed_render. Qed.
Print Assumptions C05_after_failed_render.
