(* Props/C11_whole.v — property C11, whole-template closed form: exactly WHICH
   whitespace the `~` markers and the standalone rule remove, for every
   compilable source, blocks included.

   Vocabulary: Spec/WsWhole.v —
     ws_piece po pt npre nsa piece = end_trim npre nsa (ws_text po pt piece)
       the text piece between two neighbouring tags P and N: P's trailing `~`
       (po) removes all leading whitespace, else P standing alone on its line
       (pt) removes the leading blanks and one LF / CRLF; N's leading `~` (npre)
       removes all trailing whitespace, then N standing alone (nsa) removes the
       trailing blanks; nothing else;
     ws_walk / ws_expected  the pieces of the token stream in document order
       (block bodies and raw-block bodies included), each through ws_piece; a
       function of the source, the options and the tokens only (the comment of
       Spec/WsWhole.v lists where it follows the model rather than the sketch
       "one piece per pair of tags");
   Spec/StripTagsBlocks.v (all_raw_text, blocks_plain), Spec/StripTags.v
   (strip_tags).  Statements only; proofs in Proofs/WsWhole.v. *)
From Coq Require Import List NArith Bool.
From HB Require Import Base.Str Peg.Peg Peg.Grammar Tpl.Ast Tpl.Compile Spec.AlignedSpec Spec.WsSpec
  Spec.WfTokens Spec.StripTags Spec.StripTagsBlocks Spec.WsWhole Proofs.WsWhole.
Import ListNotations.
Open Scope N_scope.

Theorem C11_whole_template : forall src opts ts t,
  hb_parse (peg_fuel src) R_handlebars src = Parsed ts ->
  compile2 src opts = COk t ->
  all_raw_text (t_els t) = ws_expected src opts ts.
Proof. exact whole_template. Qed.
Print Assumptions C11_whole_template.

(* one piece, spelled out *)
Theorem C11_ws_piece : forall po pt npre nsa piece,
  ws_piece po pt npre nsa piece
  = (let a := if po then trim_start piece
              else if pt then strip_first_newline (trim_start_blank piece) else piece in
     let b := if npre then trim_end a else a in
     if nsa then trim_end_blank b else b).
Proof. intros. reflexivity. Qed.
Print Assumptions C11_ws_piece.

(* (a) without `~` and without a standalone tag nothing is removed: the closed
   form is the source with its tags deleted (C03_conservation_blocks again) *)
Theorem C11_whole_template_plain : forall src opts ts t,
  hb_parse (peg_fuel src) R_handlebars src = Parsed ts ->
  blocks_plain src opts ts = true ->
  compile2 src opts = COk t ->
  ws_expected src opts ts = strip_tags src ts (filter not_escape ts) 0.
Proof. exact whole_template_plain. Qed.
Print Assumptions C11_whole_template_plain.

(* the flags of a tag do not depend on the fuel with which its expression is read *)
Theorem C11_tag_flags_fuel : forall src pr it r f F, (f <= F)%nat ->
  tag_expr src f pr it = COk r -> tag_expr src F pr it = COk r.
Proof. intros src pr it r f F. exact (tag_expr_mono src pr it r f F). Qed.
Print Assumptions C11_tag_flags_fuel.

(* (c) a multi-line source with standalone block lines, an indented standalone
   partial, tildes on both sides of a value expression, a comment, an else chain
   with a leading tilde and a raw block (Proofs/WsWhole.v, wb_src) *)
Theorem C11_whole_template_example :
  exists ts t,
    hb_parse (peg_fuel wb_src) R_handlebars wb_src = Parsed ts /\
    compile2 wb_src default_opts = COk t /\
    all_raw_text (t_els t) = ws_expected wb_src default_opts ts /\
    ws_expected wb_src default_opts ts = `" t u " ++ [10] ++ `" v" ++ [10] ++ `" {{r}}  e ".
Proof. exact whole_template_blocks_example. Qed.
Print Assumptions C11_whole_template_example.

(* a flat one: a comment and an indented partial alone on their lines, `~` on
   both sides of a value expression, an escape *)
Theorem C11_whole_template_flat_example :
  exists ts t,
    hb_parse (peg_fuel wf_src) R_handlebars wf_src = Parsed ts /\
    block_free ts = true /\
    compile2 wf_src default_opts = COk t /\
    all_raw_text (t_els t) = ws_expected wf_src default_opts ts /\
    ws_expected wf_src default_opts ts = `"a" ++ [10] ++ `"bc {{d}}   " ++ [10] ++ `"e  ".
Proof. exact whole_template_flat_example. Qed.
Print Assumptions C11_whole_template_flat_example.
