(* Props/C15.v — property C15: comparison and boolean helpers agree with exact
   arithmetic and the order laws.  Statements only; proofs in Proofs/NumProofs.v. *)
From Coq Require Import QArith.
From HB Require Import Base.Json Proofs.NumProofs.

(* gt/gte/lt/lte compare the exact mathematical values of any two JSON numbers,
   however represented (num_q is the rational mant * 2^exp / the integer) *)
Theorem C15_cmp_nums_exact : forall a b : num,
  cmp_nums a b = Some (Qcompare (num_q a) (num_q b)).
Proof. exact cmp_nums_exact. Qed.
Print Assumptions C15_cmp_nums_exact.

Theorem C15_lt_gt_flip : forall x y : json, h_lt x y = h_gt y x.
Proof. exact lt_gt_flip. Qed.
Print Assumptions C15_lt_gt_flip.

Theorem C15_gte_lte_flip : forall x y : json, h_gte x y = h_lte y x.
Proof. exact gte_lte_flip. Qed.
Print Assumptions C15_gte_lte_flip.

Theorem C15_gt_implies : forall x y : json,
  h_gt x y = true -> h_gte x y = true /\ h_lt x y = false.
Proof. exact gt_implies. Qed.
Print Assumptions C15_gt_implies.

Theorem C15_eq_ne : forall x y : json, h_eq x y = negb (h_ne x y).
Proof. exact eq_ne. Qed.
Print Assumptions C15_eq_ne.

Theorem C15_incomparable : forall x y : json,
  comparable x y = false ->
  h_gt x y = false /\ h_gte x y = false /\ h_lt x y = false /\ h_lte x y = false.
Proof. exact incomparable_all_false. Qed.
Print Assumptions C15_incomparable.

Theorem C15_numeric_string : forall a s b,
  parse_json_number s = Some b ->
  compare_json (JNum a) (JStr s) = Some (Qcompare (num_q a) (num_q b)).
Proof. exact num_vs_numeric_string. Qed.
Print Assumptions C15_numeric_string.

Theorem C15_nonnumeric_string : forall a s,
  parse_json_number s = None ->
  h_gt (JNum a) (JStr s) = false /\ h_gte (JNum a) (JStr s) = false /\
  h_lt (JNum a) (JStr s) = false /\ h_lte (JNum a) (JStr s) = false.
Proof. exact num_vs_nonnumeric_string. Qed.
Print Assumptions C15_nonnumeric_string.

Theorem C15_string_lex : forall a b : str, str_cmp a b = Lt <-> lex_lt a b.
Proof. exact str_cmp_lex. Qed.
Print Assumptions C15_string_lex.

Theorem C15_string_eq : forall a b : str, str_cmp a b = Eq <-> a = b.
Proof. exact str_cmp_eq. Qed.
Print Assumptions C15_string_eq.

Theorem C15_bool_order :
  compare_json (JBool false) (JBool true) = Some Lt
  /\ compare_json (JBool true) (JBool false) = Some Gt
  /\ compare_json (JBool true) (JBool true) = Some Eq
  /\ compare_json (JBool false) (JBool false) = Some Eq.
Proof. exact bool_order. Qed.
Print Assumptions C15_bool_order.

Theorem C15_and_or_not_len :
  (forall l, h_and l = forallb (is_truthy false) l) /\
  (forall l, h_or l = existsb (is_truthy false) l) /\
  (forall x, h_not x = negb (is_truthy false x)) /\
  h_and [] = true /\ h_or [] = false /\
  (forall l, h_len (JArr l) = N.of_nat (length l)) /\
  (forall m, h_len (JObj m) = N.of_nat (length m)) /\
  (forall s, h_len (JStr s) = utf8_len s) /\
  (forall x, (match x with JArr _ | JObj _ | JStr _ => False | _ => True end) -> h_len x = 0%N).
Proof. exact and_or_not_len. Qed.
Print Assumptions C15_and_or_not_len.
