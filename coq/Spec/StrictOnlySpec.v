(* Spec/StrictOnlySpec.v -- vocabulary of the third clause of C10. *)
From HB Require Export Reg.RegOps.

(* the reasons of the errors that only strict mode raises *)
Definition strict_only_reason (r : rreason) : bool :=
  match r with
  | RMissingVariable _ => true           (* expression, each / with without else, lookup, value helper *)
  | RParamNotFoundForName _ _ => true    (* a handlebars_helper! macro helper given a missing parameter *)
  | _ => false
  end.

(* x: the strict run, y: the non-strict run: x coincides with y (same value,
   same error, same panic, same final state) or is a strict-only error *)
Definition so {A} (x y : rres A) : Prop :=
  x = y \/ exists e s, x = RErr e s /\ strict_only_reason (e_reason e) = true.

(* the same for what a registry entry point reports *)
Definition so_obs (x y : render_obs) : Prop :=
  x = y \/ exists e accepted log, x = RoErr e accepted log /\ strict_only_reason (e_reason e) = true.
