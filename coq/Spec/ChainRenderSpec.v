(* Spec/ChainRenderSpec.v — vocabulary for the render half of property C06
   (else-chains of `if` / `unless` blocks).

   A chain as compiled is `chain_block c links fe`: the block of the first link
   whose inverse template is `nest` (Spec/ChainSpec.v) of the remaining links.
   A link "evaluates" in the state st when its tag is `if` or `unless`, and its
   parameters and hash arguments evaluate to values without changing the state;
   it then "selects" its body according to the truthiness of the first
   parameter.  The result of rendering the chain is `chain_result`: the selected
   body rendered from `chain_entry`, followed by `chain_exit`. *)
From HB Require Import Rt.Render Spec.ChainSpec.
Import ListNotations.

Inductive ckind := KIf | KUnless.
Definition kind_name (k : ckind) : str := match k with KIf => `"if" | KUnless => `"unless" end.
Definition kind_hid (k : ckind) : helper_id := match k with KIf => HIf | KUnless => HUnless end.

(* st with the three fields that the bookkeeping around a helper block touches
   replaced: content_produced, indent_before_write, current_template *)
Definition frame (st : rstate) (cp ibw : bool) (cur : option str) : rstate :=
  set_current (set_indent_before_write (set_content_produced st cp) ibw) cur.

Definition link_body (lk : link) : template := let '(_, b, _) := lk in b.
Definition link_ibw (lk : link) : bool := let '(_, _, w) := lk in w.

(* the helper block of a link, with the nest of the remaining links as inverse *)
Definition block (c : bool) (lk : link) (rest : list link) (fe : option template) : helper_t :=
  let '(e, b, w) := lk in
  MkH (es_name e) (es_params e) (es_hash e) (es_bp e) (Some b) (nest rest fe) true c w.

Definition chain_block (c : bool) (links : list link) (fe : option template) : helper_t :=
  match links with
  | lk :: rest => block c lk rest fe
  | [] => MkH (PName []) [] [] None None fe true c false
  end.

(* hash_get("includeZero").and_then(as_bool).unwrap_or(false) *)
Definition include_zero (hm : list (str * pj)) : bool :=
  match map_get hm (`"includeZero") with
  | Some v => match pj_value v with JBool b => b | _ => false end
  | None => false
  end.

(* does a link of kind k with condition value c select its own body? *)
Definition selects (k : ckind) (iz : bool) (c : json) : bool :=
  match k with KIf => is_truthy iz c | KUnless => negb (is_truthy iz c) end.

Section ChainRender.
  Variables (reg : registry) (data : json) (ft : ftable) (st : rstate).

  (* the parameters / hash arguments evaluate, at any positive fuel and whatever
     the three bookkeeping fields hold, to pv / hm and leave the state alone *)
  Definition quiet_params (ps : list param) (pv : list pj) : Prop :=
    forall f cp ibw cur,
      mapM (expand_param reg data ft (S f)) ps (frame st cp ibw cur) = ROk pv (frame st cp ibw cur).

  Definition quiet_hash (hs : list (str * param)) (hm : list (str * pj)) : Prop :=
    forall f cp ibw cur,
      mapM (fun kv s' => rbind (expand_param reg data ft (S f) (snd kv) s')
                               (fun v s'' => ROk (fst kv, v) s''))
           hs (frame st cp ibw cur) = ROk hm (frame st cp ibw cur).

  (* one parameter *)
  Definition quiet_param (p : param) (v : pj) : Prop :=
    forall f cp ibw cur,
      expand_param reg data ft (S f) p (frame st cp ibw cur) = ROk v (frame st cp ibw cur).

  (* the link is an `if` / `unless` tag (kind k) whose condition (first
     parameter) evaluates to the JSON value c, with includeZero = iz *)
  Definition link_evals (lk : link) (k : ckind) (iz : bool) (c : json) : Prop :=
    let '(e, _, _) := lk in
    es_name e = PName (kind_name k) /\
    exists pv hm p0,
      quiet_params (es_params e) pv /\ quiet_hash (es_hash e) hm /\
      nth_error pv 0 = Some p0 /\ pj_value p0 = c /\ include_zero hm = iz.

  Definition link_selected (lk : link) : Prop :=
    exists k iz c, link_evals lk k iz c /\ selects k iz c = true.
  Definition link_passed (lk : link) : Prop :=
    exists k iz c, link_evals lk k iz c /\ selects k iz c = false.

  (* the registry holds the builtins under their names; no local helper shadows them *)
  Definition builtins_visible : Prop :=
    find_reg_helper reg (`"if") = Some HIf /\ find_reg_helper reg (`"unless") = Some HUnless /\
    find_local_helper st (`"if") = None /\ find_local_helper st (`"unless") = None.

  (* the state a branch body is rendered from, when it sits at depth k of the
     chain (k links were passed) and `wany` = some link up to it has its
     indent_before_write flag set: nothing produced yet, indentation pending if
     it was, or if such a tag stands alone on its line; below the first level
     the current template name is None (the synthesised inverse templates are
     unnamed) *)
  Definition chain_entry (k : nat) (wany : bool) : rstate :=
    frame st false (s_indent_before_write st || (wany && s_trailing_newline st))
          (match k with O => s_current st | S _ => None end).

  (* what happens to the state s2 the body ends in: if it produced content,
     indent_before_write := trailing_newline; if not, content_produced and
     indent_before_write get their values of before the chain; below the first
     level the current template name is put back *)
  Definition chain_exit (k : nat) (s2 : rstate) : rstate :=
    let s3 := if s_content_produced s2
              then set_indent_before_write s2 (s_trailing_newline s2)
              else set_indent_before_write (set_content_produced s2 (s_content_produced st))
                                           (s_indent_before_write st) in
    match k with O => s3 | S _ => set_current s3 (s_current st) end.

  (* rendering X (a branch body) as the selected branch at depth k *)
  Definition chain_result (k : nat) (wany : bool) (X : rstate -> rres unit) : rres unit :=
    rbind (X (chain_entry k wany)) (fun _ s2 => ROk tt (chain_exit k s2)).
End ChainRender.
