(* Spec/WsSpec.v — the compile-time whitespace state machine (C11 / C03): the
   vocabulary in which the flag discipline of `step` (Tpl/Compile.v) is stated.

   Two flags travel from a tag to the text that follows it:
     c_omit  (omit_pro_ws)          set by a trailing `~` of the tag
     c_trim  (trim_line_required)   set by the standalone rule
   and a tag looks BACK at the text in front of it: a leading `~` trims the last
   raw element of the front template (trim_end), a standalone tag removes its
   indentation (trim_end_blank).  Everything here is a closed function of the
   source text, the token and the options — no stack, no flags. *)
From HB Require Import Tpl.Compile Spec.AlignedSpec.
Open Scope N_scope.

(* end of the previous main-level token (0 before the first one) *)
Definition prev_end (c : cstate) : N := match c_end c with Some p => p | None => 0 end.

(* what the two flags do to the text that follows a tag *)
Definition ws_text (omit trim : bool) (s : str) : str :=
  if omit then trim_start s
  else if trim then strip_first_newline (trim_start_blank s)
  else s.

(* removal of the first backslash of every `escape` token inside the raw_text /
   raw_block_text token pr (Template::raw_string with Some(pair)) *)
Definition unescape (all_tokens : list tok) (pr : tok) (text : str) : cres str :=
  let span_length := tk_end pr - tk_start pr in
  if N.ltb (len text) span_length then CPanic (`"raw_string len underflow")
  else remove_escapes text (len text - span_length) (tk_start pr) (rev (inner_escapes all_tokens pr)).

(* ---------- looking back: the text in front of a tag ---------- *)
Definition front_map (f : str -> str) (ts : list template) : list template :=
  match ts with
  | [] => []
  | t :: r => map_last_raw f t :: r
  end.

(* a leading `~`: trim_end of the last raw element of the front template *)
Definition lead_trim (pre : bool) (ts : list template) : list template :=
  if pre then front_map trim_end ts else ts.

(* ---------- the standalone rule, on the source as written ---------- *)
Definition all_blank (s : str) : bool := match trim_start_blank s with [] => true | _ => false end.

(* after the tag: blanks then a line break, or (non-partial template) blanks up to the end *)
Definition line_end_after (src : str) (pr : tok) (is_partial : bool) : bool :=
  match suffix_from src (tk_end pr) with
  | Some after => starts_with_empty_line after || (negb is_partial && all_blank after)
  | None => false
  end.

(* before the tag: only blanks back to the previous line break (or to the start) *)
Definition line_start_before (src : str) (pr : tok) : bool :=
  match prefix_to src (tk_start pr) with
  | Some before => ends_with_empty_line before
  | None => false
  end.

Definition standalone (src : str) (pr : tok) (is_partial : bool) : bool :=
  line_end_after src pr is_partial && (N.eqb (tk_start pr) 0 || line_start_before src pr).

(* the only side effect of the standalone check: the indentation in front of the tag goes *)
Definition sa_trim (src : str) (pr : tok) (prevent_indent is_partial : bool)
           (ts : list template) : list template :=
  if line_end_after src pr is_partial && (prevent_indent && line_start_before src pr)
  then front_map trim_end_blank ts else ts.

(* ---------- per tag class ---------- *)
(* classes whose tag carries an expression (name, arguments, `~` markers) *)
Definition expr_class (cls : tag_class) : bool :=
  match cls with
  | KBlockStart _ | KInvert _ | KValueExpr _ | KDecoExpr _ | KHelperEnd | KDecoEnd _ => true
  | _ => false
  end.

(* the expression of the tag token pr, parsed from the tokens `it` that follow
   it.  For a chained else (`{{else if x}}`, `{{~else if x}}`) an optional `~`
   token and the `else` item come first, and the `~` is or-ed into es_pre. *)
Definition tag_expr (src : str) (fuel : nat) (pr : tok) (it : list tok) : cres (espec * list tok) :=
  match tag_classify (tk_rule pr) with
  | KInvert true =>
      let '(chain_pre, ita) :=
        match it with
        | t0 :: it0 => if is_rule R_leading_tilde_to_omit_whitespace t0 then (true, it0) else (false, it)
        | [] => (false, it)
        end in
      do '(_, it0) <- parse_name src fuel ita;
      do '(e0, it1) <- parse_expression src fuel it0 (tk_end pr);
      COk (es_or_pre e0 chain_pre, it1)
  | _ => parse_expression src fuel it (tk_end pr)
  end.

(* classes subject to the standalone rule, with the prevent_indent argument
   they pass (a partial expression keeps its indentation for the partial unless
   the prevent_indent option is set) *)
Definition standalone_capable (opts : copts) (cls : tag_class) : option bool :=
  match cls with
  | KBlockStart _ | KInvert _ | KHelperEnd | KDecoEnd _ | KComment _ => Some true
  | KDecoExpr p => Some (negb (p && o_prevent_indent opts))
  | _ => None
  end.

(* the template stack as the tag's own effect sees it: leading `~` first, then
   the standalone indentation removal; nothing below the front template and
   nothing but the LAST RAW element of the front template can differ from ts *)
Definition tag_ws_stack (src : str) (opts : copts) (cls : tag_class) (pr : tok) (pre : bool)
           (ts : list template) : list template :=
  let ts1 := lead_trim pre ts in
  match standalone_capable opts cls with
  | Some pi => sa_trim src pr pi (o_is_partial opts) ts1
  | None => ts1
  end.

(* the tag's own effect on the stack ts2 it sees (lc = position of the tag) *)
Definition own_effect (cls : tag_class) (lc : N * N) (ts2 ts' : list template) : Prop :=
  match cls with
  | KBlockStart _ => exists t r, ts2 = t :: r /\ ts' = t_push_map t lc :: r
  | KInvert _ => exists t, ts2 = t :: ts'
  | KValueExpr html =>
      exists t r h, ts2 = t :: r /\ ts' = t_push t (if html then ElHtml h else ElExpr h) lc :: r
  | KDecoExpr p =>
      exists t r d, ts2 = t :: r /\ ts' = t_push t (if p then ElPartExpr d else ElDecoExpr d) lc :: r
  | KHelperEnd => exists prev t r h, ts2 = prev :: t :: r /\ ts' = t_push_el t (ElBlock h) :: r
  | KDecoEnd p =>
      exists prev t r d, ts2 = prev :: t :: r
                         /\ ts' = t_push_el t (if p then ElPartBlock d else ElDecoBlock d) :: r
  | KComment _ => exists t r s, ts2 = t :: r /\ ts' = t_push t (ElComment s) lc :: r
  | _ => True
  end.

(* the stack after the trailing-string pre-step when it fires with text txt *)
Definition trailing_push (c : cstate) (pr : tok) (lc : N * N) (el : element) (ts' : list template) : Prop :=
  if rule_eqb (tk_rule pr) R_raw_block_end then ts' = t_push t_empty el lc :: c_ts c
  else exists t r, c_ts c = t :: r /\ ts' = t_push t el lc :: r.
