(* Spec/AlignedSpec.v — the mapping vector of compiled templates (C18):
   `aligned` (one (line, col) entry per element), its hereditary version
   `aligned_deep` with the one exception the compiler creates (the templates
   `insert_inverse_node` synthesises around else-chain links: one element, no
   mapping entry), and the block discipline of token streams under which the
   compile loop keeps mappings aligned. *)
From HB Require Import Tpl.Compile.
Open Scope N_scope.

Definition aligned (t : template) : Prop := length (t_map t) = length (t_els t).

(* the template insert_inverse_node builds: MkT None [ElBlock x] [] *)
Definition chain_wrapper_shape (n : option str) (els : list element) (m : list (N * N)) : Prop :=
  n = None /\ m = [] /\ exists x, els = [ElBlock x].

Fixpoint aligned_deep (t : template) : Prop :=
  match t with
  | MkT _ els m =>
      length m = length els
      /\ (fix go (l : list element) : Prop :=
            match l with [] => True | e :: r => ad_element e /\ go r end) els
  end
with ad_element (e : element) : Prop :=
  match e with
  | ElRaw _ => True
  | ElComment _ => True
  | ElExpr h => ad_helper h
  | ElHtml h => ad_helper h
  | ElBlock h => ad_helper h
  | ElDecoExpr d => ad_deco d
  | ElDecoBlock d => ad_deco d
  | ElPartExpr d => ad_deco d
  | ElPartBlock d => ad_deco d
  end
with ad_helper (h : helper_t) : Prop :=
  match h with
  | MkH _ _ _ _ tpl inv _ _ _ =>
      match tpl with Some t => aligned_deep t | None => True end
      /\ match inv with Some t => ad_inverse t | None => True end
  end
(* an `inverse` field: an aligned template or a chain wrapper *)
with ad_inverse (t : template) : Prop :=
  match t with
  | MkT n els m =>
      (length m = length els \/ chain_wrapper_shape n els m)
      /\ (fix go (l : list element) : Prop :=
            match l with [] => True | e :: r => ad_element e /\ go r end) els
  end
with ad_deco (d : deco_t) : Prop :=
  match d with
  | MkD _ _ _ tpl _ _ => match tpl with Some t => aligned_deep t | None => True end
  end.

(* ---------- the block discipline of a token stream ---------- *)
(* A body template is awaited (right after a block start tag or an else tag, and
   at the very beginning) exactly when the front template has one mapping entry
   more than elements (the entry the open block pushed) or the stack is empty. *)
Definition awaiting (c : cstate) : bool :=
  match c_ts c with
  | [] => true
  | t :: _ => Nat.eqb (length (t_map t)) (S (length (t_els t)))
  end.
Definition ready (c : cstate) : bool :=
  match c_ts c with
  | [] => false
  | t :: _ => Nat.eqb (length (t_map t)) (length (t_els t))
  end.

(* the condition under which `trailing_string` emits a whitespace element *)
Definition trailing_fires (c : cstate) (pr : tok) : bool :=
  let prev_end := match c_end c with Some p => p | None => 0 end in
  let rule := tk_rule pr in
  negb (rule_eqb rule R_template) && negb (N.eqb (tk_start pr) prev_end)
  && negb (c_omit c) && negb (rule_eqb rule R_raw_text)
  && negb (rule_eqb rule R_raw_block_text).

(* `template` / `raw_block_text` tokens arrive only when a body is awaited; block
   start, else and block end tags only when none is; a raw_block_end directly
   follows its raw_block_text (pest: raw_block_text runs up to the "{{{{"). *)
Definition tok_ok (c : cstate) (pr : tok) : bool :=
  match tag_classify (tk_rule pr) with
  | KTemplate | KRawBlockText => awaiting c
  | KBlockStart _ | KInvert _ | KDecoEnd _ => ready c
  | KHelperEnd => ready c && negb (rule_eqb (tk_rule pr) R_raw_block_end && trailing_fires c pr)
  | _ => true
  end.

(* the discipline along the run of main_loop (same fuel, same steps) *)
Fixpoint disciplined (src : str) (all_tokens : list tok) (opts : copts)
         (fuel : nat) (c : cstate) (it : list tok) {struct fuel} : bool :=
  match fuel with
  | O => true
  | S f =>
      match it with
      | [] => ready c
      | pr :: it' =>
          tok_ok c pr &&
          match step src all_tokens opts f c pr it' with
          | COk (c', it'') => disciplined src all_tokens opts f c' it''
          | _ => true
          end
      end
  end.

Definition disciplined_tokens (src : str) (opts : copts) (ts : list tok) : bool :=
  disciplined src ts opts (16 + 4 * length ts) init_cstate
              (filter (fun t => negb (is_rule R_escape t)) ts).

(* ---------- the invariant of the compile loop ---------- *)
Definition ad_els (t : template) : Prop := Forall ad_element (t_els t).
Definition def1 (t : template) : Prop := length (t_map t) = S (length (t_els t)).

(* every template below the front has exactly one pending mapping entry: the one
   pushed by the block that was opened in it and is still open *)
Definition sinv (ts : list template) : Prop :=
  Forall ad_els ts /\ match ts with [] => True | _ :: r => Forall def1 r end.

(* the front template has k pending entries (an empty stack awaits a body) *)
Definition fdef (ts : list template) (k : nat) : Prop :=
  match ts with
  | [] => k = 1%nat
  | t :: _ => length (t_map t) = (k + length (t_els t))%nat
  end.

Definition minv (c : cstate) : Prop :=
  sinv (c_ts c) /\ (fdef (c_ts c) 0 \/ fdef (c_ts c) 1)
  /\ Forall ad_helper (c_hs c) /\ Forall ad_deco (c_ds c).
