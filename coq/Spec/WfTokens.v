(* Spec/WfTokens.v — the set of token lists `wf_tokens`: an inductive description,
   mirroring /repo/src/grammar.pest, of the flattened pre-order token streams that
   HandlebarsParser::parse(Rule::handlebars, src) yields (after compile2 has
   filtered out the `escape` tokens), with the span ordering of pest's
   flattening.  Used as the hypothesis of the C04 stage theorem
   C04_no_panic_wf_tokens_partial.

   Reading guide: a token is (rule, start, end).
     value_toks e l   tokens of one parameter value whose root token ends at e
     name_toks e l    tokens of a tag/subexpression name whose root ends at e
     arg_toks e l     tokens of one argument (param, hash pair, block params, `~`)
     args_toks lo limit l   arguments with strictly increasing root ends in (lo, limit)
     sub_toks limit l name followed by arguments, all ending before limit
     tag_toks limit l children of a tag token ending at limit (optional `~` first)
     items lo hi l    template items; previous main-level token ended at lo,
                      the last main-level token of l ends at hi
     tmpl / chain_parts / inv_part   a `template` token with its items; the
                      `{{else if}}` links; the optional `{{else}}` part *)
From Coq Require Import List NArith Sorting.Sorted.
From HB Require Import Peg.Peg Peg.Grammar Tpl.Compile.
Import ListNotations.
Open Scope N_scope.

Definition ends_le (e : N) (l : list tok) : Prop := Forall (fun t => tk_end t <= e) l.

(* ---------- the token grammar of tag bodies ---------- *)
Inductive value_toks : N -> list tok -> Prop :=
| vt_ref s e l : ends_le e l -> value_toks e ((R_reference, s, e) :: l)
| vt_lit s e k s1 e1 l : k <> R_string_literal -> ends_le e ((k, s1, e1) :: l) ->
    value_toks e ((R_literal, s, e) :: (k, s1, e1) :: l)
| vt_lit_str s e s1 e1 q l : ends_le e ((R_string_literal, s1, e1) :: q :: l) ->
    value_toks e ((R_literal, s, e) :: (R_string_literal, s1, e1) :: q :: l)
| vt_sub s e l : sub_toks e l -> value_toks e ((R_subexpression, s, e) :: l)
with sub_toks : N -> list tok -> Prop :=
| st_mk limit en nm args : name_toks en nm -> en < limit -> args_toks en limit args ->
    sub_toks limit (nm ++ args)
with name_toks : N -> list tok -> Prop :=
| nt_plain r s e : name_classify r = NmPlain -> name_toks e [(r, s, e)]
| nt_ref s e l : ends_le e l -> name_toks e ((R_reference, s, e) :: l)
| nt_sub s e l : sub_toks e l -> name_toks e ((R_subexpression, s, e) :: l)
with args_toks : N -> N -> list tok -> Prop :=
| at_nil lo limit : args_toks lo limit []
| at_cons lo limit ea a rest : arg_toks ea a -> lo < ea -> ea < limit ->
    args_toks ea limit rest -> args_toks lo limit (a ++ rest)
with arg_toks : N -> list tok -> Prop :=
| ag_param s e ev v : value_toks ev v -> ev <= e -> arg_toks e ((R_helper_parameter, s, e) :: v)
| ag_hash s e k ks ke ps pe ev v : value_toks ev v -> ev <= e ->
    arg_toks e ((R_hash, s, e) :: (k, ks, ke) :: (R_helper_parameter, ps, pe) :: v)
| ag_bp1 s e r1 s1 e1 : arg_toks e [(R_block_param, s, e); (r1, s1, e1)]
| ag_bp2 s e r1 s1 e1 r2 s2 e2 : e2 <= e ->
    arg_toks e [(R_block_param, s, e); (r1, s1, e1); (r2, s2, e2)]
| ag_tilde s e : arg_toks e [(R_trailing_tilde_to_omit_whitespace, s, e)].

(* children of a tag token whose span ends at `limit`: optional leading tilde *)
Inductive tag_toks (limit : N) : list tok -> Prop :=
| tg_plain l : sub_toks limit l -> tag_toks limit l
| tg_tilde s e l : sub_toks limit l ->
    tag_toks limit ((R_leading_tilde_to_omit_whitespace, s, e) :: l).


(* ---------- the token grammar of templates ---------- *)
Definition simple_tag (r : rule) : Prop :=
  r = R_expression \/ r = R_html_expression \/ r = R_decorator_expression \/ r = R_partial_expression.
Definition comment_rule (r : rule) : Prop := r = R_hbs_comment \/ r = R_hbs_comment_compact.
Definition deco_pair (rs re : rule) : Prop :=
  (rs = R_decorator_block_start /\ re = R_decorator_block_end) \/
  (rs = R_partial_block_start /\ re = R_partial_block_end).

(* the optional `~` in front of the `else` of a chained else tag *)
Definition opt_tilde (tl : list tok) : Prop :=
  tl = [] \/ exists s e, tl = [(R_leading_tilde_to_omit_whitespace, s, e)].

(* items lo hi l : l is the token list of a sequence of template items; the
   previous main-level token ended at lo, the last one of l ends at hi *)
Inductive items : N -> N -> list tok -> Prop :=
| is_nil lo : items lo lo []
| is_cons lo mid hi a rest : item lo mid a -> items mid hi rest -> items lo hi (a ++ rest)
with item : N -> N -> list tok -> Prop :=
| i_raw lo s e : lo <= s -> s <= e -> item lo e [(R_raw_text, s, e)]
| i_tag lo r s e l : simple_tag r -> lo <= s -> s <= e -> tag_toks e l -> item lo e ((r, s, e) :: l)
| i_comment lo r s e : comment_rule r -> lo <= s -> s <= e -> item lo e [(r, s, e)]
| i_hblock lo s0 e0 l0 body m1 chains m2 inv m3 s9 e9 l9 :
    lo <= s0 -> s0 <= e0 -> tag_toks e0 l0 ->
    tmpl e0 m1 body -> chain_parts m1 m2 chains -> inv_part m2 m3 inv ->
    m3 <= s9 -> s9 <= e9 -> tag_toks e9 l9 ->
    item lo e9 (((R_helper_block_start, s0, e0) :: l0) ++ body ++ chains ++ inv
                ++ (R_helper_block_end, s9, e9) :: l9)
| i_rawblock lo s0 e0 l0 s1 e1 e2 l2 :
    lo <= s0 -> s0 <= e0 -> tag_toks e0 l0 -> e0 <= s1 -> s1 <= e1 -> e1 <= e2 -> tag_toks e2 l2 ->
    item lo e2 (((R_raw_block_start, s0, e0) :: l0)
                ++ (R_raw_block_text, s1, e1) :: (R_raw_block_end, e1, e2) :: l2)
| i_dblock lo rs re s0 e0 l0 body m1 s9 e9 l9 :
    deco_pair rs re -> lo <= s0 -> s0 <= e0 -> tag_toks e0 l0 -> tmpl e0 m1 body ->
    m1 <= s9 -> s9 <= e9 -> tag_toks e9 l9 ->
    item lo e9 (((rs, s0, e0) :: l0) ++ body ++ (re, s9, e9) :: l9)
with tmpl : N -> N -> list tok -> Prop :=
| t_mk lo hi s e body : lo <= s -> s <= e -> items lo hi body ->
    tmpl lo hi ((R_template, s, e) :: body)
with chain_parts : N -> N -> list tok -> Prop :=
| cp_nil lo : chain_parts lo lo []
| cp_cons lo s e tl si ei l body mid hi rest :
    lo <= s -> s <= e -> opt_tilde tl -> sub_toks e l -> tmpl e mid body -> chain_parts mid hi rest ->
    chain_parts lo hi (((R_invert_chain_tag, s, e) :: tl ++ (R_invert_tag_item, si, ei) :: l)
                       ++ body ++ rest)
with inv_part : N -> N -> list tok -> Prop :=
| ip_none lo : inv_part lo lo []
| ip_some lo s e l body hi : lo <= s -> s <= e -> tag_toks e l -> tmpl e hi body ->
    inv_part lo hi (((R_invert_tag, s, e) :: l) ++ body).


(* a whole token stream (escape tokens filtered out): template, items, EOI *)
Definition wf_tokens (ts : list tok) : Prop :=
  exists s e body hi p, ts = (R_template, s, e) :: body ++ [(R_EOI, p, p)] /\
                        items 0 hi body /\ hi <= p.


(* the escape tokens of the unfiltered stream: strictly ordered by start, non-empty *)
Definition not_escape (t : tok) : bool := negb (is_rule R_escape t).
Definition escapes_sorted (all : list tok) : Prop :=
  StronglySorted (fun a b => tk_start a < tk_start b) (filter (is_rule R_escape) all) /\
  Forall (fun t => is_rule R_escape t = true -> tk_start t < tk_end t) all.
