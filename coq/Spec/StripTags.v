(* Spec/StripTags.v — "the source with its tags deleted" (C03, whole templates).

   strip_tags walks the token list that compile2 feeds to its main loop (the
   pest tokens of `handlebars`, `escape` tokens filtered out), with `pe` the end
   of the last main-level token seen so far (0 at the start):

     - a token the loop does not interpret (the children of a tag — names,
       parameters, `~` —, EOI) and the `template` wrapper token contribute
       nothing and leave `pe` alone;
     - a raw_text / raw_block_text token contributes the source text from `pe`
       up to its end — the whitespace pest skipped in front of it and its own
       span — with the first backslash of every `escape` token inside it
       removed (`\{{` becomes `{{`: Spec/WsSpec.v `unescape`);
     - every other token is a tag or a comment: it contributes only the source
       text between `pe` and its start (the skipped whitespace), nothing of its
       own span, and moves `pe` to its end;
     - at the end of the list the rest of the source from `pe` on is added.

   So every character of src outside the tag / comment spans appears exactly
   once, in order, and no character inside such a span appears at all. *)
From Coq Require Import List NArith Bool.
From HB Require Import Base.Str Peg.Peg Peg.Grammar Tpl.Ast Tpl.Compile Spec.AlignedSpec Spec.WsSpec.
Import ListNotations.
Open Scope N_scope.

(* src[a, b) ; empty when the range is not inside src *)
Definition gap (src : str) (a b : N) : str :=
  match slice src a b with Some s => s | None => [] end.

(* the text of a raw_text token with its escapes resolved *)
Definition unesc (all_tokens : list tok) (pr : tok) (txt : str) : str :=
  match unescape all_tokens pr txt with COk s => s | _ => txt end.

Fixpoint strip_tags (src : str) (all_tokens : list tok) (it : list tok) (pe : N) : str :=
  match it with
  | [] => gap src pe (len src)
  | t :: r =>
      match tag_classify (tk_rule t) with
      | KTemplate | KOtherRule => strip_tags src all_tokens r pe
      | KRawText | KRawBlockText =>
          unesc all_tokens t (gap src pe (tk_end t)) ++ strip_tags src all_tokens r (tk_end t)
      | _ => gap src pe (tk_start t) ++ strip_tags src all_tokens r (tk_end t)
      end
  end.

(* the same when the source has no escapes: plain slices *)
Fixpoint strip_tags_plain (src : str) (it : list tok) (pe : N) : str :=
  match it with
  | [] => gap src pe (len src)
  | t :: r =>
      match tag_classify (tk_rule t) with
      | KTemplate | KOtherRule => strip_tags_plain src r pe
      | KRawText | KRawBlockText => gap src pe (tk_end t) ++ strip_tags_plain src r (tk_end t)
      | _ => gap src pe (tk_start t) ++ strip_tags_plain src r (tk_end t)
      end
  end.

(* the concatenated text of the raw elements of an element list, in order *)
Definition raw_text_of (els : list element) : str :=
  concat (map (fun e => match e with ElRaw s => s | _ => [] end) els).

(* A "flat, plain" token stream: no block of any kind, no `~`, and no comment /
   partial / decorator tag that stands alone on its line (the only tags the
   standalone rule applies to outside blocks). *)
Definition is_tilde (t : tok) : bool :=
  is_rule R_leading_tilde_to_omit_whitespace t || is_rule R_trailing_tilde_to_omit_whitespace t.

(* not a block start / else / block end tag, not a raw block body *)
Definition block_free_token (t : tok) : bool :=
  match tag_classify (tk_rule t) with
  | KBlockStart _ | KInvert _ | KHelperEnd | KDecoEnd _ | KRawBlockText => false
  | _ => true
  end.

Definition plain_token (src : str) (opts : copts) (t : tok) : bool :=
  negb (is_tilde t) && block_free_token t &&
  match tag_classify (tk_rule t) with
  | KDecoExpr _ | KComment _ => negb (standalone src t (o_is_partial opts))
  | _ => true
  end.

Definition flat_plain (src : str) (opts : copts) (ts : list tok) : bool :=
  forallb (plain_token src opts) ts.

(* the spans of the main-level tokens, in order: the tiling of the source *)
Fixpoint main_spans (it : list tok) : list (N * N) :=
  match it with
  | [] => []
  | t :: r =>
      match tag_classify (tk_rule t) with
      | KTemplate | KOtherRule => main_spans r
      | _ => (tk_start t, tk_end t) :: main_spans r
      end
  end.

(* consecutive, non-overlapping spans inside [lo, hi] *)
Fixpoint tiles (lo hi : N) (sp : list (N * N)) : Prop :=
  match sp with
  | [] => lo <= hi
  | (s, e) :: r => lo <= s /\ s <= e /\ tiles e hi r
  end.

(* position x lies inside one of the spans *)
Definition covered (sp : list (N * N)) (x : N) : bool :=
  existsb (fun se => N.leb (fst se) x && N.ltb x (snd se)) sp.

(* the characters pest's implicit WHITESPACE rule skips: space, tab, LF, CR *)
Definition ws_char (c : N) : bool := N.eqb c 32 || N.eqb c 9 || N.eqb c 10 || N.eqb c 13.
