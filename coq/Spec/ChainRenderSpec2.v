(* Spec/ChainRenderSpec2.v — vocabulary for the render half of property C06
   with all four block helpers as chain links: if, unless, with, each
   (extends Spec/ChainRenderSpec.v: frame, block, chain_block, quiet_params,
   quiet_hash, include_zero, chain_entry, chain_exit, chain_result). *)
From HB Require Import Rt.Render Spec.ChainSpec Spec.ChainRenderSpec.
Import ListNotations.
Open Scope nat_scope.

Inductive lkind := LIf | LUnless | LWith | LEach.
Definition lkind_name (k : lkind) : str :=
  match k with LIf => `"if" | LUnless => `"unless" | LWith => `"with" | LEach => `"each" end.
Definition lkind_hid (k : lkind) : helper_id :=
  match k with LIf => HIf | LUnless => HUnless | LWith => HWith | LEach => HEach end.

(* what the tag of a link evaluates to: kind, parameter values, hash values,
   and the first parameter (the condition / the value) *)
Record ldata := { ld_kind : lkind; ld_pv : list pj; ld_hm : list (str * pj); ld_p0 : pj }.

Definition is_some {A} (o : option A) : bool := match o with Some _ => true | None => false end.

(* does the link select its own body?  has_inv: is there anything after it
   (a further link or a final else).
   if: truthy (includeZero honoured); unless: not truthy; with: truthy;
   each: a non-empty array / object — and, when nothing follows, also an
   empty one (helper_each.rs iterates it: nothing is rendered) *)
Definition selects2 (d : ldata) (has_inv : bool) : bool :=
  let v := pj_value (ld_p0 d) in
  match ld_kind d with
  | LIf => is_truthy (include_zero (ld_hm d)) v
  | LUnless => negb (is_truthy (include_zero (ld_hm d)) v)
  | LWith => is_truthy false v
  | LEach =>
      match v with
      | JArr l => negb (Nat.eqb (length l) 0) || negb has_inv
      | JObj m => negb (Nat.eqb (length m) 0) || negb has_inv
      | _ => false
      end
  end.

(* fuel: a passed if/unless link costs 5 (its inverse goes through opt_render),
   a passed with/each link 4 (helper_with.rs / helper_each.rs render the
   inverse directly) *)
Definition pass_cost (k : lkind) : nat := match k with LIf | LUnless => 5 | LWith | LEach => 4 end.
Definition chain_cost (ds : list ldata) : nat := fold_right (fun d a => pass_cost (ld_kind d) + a) 0 ds.
(* the fuel at which the inverse of a link is rendered when the link's body
   would be rendered at g *)
Definition inv_fuel (k : lkind) (g : nat) : nat := match k with LIf | LUnless => g | LWith | LEach => S g end.

(* the block `with` pushes for the value v *)
Definition with_block2 (bp : option blockparam) (v : pj) : HB.Rt.State.block :=
  match bp with
  | Some (BP1 a) =>
      b_set_params (create_block v)
        (map_insert [] a (match sc_context_path (pj_val v) with
                          | Some _ => BPPath []
                          | None => BPValue (pj_value v)
                          end))
  | _ => create_block v
  end.

(* a Helper value that carries only the block parameters (all that
   each_iter_setup reads) *)
Definition hv_of_bp (bp : option blockparam) : helper_v :=
  {| hv_name := []; hv_params := []; hv_hash := []; hv_tpl := None; hv_inv := None;
     hv_bp := bp; hv_block := true |}.

Section Links.
  Variables (reg : registry) (data : json) (ft : ftable) (st : rstate).

  (* the tag of the link is a `k` tag whose parameters and hash arguments
     evaluate quietly to the values recorded in d *)
  Definition link_evals2 (lk : link) (d : ldata) : Prop :=
    let '(e, _, _) := lk in
    es_name e = PName (lkind_name (ld_kind d)) /\
    quiet_params reg data ft st (es_params e) (ld_pv d) /\
    quiet_hash reg data ft st (es_hash e) (ld_hm d) /\
    nth_error (ld_pv d) 0 = Some (ld_p0 d).

  (* passes: evaluates and does not select although something follows *)
  Definition link_passes2 (lk : link) (d : ldata) : Prop :=
    link_evals2 lk d /\ selects2 d true = false.

  (* selects whatever follows (for each: a NON-EMPTY array / object) *)
  Definition link_selects2 (lk : link) (d : ldata) : Prop :=
    link_evals2 lk d /\ selects2 d true = true.

  Definition builtins_visible2 : Prop :=
    forall k, find_reg_helper reg (lkind_name k) = Some (lkind_hid k) /\
              find_local_helper st (lkind_name k) = None.

  (* the each iteration (helper_each.rs): the block of the value is pushed, the
     body rendered once per element / entry with @first @last @index (@key),
     the base path / value and the block parameters set, the block popped *)
  Definition each_run (f : nat) (bp : option blockparam) (t : template) (value : pj) (s : rstate)
    : rres unit :=
    let path := sc_context_path (pj_val value) in
    match pj_value value with
    | JArr l =>
        rbind (fold_idx (fun v i s' =>
                           render_template reg data ft f t
                             (each_iter_setup (hv_of_bp bp) path (length l) i None v s'))
                        l O (push_block (create_block value) s))
              (fun _ s1 => ROk tt (pop_block s1))
    | JObj m =>
        rbind (fold_idx (fun (kv : str * json) i s' =>
                           render_template reg data ft f t
                             (each_iter_setup (hv_of_bp bp) path (length m) i (Some (fst kv)) (snd kv) s'))
                        m O (push_block (create_block value) s))
              (fun _ s1 => ROk tt (pop_block s1))
    | _ => ROk tt s
    end.

  (* what the selected link renders, from the state s, when a plain body would
     be rendered at fuel g *)
  Definition sel_run (g : nat) (lk : link) (d : ldata) (s : rstate) : rres unit :=
    let '(e, b, _) := lk in
    match ld_kind d with
    | LIf | LUnless => render_template reg data ft g b s
    | LWith =>
        rbind (render_template reg data ft g b (push_block (with_block2 (es_bp e) (ld_p0 d)) s))
              (fun _ s1 => ROk tt (pop_block s1))
    | LEach => each_run (S g) (es_bp e) b (ld_p0 d) s
    end.

  (* the last link did not select and there is no final else: nothing — except
     that with / each raise MissingVariable in strict mode *)
  Definition none_run (d : ldata) (s : rstate) : rres unit :=
    match ld_kind d with
    | LIf | LUnless => ROk tt s
    | LWith | LEach =>
        if r_strict reg then rfail (RMissingVariable (pj_rel (ld_p0 d))) s else ROk tt s
    end.

  (* what a link does once its tag is evaluated, inv being its inverse template *)
  Definition link_run (g : nat) (lk : link) (d : ldata) (inv : option template) (s : rstate)
    : rres unit :=
    if selects2 d (is_some inv) then sel_run g lk d s
    else match inv with
         | Some t => render_template reg data ft (inv_fuel (ld_kind d) g) t s
         | None => none_run d s
         end.
End Links.
