(* Spec/IndentSpec.v — specification vocabulary for property C12 at the writer
   and at the render level.

   1. What the indenting writer (render.rs indent_aware_write with an indent
      string W in force) appends for one value, for a sequence of values, and
      for a text written as a single value.
   2. The fragment of templates / registries / states for which the
      render-level simulation is proved, and the relation between the outcome
      of a plain run and of the same run with W in force. *)
From HB Require Import Rt.Render Reg.RegOps Spec.WriterSpec.
Open Scope N_scope.

(* ---------------------------------------------------------------------- *)
(** * 1. The indenting writer *)

(* one non-empty value v written while `indent_before_write = b`:
   W first if b and v does not begin with LF / CR; then v with W after every
   LF that is not the last character of v (CR is not a line break here) *)
Definition indent_chunk (W v : str) (b : bool) : str :=
  (if negb (first_is is_newline v) && b then W else []) ++ with_indent_spec v W.

(* a sequence of values; an empty value writes nothing and leaves the flag;
   after a non-empty value the flag is "v ends with LF or CR".  Result: the
   text appended and the final flag. *)
Fixpoint indent_chunks (W : str) (cs : list str) (b : bool) : str * bool :=
  match cs with
  | [] => ([], b)
  | v :: r =>
      match v with
      | [] => indent_chunks W r b
      | _ :: _ =>
          let '(o, b') := indent_chunks W r (last_is is_newline v) in
          (indent_chunk W v b ++ o, b')
      end
  end.

(* a text written as ONE value *)
Definition indent_lines (W text : str) (b : bool) : str :=
  match text with [] => [] | _ :: _ => indent_chunk W text b end.

(* chunk boundaries at which splitting a text into values makes no difference:
   never between an LF and a following LF / CR (a split there drops the W of a
   blank line), never between a CR and a following other character (a split
   there adds a W after a lone CR).  `prev` = last character of the preceding
   non-empty value. *)
Definition boundary_ok (prev : option N) (c : N) : Prop :=
  match prev with
  | Some p => (p = 10 -> is_newline c = false) /\ (p = 13 -> is_newline c = true)
  | None => True
  end.

Fixpoint clean_from (prev : option N) (cs : list str) : Prop :=
  match cs with
  | [] => True
  | v :: r =>
      match v with
      | [] => clean_from prev r
      | c :: _ => boundary_ok prev c /\ clean_from (last_opt v) r
      end
  end.
Definition clean_chunks (cs : list str) : Prop := clean_from None cs.

(* a text every splitting of which is clean: no CR, no two consecutive LF *)
Fixpoint no_blank_line (t : str) : Prop :=
  match t with
  | [] => True
  | c :: r => c <> 13 /\ match r with d :: _ => ~ (c = 10 /\ d = 10) | [] => True end /\ no_blank_line r
  end.

Definition all_empty (cs : list str) : bool :=
  forallb (fun v => match v with [] => true | _ => false end) cs.

(* a sequence of indent_aware_write calls *)
Fixpoint write_all (cs : list str) (s : rstate) : rres unit :=
  match cs with
  | [] => ROk tt s
  | v :: r => rbind (indent_aware_write v s) (fun _ s' => write_all r s')
  end.

(* ---------------------------------------------------------------------- *)
(** * 2. The render-level fragment *)

Definition simple_param (p : param) : Prop :=
  match p with PSub _ => False | _ => True end.

(* elements: text, comments, value expressions and helper calls with
   subexpression-free arguments, blocks whose bodies are in the fragment,
   decorators (inline partials), and partial calls that are standalone and
   carry no indentation of their own *)
Fixpoint fr_element (e : element) : Prop :=
  match e with
  | ElRaw _ => True
  | ElComment _ => True
  | ElExpr h => fr_helper h
  | ElHtml h => fr_helper h
  | ElBlock h => fr_helper h
  | ElDecoExpr d => fr_deco d
  | ElDecoBlock d => fr_deco d
  | ElPartExpr d => fr_deco d /\ d_indent d = None /\ d_ibw d = true
  | ElPartBlock d => fr_deco d /\ d_indent d = None /\ d_ibw d = true
  end
with fr_helper (h : helper_t) : Prop :=
  match h with
  | MkH n ps hs _ tpl inv _ _ _ =>
      simple_param n /\ Forall simple_param ps /\ Forall (fun kv => simple_param (snd kv)) hs
      /\ match tpl with Some t => fr_template t | None => True end
      /\ match inv with Some t => fr_template t | None => True end
  end
with fr_deco (d : deco_t) : Prop :=
  match d with
  | MkD n ps hs tpl _ _ =>
      simple_param n /\ Forall simple_param ps /\ Forall (fun kv => simple_param (snd kv)) hs
      /\ match tpl with Some t => fr_template t | None => True end
  end
with fr_template (t : template) : Prop :=
  match t with
  | MkT _ els _ =>
      (fix go (l : list element) : Prop :=
         match l with [] => True | e :: r => fr_element e /\ go r end) els
  end.

Definition fr_opt (o : option template) : Prop :=
  match o with Some t => fr_template t | None => True end.
Definition fr_named (l : list (str * template)) : Prop := Forall (fun kv => fr_template (snd kv)) l.

(* helpers that write only through indent_aware_write (the built-in helpers and
   the handlebars_helper! macros); the probe helpers of the test protocol write
   to the output directly and are excluded *)
Definition std_helper (h : helper_id) : bool :=
  match h with
  | HIf | HUnless | HEach | HWith | HLookup | HRaw | HLog
  | HEq | HNe | HGt | HGte | HLt | HLte | HAnd | HOr | HNot | HLen
  | HId | HCnt | HFail | HMacro _ => true
  | _ => false
  end.

Definition fr_registry (reg : registry) : Prop :=
  fr_named (r_templates reg) /\
  (forall n h, map_get (r_helpers reg) n = Some h -> std_helper h = true) /\
  (forall n d, map_get (r_decorators reg) n = Some d -> d <> DSetHelper).

Definition fr_state (s : rstate) : Prop :=
  fr_named (s_partials s) /\
  Forall (fun e => fr_template (fst e)) (s_pb_stack s) /\
  match s_dev s with Some dm => fr_named dm | None => True end /\
  (forall n h, map_get (s_local_helpers s) n = Some h -> std_helper h = true).

(* the state s with the writer o and the indent string W in force *)
Definition with_indent (W : str) (s : rstate) (o : outbuf) : rstate :=
  set_indent (set_out s o) (Some W).

(* a state from which the plain run starts: no indent string, a writer that
   does not fail, the two line flags in agreement, fragment templates only *)
Definition plain_state (s : rstate) : Prop :=
  s_indent s = None /\ o_fail_at (s_out s) = None /\
  s_indent_before_write s = s_trailing_newline s /\ fr_state s.

(* what the two runs have written since the states (s0, o0): the plain run a
   sequence of non-empty values, the indented run the same values through the
   indenting writer, started with the flag of s0 *)
Definition written (W : str) (s0 : rstate) (o0 : outbuf) (s' : rstate) (o' : outbuf)
           (cs : list str) : Prop :=
  Forall (fun v => v <> []) cs /\
  out_text (s_out s') = out_text (s_out s0) ++ concat cs /\
  out_text o' = out_text o0 ++ fst (indent_chunks W cs (s_trailing_newline s0)).

(* outcome x of the plain run from s0 against outcome y of the run from
   `with_indent W s0 o0`: same kind of outcome, same value / error / panic
   site; the final states agree on every field except the writer and the indent
   string; the outputs are related by `written`; after success the line flag is
   the one the indenting writer computes, and content_produced is set if
   anything was written and untouched otherwise *)
Definition indent_related (W : str) {A} (s0 : rstate) (o0 : outbuf) (x y : rres A) : Prop :=
  match x, y with
  | ROk a s', ROk b t' =>
      a = b /\ exists o', t' = with_indent W s' o' /\ plain_state s' /\ o_fail_at o' = None /\
        exists cs, written W s0 o0 s' o' cs /\
          s_trailing_newline s' = snd (indent_chunks W cs (s_trailing_newline s0)) /\
          s_content_produced s' = match cs with [] => s_content_produced s0 | _ :: _ => true end
  | RErr e s', RErr e' t' =>
      e = e' /\ exists o', t' = with_indent W s' o' /\ exists cs, written W s0 o0 s' o' cs
  | RPanic p, RPanic q => p = q
  | RFuel, RFuel => True
  | _, _ => False
  end.

(* a state in which a standalone partial call is reached: no indent string, a
   writer that does not fail, at a line start, fragment templates only *)
Definition call_state (s : rstate) : Prop :=
  s_indent s = None /\ o_fail_at (s_out s) = None /\ s_trailing_newline s = true /\ fr_state s.

(* the call `W{{> p}}` (outcome y) against the same call without its
   indentation (outcome x), both from the state s0 at a line start: same kind
   of outcome, final states equal but for the writer, and the outputs related
   by `written` (started with the flag of s0) *)
Definition standalone_related (W : str) {A} (s0 : rstate) (x y : rres A) : Prop :=
  match x, y with
  | ROk a s', ROk b t' =>
      a = b /\ exists o', t' = set_out s' o' /\ o_fail_at o' = None /\
        exists cs, written W s0 (s_out s0) s' o' cs
  | RErr e s', RErr e' t' =>
      e = e' /\ exists o', t' = set_out s' o' /\ exists cs, written W s0 (s_out s0) s' o' cs
  | RPanic p, RPanic q => p = q
  | RFuel, RFuel => True
  | _, _ => False
  end.

(* ---------------------------------------------------------------------- *)
(** * 3. Whole renders, for the counterexamples *)

(* register the named partials on a fresh registry (built-in helpers, default
   escape function) and render `main` with render_template_string *)
Definition render_with (parts : list (str * str)) (main : str) (data : json) : render_obs :=
  render_string
    (fold_left (fun r kv => fst (register_template_string r (fst kv) (snd kv))) parts reg_new)
    [] [] main data None.

Definition out_of (r : render_obs) : option str :=
  match r with RoOk out _ _ => Some out | _ => None end.
