(* Spec/Scope.v — the declarative scope-stack semantics of Handlebars paths,
   written from the text of property C01 (and the scope part of C07).  The
   semantics (first part of the file) does not mention blocks, base paths,
   context paths or the visitor of context.rs: a scope is just a value, the
   block parameters bound on entering it and its iteration variables.  The
   second part defines the refinement relation R between the model's block
   stack and a scope stack; Proofs/PathProofs.v proves that R is established
   and preserved by the block helpers and that navigation under R computes
   `designate`. *)
From HB Require Export Rt.Eval.
Open Scope N_scope.

Record scope := {
  sc_value : json;                   (* the current context inside the scope *)
  sc_params : list (str * json);     (* block parameters bound by the scope (looked up by map_get) *)
  sc_locals : local_vars             (* @first/@last/@index/@key and other @-variables *)
}.

(* innermost scope first; the bottom scope is the data passed to render *)
Definition root_scope (D : json) : scope :=
  {| sc_value := D; sc_params := []; sc_locals := lv_empty |}.

(* ---------- walking down ---------- *)
(* one segment: a key of an object, or a numeric index (usize::from_str) of an
   array; anything else leaves the data *)
Definition step (v : json) (seg : str) : option json :=
  match v with
  | JObj m => map_get m seg
  | JArr l =>
      match parse_usize seg with
      | Some i => nth_error l (N.to_nat i)
      | None => None
      end
  | _ => None
  end.

Fixpoint descend (v : json) (segs : list str) : option json :=
  match segs with
  | [] => Some v
  | p :: r => match step v p with Some v' => descend v' r | None => None end
  end.

(* the walk from v along segs reaches an array and the next segment s is not
   an index (finding F9: the crate reports InvalidJsonIndex there) *)
Definition nonindex_into_array (v : json) (segs : list str) (s : str) : Prop :=
  exists pre post l,
    segs = pre ++ s :: post /\ descend v pre = Some (JArr l) /\ parse_usize s = None.

(* ---------- reading the path AST ---------- *)
Fixpoint seg_names (segs : list pathseg) : list str :=
  match segs with
  | [] => []
  | SegNamed s :: r => s :: seg_names r
  | SegRuled _ :: r => seg_names r
  end.

(* number of leading ../ and what follows them *)
Fixpoint strip_ups (segs : list pathseg) : nat * list pathseg :=
  match segs with
  | s :: r =>
      if is_ruled R_path_up s then let '(k, rest) := strip_ups r in (S k, rest)
      else (O, segs)
  | [] => (O, [])
  end.

(* the innermost enclosing scope binding block parameter n *)
Fixpoint find_param (scopes : list scope) (n : str) : option json :=
  match scopes with
  | [] => None
  | sc :: r =>
      match map_get (sc_params sc) n with
      | Some v => Some v
      | None => find_param r n
      end
  end.

(* `this.x`, `this/x` and `./x` name a field of the current context
   explicitly.  The prefix is not kept in the segment list of the AST (the
   compiler drops `this`), only in the raw spelling the AST carries. *)
Definition explicit_this (raw : str) : bool :=
  starts_with (`"this.") raw || starts_with (`"this/") raw || starts_with (`"./") raw.

(* k leading ../ then segments: start at the value of scope k, except that a
   plain head segment (k = 0, no this/./ prefix) naming a block parameter of
   an enclosing scope starts at that parameter's value *)
Definition start_rel (scopes : list scope) (segs : list pathseg) (raw : str)
  : option (json * list str) :=
  let '(k, rest) := strip_ups segs in
  let names := seg_names rest in
  let scope_k := option_map (fun sc => (sc_value sc, names)) (nth_error scopes k) in
  match names with
  | n :: more =>
      if Nat.eqb k 0 && negb (explicit_this raw) then
        match find_param scopes n with
        | Some v => Some (v, more)          (* a block parameter shadows a field *)
        | None => scope_k
        end
      else scope_k
  | [] => scope_k
  end.

(* where a path starts and the segments still to walk *)
Definition start_of (scopes : list scope) (D : json) (segs : list pathseg) (raw : str)
  : option (json * list str) :=
  match segs with
  | s :: rest =>
      if is_ruled R_path_root s then Some (D, seg_names rest)       (* @root.s... *)
      else start_rel scopes segs raw
  | [] => start_rel scopes segs raw                                  (* `this` *)
  end.

(* the value a path designates; None = "nothing" *)
Definition designate (scopes : list scope) (D : json) (p : path) : option json :=
  match p with
  | PathLocal level name _ =>
      match nth_error scopes (N.to_nat level) with
      | Some sc => lv_get (sc_locals sc) name
      | None => None
      end
  | PathRelative segs raw =>
      match start_of scopes D segs raw with
      | Some (v, names) => descend v names
      | None => None
      end
  end.

(* ---------- the scopes the built-in block helpers open ---------- *)
Definition with_scope (bp : option blockparam) (v : json) : scope :=
  {| sc_value := v;
     sc_params := match bp with Some (BP1 a) => [(a, v)] | _ => [] end;
     sc_locals := lv_empty |}.

(* iteration i (0-based) of an each over n elements; key = Some k for the
   entry (k, v) of an object, None for an array *)
Definition each_locals (n i : nat) (key : option str) : local_vars :=
  {| lv_first := Some (JBool (Nat.eqb i 0));
     lv_last := Some (JBool (Nat.eqb i (n - 1)));
     lv_index := Some (JNum (PosInt (N.of_nat i)));
     lv_key := option_map JStr key;
     lv_extra := [] |}.

Definition each_key_json (i : nat) (key : option str) : json :=
  match key with Some k => JStr k | None => JNum (PosInt (N.of_nat i)) end.

Definition each_scope (bp : option blockparam) (n i : nat) (key : option str) (v : json) : scope :=
  {| sc_value := v;
     sc_params :=
       match bp with
       | None => []
       | Some (BP1 a) => [(a, v)]
       | Some (BP2 a b) => [(b, each_key_json i key); (a, v)]   (* the later name wins if a = b *)
       end;
     sc_locals := each_locals n i key |}.

(* a partial is rendered in a fresh single scope whose value is the merged context *)
Definition partial_scope (merged : json) : scope :=
  {| sc_value := merged; sc_params := []; sc_locals := lv_empty |}.

(* the F16/F17 side condition: does the head segment name a block parameter
   of some enclosing scope? *)
Definition head_is_param (scopes : list scope) (names : list str) : bool :=
  match names with
  | n :: _ => match find_param scopes n with Some _ => true | None => false end
  | [] => false
  end.

(* ====================================================================== *)
(* Refinement relation: the model's block stack against a scope stack     *)
(* ====================================================================== *)
(* D is the data of the render call.  A block parameter holder `BPValue v`
   denotes v; `BPPath ps` denotes the value at base_path ++ ps in D. *)
Definition holder_denotes (D : json) (base : list str) (h : bp_holder) (v : json) : Prop :=
  match h with
  | BPValue w => w = v
  | BPPath ps => walk (Some D) (base ++ ps) = NavSome v
  end.

Definition params_rel (D : json) (base : list str)
           (ps : list (str * bp_holder)) (qs : list (str * json)) : Prop :=
  forall n,
    match map_get ps n with
    | Some h => exists v, map_get qs n = Some v /\ holder_denotes D base h v
    | None => map_get qs n = None
    end.

Definition block_rel (D : json) (b : block) (sc : scope) : Prop :=
  (b_base_value b = Some (sc_value sc)
   \/ (b_base_value b = None /\ walk (Some D) (b_base_path b) = NavSome (sc_value sc)))
  /\ params_rel D (b_base_path b) (b_params b) (sc_params sc)
  /\ b_locals b = sc_locals sc.

Definition R (D : json) (blocks : list block) (scopes : list scope) : Prop :=
  Forall2 (block_rel D) blocks scopes.

(* a value produced by navigation carries a context path only if that path
   leads from the data to the value *)
Definition pj_ok (D : json) (p : pj) : Prop :=
  match pj_val p with
  | SContext v cp => walk (Some D) cp = NavSome v
  | _ => True
  end.

(* the block HWith pushes *)
Definition with_block (bp : option blockparam) (param : pj) : block :=
  let b0 := create_block param in
  match bp with
  | Some (BP1 a) =>
      b_set_params b0
        (map_insert [] a
           (match sc_context_path (pj_val param) with
            | Some _ => BPPath []
            | None => BPValue (pj_value param)
            end))
  | _ => b0
  end.

(* the block in front of the stack during iteration i of an each (closed
   form of what helper_each.rs builds incrementally): path = the context path
   of the collection if it has one; key = Some k for an object entry *)
Definition each_block (bp : option blockparam) (path : option (list str)) (n i : nat)
           (key : option str) (v : json) : block :=
  let rel := match key with Some k => k | None => n_to_dec (N.of_nat i) end in
  let holder := match path with Some _ => BPPath [] | None => BPValue v end in
  {| b_base_path := match path with Some p => p ++ [rel] | None => [] end;
     b_base_value := match path with Some _ => None | None => Some v end;
     b_params :=
       match bp with
       | None => []
       | Some (BP1 a) => map_insert [] a holder
       | Some (BP2 a b) => map_insert (map_insert [] a holder) b (BPValue (each_key_json i key))
       end;
     b_locals := each_locals n i key |}.

(* what must hold of the front block before the setup of iteration i: it is
   the block create_block made (i = 0) or the block of iteration i-1 *)
Definition each_pre (bp : option blockparam) (path : option (list str)) (keyed : bool)
           (i : nat) (b : block) : Prop :=
  match path with
  | Some p => b_base_value b = None
              /\ (if Nat.eqb i 0 then b_base_path b = p else exists x, b_base_path b = p ++ [x])
  | None => b_base_path b = []
  end
  /\ (bp = None -> b_params b = [])
  /\ lv_extra (b_locals b) = []
  /\ (keyed = false -> lv_key (b_locals b) = None).

Definition is_some {A} (o : option A) : bool := match o with Some _ => true | None => false end.

(* the run of a fold: iteration j (element x_j, index i+j) takes the state
   from s_j to s_{j+1} and appends d_j to the output text *)
Inductive iter_run {A} (step : A -> nat -> rstate -> rres unit)
  : list A -> nat -> rstate -> list str -> rstate -> Prop :=
| ir_nil i s : iter_run step [] i s [] s
| ir_cons x r i s s1 d ds s' :
    step x i s = ROk tt s1 ->
    out_text (s_out s1) = out_text (s_out s) ++ d ->
    iter_run step r (S i) s1 ds s' ->
    iter_run step (x :: r) i s (d :: ds) s'.
