(* Spec/WsWhole.v — the whole-template closed form of property C11: WHICH
   whitespace the `~` markers and the standalone rule remove.

   The text of a template outside its tags falls into pieces; a piece lies
   between the end of the previous main-level tag token P (or the template
   start) and the start of the next one N (or the end), escapes resolved.
   For one piece:

     ws_piece po pt npre nsa piece = end_trim npre nsa (ws_text po pt piece)

     * ws_text po pt (Spec/WsSpec.v), the effect of P: if P has a trailing `~`
       (po) everything up to the first non-whitespace character (Unicode
       White_Space, line breaks included) goes; otherwise, if P is a tag the
       standalone rule applies to and stands alone on its line (pt), the
       leading blanks and ONE line break (LF or CRLF; a lone CR is not removed)
       go; otherwise nothing;
     * end_trim npre nsa, the effect of N: if N has a leading `~` (npre) the
       trailing whitespace goes (trim_end); then, if N is standalone-capable
       and stands alone (nsa = its `sa_fires`), the trailing blanks go
       (trim_end_blank) — after a leading `~` this second trim finds nothing.
   A value expression is never standalone (pt = false after it, nsa = false
   for it).

   ws_walk lists the pieces of a token stream in document order and applies
   ws_piece to each.  It is a function of the source, the options and the
   tokens only.  Where the model differs from the sketch "one piece per pair of
   neighbouring tags", ws_walk follows the model, and the differences are:
     - the whitespace pest skipped in front of a tag is a piece of its own
       (start-trimmed by the standalone flag only); when P has a trailing `~` it
       is not emitted at all (it is whitespace, so trim_start would delete it);
     - a raw_text token resets the standalone flag (a raw block body does
       not) but leaves the trailing-`~` flag (no text can follow it before the next tag, so this is not
       observable on pest's streams);
     - after a comment the trailing-`~` flag is false (comments have no `~`);
     - the flags of a tag are those of its parsed expression (tag_expr of
       Spec/WsSpec.v: es_pre = the tag's first child token is the leading `~`,
       es_pro = a trailing `~` token among its arguments), read with the fuel
       bound `F`; a successful parse does not depend on the fuel;
     - the last token of the stream is EOI: the piece in front of it is
       emitted like the whitespace in front of a tag, and what follows EOI
       (nothing) is kept.
   Blocks: a block start / else / block end tag is a tag like any other for
   the pieces on its two sides; the `template` token that opens a body is
   skipped; the body of a raw block is one piece (between the raw block's start
   and end tags).  Document order is token order. *)
From Coq Require Import List NArith Bool.
From HB Require Import Base.Str Peg.Peg Peg.Grammar Tpl.Ast Tpl.Compile Spec.AlignedSpec Spec.WsSpec
  Spec.StripTags.
Import ListNotations.
Open Scope N_scope.

Definition end_trim (npre nsa : bool) (s : str) : str :=
  let a := if npre then trim_end s else s in
  if nsa then trim_end_blank a else a.

Definition ws_piece (po pt npre nsa : bool) (piece : str) : str :=
  end_trim npre nsa (ws_text po pt piece).

(* (leading ~, trailing ~) of the tag token pr followed by the tokens `it` *)
Definition tag_fl (src : str) (F : nat) (pr : tok) (it : list tok) : bool * bool :=
  if expr_class (tag_classify (tk_rule pr)) then
    match tag_expr src F pr it with
    | COk (e, _) => (es_pre e, es_pro e)
    | _ => (false, false)
    end
  else (false, false).

(* the standalone look-back of a tag fires: it is standalone-capable, a line end
   follows it and only blanks precede it on its line (and the tag does not keep
   its indentation: partial tags without the prevent_indent option) *)
Definition sa_fires (src : str) (opts : copts) (pr : tok) : bool :=
  match standalone_capable opts (tag_classify (tk_rule pr)) with
  | Some pi => line_end_after src pr (o_is_partial opts) && (pi && line_start_before src pr)
  | None => false
  end.

(* the standalone flag a tag leaves for the text behind it *)
Definition trim_after (src : str) (opts : copts) (pr : tok) : bool :=
  match tag_classify (tk_rule pr) with
  | KBlockStart _ | KInvert _ | KHelperEnd | KDecoEnd _ | KDecoExpr _ | KComment _ =>
      standalone src pr (o_is_partial opts)
  | _ => false
  end.

Definition oflush (p : option str) : str := match p with Some s => s | None => [] end.

(* pe: end of the previous main-level token; po / pt: the two flags left by the
   previous tag; pend: the piece in front of the current position that has not
   met its right-hand tag yet *)
Fixpoint ws_walk (src : str) (all : list tok) (opts : copts) (F : nat) (it : list tok)
         (pe : N) (po pt : bool) (pend : option str) {struct it} : str :=
  match it with
  | [] => oflush pend ++ gap src pe (len src)
  | t :: r =>
      let general :=
        match tag_classify (tk_rule t) with
        | KTemplate | KOtherRule => ws_walk src all opts F r pe po pt pend
        | KRawText =>
            oflush pend ++
            ws_walk src all opts F r (tk_end t) po false
                    (Some (ws_text po pt (unesc all t (gap src pe (tk_end t)))))
        | KRawBlockText =>
            oflush pend ++
            ws_walk src all opts F r (tk_end t) po pt
                    (Some (ws_text po pt (unesc all t (gap src pe (tk_end t)))))
        | _ =>
            let fires := negb (N.eqb (tk_start t) pe) && negb po in
            let pend1 := if fires then Some (ws_text false pt (gap src pe (tk_start t))) else pend in
            let '(npre, npro) := tag_fl src F t r in
            (if fires then oflush pend else []) ++
            oflush (option_map (end_trim npre (sa_fires src opts t)) pend1) ++
            ws_walk src all opts F r (tk_end t) npro (trim_after src opts t) None
        end in
      match r with
      | [] =>
          if rule_eqb (tk_rule t) R_EOI then
            let fires := negb (N.eqb (tk_start t) pe) && negb po in
            (if fires then oflush pend ++ ws_text false pt (gap src pe (tk_start t)) else oflush pend)
            ++ gap src (tk_start t) (len src)
          else general
      | _ => general
      end
  end.

Definition ws_expected (src : str) (opts : copts) (ts : list tok) : str :=
  ws_walk src ts opts (16 + 4 * length ts) (filter (fun t => negb (is_rule R_escape t)) ts) 0 false false None.
