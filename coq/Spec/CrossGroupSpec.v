(* Spec/CrossGroupSpec.v — vocabulary for the cross-group part of property C16:
   registering a template text under a name n and rendering n, against
   rendering the same text directly.

   1. `np_template n ft t`: no partial tag anywhere in t (block bodies, inline
      partial bodies, partial-block bodies, subexpressions included) can reach
      the name n: its name is static (an identifier, a path spelling or a
      literal — not a subexpression) and differs from n.
   2. `name_root n`: the only difference allowed between the two observations:
      an error that carries no template name in the unnamed run carries the
      root's name n in the named run. *)
From HB Require Import Rt.Render Reg.RegOps.
Import ListNotations.

Section NP.
  Variable n : str.
  Variable ft : ftable.

  (* the name of a partial tag is known statically and is not n *)
  Definition static_ne (p : param) : Prop :=
    match p with
    | PName m => m <> n
    | PPath pa => path_raw pa <> n
    | PLit j => json_render ft j <> n
    | PSub _ => False
    end.

  Fixpoint np_param (p : param) : Prop :=
    match p with
    | PSub e => np_element e
    | _ => True
    end
  with np_element (e : element) : Prop :=
    match e with
    | ElRaw _ => True
    | ElComment _ => True
    | ElExpr h => np_helper h
    | ElHtml h => np_helper h
    | ElBlock h => np_helper h
    | ElDecoExpr d => np_deco d
    | ElDecoBlock d => np_deco d
    | ElPartExpr d => static_ne (d_name d) /\ np_deco d
    | ElPartBlock d => static_ne (d_name d) /\ np_deco d
    end
  with np_helper (h : helper_t) : Prop :=
    match h with
    | MkH nm ps hs _ tpl inv _ _ _ =>
        np_param nm
        /\ (fix go (l : list param) : Prop :=
              match l with [] => True | p :: r => np_param p /\ go r end) ps
        /\ (fix goh (l : list (str * param)) : Prop :=
              match l with [] => True | kv :: r => (let (_, p) := kv in np_param p) /\ goh r end) hs
        /\ match tpl with Some t => np_template t | None => True end
        /\ match inv with Some t => np_template t | None => True end
    end
  with np_deco (d : deco_t) : Prop :=
    match d with
    | MkD nm ps hs tpl _ _ =>
        np_param nm
        /\ (fix go (l : list param) : Prop :=
              match l with [] => True | p :: r => np_param p /\ go r end) ps
        /\ (fix goh (l : list (str * param)) : Prop :=
              match l with [] => True | kv :: r => (let (_, p) := kv in np_param p) /\ goh r end) hs
        /\ match tpl with Some t => np_template t | None => True end
    end
  with np_template (t : template) : Prop :=
    match t with
    | MkT _ els _ =>
        (fix go (l : list element) : Prop :=
           match l with [] => True | e :: r => np_element e /\ go r end) els
    end.

  Definition np_opt (o : option template) : Prop :=
    match o with Some t => np_template t | None => True end.

  (* every registered template other than the entry of n itself *)
  Definition np_registry (r : registry) : Prop :=
    forall m p, m <> n -> map_get (r_templates r) m = Some p -> np_template p.
End NP.

(* the `state` probe helper of the test protocol prints current_template and
   root_template; it is not registered *)
Definition no_state_probe (r : registry) : Prop :=
  forall k, map_get (r_helpers r) k <> Some HState.

(* an error without a template name gets the root's *)
Definition root_named (n : str) (e : rerror) : rerror :=
  {| e_reason := e_reason e;
     e_tpl := match e_tpl e with Some x => Some x | None => Some n end;
     e_line := e_line e; e_col := e_col e |}.

Definition name_root (n : str) (o : render_obs) : render_obs :=
  match o with
  | RoErr e accepted log => RoErr (root_named n e) accepted log
  | x => x
  end.

(* ---------------------------------------------------------------------- *)
(* The relation between the two runs.

   run A: registry r, state s;  run B: registry r' and the state [upd s root c]:
   the same state except for root_template and current_template. *)
Definition upd (s : rstate) (root cur : option str) : rstate :=
  {| s_blocks := s_blocks s; s_modified := s_modified s; s_partials := s_partials s;
     s_pb_stack := s_pb_stack s; s_pb_depth := s_pb_depth s;
     s_local_helpers := s_local_helpers s; s_current := cur; s_root := root;
     s_disable_escape := s_disable_escape s; s_trailing_newline := s_trailing_newline s;
     s_content_produced := s_content_produced s;
     s_indent_before_write := s_indent_before_write s; s_indent := s_indent s;
     s_dev := s_dev s; s_out := s_out s; s_log := s_log s; s_esc_trace := s_esc_trace s |}.

(* current_template agrees, or is None in the unnamed run and the root's name
   in the named run (this happens exactly at the top level of the root) *)
Definition cur_rel (n : str) (a b : option str) : Prop := a = b \/ (a = None /\ b = Some n).

Definition run_rel (n : str) (root : option str) (s s' : rstate) : Prop :=
  exists c, s' = upd s root c /\ cur_rel n (s_current s) c.

(* every template held by the state (inline partials, partial blocks, dev-mode
   templates) is free of partial tags that can reach n; no local helper is the
   state probe *)
Definition st_np (n : str) (ft : ftable) (s : rstate) : Prop :=
  Forall (fun kv : str * template => np_template n ft (snd kv)) (s_partials s) /\
  Forall (fun kv : template * Z => np_template n ft (fst kv)) (s_pb_stack s) /\
  match s_dev s with
  | Some dm => Forall (fun kv : str * template => np_template n ft (snd kv)) dm
  | None => True
  end /\
  Forall (fun kv : str * helper_id => snd kv <> HState) (s_local_helpers s).

(* related outcomes: same kind, same value, related final states (so the same
   writer contents, log and escape trace); E relates the errors *)
Definition outcome_rel (n : str) (ft : ftable) (root : option str)
           (E : rerror -> rerror -> Prop) {A} (x y : rres A) : Prop :=
  match x, y with
  | ROk a s, ROk b s' => a = b /\ run_rel n root s s' /\ st_np n ft s
  | RErr e s, RErr e' s' => E e e' /\ run_rel n root s s' /\ st_np n ft s
  | RPanic p, RPanic q => p = q
  | RFuel, RFuel => True
  | _, _ => False
  end.

(* the simulation of the sixteen functions at fuel f, on the SAME arguments:
   below the root the two runs give equal errors *)
Record sim_at (n : str) (ft : ftable) (data : json) (r : registry)
       (T' : list (str * template)) (S' : list (str * str)) (root : option str) (f : nat) : Prop := {
  sim_rt : forall t s s', np_template n ft t -> run_rel n root s s' -> st_np n ft s ->
    outcome_rel n ft root eq (render_template r data ft f t s)
                             (render_template (reg_with r T' S') data ft f t s');
  sim_et : forall t s s', np_template n ft t -> run_rel n root s s' -> st_np n ft s ->
    outcome_rel n ft root eq (eval_template r data ft f t s)
                             (eval_template (reg_with r T' S') data ft f t s');
  sim_or : forall t s s', np_opt n ft t -> run_rel n root s s' -> st_np n ft s ->
    outcome_rel n ft root eq (opt_render r data ft f t s)
                             (opt_render (reg_with r T' S') data ft f t s');
  sim_re : forall e s s', np_element n ft e -> run_rel n root s s' -> st_np n ft s ->
    outcome_rel n ft root eq (render_element r data ft f e s)
                             (render_element (reg_with r T' S') data ft f e s');
  sim_ee : forall e s s', np_element n ft e -> run_rel n root s s' -> st_np n ft s ->
    outcome_rel n ft root eq (eval_element r data ft f e s)
                             (eval_element (reg_with r T' S') data ft f e s');
  sim_rx : forall ht html s s', np_helper n ft ht -> run_rel n root s s' -> st_np n ft s ->
    outcome_rel n ft root eq (render_expression r data ft f ht html s)
                             (render_expression (reg_with r T' S') data ft f ht html s');
  sim_rh : forall ht s s', np_helper n ft ht -> run_rel n root s s' -> st_np n ft s ->
    outcome_rel n ft root eq (render_helper r data ft f ht s)
                             (render_helper (reg_with r T' S') data ft f ht s');
  sim_hft : forall ht s s', np_helper n ft ht -> run_rel n root s s' -> st_np n ft s ->
    outcome_rel n ft root eq (helper_from_template r data ft f ht s)
                             (helper_from_template (reg_with r T' S') data ft f ht s');
  sim_dft : forall dt s s', np_deco n ft dt -> run_rel n root s s' -> st_np n ft s ->
    outcome_rel n ft root eq (deco_from_template r data ft f dt s)
                             (deco_from_template (reg_with r T' S') data ft f dt s');
  sim_ean : forall p s s', np_param n ft p -> run_rel n root s s' -> st_np n ft s ->
    outcome_rel n ft root eq (expand_as_name r data ft f p s)
                             (expand_as_name (reg_with r T' S') data ft f p s');
  sim_ep : forall p s s', np_param n ft p -> run_rel n root s s' -> st_np n ft s ->
    outcome_rel n ft root eq (expand_param r data ft f p s)
                             (expand_param (reg_with r T' S') data ft f p s');
  sim_chv : forall hid h s s', hid <> HState -> np_opt n ft (hv_tpl h) -> np_opt n ft (hv_inv h) ->
    run_rel n root s s' -> st_np n ft s ->
    outcome_rel n ft root eq (call_helper_for_value r data ft f hid h s)
                             (call_helper_for_value (reg_with r T' S') data ft f hid h s');
  sim_ch : forall hid h s s', hid <> HState -> np_opt n ft (hv_tpl h) -> np_opt n ft (hv_inv h) ->
    run_rel n root s s' -> st_np n ft s ->
    outcome_rel n ft root eq (call_helper r data ft f hid h s)
                             (call_helper (reg_with r T' S') data ft f hid h s');
  sim_ed : forall dt s s', np_deco n ft dt -> run_rel n root s s' -> st_np n ft s ->
    outcome_rel n ft root eq (eval_decorator r data ft f dt s)
                             (eval_decorator (reg_with r T' S') data ft f dt s');
  sim_rp : forall dt s s', static_ne n ft (d_name dt) -> np_deco n ft dt ->
    run_rel n root s s' -> st_np n ft s ->
    outcome_rel n ft root eq (render_partial r data ft f dt s)
                             (render_partial (reg_with r T' S') data ft f dt s');
  sim_xp : forall d s s', dv_name d <> n -> np_opt n ft (dv_tpl d) ->
    run_rel n root s s' -> st_np n ft s ->
    outcome_rel n ft root eq (expand_partial r data ft f d s)
                             (expand_partial (reg_with r T' S') data ft f d s')
}.
Arguments sim_rt {n ft data r T' S' root f}. Arguments sim_et {n ft data r T' S' root f}.
Arguments sim_or {n ft data r T' S' root f}. Arguments sim_re {n ft data r T' S' root f}.
Arguments sim_ee {n ft data r T' S' root f}. Arguments sim_rx {n ft data r T' S' root f}.
Arguments sim_rh {n ft data r T' S' root f}. Arguments sim_hft {n ft data r T' S' root f}.
Arguments sim_dft {n ft data r T' S' root f}. Arguments sim_ean {n ft data r T' S' root f}.
Arguments sim_ep {n ft data r T' S' root f}. Arguments sim_chv {n ft data r T' S' root f}.
Arguments sim_ch {n ft data r T' S' root f}. Arguments sim_ed {n ft data r T' S' root f}.
Arguments sim_rp {n ft data r T' S' root f}. Arguments sim_xp {n ft data r T' S' root f}.
