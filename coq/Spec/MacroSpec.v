(* Spec/MacroSpec.v — small readable vocabulary for property C20 (macro-defined
   helpers): what it means for the i-th positional argument / a named option of
   a call to be acceptable, absent or ill-typed for a declared type token. *)
From HB Require Export Rt.Macro.

(* the i-th positional argument exists, is not a missing value when the
   registry is strict, and converts to the declared type; v is the converted
   value *)
Definition arg_delivers (strict : bool) (given : list pj) (i : nat) (t : mtype) (v : mval) : Prop :=
  exists x, nth_error given i = Some x
         /\ (strict = true -> sc_missing (pj_val x) = false)
         /\ conv t (pj_value x) = Some v.

Definition arg_ok (strict : bool) (given : list pj) (i : nat) (t : mtype) : Prop :=
  exists v, arg_delivers strict given i t v.

(* there is no i-th argument, or (strict mode) its value is a missing path *)
Definition arg_absent (strict : bool) (given : list pj) (i : nat) : Prop :=
  nth_error given i = None \/
  exists x, nth_error given i = Some x /\ strict = true /\ sc_missing (pj_val x) = true.

(* the i-th argument is there (and counts as present) but has the wrong JSON type *)
Definition arg_illtyped (strict : bool) (given : list pj) (i : nat) (t : mtype) : Prop :=
  exists x, nth_error given i = Some x
         /\ (strict = true -> sc_missing (pj_val x) = false)
         /\ conv t (pj_value x) = None.

(* all declared parameters before position i are fine *)
Definition args_ok_before (strict : bool) (given : list pj) (decl : list (str * mtype)) (i : nat) : Prop :=
  forall j pn tj, (j < i)%nat -> nth_error decl j = Some (pn, tj) -> arg_ok strict given j tj.

Definition args_all_ok (strict : bool) (given : list pj) (decl : list (str * mtype)) : Prop :=
  forall j pn tj, nth_error decl j = Some (pn, tj) -> arg_ok strict given j tj.

(* a named option receives the converted same-named hash argument, or the
   declared default when the hash has no such key *)
Definition opt_delivers (hash : list (str * pj)) (o : str) (t : mtype) (dflt v : mval) : Prop :=
  match map_get hash o with
  | Some x => conv t (pj_value x) = Some v
  | None => v = dflt
  end.

Definition opt_ok (hash : list (str * pj)) (o : str) (t : mtype) : Prop :=
  forall x, map_get hash o = Some x -> conv t (pj_value x) <> None.

Definition opt_illtyped (hash : list (str * pj)) (o : str) (t : mtype) : Prop :=
  exists x, map_get hash o = Some x /\ conv t (pj_value x) = None.

Definition opts_ok_before (hash : list (str * pj)) (decl : list (str * mtype * mval)) (k : nat) : Prop :=
  forall j on tj dj, (j < k)%nat -> nth_error decl j = Some (on, tj, dj) -> opt_ok hash on tj.

Definition opts_all_ok (hash : list (str * pj)) (decl : list (str * mtype * mval)) : Prop :=
  forall j on tj dj, nth_error decl j = Some (on, tj, dj) -> opt_ok hash on tj.

(* what the body receives as *args and **kwargs *)
Definition all_args (h : helper_v) : list json := map pj_value (hv_params h).
Definition all_kwargs (h : helper_v) : list (str * json) :=
  map (fun kv : str * pj => (fst kv, pj_value (snd kv))) (hv_hash h).

(* the body received exactly the declared things: ps are the converted
   positional parameters, os the option values *)
Definition delivered (sg : msig) (strict : bool) (h : helper_v) (ps os : list mval) : Prop :=
  length ps = length (ms_params sg) /\
  (forall i pn t, nth_error (ms_params sg) i = Some (pn, t) ->
     exists v, nth_error ps i = Some v /\ arg_delivers strict (hv_params h) i t v) /\
  length os = length (ms_opts sg) /\
  (forall k on t d, nth_error (ms_opts sg) k = Some (on, t, d) ->
     exists v, nth_error os k = Some v /\ opt_delivers (hv_hash h) on t d v).

Definition u64_json (n : N) : json := JNum (PosInt n).

(* an outcome that is neither a panic nor fuel exhaustion *)
Definition settled {A} (r : rres A) : Prop :=
  match r with ROk _ _ | RErr _ _ => True | _ => False end.
