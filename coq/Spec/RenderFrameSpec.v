(* Spec/RenderFrameSpec.v -- small readable specifications used by the
   statements of C08, C09 and C10. *)
From HB Require Export Rt.Render.
Open Scope N_scope.

(* C10: the value `lookup coll index` designates: array element by u64 index,
   object field by string key, otherwise nothing *)
Definition lookup_value (coll index : json) : option json :=
  match coll with
  | JArr v => match index with
              | JNum n => match as_u64 n with Some u => nth_N v u | None => None end
              | _ => None
              end
  | JObj m => match index with JStr k => map_get m k | _ => None end
  | _ => None
  end.

(* C08: what a finished construct leaves exactly as it found it (Appendix C of
   DESIGN.md): the block stack (current context, ../ chain, block params and
   @-variables), the partial-block stack, the indent string, the root template
   name and the dev-mode templates; the escape toggle can only go from true to
   false (an html expression ends with `false`, not with the previous value),
   so it is unchanged whenever it was false before.  NOT included, because
   false of the model: s_pb_depth (F3), s_current (F4).  NOT included,
   deliberately persistent: s_partials, s_local_helpers, s_modified (decorators);
   the writer s_out, the log and the three "last write" flags. *)
Definition restored (s s' : rstate) : Prop :=
  s_blocks s' = s_blocks s /\ s_pb_stack s' = s_pb_stack s /\ s_indent s' = s_indent s /\
  s_root s' = s_root s /\ s_dev s' = s_dev s /\
  (s_disable_escape s' = true -> s_disable_escape s = true).

(* C08: two states that agree on everything except the three "last write"
   flags *)
Definition flags_only (s1 s2 : rstate) : Prop :=
  s_blocks s1 = s_blocks s2 /\ s_modified s1 = s_modified s2 /\ s_partials s1 = s_partials s2 /\
  s_pb_stack s1 = s_pb_stack s2 /\ s_pb_depth s1 = s_pb_depth s2 /\
  s_local_helpers s1 = s_local_helpers s2 /\ s_current s1 = s_current s2 /\ s_root s1 = s_root s2 /\
  s_disable_escape s1 = s_disable_escape s2 /\ s_indent s1 = s_indent s2 /\ s_dev s1 = s_dev s2 /\
  s_out s1 = s_out s2 /\ s_log s1 = s_log s2 /\ s_esc_trace s1 = s_esc_trace s2.

(* C09: partial.rs expand_partial, in pieces *)
Section PartialSpec.
  Variable reg : registry.
  Variable data : json.

  (* which template a partial call designates: inline partial or
     @partial-block, else dev-mode template, else registered template, else
     the call's own block *)
  Definition resolve_partial (d : deco_v) (s : rstate) : option template :=
    match get_partial s (dv_name d) with
    | Some p => Some p
    | None =>
        match (match s_dev s with Some dm => map_get dm (dv_name d) | None => None end) with
        | Some p => Some p
        | None =>
            match map_get (r_templates reg) (dv_name d) with
            | Some p => Some p
            | None => dv_tpl d
            end
        end
    end.

  (* the partial-block depth bookkeeping on entry (never undone: F3) *)
  Definition depth_step (d : deco_v) (s : rstate) : rstate :=
    if str_eqb (dv_name d) PARTIAL_BLOCK then set_pb_depth s (s_pb_depth s + 1)%Z
    else if Z.ltb 0 (s_pb_depth s) then set_pb_depth s (s_pb_depth s - 1)%Z
    else s.

  Definition hash_values (d : deco_v) : list (str * json) :=
    map (fun kv : str * pj => (fst kv, pj_value (snd kv))) (dv_hash d).

  (* the context value the partial is rendered on: the first parameter
     (re-evaluated from its relative path when it has one) or else the current
     context, merged with the hash *)
  Definition partial_context (d : deco_v) (s : rstate) : rres json :=
    match dv_params d with
    | p :: _ =>
        match pj_rel p with
        | Some rel => rbind (evaluate data rel s) (fun r s' => ROk (merge_json (sc_json r) (hash_values d)) s')
        | None => ROk (merge_json (pj_value p) (hash_values d)) s
        end
    | [] => rbind (evaluate2 data path_current s)
                  (fun r s' => ROk (merge_json (sc_json r) (hash_values d)) s')
    end.

  (* the state the partial's template is rendered from *)
  Definition partial_inner (d : deco_v) (merged : json) (s : rstate) : rstate :=
    let s4 := set_blocks s [b_set_base_value block_new merged] in
    let s5 := match dv_tpl d with Some pb => set_pb_stack s4 (pb :: s_pb_stack s4) | None => s4 end in
    set_indent s5 (dv_indent d).

  (* what expand_partial puts back afterwards; `before` is the state in which
     the partial was looked up *)
  Definition partial_cleanup (d : deco_v) (before : rstate) (s : rstate) : rstate :=
    let sa := match dv_tpl d with Some _ => set_pb_stack s (tl (s_pb_stack s)) | None => s end in
    set_indent (set_current (set_blocks sa (s_blocks before)) (s_current before)) (s_indent before).

  Definition is_self (d : deco_v) (s : rstate) : bool :=
    match s_current s with Some c => str_eqb c (dv_name d) | None => false end.
End PartialSpec.
