(* Spec/RenderFrameSpec.v -- small readable specifications used by the
   statements of C08, C09 and C10. *)
From HB Require Export Rt.Render.
Open Scope N_scope.

(* C10: the value `lookup coll index` designates: array element by u64 index,
   object field by string key, otherwise nothing *)
Definition lookup_value (coll index : json) : option json :=
  match coll with
  | JArr v => match index with
              | JNum n => match as_u64 n with Some u => nth_N v u | None => None end
              | _ => None
              end
  | JObj m => match index with JStr k => map_get m k | _ => None end
  | _ => None
  end.

(* C08: what a finished construct leaves exactly as it found it (Appendix C of
   DESIGN.md): the block stack (current context, ../ chain, block params and
   @-variables), the partial-block stack and depth (the @partial-block
   binding), the current template name, the indent string, the root template
   name and the dev-mode templates; the escape toggle can only go from true to
   false (an html expression ends with `false`, not with the previous value),
   so it is unchanged whenever it was false before.  NOT included, because
   deliberately persistent: s_partials, s_local_helpers, s_modified
   (decorators); the writer s_out, the log and the three "last write" flags. *)
Definition restored (s s' : rstate) : Prop :=
  s_blocks s' = s_blocks s /\ s_pb_stack s' = s_pb_stack s /\ s_pb_depth s' = s_pb_depth s /\
  s_current s' = s_current s /\ s_indent s' = s_indent s /\
  s_root s' = s_root s /\ s_dev s' = s_dev s /\
  (s_disable_escape s' = true -> s_disable_escape s = true).

(* C08: two states that agree on everything except the three "last write"
   flags *)
Definition flags_only (s1 s2 : rstate) : Prop :=
  s_blocks s1 = s_blocks s2 /\ s_modified s1 = s_modified s2 /\ s_partials s1 = s_partials s2 /\
  s_pb_stack s1 = s_pb_stack s2 /\ s_pb_depth s1 = s_pb_depth s2 /\
  s_local_helpers s1 = s_local_helpers s2 /\ s_current s1 = s_current s2 /\ s_root s1 = s_root s2 /\
  s_disable_escape s1 = s_disable_escape s2 /\ s_indent s1 = s_indent s2 /\ s_dev s1 = s_dev s2 /\
  s_out s1 = s_out s2 /\ s_log s1 = s_log s2 /\ s_esc_trace s1 = s_esc_trace s2.

(* C08 (flags): "no indentation active", syntactically: no partial element
   (ElPartExpr / ElPartBlock) anywhere in the template -- nested templates,
   subexpressions, decorator blocks included -- carries an indent string *)
Fixpoint ni_param (p : param) {struct p} : bool :=
  match p with PSub e => ni_element e | _ => true end
with ni_element (e : element) {struct e} : bool :=
  match e with
  | ElRaw _ => true
  | ElComment _ => true
  | ElExpr h => ni_helper h
  | ElHtml h => ni_helper h
  | ElBlock h => ni_helper h
  | ElDecoExpr d => ni_deco false d
  | ElDecoBlock d => ni_deco false d
  | ElPartExpr d => ni_deco true d
  | ElPartBlock d => ni_deco true d
  end
with ni_helper (h : helper_t) {struct h} : bool :=
  match h with
  | MkH n ps hs _ tpl inv _ _ _ =>
      ni_param n && forallb ni_param ps && forallb (fun kv : str * param => ni_param (snd kv)) hs
      && match tpl with Some t => ni_template t | None => true end
      && match inv with Some t => ni_template t | None => true end
  end
with ni_deco (part : bool) (d : deco_t) {struct d} : bool :=
  match d with
  | MkD n ps hs tpl ind _ =>
      ni_param n && forallb ni_param ps && forallb (fun kv : str * param => ni_param (snd kv)) hs
      && match tpl with Some t => ni_template t | None => true end
      && (if part then match ind with None => true | Some _ => false end else true)
  end
with ni_template (t : template) {struct t} : bool :=
  match t with MkT _ els _ => forallb ni_element els end.

Definition no_indent (t : template) : Prop := ni_template t = true.
Definition opt_ni (o : option template) : Prop := match o with Some t => no_indent t | None => True end.
Definition ni_map (m : list (str * template)) : Prop := forall k t, map_get m k = Some t -> no_indent t.


(* C08 (flags): two outcomes that are the same up to the three flags of the
   final state *)
Definition same_up_to_flags {A} (x y : rres A) : Prop :=
  match x, y with
  | ROk v t1, ROk v' t2 => v = v' /\ flags_only t1 t2
  | RErr e t1, RErr e' t2 => e = e' /\ flags_only t1 t2
  | RPanic p, RPanic q => p = q
  | RFuel, RFuel => True
  | _, _ => False
  end.

(* C08 (flags): the state carries no indentation and no `state` probe helper:
   the indent string is None, the templates it holds (inline partials,
   partial blocks, dev-mode templates) are no_indent, and no local helper is
   HState *)
Definition flags_ready (s : rstate) : Prop :=
  s_indent s = None /\ ni_map (s_partials s) /\
  Forall (fun e : template * Z => no_indent (fst e)) (s_pb_stack s) /\
  match s_dev s with Some dm => ni_map dm | None => True end /\
  (forall n, map_get (s_local_helpers s) n <> Some HState).

(* C09: partial.rs expand_partial, in pieces *)
Section PartialSpec.
  Variable reg : registry.
  Variable data : json.

  (* which template a partial call designates: inline partial or
     @partial-block, else dev-mode template, else registered template, else
     the call's own block *)
  Definition resolve_partial (d : deco_v) (s : rstate) : option template :=
    match get_partial s (dv_name d) with
    | Some p => Some p
    | None =>
        match (match s_dev s with Some dm => map_get dm (dv_name d) | None => None end) with
        | Some p => Some p
        | None =>
            match map_get (r_templates reg) (dv_name d) with
            | Some p => Some p
            | None => dv_tpl d
            end
        end
    end.

  (* entering {{> @partial-block}}: inside the block body, @partial-block is
     the one of the template the body was written in (the depth recorded with
     the entry); any other partial leaves the binding alone.  Undone by
     partial_cleanup. *)
  Definition depth_step (d : deco_v) (s : rstate) : rstate :=
    if str_eqb (dv_name d) PARTIAL_BLOCK then
      match current_pb s with
      | Some (_, d0) => set_pb_depth s d0
      | None => s
      end
    else s.

  Definition hash_values (d : deco_v) : list (str * json) :=
    map (fun kv : str * pj => (fst kv, pj_value (snd kv))) (dv_hash d).

  (* the context value the partial is rendered on: the first parameter
     (re-evaluated from its relative path when it has one) or else the current
     context, merged with the hash *)
  Definition partial_context (d : deco_v) (s : rstate) : rres json :=
    match dv_params d with
    | p :: _ =>
        match pj_rel p with
        | Some rel => rbind (evaluate data rel s) (fun r s' => ROk (merge_json (sc_json r) (hash_values d)) s')
        | None => ROk (merge_json (pj_value p) (hash_values d)) s
        end
    | [] => rbind (evaluate2 data path_current s)
                  (fun r s' => ROk (merge_json (sc_json r) (hash_values d)) s')
    end.

  (* the state the partial's template is rendered from: one block holding the
     merged value; when the call has a block, it is pushed with the depth
     current at the call and becomes what @partial-block denotes *)
  Definition partial_inner (d : deco_v) (merged : json) (s : rstate) : rstate :=
    let s4 := set_blocks s [b_set_base_value block_new merged] in
    let s5 := match dv_tpl d with
              | Some pb => set_pb_depth (set_pb_stack s4 ((pb, s_pb_depth s4) :: s_pb_stack s4))
                                        (Z.of_nat (S (List.length (s_pb_stack s4))))
              | None => s4
              end in
    set_indent s5 (dv_indent d).

  (* what expand_partial puts back afterwards; `before` is the state in which
     the partial was looked up *)
  Definition partial_cleanup (d : deco_v) (before : rstate) (s : rstate) : rstate :=
    let sa := match dv_tpl d with Some _ => set_pb_stack s (tl (s_pb_stack s)) | None => s end in
    set_indent (set_pb_depth (set_current (set_blocks sa (s_blocks before)) (s_current before))
                             (s_pb_depth before)) (s_indent before).

  Definition is_self (d : deco_v) (s : rstate) : bool :=
    match s_current s with Some c => str_eqb c (dv_name d) | None => false end.
End PartialSpec.
