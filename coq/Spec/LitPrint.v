(* Spec/LitPrint.v — a printer for JSON values in the syntax of template
   literals (compact JSON), and the escaping of a single-quoted string literal
   (C13).  Used to state the literal round-trip theorems. *)
From HB Require Import Tpl.LitJson.
Open Scope N_scope.

(* lower-case hex digit of d < 16 *)
Definition hexdig (d : N) : N := if N.ltb d 10 then 48 + d else 87 + d.

(* \u00XX for a control character c < 32 *)
Definition esc_u (c : N) : str := [92; 117; 48; 48; hexdig (c / 16); hexdig (c mod 16)].

(* JSON string escaping: the double quote (34) and the backslash (92) by a
   backslash, control characters by \u00XX, every other scalar value literally *)
Definition esc_char_json (c : N) : str :=
  if N.eqb c 34 then [92; 34]
  else if N.eqb c 92 then [92; 92]
  else if N.ltb c 32 then esc_u c
  else [c].
Definition esc_json (s : str) : str := flat_map esc_char_json s.

(* the body of a single-quoted template literal: the apostrophe (39) and the
   backslash (92) by a backslash, control characters by \u00XX, everything else
   (including the double quote) literally *)
Definition sq_escape_char (c : N) : str :=
  if N.eqb c 39 then [92; 39]
  else if N.eqb c 92 then [92; 92]
  else if N.ltb c 32 then esc_u c
  else [c].
Definition sq_escape (s : str) : str := flat_map sq_escape_char s.

(* integers only; floats are outside the round-trip theorem (printed as nothing) *)
Definition print_num (n : num) : str :=
  match n with
  | PosInt n => n_to_dec n
  | NegInt z => z_to_dec z
  | Float _ => []
  end.

Definition print_str (s : str) : str := [34] ++ esc_json s ++ [34].

Fixpoint print_json (v : json) : str :=
  match v with
  | JNull => `"null"
  | JBool true => `"true"
  | JBool false => `"false"
  | JNum n => print_num n
  | JStr s => print_str s
  | JArr l =>
      91 :: match l with
            | [] => [93]
            | x :: r =>
                print_json x ++
                (fix tail (r : list json) : str :=
                   match r with
                   | [] => [93]
                   | y :: r' => 44 :: print_json y ++ tail r'
                   end) r
            end
  | JObj m =>
      123 :: match m with
             | [] => [125]
             | kx :: r =>
                 (let '(k, x) := kx in print_str k ++ 58 :: print_json x) ++
                 (fix tail (r : list (str * json)) : str :=
                    match r with
                    | [] => [125]
                    | ky :: r' => 44 :: (let '(k, y) := ky in print_str k ++ 58 :: print_json y) ++ tail r'
                    end) r
             end
  end.

(* no float anywhere in the value *)
Fixpoint int_json (v : json) : bool :=
  match v with
  | JNum (Float _) => false
  | JArr l => forallb int_json l
  | JObj m => forallb (fun kv => int_json (snd kv)) m
  | _ => true
  end.
