(* Spec/ExprSpec.v — the arguments of a tag as the list of items in token order
   (C13): what `expr_loop` reads between the name and the end of the tag, before
   any accumulation.  `expr_items` walks the tokens exactly as `expr_loop` does
   (same fuel, same calls of the model's parse_param / parse_block_param) and
   only lists what it meets. *)
From HB Require Import Tpl.Compile.
Open Scope N_scope.

Inductive eitem :=
| IParam (p : param)                 (* a positional helper_parameter *)
| IHash (k : str) (v : param)        (* a hash pair k=v *)
| IBlockParam (b : blockparam)       (* as |a b| *)
| ITilde.                            (* trailing ~ *)

Fixpoint expr_items (src : str) (fuel : nat) (it : list tok) (limit : N) {struct fuel}
  : cres (list eitem * list tok) :=
  match fuel with
  | O => CFuel
  | S f =>
      match it with
      | [] => COk ([], it)
      | p :: it' =>
          if N.ltb (tk_end p) limit then
            match arg_classify (tk_rule p) with
            | XHelperParam =>
                do '(v, it2) <- parse_param src f it';
                do '(r, it3) <- expr_items src f it2 limit;
                COk (IParam v :: r, it3)
            | XHash =>
                match it' with
                | [] => CPanic (`"parse_hash next")
                | k :: it1 =>
                    do key <- span_str src k (`"hash key span");
                    do '(v, it2) <- parse_param src f it1;
                    do '(r, it3) <- expr_items src f it2 limit;
                    COk (IHash key v :: r, it3)
                end
            | XBlockParam =>
                do '(b, it2) <- parse_block_param src it' (tk_end p);
                do '(r, it3) <- expr_items src f it2 limit;
                COk (IBlockParam b :: r, it3)
            | XTrailingTilde =>
                do '(r, it3) <- expr_items src f it' limit;
                COk (ITilde :: r, it3)
            | XOther => expr_items src f it' limit
            end
          else COk ([], it)
      end
  end.

(* the positional parameters, in order *)
Fixpoint positional (items : list eitem) : list param :=
  match items with
  | [] => []
  | IParam p :: r => p :: positional r
  | _ :: r => positional r
  end.

(* the hash pairs inserted left to right into the sorted map *)
Definition hash_of (items : list eitem) (h : list (str * param)) : list (str * param) :=
  fold_left (fun h i => match i with IHash k v => map_insert h k v | _ => h end) items h.

Definition bp_of (items : list eitem) (b : option blockparam) : option blockparam :=
  fold_left (fun b i => match i with IBlockParam b' => Some b' | _ => b end) items b.

Definition pro_of (items : list eitem) (pro : bool) : bool :=
  fold_left (fun b i => match i with ITilde => true | _ => b end) items pro.

(* the value written last for key k among the items *)
Fixpoint hash_last (items : list eitem) (k : str) : option param :=
  match items with
  | [] => None
  | i :: r =>
      match hash_last r k with
      | Some v => Some v
      | None => match i with
                | IHash k' v => if str_eqb k k' then Some v else None
                | _ => None
                end
      end
  end.
