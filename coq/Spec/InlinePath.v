(* Spec/InlinePath.v — the template `{{raw}}` for a path spelling `raw`, and the
   executable test `admissible_inline raw`: pest parses `{{raw}}` as a single
   expression whose name is a `reference` covering exactly `raw` (so that the
   compiler reads `raw` as a path; this excludes spellings with blanks or `~`
   around them, literals in parameter position do not arise here, and keywords
   such as `else` that the grammar reads as a tag). *)
From Coq Require Import List NArith Bool.
From HB Require Import Peg.Peg Peg.Grammar Tpl.Ast Tpl.Compile Spec.WfTokens.
Import ListNotations.
Open Scope N_scope.

Definition Y : str := [125; 125].                         (* "}}" *)
Definition inline_src (raw : str) : str := [123; 123] ++ raw ++ Y.

(* what `{{raw}}` compiles to when raw is the path p *)
Definition inline_template (p : path) (opts : copts) : template :=
  MkT (o_name opts) [ElExpr (MkH (PPath p) [] [] None None None false false false)] [(1, 1)].

Definition tok_eqb (a b : tok) : bool :=
  rule_eqb (tk_rule a) (tk_rule b) && N.eqb (tk_start a) (tk_start b) && N.eqb (tk_end a) (tk_end b).


(* the path tokens of `{{raw}}` when it parses as one expression whose name is a
   reference covering exactly raw *)
Definition inline_inner (raw : str) : option (list tok) :=
  let n := len raw in
  match hb_parse (peg_fuel (inline_src raw)) R_handlebars (inline_src raw) with
  | Parsed (t1 :: t2 :: t3 :: rest) =>
      let inner := removelast rest in
      if tok_eqb t1 (R_template, 0, n + 4) && tok_eqb t2 (R_expression, 0, n + 4)
         && tok_eqb t3 (R_reference, 2, 2 + n)
         && (match rest with [] => false | _ => tok_eqb (last rest t1) (R_EOI, n + 4, n + 4) end)
         && forallb (fun t => N.ltb (tk_start t) (n + 2) && not_escape t) inner
      then Some inner else None
  | _ => None
  end.
Definition admissible_inline (raw : str) : bool :=
  match inline_inner raw with Some _ => true | None => false end.

