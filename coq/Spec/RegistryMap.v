(* Spec/RegistryMap.v — the registry as ONE finite map  name -> entry
   (property C17), written without looking at the two-map implementation.

   An entry records what was last successfully registered under a name: the
   compiled template and, if it was registered from a file while dev mode was
   on and tracking has not been stopped since, the path of that file.  The
   file system is owned by the world, not by the registry.

   Finite maps are key-sorted association lists (the model's BTreeMap:
   map_get / map_insert / map_remove of Base/Json.v; their finite-map laws are
   proved in Proofs/RegProofs.v).

   There is ONE specification, the one the property text states: the entry of
   a name is what was last successfully registered under it; registering by
   string / precompiled template makes that template the one rendered (a
   file tracking in force for the name stops).  (Before the fix of finding F6
   the implementation kept the tracking; the model and this file follow the
   fixed crate.)                                                          *)
From HB Require Export Reg.RegOps.

Record entry := { en_tpl : template; en_file : option str }.

Record areg := {
  a_ents : list (str * entry);
  a_strict : bool;
  a_dev : bool;
  a_pi : bool
}.

Definition a_new : areg := {| a_ents := []; a_strict := false; a_dev := false; a_pi := false |}.

Definition a_with (a : areg) (ents : list (str * entry)) : areg :=
  {| a_ents := ents; a_strict := a_strict a; a_dev := a_dev a; a_pi := a_pi a |}.

(* compile options in force: the prevent_indent flag at the time of the call *)
Definition a_opts (a : areg) (name : option str) : copts :=
  {| o_prevent_indent := a_pi a; o_is_partial := false; o_name := name |}.

(* ---------- operations ---------- *)

(* register_template: a precompiled template becomes the entry of n; no file
   is tracked for n any more *)
Definition a_put (a : areg) (n : str) (t : template) : areg :=
  a_with a (map_insert (a_ents a) n {| en_tpl := t; en_file := None |}).

(* register_template_string = register_partial *)
Definition a_register_template_string (a : areg) (n src : str) : areg * cres unit :=
  match compile2 src (a_opts a (Some n)) with
  | COk t => (a_put a n t, COk tt)
  | CErr e => (a, CErr e)
  | CPanic p => (a, CPanic p)
  | CFuel => (a, CFuel)
  end.

Definition a_register_template_file (a : areg) (fs : files) (n path : str) : areg * cres unit :=
  match map_get fs path with
  | None => (a, CErr TEIo)
  | Some content =>
      match compile2 content (a_opts a (Some n)) with
      | COk t =>
          (a_with a (map_insert (a_ents a) n
                       {| en_tpl := t; en_file := if a_dev a then Some path else None |}), COk tt)
      | CErr e => (a, CErr e)
      | CPanic p => (a, CPanic p)
      | CFuel => (a, CFuel)
      end
  end.

Definition a_unregister (a : areg) (n : str) : areg := a_with a (map_remove (a_ents a) n).
Definition a_clear (a : areg) : areg := a_with a [].

Definition untrack (e : entry) : entry := {| en_tpl := en_tpl e; en_file := None |}.

Definition a_set_dev (a : areg) (b : bool) : areg :=
  {| a_ents := if b then a_ents a else map (fun kv => (fst kv, untrack (snd kv))) (a_ents a);
     a_strict := a_strict a; a_dev := b; a_pi := a_pi a |}.
Definition a_set_pi (a : areg) (b : bool) : areg :=
  {| a_ents := a_ents a; a_strict := a_strict a; a_dev := a_dev a; a_pi := b |}.
Definition a_set_strict (a : areg) (b : bool) : areg :=
  {| a_ents := a_ents a; a_strict := b; a_dev := a_dev a; a_pi := a_pi a |}.

(* ---------- observations ---------- *)
Definition a_has (a : areg) (n : str) : bool :=
  match map_get (a_ents a) n with Some _ => true | None => false end.

Definition a_keys (a : areg) : list str := map fst (a_ents a).

(* which template a render of n uses *)
Definition a_load (a : areg) (fs : files) (n : str) : load_res :=
  match map_get (a_ents a) n with
  | None => LoadErr (RTemplateNotFound n)
  | Some e =>
      match en_file e with
      | None => LoadOk (en_tpl e)
      | Some path =>
          match map_get fs path with
          | None => LoadErr RTemplateIo
          | Some content =>
              match compile2 content (a_opts a (Some n)) with
              | COk t => LoadOk t
              | CErr e => LoadErr (RTemplateError e)
              | CPanic _ => LoadPanic
              | CFuel => LoadFuel
              end
          end
      end
  end.

(* ---------- the abstract world of the case interpreter ---------- *)
Record aworld := {
  aw_a : areg;
  aw_b : option areg;       (* the clone, once made *)
  aw_sel : bool;
  aw_files : files
}.
Definition aworld_init : aworld :=
  {| aw_a := a_new; aw_b := None; aw_sel := false; aw_files := [] |}.

Definition acur (w : aworld) : areg :=
  if aw_sel w then match aw_b w with Some b => b | None => aw_a w end else aw_a w.
Definition aset_cur (w : aworld) (a : areg) : aworld :=
  if aw_sel w then {| aw_a := aw_a w; aw_b := Some a; aw_sel := true; aw_files := aw_files w |}
  else {| aw_a := a; aw_b := aw_b w; aw_sel := false; aw_files := aw_files w |}.

(* the effect of one operation of the case protocol on the abstract world;
   helper/escape configuration is not part of the abstract state, observation
   operations change nothing *)
Definition a_step (w : aworld) (o : op) : aworld :=
  let a := acur w in
  match o with
  | OStrict b => aset_cur w (a_set_strict a b)
  | ODev b => aset_cur w (a_set_dev a b)
  | OPi b => aset_cur w (a_set_pi a b)
  | OEsc _ | OProbes | OHooks _ | OMacros => aset_cur w a
  | OFw p c => {| aw_a := aw_a w; aw_b := aw_b w; aw_sel := aw_sel w;
                  aw_files := map_insert (aw_files w) p c |}
  | OFd p => {| aw_a := aw_a w; aw_b := aw_b w; aw_sel := aw_sel w;
                aw_files := map_remove (aw_files w) p |}
  | OClone => {| aw_a := aw_a w; aw_b := Some a; aw_sel := aw_sel w; aw_files := aw_files w |}
  | OSel b => {| aw_a := aw_a w; aw_b := aw_b w; aw_sel := b; aw_files := aw_files w |}
  | OUnreg n => aset_cur w (a_unregister a n)
  | OClear => aset_cur w (a_clear a)
  | ORegs n s | ORegp n s => aset_cur w (fst (a_register_template_string a n s))
  | ORegf n p => aset_cur w (fst (a_register_template_file a (aw_files w) n p))
  | ORegt n mode s =>
      match compile2 s {| o_prevent_indent := false; o_is_partial := false;
                          o_name := if N.eqb mode 0 then None else Some n |} with
      | COk t => aset_cur w (a_put a n t)
      | _ => w
      end
  | _ => w
  end.

Definition a_exec (w : aworld) (ops : list op) : aworld :=
  fold_left a_step ops w.

(* the concrete world after a sequence of operations (run_ops keeps only the
   observations; see run_ops_snoc in Proofs/RegProofs.v for the connection) *)
Definition exec_ops (w : world) (ops : list op) : world :=
  fold_left (fun w o => fst (step_op w o)) ops w.

(* ---------- abstraction function ---------- *)
Definition abs (r : registry) : areg :=
  {| a_ents := map (fun kv => (fst kv, {| en_tpl := snd kv;
                                          en_file := map_get (r_sources r) (fst kv) |}))
                   (r_templates r);
     a_strict := r_strict r; a_dev := r_dev r; a_pi := r_prevent_indent r |}.

Definition abs_world (w : world) : aworld :=
  {| aw_a := abs (w_a w); aw_b := option_map abs (w_b w); aw_sel := w_sel w;
     aw_files := w_files w |}.

(* ---------- what every reachable registry satisfies ---------- *)
(* strictly increasing keys *)
Fixpoint skeys {A} (m : list (str * A)) : Prop :=
  match m with
  | [] => True
  | (k, _) :: r => (forall k', In k' (map fst r) -> str_cmp k k' = Lt) /\ skeys r
  end.

Record reg_inv (r : registry) : Prop := {
  inv_tpls : skeys (r_templates r);
  inv_srcs : skeys (r_sources r);
  (* only registered names are tracked *)
  inv_sub : forall n, map_get (r_templates r) n = None -> map_get (r_sources r) n = None;
  (* nothing is tracked while dev mode is off *)
  inv_dev : r_dev r = false -> r_sources r = []
}.

(* operations that select or create the clone *)
Definition is_clone_or_sel (o : op) : bool :=
  match o with OClone | OSel _ => true | _ => false end.

(* ---------- small helpers used in the C16 statements ---------- *)
Definition cres_map {A B} (f : A -> B) (x : cres A) : cres B :=
  match x with
  | COk a => COk (f a)
  | CErr e => CErr e
  | CPanic p => CPanic p
  | CFuel => CFuel
  end.

(* a render request: entry point, target (name or template text), data, and
   the write after which the user's writer fails *)
Definition render_req := (N * str * json * option N)%type.
Definition render_op (q : render_req) : op :=
  let '(e, t, d, f) := q in ORender e t d f.
