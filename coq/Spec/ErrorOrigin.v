(* Spec/ErrorOrigin.v — where a render error can come from.  Template::render
   and Template::eval are the only places that touch an error on its way out:
   an error returned by any function of the render fixpoint is either freshly
   raised (no template name, no line, no column) or exactly what one
   Template::render / Template::eval decoration step made of the error of a
   failing element. *)
From Coq Require Import List.
From HB Require Import Rt.Render.

Definition error_provenance (reg : registry) (data : json) (ft : ftable) (e : rerror) : Prop :=
  (exists r, e = mk_err r)
  \/ (exists fuel t idx el s0 s1 e0,
        nth_error (t_els t) idx = Some el /\
        render_element reg data ft fuel el s0 = RErr e0 s1 /\
        e = attach_render t idx e0)
  \/ (exists fuel t idx el s0 s1 e0,
        nth_error (t_els t) idx = Some el /\
        eval_element reg data ft fuel el s0 = RErr e0 s1 /\
        e = attach_eval t idx e0).
