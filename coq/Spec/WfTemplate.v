(* Spec/WfTemplate.v — well-formed templates: every `Parameter::Subexpression`
   holds a `TemplateElement::Expression` (what `Subexpression::new` builds), at
   every depth: in names, positional parameters, hash values, of every helper
   and decorator of every element of every nested template.  This is the
   hypothesis under which `Parameter::expand`'s `unreachable!()` and
   `Subexpression::name`'s are dead code.

   Definitions by mutual structural recursion (nested fixes through list /
   option / pairs); the `*_iff` lemmas restate every case with `Forall` and
   `opt_wf` so that users never have to look at the nested fixes. *)
From HB Require Import Tpl.Ast.

Fixpoint wf_param (p : param) : Prop :=
  match p with
  | PSub e => match e with ElExpr h => wf_helper h | _ => False end
  | _ => True
  end
with wf_element (e : element) : Prop :=
  match e with
  | ElRaw _ => True
  | ElComment _ => True
  | ElExpr h => wf_helper h
  | ElHtml h => wf_helper h
  | ElBlock h => wf_helper h
  | ElDecoExpr d => wf_deco d
  | ElDecoBlock d => wf_deco d
  | ElPartExpr d => wf_deco d
  | ElPartBlock d => wf_deco d
  end
with wf_helper (h : helper_t) : Prop :=
  match h with
  | MkH n ps hs _ tpl inv _ _ _ =>
      wf_param n
      /\ (fix go (l : list param) : Prop :=
            match l with [] => True | p :: r => wf_param p /\ go r end) ps
      /\ (fix go (l : list (str * param)) : Prop :=
            match l with [] => True | kv :: r => (let '(_, p) := kv in wf_param p) /\ go r end) hs
      /\ match tpl with Some t => wf_template t | None => True end
      /\ match inv with Some t => wf_template t | None => True end
  end
with wf_deco (d : deco_t) : Prop :=
  match d with
  | MkD n ps hs tpl _ _ =>
      wf_param n
      /\ (fix go (l : list param) : Prop :=
            match l with [] => True | p :: r => wf_param p /\ go r end) ps
      /\ (fix go (l : list (str * param)) : Prop :=
            match l with [] => True | kv :: r => (let '(_, p) := kv in wf_param p) /\ go r end) hs
      /\ match tpl with Some t => wf_template t | None => True end
  end
with wf_template (t : template) : Prop :=
  match t with
  | MkT _ els _ =>
      (fix go (l : list element) : Prop :=
         match l with [] => True | e :: r => wf_element e /\ go r end) els
  end.

Definition opt_wf (o : option template) : Prop :=
  match o with Some t => wf_template t | None => True end.

Definition wf_hash (hs : list (str * param)) : Prop := Forall (fun kv => wf_param (snd kv)) hs.

(* ---------- readable restatements ---------- *)
Lemma wf_params_fix_iff (ps : list param) :
  (fix go (l : list param) : Prop :=
     match l with [] => True | p :: r => wf_param p /\ go r end) ps <-> Forall wf_param ps.
Proof.
  induction ps as [|p r IH]; split; intro H.
  - constructor.
  - exact I.
  - destruct H as [Hp Hr]. constructor; [exact Hp | apply IH; exact Hr].
  - inversion H as [|? ? Hp Hr]; subst. split; [exact Hp | apply IH; exact Hr].
Qed.

Lemma wf_hash_fix_iff (hs : list (str * param)) :
  (fix go (l : list (str * param)) : Prop :=
     match l with [] => True | kv :: r => (let '(_, p) := kv in wf_param p) /\ go r end) hs
  <-> wf_hash hs.
Proof.
  unfold wf_hash.
  induction hs as [|[k p] r IH]; split; intro H.
  - constructor.
  - exact I.
  - destruct H as [Hp Hr]. constructor; [exact Hp | apply IH; exact Hr].
  - inversion H as [|? ? Hp Hr]; subst. split; [exact Hp | apply IH; exact Hr].
Qed.

Lemma wf_els_fix_iff (es : list element) :
  (fix go (l : list element) : Prop :=
     match l with [] => True | e :: r => wf_element e /\ go r end) es <-> Forall wf_element es.
Proof.
  induction es as [|e r IH]; split; intro H.
  - constructor.
  - exact I.
  - destruct H as [He Hr]. constructor; [exact He | apply IH; exact Hr].
  - inversion H as [|? ? He Hr]; subst. split; [exact He | apply IH; exact Hr].
Qed.

Lemma wf_param_sub_iff (e : element) :
  wf_param (PSub e) <-> exists h, e = ElExpr h /\ wf_helper h.
Proof.
  split.
  - destruct e; cbn; intro H; try contradiction. eexists; split; [reflexivity | exact H].
  - intros [h [-> H]]. exact H.
Qed.

Lemma wf_helper_iff n ps hs bp tpl inv bl ch w :
  wf_helper (MkH n ps hs bp tpl inv bl ch w)
  <-> wf_param n /\ Forall wf_param ps /\ wf_hash hs /\ opt_wf tpl /\ opt_wf inv.
Proof.
  cbn [wf_helper]. rewrite wf_params_fix_iff, wf_hash_fix_iff. unfold opt_wf. tauto.
Qed.

Lemma wf_deco_iff n ps hs tpl ind w :
  wf_deco (MkD n ps hs tpl ind w)
  <-> wf_param n /\ Forall wf_param ps /\ wf_hash hs /\ opt_wf tpl.
Proof.
  cbn [wf_deco]. rewrite wf_params_fix_iff, wf_hash_fix_iff. unfold opt_wf. tauto.
Qed.

Lemma wf_template_iff n es m : wf_template (MkT n es m) <-> Forall wf_element es.
Proof. cbn [wf_template]. apply wf_els_fix_iff. Qed.

Lemma wf_template_els t : wf_template t <-> Forall wf_element (t_els t).
Proof. destruct t as [n es m]. apply wf_template_iff. Qed.

(* projection form, for use on opaque helpers/decorators *)
Lemma wf_helper_proj h :
  wf_helper h
  <-> wf_param (h_name h) /\ Forall wf_param (h_params h) /\ wf_hash (h_hash h)
      /\ opt_wf (h_tpl h) /\ opt_wf (h_inv h).
Proof. destruct h. apply wf_helper_iff. Qed.

Lemma wf_deco_proj d :
  wf_deco d
  <-> wf_param (d_name d) /\ Forall wf_param (d_params d) /\ wf_hash (d_hash d) /\ opt_wf (d_tpl d).
Proof. destruct d. apply wf_deco_iff. Qed.
