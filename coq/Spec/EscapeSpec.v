(* Spec/EscapeSpec.v — small specification vocabulary for property C02
   (default HTML escaping): the seven fixed entities, the six forbidden
   characters, the token shape of escaped text, and an executable inverse. *)
From HB Require Import Rt.Eval.
Open Scope N_scope.

(* entity text and the character it stands for *)
Definition html_entities : list (str * N) :=
  [ (`"&lt;", 60); (`"&gt;", 62); (`"&quot;", 34); (`"&amp;", 38);
    (`"&#x27;", 39); (`"&#x60;", 96); (`"&#x3D;", 61) ].

(* less-than, greater-than, double quote, apostrophe, backtick, equals sign
   (the ampersand, 38, is treated separately) *)
Definition html_special : list N := [60; 62; 34; 39; 96; 61].

(* a token of escaped text: one harmless character, or one of the entities *)
Inductive esc_token : str -> Prop :=
| tok_char : forall c, ~ In c html_special -> c <> 38 -> esc_token [c]
| tok_entity : forall e c, In (e, c) html_entities -> esc_token e.

(* ---- executable inverse of escape_html ---- *)
Fixpoint strip_pre (p s : str) : option str :=
  match p, s with
  | [], _ => Some s
  | x :: p', y :: s' => if N.eqb x y then strip_pre p' s' else None
  | _ :: _, [] => None
  end.

Fixpoint match_entity (tbl : list (str * N)) (s : str) : option (N * str) :=
  match tbl with
  | [] => None
  | (e, c) :: t =>
      match strip_pre e s with
      | Some r => Some (c, r)
      | None => match_entity t s
      end
  end.

Fixpoint unescape_go (fuel : nat) (s : str) : str :=
  match fuel with
  | O => []
  | S f =>
      match s with
      | [] => []
      | c :: r =>
          match match_entity html_entities s with
          | Some (ch, rest) => ch :: unescape_go f rest
          | None => c :: unescape_go f r
          end
      end
  end.

Definition unescape_html (s : str) : str := unescape_go (length s) s.
