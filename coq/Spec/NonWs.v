(* Spec/NonWs.v — a string with its whitespace removed.  The whitespace class is
   Rust's char::is_whitespace (Base/Str.v is_ws): it contains everything the two
   compile-time trims can remove (`~` trims by is_whitespace; the standalone rule
   removes spaces, tabs and one LF / CRLF) and everything pest skips between
   tokens (space, tab, LF, CR). *)
From Coq Require Import List NArith Bool.
From HB Require Import Base.Str.
Import ListNotations.
Open Scope N_scope.

Definition nonws (s : str) : str := filter (fun c => negb (is_ws c)) s.
