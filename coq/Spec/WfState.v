(* Spec/WfState.v — well-formedness of everything a render can pick templates
   from: the registry, the render state, helper and decorator values. *)
From Coq Require Import List.
From HB Require Import Rt.Render Spec.WfTemplate Spec.RenderAll.

Definition wf_named (l : list (str * template)) : Prop := Forall (fun kv => wf_template (snd kv)) l.

(* every registered template is well formed *)
Definition wf_registry (reg : registry) : Prop := wf_named (r_templates reg).

(* every template stored in the render state is well formed: inline partials,
   the partial-block stack, the dev-mode template table *)
Definition wf_state (s : rstate) : Prop :=
  wf_named (s_partials s) /\
  Forall (fun e => wf_template (fst e)) (s_pb_stack s) /\
  match s_dev s with Some dm => wf_named dm | None => True end.

(* the block bodies carried by a helper / decorator value *)
Definition wf_hv (h : helper_v) : Prop := opt_wf (hv_tpl h) /\ opt_wf (hv_inv h).
Definition wf_dv (d : deco_v) : Prop := opt_wf (dv_tpl d).

(* an outcome that is not a panic and, when it carries a state, a well-formed one *)
Definition safe_outcome {A} (r : rres A) : Prop :=
  (forall site, r <> RPanic site) /\ (forall s', ends_in r s' -> wf_state s').
