(* Spec/Writer.v — what "the writer only ever received more" means. *)
From Coq Require Import List NArith.
From HB Require Import Rt.Render Spec.RenderAll.
Import ListNotations.
Open Scope N_scope.

(* o' is o after some further accepted write calls: the accepted chunks of o
   are still there, in place (chunks are kept most recent first, so new ones are
   in front), every new chunk is non-empty and counted, the fault index did not
   change, and the count of accepted calls did not pass the fault index *)
Definition out_extends (o o' : outbuf) : Prop :=
  exists l : list str,
    o_chunks o' = l ++ o_chunks o /\
    o_writes o' = o_writes o + N.of_nat (List.length l) /\
    Forall (fun c => c <> []) l /\
    o_fail_at o' = o_fail_at o /\
    (forall k, o_fail_at o = Some k -> o_writes o <= k -> o_writes o' <= k).

(* the same state with a writer that fails at its k-th write call (0-based,
   counting accepted calls) and at every later one *)
Definition with_fault (k : N) (s : rstate) : rstate :=
  set_out s {| o_chunks := o_chunks (s_out s); o_writes := o_writes (s_out s); o_fail_at := Some k |}.

(* outcome r of a run with an unfailing writer against outcome rk of the same
   run with the writer failing at call k:
   - either the fault was never reached: same kind of outcome, same value or
     error, same final state up to the armed fault, at most k calls accepted;
   - or the faulty run stopped with Err(IOError) in a state with exactly k calls
     accepted, and the chunks it accepted are still in place, oldest first, in
     whatever state the unfailing run ends in, followed by at least one more
     (they are a proper prefix of its chunk sequence). *)
Definition fault_outcome (k : N) {A} (r rk : rres A) : Prop :=
  match r, rk with
  | ROk a s', ROk a' sk' => a' = a /\ sk' = with_fault k s' /\ o_writes (s_out s') <= k
  | RErr e s', RErr e' sk' => e' = e /\ sk' = with_fault k s' /\ o_writes (s_out s') <= k
  | RPanic p, RPanic p' => p' = p
  | RFuel, RFuel => True
  | _, _ => False
  end
  \/
  exists e sk', rk = RErr e sk' /\ e_reason e = RIOError /\
                o_fail_at (s_out sk') = Some k /\ o_writes (s_out sk') = k /\
                forall s', ends_in r s' ->
                  exists l, l <> [] /\ o_chunks (s_out s') = l ++ o_chunks (s_out sk').
