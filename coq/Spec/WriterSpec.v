(* Spec/WriterSpec.v — small specification vocabulary for property C12 (and the
   chunk-level frame used by C19): what write_indented must produce, and what
   it means for the writer to have only appended. *)
From HB Require Import Rt.Eval.
Open Scope N_scope.

(* v with `indent` inserted after every LF that is not the last character of v *)
Fixpoint with_indent_spec (v indent : str) : str :=
  match v with
  | [] => []
  | c :: r =>
      if N.eqb c 10 then
        match r with
        | [] => [10]
        | _ :: _ => 10 :: indent ++ with_indent_spec r indent
        end
      else c :: with_indent_spec r indent
  end.

(* o' is o after some further accepted, non-empty write calls: the old chunk
   list is a suffix of the new one (chunks are kept most recent first), the
   failure setting is untouched and the call counter advanced accordingly *)
Definition out_extends (o o' : outbuf) : Prop :=
  exists new : list str,
    o_chunks o' = new ++ o_chunks o /\
    o_fail_at o' = o_fail_at o /\
    o_writes o' = o_writes o + N.of_nat (List.length new) /\
    Forall (fun chunk => chunk <> []) new.
