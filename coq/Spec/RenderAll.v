(* Spec/RenderAll.v — vocabulary for statements about ALL sixteen functions of
   the mutual render fixpoint of Rt/Render.v at once. *)
From HB Require Import Rt.Render.

(* the state an outcome ends in (Ok or Err); panics and out-of-fuel carry none *)
Definition ends_in {A} (r : rres A) (s' : rstate) : Prop :=
  match r with
  | ROk _ s => s = s'
  | RErr _ s => s = s'
  | _ => False
  end.

(* the state of an Ok outcome *)
Definition ok_in {A} (r : rres A) (s' : rstate) : Prop :=
  match r with
  | ROk _ s => s = s'
  | _ => False
  end.

(* [P A s r] holds whenever r is the outcome of calling, at fuel f and from the
   state s, any one of the sixteen functions on any arguments *)
Definition every_render_fn (reg : registry) (data : json) (ft : ftable) (f : nat)
           (P : forall A : Type, rstate -> rres A -> Prop) : Prop :=
  (forall t s, P _ s (render_template reg data ft f t s)) /\
  (forall t s, P _ s (eval_template reg data ft f t s)) /\
  (forall t s, P _ s (opt_render reg data ft f t s)) /\
  (forall e s, P _ s (render_element reg data ft f e s)) /\
  (forall e s, P _ s (eval_element reg data ft f e s)) /\
  (forall ht html s, P _ s (render_expression reg data ft f ht html s)) /\
  (forall ht s, P _ s (render_helper reg data ft f ht s)) /\
  (forall ht s, P _ s (helper_from_template reg data ft f ht s)) /\
  (forall dt s, P _ s (deco_from_template reg data ft f dt s)) /\
  (forall p s, P _ s (expand_as_name reg data ft f p s)) /\
  (forall p s, P _ s (expand_param reg data ft f p s)) /\
  (forall hid h s, P _ s (call_helper_for_value reg data ft f hid h s)) /\
  (forall hid h s, P _ s (call_helper reg data ft f hid h s)) /\
  (forall dt s, P _ s (eval_decorator reg data ft f dt s)) /\
  (forall dt s, P _ s (render_partial reg data ft f dt s)) /\
  (forall d s, P _ s (expand_partial reg data ft f d s)).

(* two runs of the same function, same fuel, same arguments, the second from the
   state [T s]: [P A s r rk] holds of the two outcomes, for every one of the
   sixteen functions *)
Definition every_render_fn2 (reg : registry) (data : json) (ft : ftable) (f : nat)
           (T : rstate -> rstate) (P : forall A : Type, rstate -> rres A -> rres A -> Prop) : Prop :=
  (forall t s, P _ s (render_template reg data ft f t s) (render_template reg data ft f t (T s))) /\
  (forall t s, P _ s (eval_template reg data ft f t s) (eval_template reg data ft f t (T s))) /\
  (forall t s, P _ s (opt_render reg data ft f t s) (opt_render reg data ft f t (T s))) /\
  (forall e s, P _ s (render_element reg data ft f e s) (render_element reg data ft f e (T s))) /\
  (forall e s, P _ s (eval_element reg data ft f e s) (eval_element reg data ft f e (T s))) /\
  (forall ht html s, P _ s (render_expression reg data ft f ht html s)
                           (render_expression reg data ft f ht html (T s))) /\
  (forall ht s, P _ s (render_helper reg data ft f ht s) (render_helper reg data ft f ht (T s))) /\
  (forall ht s, P _ s (helper_from_template reg data ft f ht s)
                      (helper_from_template reg data ft f ht (T s))) /\
  (forall dt s, P _ s (deco_from_template reg data ft f dt s)
                      (deco_from_template reg data ft f dt (T s))) /\
  (forall p s, P _ s (expand_as_name reg data ft f p s) (expand_as_name reg data ft f p (T s))) /\
  (forall p s, P _ s (expand_param reg data ft f p s) (expand_param reg data ft f p (T s))) /\
  (forall hid h s, P _ s (call_helper_for_value reg data ft f hid h s)
                         (call_helper_for_value reg data ft f hid h (T s))) /\
  (forall hid h s, P _ s (call_helper reg data ft f hid h s) (call_helper reg data ft f hid h (T s))) /\
  (forall dt s, P _ s (eval_decorator reg data ft f dt s) (eval_decorator reg data ft f dt (T s))) /\
  (forall dt s, P _ s (render_partial reg data ft f dt s) (render_partial reg data ft f dt (T s))) /\
  (forall d s, P _ s (expand_partial reg data ft f d s) (expand_partial reg data ft f d (T s))).
