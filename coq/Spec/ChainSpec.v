(* Spec/ChainSpec.v — the else-chain of a helper block: the operations the
   compile loop performs on the helper at the front of the helper stack, as a
   driver over the list of chain links, and the nested structure they must
   build. *)
From HB Require Import Tpl.Compile.

(* one `{{else <e> }}` link: its parsed tag, the body template that follows the
   tag, and the indent_before_write flag computed for the tag *)
Definition link := (espec * template * bool)%type.

(* T[h]: the template `insert_inverse_node` synthesises around a chain link *)
Definition wrap (h : helper_t) : template := MkT None [ElBlock h] [].

(* H(e1, b1, inv = T[H(e2, b2, ... inv = fe)]) *)
Fixpoint nest (links : list link) (fe : option template) : option template :=
  match links with
  | [] => fe
  | (e, b, w) :: r =>
      Some (wrap (MkH (es_name e) (es_params e) (es_hash e) (es_bp e)
                      (Some b) (nest r fe) true true w))
  end.

(* what `step` does to the front helper on an `{{else <e>}}` tag, `pending`
   being the body template just finished *)
Definition link_op (h : helper_t) (pending : template) (e : espec) (w : bool) : cres helper_t :=
  do h2 <- set_chain_template (h_set_chain h true) (Some pending);
  COk (insert_inverse_node h2 (mk_helper e true true w)).

Fixpoint chain_links (h : helper_t) (pending : template) (links : list link)
  : cres (helper_t * template) :=
  match links with
  | [] => COk (h, pending)
  | (e, b, w) :: r => do h' <- link_op h pending e w; chain_links h' b r
  end.

(* block start; one link_op per chain tag; an optional final `{{else}}`
   (set_chain_template only); block end (revert_chain_and_set) *)
Definition chain_ops (fuel : nat) (e0 : espec) (ibw0 : bool) (b0 : template)
           (links : list link) (final_else : option template) : cres helper_t :=
  do '(h, pending) <- chain_links (mk_helper e0 true false ibw0) b0 links;
  match final_else with
  | Some be =>
      do h' <- set_chain_template h (Some pending);
      revert_chain_and_set fuel h' (Some be)
  | None => revert_chain_and_set fuel h (Some pending)
  end.
