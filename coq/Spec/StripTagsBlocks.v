(* Spec/StripTagsBlocks.v — C03 for templates WITH blocks: the raw text of a
   compiled template in document order, block bodies included, and the token
   streams on which no whitespace trimming fires.

   all_raw_text walks the compiled AST (Tpl/Ast.v): a raw element contributes
   its text; a helper block / raw block contributes the text of its template
   followed by the text of its inverse (an else chain is nested in the inverse,
   so its links come out in document order); a decorator / partial block
   contributes the text of its template; expressions and comments contribute
   nothing (the templates of expression helpers are None).  The body of a raw
   block is one raw element of the block's template. *)
From Coq Require Import List NArith Bool.
From HB Require Import Base.Str Peg.Peg Peg.Grammar Tpl.Ast Tpl.Compile Spec.AlignedSpec Spec.WsSpec
  Spec.StripTags.
Import ListNotations.
Open Scope N_scope.

Fixpoint art_t (t : template) : str :=
  match t with
  | MkT _ els _ =>
      (fix go (l : list element) : str :=
         match l with [] => [] | e :: r => art_e e ++ go r end) els
  end
with art_e (e : element) : str :=
  match e with
  | ElRaw s => s
  | ElComment _ => []
  | ElExpr h => art_h h
  | ElHtml h => art_h h
  | ElBlock h => art_h h
  | ElDecoExpr d => art_d d
  | ElDecoBlock d => art_d d
  | ElPartExpr d => art_d d
  | ElPartBlock d => art_d d
  end
with art_h (h : helper_t) : str :=
  match h with
  | MkH _ _ _ _ tpl inv _ _ _ =>
      (match tpl with Some t => art_t t | None => [] end)
      ++ (match inv with Some t => art_t t | None => [] end)
  end
with art_d (d : deco_t) : str :=
  match d with
  | MkD _ _ _ tpl _ _ => match tpl with Some t => art_t t | None => [] end
  end.

(* the raw text of an element list, blocks included, in document order *)
Definition all_raw_text (els : list element) : str := concat (map art_e els).

(* A "plain" token stream with blocks: no `~` anywhere, and no tag the
   standalone rule applies to (block start / else / block end, comment,
   partial / decorator expression) stands alone on its line — so neither of the
   two whitespace trims of Props/C11.v ever fires.  Every kind of block is
   allowed. *)
Definition blocks_plain_token (src : str) (opts : copts) (t : tok) : bool :=
  negb (is_tilde t) &&
  match tag_classify (tk_rule t) with
  | KBlockStart _ | KInvert _ | KHelperEnd | KDecoEnd _ | KDecoExpr _ | KComment _ =>
      negb (standalone src t (o_is_partial opts))
  | _ => true
  end.

Definition blocks_plain (src : str) (opts : copts) (ts : list tok) : bool :=
  forallb (blocks_plain_token src opts) ts.
