(* Spec/DispatchSpec.v — small readable vocabulary for property C14 (name
   resolution / dispatch).  These are names for pieces that render.rs (and the
   model) write inline. *)
From HB Require Export Rt.Render.

(* lookup order of a helper call: a helper registered for this render by a
   decorator, then the registry, then the registry's hook helper
   (blockHelperMissing for blocks, helperMissing otherwise) *)
Definition resolve_helper (reg : registry) (s : rstate) (name : str) (block : bool)
  : option helper_id :=
  match find_local_helper s name with
  | Some hid => Some hid
  | None =>
      match find_reg_helper reg name with
      | Some hid => Some hid
      | None => find_reg_helper reg (if block then BLOCK_HELPER_MISSING else HELPER_MISSING)
      end
  end.

(* render_helper's wrapper around HelperDef::call (indent bookkeeping only) *)
Definition call_indent_aware (reg : registry) (data : json) (ft : ftable) (f : nat)
           (ht : helper_t) (h : helper_v) (hid : helper_id) (s : rstate) : rres unit :=
  let ibw_before := s_indent_before_write s in
  let cp_before := s_content_produced s in
  let s' := set_indent_before_write (set_content_produced s false)
              (ibw_before || (h_ibw ht && s_trailing_newline s)) in
  rbind (call_helper reg data ft f hid h s') (fun _ s2 =>
    if s_content_produced s2
    then ROk tt (set_indent_before_write s2 (s_trailing_newline s2))
    else ROk tt (set_indent_before_write (set_content_produced s2 cp_before) ibw_before)).

(* {{{ }}} / {{& }}: escaping is disabled on entry and re-enabled on the Ok and
   Err exits of render_expression *)
Definition enter_escape (html : bool) (s : rstate) : rstate :=
  if html then set_disable_escape s true else s.
Definition reset_escape (html : bool) (r : rres unit) : rres unit :=
  match r with
  | ROk u s' => ROk u (if html then set_disable_escape s' false else s')
  | RErr e s' => RErr e (if html then set_disable_escape s' false else s')
  | x => x
  end.

(* an expression's value is rendered, escaped (do_escape) and written once *)
Definition write_value (reg : registry) (ft : ftable) (v : json) (s : rstate) : rres unit :=
  let '(output, s') := do_escape reg (json_render ft v) s in
  indent_aware_write output s'.

(* what a bare {{name}} does with the evaluated name when no helper of that
   name exists: write the value; a missing value raises in strict mode, else
   goes to the helperMissing hook if there is one, else writes nothing *)
Definition finish_value (reg : registry) (data : json) (ft : ftable) (f : nat)
           (ht : helper_t) (cj : pj) (s2 : rstate) : rres unit :=
  if sc_missing (pj_val cj) then
    if r_strict reg then rfail (RMissingVariable (pj_rel cj)) s2
    else
      match find_reg_helper reg HELPER_MISSING with
      | Some hook =>
          rbind (helper_from_template reg data ft f ht s2)
                (fun h s3 => call_helper reg data ft f hook h s3)
      | None => ROk tt s2
      end
  else write_value reg ft (pj_value cj) s2.

Definition name_as_data (reg : registry) (data : json) (ft : ftable) (f : nat)
           (ht : helper_t) (s1 : rstate) : rres unit :=
  rbind (expand_param reg data ft f (h_name ht) s1) (finish_value reg data ft f ht).

(* the three decorators the model knows (inline, and the two probe decorators) *)
Definition apply_decorator (did : deco_id) (d : deco_v) (s1 : rstate) : rres unit :=
  match did with
  | DInline =>
      match dv_params d with
      | [] => rfail (RParamNotFoundForIndex (`"inline") 0) s1
      | p :: _ =>
          match pj_value p with
          | JStr name =>
              match dv_tpl d with
              | None => rfail RBlockContentRequired s1
              | Some t => ROk tt (set_partials s1 (map_insert (s_partials s1) name t))
              end
          | _ => rfail (RInvalidParamType (`"String")) s1
          end
      end
  | DSetHelper =>
      match dv_params d with
      | p :: _ =>
          match pj_value p with
          | JStr name =>
              ROk tt (set_local_helpers s1 (map_insert (s_local_helpers s1) name (HLocal (sethelper_tag d name))))
          | _ => rfail (ROther (`"sethelper")) s1
          end
      | [] => rfail (ROther (`"sethelper")) s1
      end
  | DSetCtx =>
      match dv_params d with
      | p :: _ => ROk tt (set_modified s1 (Some (pj_value p)))
      | [] => rfail (RParamNotFoundForIndex (`"setctx") 0) s1
      end
  end.

(* a helper name that cannot be confused with an explicit path spelling: no
   '.', '/', '[' in it *)
Definition plain_name (n : str) : bool :=
  forallb (fun c => negb (N.eqb c 46 || N.eqb c 47 || N.eqb c 91)) n.

(* the per-element step of Template::render *)
Definition render_step (reg : registry) (data : json) (ft : ftable) (f : nat) (t : template)
  : element -> nat -> rstate -> rres unit :=
  fun e idx s' => rmap_err (render_element reg data ft f e s') (attach_render t idx).

(* the last step of Template::render: once every element has rendered, the
   caller's template name is put back (only on success) *)
Definition restore_current (caller : rstate) : unit -> rstate -> rres unit :=
  fun _ s' => ROk tt (set_current s' (s_current caller)).
