(* Tpl/Ast.v — mirror of the public template types of src/template.rs and
   src/json/path.rs. *)
From HB Require Export Base.Json Peg.Grammar.
Open Scope N_scope.

Inductive pathseg :=
| SegNamed (s : str)
| SegRuled (r : rule).            (* path_root, path_local, path_up *)

Inductive path :=
| PathRelative (segs : list pathseg) (raw : str)
| PathLocal (level : N) (name raw : str).

Inductive blockparam :=
| BP1 (a : str)
| BP2 (a b : str).

Inductive param :=
| PName (s : str)
| PPath (p : path)
| PLit (j : json)
| PSub (e : element)
with element :=
| ElRaw (s : str)
| ElExpr (h : helper_t)
| ElHtml (h : helper_t)
| ElBlock (h : helper_t)
| ElDecoExpr (d : deco_t)
| ElDecoBlock (d : deco_t)
| ElPartExpr (d : deco_t)
| ElPartBlock (d : deco_t)
| ElComment (s : str)
with helper_t :=
| MkH (name : param) (params : list param) (hash : list (str * param))
      (bp : option blockparam) (tpl inv : option template)
      (block chain ibw : bool)
with deco_t :=
| MkD (name : param) (params : list param) (hash : list (str * param))
      (tpl : option template) (indent : option str) (ibw : bool)
with template :=
| MkT (name : option str) (els : list element) (mapping : list (N * N)).

Definition h_name (h : helper_t) := let 'MkH n _ _ _ _ _ _ _ _ := h in n.
Definition h_params (h : helper_t) := let 'MkH _ p _ _ _ _ _ _ _ := h in p.
Definition h_hash (h : helper_t) := let 'MkH _ _ x _ _ _ _ _ _ := h in x.
Definition h_bp (h : helper_t) := let 'MkH _ _ _ x _ _ _ _ _ := h in x.
Definition h_tpl (h : helper_t) := let 'MkH _ _ _ _ x _ _ _ _ := h in x.
Definition h_inv (h : helper_t) := let 'MkH _ _ _ _ _ x _ _ _ := h in x.
Definition h_block (h : helper_t) := let 'MkH _ _ _ _ _ _ x _ _ := h in x.
Definition h_chain (h : helper_t) := let 'MkH _ _ _ _ _ _ _ x _ := h in x.
Definition h_ibw (h : helper_t) := let 'MkH _ _ _ _ _ _ _ _ x := h in x.

Definition h_set_tpl (h : helper_t) (t : option template) :=
  let 'MkH n p x b _ i bl c w := h in MkH n p x b t i bl c w.
Definition h_set_inv (h : helper_t) (t : option template) :=
  let 'MkH n p x b tp _ bl c w := h in MkH n p x b tp t bl c w.
Definition h_set_chain (h : helper_t) (c : bool) :=
  let 'MkH n p x b tp i bl _ w := h in MkH n p x b tp i bl c w.

Definition d_name (d : deco_t) := let 'MkD n _ _ _ _ _ := d in n.
Definition d_params (d : deco_t) := let 'MkD _ p _ _ _ _ := d in p.
Definition d_hash (d : deco_t) := let 'MkD _ _ x _ _ _ := d in x.
Definition d_tpl (d : deco_t) := let 'MkD _ _ _ x _ _ := d in x.
Definition d_indent (d : deco_t) := let 'MkD _ _ _ _ x _ := d in x.
Definition d_ibw (d : deco_t) := let 'MkD _ _ _ _ _ x := d in x.
Definition d_set_tpl (d : deco_t) (t : option template) :=
  let 'MkD n p x _ i w := d in MkD n p x t i w.
Definition d_set_indent (d : deco_t) (i : option str) :=
  let 'MkD n p x t _ w := d in MkD n p x t i w.

Definition t_name (t : template) := let 'MkT n _ _ := t in n.
Definition t_els (t : template) := let 'MkT _ e _ := t in e.
Definition t_map (t : template) := let 'MkT _ _ m := t in m.
Definition t_empty : template := MkT None [] [].
Definition t_push (t : template) (e : element) (lc : N * N) : template :=
  let 'MkT n es m := t in MkT n (es ++ [e]) (m ++ [lc]).
Definition t_push_el (t : template) (e : element) : template :=
  let 'MkT n es m := t in MkT n (es ++ [e]) m.
Definition t_push_map (t : template) (lc : N * N) : template :=
  let 'MkT n es m := t in MkT n es (m ++ [lc]).
Definition t_set_name (t : template) (n : option str) : template :=
  let 'MkT _ es m := t in MkT n es m.

Definition path_raw (p : path) : str :=
  match p with PathRelative _ r => r | PathLocal _ _ r => r end.

(* Parameter::as_name *)
Definition as_name (p : param) : option str :=
  match p with
  | PName n => Some n
  | PPath p => Some (path_raw p)
  | _ => None
  end.

(* HelperTemplate::is_name_only *)
Definition is_name_only (h : helper_t) : bool :=
  negb (h_block h)
  && match h_params h with [] => true | _ => false end
  && match h_hash h with [] => true | _ => false end.

Definition is_ruled (r : rule) (s : pathseg) : bool :=
  match s with SegRuled r' => rule_eqb r r' | _ => false end.

(* json/path.rs get_local_path_and_level; the `?` inside the while loop makes
   running off the end yield None *)
Fixpoint local_level (rest : list pathseg) (level : N) : option (N * str) :=
  match rest with
  | [] => None
  | s :: r =>
      if is_ruled R_path_up s then local_level r (level + 1)
      else match s with SegNamed n => Some (level, n) | _ => None end
  end.

Definition get_local_path_and_level (segs : list pathseg) : option (N * str) :=
  match segs with
  | s :: r => if is_ruled R_path_local s then local_level r 0 else None
  | [] => None
  end.

(* Path::new *)
Definition path_new (raw : str) (segs : list pathseg) : path :=
  match get_local_path_and_level segs with
  | Some (lv, n) => PathLocal lv n raw
  | None => PathRelative segs raw
  end.
