(* Tpl/Compile.v — Template::compile2 (src/template.rs) as a fold over pest's
   flattened pre-order token list, with the same three stacks and two flags.
   Every unwrap()/unreachable!()/slice/assert of the Rust code is a CPanic
   outcome at the same condition. *)
From HB Require Export Tpl.Ast Tpl.LitJson.
Open Scope N_scope.

Definition tok := token rule.

Inductive terror :=
| TESyntax
| TEMismatchHelper (opened closed : option str) (line col : N)
| TEMismatchDeco (opened closed : option str) (line col : N)
| TEInvalidParam (s : str)
| TEIo.                              (* file source could not be read *)

Inductive cres (A : Type) :=
| COk (a : A)
| CErr (e : terror)
| CPanic (site : str)
| CFuel.
Arguments COk {A}. Arguments CErr {A}. Arguments CPanic {A}. Arguments CFuel {A}.

Definition cbind {A B} (x : cres A) (f : A -> cres B) : cres B :=
  match x with
  | COk a => f a
  | CErr e => CErr e
  | CPanic s => CPanic s
  | CFuel => CFuel
  end.
Notation "'do' x <- a ; b" := (cbind a (fun x => b))
  (at level 200, x name, a at level 100, b at level 200).
Notation "'do' ' p <- a ; b" := (cbind a (fun x => match x with p => b end))
  (at level 200, p pattern, a at level 100, b at level 200).

Definition is_rule (r : rule) (t : tok) : bool := rule_eqb r (tk_rule t).

(* small classifications of the rule enumeration, so that the big functions
   match on a handful of cases (keeps terms and extracted code small) *)
Inductive seg_class := SgRoot | SgLocal | SgUp | SgId | SgOther.
Definition seg_classify (r : rule) : seg_class :=
  match r with
  | R_path_root => SgRoot | R_path_local => SgLocal | R_path_up => SgUp
  | R_path_id => SgId | R_path_raw_id => SgId
  | _ => SgOther
  end.

Inductive arg_class := XHelperParam | XHash | XBlockParam | XTrailingTilde | XOther.
Definition arg_classify (r : rule) : arg_class :=
  match r with
  | R_helper_parameter => XHelperParam | R_hash => XHash | R_block_param => XBlockParam
  | R_trailing_tilde_to_omit_whitespace => XTrailingTilde
  | _ => XOther
  end.

Inductive name_class := NmPlain | NmReference | NmSubexpression | NmLiteral | NmOther.
Definition name_classify (r : rule) : name_class :=
  match r with
  | R_identifier => NmPlain | R_partial_identifier => NmPlain | R_invert_tag_item => NmPlain
  | R_reference => NmReference | R_subexpression => NmSubexpression | R_literal => NmLiteral
  | _ => NmOther
  end.

Inductive tag_class :=
| KTemplate | KRawText | KRawBlockText
| KBlockStart (deco : bool)                 (* helper/raw (false) or decorator/partial (true) block start *)
| KInvert (chain : bool)
| KValueExpr (html : bool)
| KDecoExpr (partial : bool)
| KHelperEnd                                (* helper_block_end, raw_block_end *)
| KDecoEnd (partial : bool)
| KComment (compact : bool)
| KOtherRule.
Definition tag_classify (r : rule) : tag_class :=
  match r with
  | R_template => KTemplate | R_raw_text => KRawText | R_raw_block_text => KRawBlockText
  | R_helper_block_start => KBlockStart false | R_raw_block_start => KBlockStart false
  | R_decorator_block_start => KBlockStart true | R_partial_block_start => KBlockStart true
  | R_invert_tag => KInvert false | R_invert_chain_tag => KInvert true
  | R_expression => KValueExpr false | R_html_expression => KValueExpr true
  | R_decorator_expression => KDecoExpr false | R_partial_expression => KDecoExpr true
  | R_helper_block_end => KHelperEnd | R_raw_block_end => KHelperEnd
  | R_decorator_block_end => KDecoEnd false | R_partial_block_end => KDecoEnd true
  | R_hbs_comment_compact => KComment true | R_hbs_comment => KComment false
  | _ => KOtherRule
  end.

Record espec := {
  es_name : param;
  es_params : list param;
  es_hash : list (str * param);
  es_bp : option blockparam;
  es_pre : bool;       (* omit_pre_ws *)
  es_pro : bool        (* omit_pro_ws *)
}.

Section Compile.
  Variable src : str.

  Definition span_str (t : tok) (site : str) : cres str :=
    match slice src (tk_start t) (tk_end t) with
    | Some s => COk s
    | None => CPanic site
    end.

  (* json/path.rs parse_json_path_from_iter *)
  Fixpoint parse_json_path (it : list tok) (limit : N) (acc : list pathseg)
    : cres (list pathseg * list tok) :=
    match it with
    | [] => COk (rev acc, [])
    | n :: it' =>
        if N.ltb limit (tk_end n) then COk (rev acc, it)
        else
          match seg_classify (tk_rule n) with
          | SgRoot => parse_json_path it' limit (SegRuled R_path_root :: acc)
          | SgLocal => parse_json_path it' limit (SegRuled R_path_local :: acc)
          | SgUp => parse_json_path it' limit (SegRuled R_path_up :: acc)
          | SgId =>
              match slice src (tk_start n) (tk_end n) with
              | None => CPanic (`"path span")
              | Some name =>
                  if str_eqb name (`"this") then parse_json_path it' limit acc
                  else parse_json_path it' limit (SegNamed name :: acc)
              end
          | SgOther => parse_json_path it' limit acc
          end
    end.

  (* skip the remaining children of a parameter: while peek.end <= limit *)
  Fixpoint skip_upto (it : list tok) (limit : N) : list tok :=
    match it with
    | [] => []
    | n :: it' => if N.ltb limit (tk_end n) then it else skip_upto it' limit
    end.

  Definition single_quote_rewrite (inner : str) : str :=
    [34] ++ replace [34] [92; 34] (replace [92; 39] [39] inner) ++ [34].

  Definition new_subexpression (e : espec) : param :=
    PSub (ElExpr (MkH (es_name e) (es_params e) (es_hash e) None None None false false false)).

  Definition parse_block_param (it : list tok) (limit : N) : cres (blockparam * list tok) :=
    match it with
    | [] => CPanic (`"parse_block_param next")
    | p1 :: it1 =>
        do n1 <- span_str p1 (`"bp span");
        match it1 with
        | p2 :: it2 =>
            if N.leb (tk_end p2) limit then
              do n2 <- span_str p2 (`"bp span");
              COk (BP2 n1 n2, it2)
            else COk (BP1 n1, it1)
        | [] => COk (BP1 n1, it1)
        end
    end.

  Fixpoint parse_expression (fuel : nat) (it : list tok) (limit : N) {struct fuel}
    : cres (espec * list tok) :=
    match fuel with
    | O => CFuel
    | S f =>
        match it with
        | [] => CPanic (`"parse_expression peek")
        | t0 :: it0 =>
            let '(pre, it1) := if is_rule R_leading_tilde_to_omit_whitespace t0
                               then (true, it0) else (false, it) in
            do '(name, it2) <- parse_name f it1;
            expr_loop f it2 limit name [] [] None pre false
        end
    end
  with expr_loop (fuel : nat) (it : list tok) (limit : N) (name : param)
         (params : list param) (hash : list (str * param)) (bp : option blockparam)
         (pre pro : bool) {struct fuel} : cres (espec * list tok) :=
    match fuel with
    | O => CFuel
    | S f =>
        let finish := COk ({| es_name := name; es_params := rev params; es_hash := hash;
                              es_bp := bp; es_pre := pre; es_pro := pro |}, it) in
        match it with
        | [] => finish
        | p :: it' =>
            if N.ltb (tk_end p) limit then
              let e := tk_end p in
              match arg_classify (tk_rule p) with
              | XHelperParam =>
                  do '(v, it2) <- parse_param f it';
                  expr_loop f it2 limit name (v :: params) hash bp pre pro
              | XHash =>
                  match it' with
                  | [] => CPanic (`"parse_hash next")
                  | k :: it1 =>
                      do key <- span_str k (`"hash key span");
                      do '(v, it2) <- parse_param f it1;
                      expr_loop f it2 limit name params (map_insert hash key v) bp pre pro
                  end
              | XBlockParam =>
                  do '(b, it2) <- parse_block_param it' e;
                  expr_loop f it2 limit name params hash (Some b) pre pro
              | XTrailingTilde =>
                  expr_loop f it' limit name params hash bp pre true
              | XOther => expr_loop f it' limit name params hash bp pre pro
              end
            else finish
        end
    end
  with parse_name (fuel : nat) (it : list tok) {struct fuel} : cres (param * list tok) :=
    match fuel with
    | O => CFuel
    | S f =>
        match it with
        | [] => CPanic (`"parse_name next")
        | n :: it' =>
            match name_classify (tk_rule n) with
            | NmPlain =>
                do s <- span_str n (`"name span");
                COk (PName s, it')
            | NmReference =>
                do s <- span_str n (`"name span");
                do '(segs, it2) <- parse_json_path it' (tk_end n) [];
                COk (PPath (path_new s segs), it2)
            | NmSubexpression =>
                do '(e, it2) <- parse_expression f it' (tk_end n);
                COk (new_subexpression e, it2)
            | _ => CPanic (`"parse_name unreachable")
            end
        end
    end
  with parse_param (fuel : nat) (it : list tok) {struct fuel} : cres (param * list tok) :=
    match fuel with
    | O => CFuel
    | S f =>
        match it with
        | [] => CPanic (`"parse_param next")
        | p0 :: it0 =>
            let first :=
              if is_rule R_helper_parameter p0 then
                match it0 with
                | [] => CPanic (`"parse_param next2")
                | p1 :: it1 => COk (p1, it1)
                end
              else COk (p0, it0) in
            do '(p, it1) <- first;
            do ptxt <- span_str p (`"param span");
            do '(result, it2) <-
              match name_classify (tk_rule p) with
              | NmReference =>
                  do '(segs, it2) <- parse_json_path it1 (tk_end p) [];
                  COk (PPath (path_new ptxt segs), it2)
              | NmLiteral =>
                  match it1 with
                  | [] => CPanic (`"parse_param literal next")
                  | lit :: it2 =>
                      do '(jr, it3) <-
                        (if is_rule R_string_literal lit then
                           match it2 with
                           | [] => CPanic (`"parse_param peek")
                           | q :: it3 =>
                               if is_rule R_string_inner_single_quote q then
                                 do inner <- span_str q (`"inner span");
                                 COk (json_from_str (single_quote_rewrite inner), it3)
                               else COk (json_from_str ptxt, it2)
                           end
                         else COk (json_from_str ptxt, it2));
                      match jr with
                      | Some j => COk (PLit j, it3)
                      | None => CErr (TEInvalidParam ptxt)
                      end
                  end
              | NmSubexpression =>
                  do '(e, it2) <- parse_expression f it1 (tk_end p);
                  COk (new_subexpression e, it2)
              | _ => CPanic (`"parse_param unreachable")
              end;
            COk (result, skip_upto it2 (tk_end p))
        end
    end.

  (* ---------- whitespace helpers over the template stack ---------- *)
  Definition map_last_raw (f : str -> str) (t : template) : template :=
    let 'MkT n es m := t in
    match rev es with
    | ElRaw s :: r => MkT n (rev (ElRaw (f s) :: r)) m
    | _ => t
    end.

  Definition remove_previous_whitespace (ts : list template) : cres (list template) :=
    match ts with
    | [] => CPanic (`"remove_previous_whitespace front")
    | t :: r => COk (map_last_raw trim_end t :: r)
    end.

  (* returns (standalone?, stack) *)
  Definition process_standalone_statement (ts : list template) (t : tok)
             (prevent_indent is_partial : bool) : cres (bool * list template) :=
    match suffix_from src (tk_end t) with
    | None => CPanic (`"standalone continuation slice")
    | Some continuation =>
        let with_trailing_newline :=
          starts_with_empty_line continuation
          || (negb is_partial && match trim_start_blank continuation with [] => true | _ => false end) in
        if with_trailing_newline then
          match prefix_to src (tk_start t) with
          | None => CPanic (`"standalone prefix slice")
          | Some before =>
              let with_leading_newline := ends_with_empty_line before in
              do ts' <-
                (if prevent_indent && with_leading_newline then
                   match ts with
                   | [] => CPanic (`"standalone front")
                   | t0 :: r => COk (map_last_raw trim_end_blank t0 :: r)
                   end
                 else COk ts);
              COk (N.eqb (tk_start t) 0 || with_leading_newline, ts')
          end
        else COk (false, ts)
    end.

  (* remove the first backslash of every escape, last escape first *)
  Fixpoint remove_escapes (s : str) (offset current_start : N) (escs_rev : list tok) : cres str :=
    match escs_rev with
    | [] => COk s
    | e :: r =>
        let rel := offset + tk_start e - current_start in
        match remove_at s (N.to_nat rel) with
        | Some s' => remove_escapes s' offset current_start r
        | None => CPanic (`"raw_string remove")
        end
    end.

  Definition raw_string (text : str) (pr : option (tok * list tok))
             (trim_start_ trim_start_line : bool) : cres element :=
    do s <-
      match pr with
      | None => COk text
      | Some (p, escs) =>
          let span_length := tk_end p - tk_start p in
          if N.ltb (len text) span_length then CPanic (`"raw_string len underflow")
          else remove_escapes text (len text - span_length) (tk_start p) (rev escs)
      end;
    if trim_start_ then COk (ElRaw (trim_start s))
    else if trim_start_line then COk (ElRaw (strip_first_newline (trim_start_blank s)))
    else COk (ElRaw s).

  (* ---------- else-chain bookkeeping of HelperTemplate ---------- *)
  Definition insert_inverse_node (h node : helper_t) : helper_t :=
    let node' := h_set_inv node (h_inv h) in
    h_set_inv h (Some (MkT None [ElBlock node'] [])).

  (* Some (Some head) = chain head found; Some None = no head; None = assert panic *)
  Definition ref_chain_head (h : helper_t) : option (option helper_t) :=
    if h_chain h then
      match h_inv h with
      | Some (MkT _ els _) =>
          match els with
          | [ElBlock head] => Some (Some head)
          | [_] => Some None
          | _ => None
          end
      | None => Some None
      end
    else Some None.

  Definition set_chain_head (h : helper_t) (head : helper_t) : helper_t :=
    match h_inv h with
    | Some (MkT n _ m) => h_set_inv h (Some (MkT n [ElBlock head] m))
    | None => h
    end.

  Definition set_chain_template (h : helper_t) (tmpl : option template) : cres helper_t :=
    match ref_chain_head h with
    | None => CPanic (`"ref_chain_head assert")
    | Some (Some head) => COk (set_chain_head h (h_set_tpl head tmpl))
    | Some None => COk (h_set_tpl h tmpl)
    end.

  (* the `while let Some(node) = self.inverse.take()` reversal loop;
     cur = self.inverse, prev as in the code; result is the final prev *)
  Fixpoint revert_loop (fuel : nat) (cur prev : option template) : cres (option template) :=
    match fuel with
    | O => CFuel
    | S f =>
        match cur with
        | None => COk prev
        | Some (MkT n els m) =>
            match els with
            | [ElBlock c] =>
                let next := h_inv c in
                revert_loop f next (Some (MkT n [ElBlock (h_set_inv c prev)] m))
            | [_] => COk prev      (* node dropped, self.inverse left None *)
            | _ => CPanic (`"revert_chain assert")
            end
        end
    end.

  Definition revert_chain_and_set (fuel : nat) (h : helper_t) (inverse : option template)
    : cres helper_t :=
    if h_chain h then
      match ref_chain_head h with
      | None => CPanic (`"ref_chain_head assert")
      | Some hd =>
          let '(h1, prev) :=
            match hd with
            | Some head =>
                match h_tpl head with
                | Some _ => (h, inverse)
                | None => (set_chain_head h (h_set_tpl head inverse), None)
                end
            | None => (h, None)
            end in
          do p <- revert_loop fuel (h_inv h1) prev;
          COk (h_set_inv h1 p)
      end
    else
      match h_tpl h with
      | Some _ => COk (h_set_inv h inverse)
      | None => COk (h_set_tpl h inverse)
      end.

  (* ---------- the main loop ---------- *)
  Record copts := { o_prevent_indent : bool; o_is_partial : bool; o_name : option str }.

  Record cstate := {
    c_ts : list template;       (* template_stack, front first *)
    c_hs : list helper_t;       (* helper_stack *)
    c_ds : list deco_t;         (* decorator_stack *)
    c_omit : bool;              (* omit_pro_ws *)
    c_trim : bool;              (* trim_line_required *)
    c_end : option N            (* end_pos *)
  }.

  Definition with_ts (c : cstate) ts := {| c_ts := ts; c_hs := c_hs c; c_ds := c_ds c;
    c_omit := c_omit c; c_trim := c_trim c; c_end := c_end c |}.
  Definition with_flags (c : cstate) omit trim := {| c_ts := c_ts c; c_hs := c_hs c; c_ds := c_ds c;
    c_omit := omit; c_trim := trim; c_end := c_end c |}.

  Definition push_front_el (ts : list template) (e : element) (lc : N * N) (site : str)
    : cres (list template) :=
    match ts with
    | [] => CPanic site
    | t :: r => COk (t_push t e lc :: r)
    end.

  Variable all_tokens : list tok.   (* unfiltered, for pr.into_inner() of raw text *)
  Variable opts : copts.

  Definition inner_escapes (p : tok) : list tok :=
    filter (fun t => is_rule R_escape t && N.leb (tk_start p) (tk_start t)
                     && N.leb (tk_end t) (tk_end p)) all_tokens.

  Definition mk_helper (e : espec) (block chain ibw : bool) : helper_t :=
    MkH (es_name e) (es_params e) (es_hash e) (es_bp e) None None block chain ibw.
  Definition mk_deco (e : espec) (ibw : bool) : deco_t :=
    MkD (es_name e) (es_params e) (es_hash e) None None ibw.

  Definition opt_str_eqb (a b : option str) : bool :=
    match a, b with
    | Some x, Some y => str_eqb x y
    | None, None => true
    | _, _ => false
    end.

  Definition set_stack (c : cstate) ts omit trim : cstate :=
    {| c_ts := ts; c_hs := c_hs c; c_ds := c_ds c; c_omit := omit; c_trim := trim; c_end := c_end c |}.

  (* the "trailing string" pre-step: whitespace skipped by pest in front of a tag *)
  Definition trailing_string (c : cstate) (pr : tok) (lc : N * N) : cres cstate :=
    let prev_end := match c_end c with Some p => p | None => 0 end in
    let rule := tk_rule pr in
    let is_trailing_string :=
      negb (rule_eqb rule R_template) && negb (N.eqb (tk_start pr) prev_end)
      && negb (c_omit c) && negb (rule_eqb rule R_raw_text)
      && negb (rule_eqb rule R_raw_block_text) in
    if is_trailing_string then
      match slice src prev_end (tk_start pr) with
      | None => CPanic (`"trailing string slice")
      | Some txt =>
          do el <- raw_string txt None false (c_trim c);
          if rule_eqb rule R_raw_block_end then
            COk (set_stack c (t_push t_empty el lc :: c_ts c) (c_omit c) false)
          else
            do ts' <- push_front_el (c_ts c) el lc (`"trailing string front");
            COk (set_stack c ts' (c_omit c) false)
      end
    else COk c.

  (* common prologue of every tag: parse_expression, `{{~`, omit_pro_ws *)
  Definition es_or_pre (e : espec) (b : bool) : espec :=
    {| es_name := es_name e; es_params := es_params e; es_hash := es_hash e; es_bp := es_bp e;
       es_pre := es_pre e || b; es_pro := es_pro e |}.

  Definition tag_prologue (fuel : nat) (c : cstate) (pr : tok) (it : list tok)
    : cres (espec * list template * list tok) :=
    do '(e, it1) <- parse_expression fuel it (tk_end pr);
    do ts1 <- (if es_pre e then remove_previous_whitespace (c_ts c) else COk (c_ts c));
    COk (e, ts1, it1).

  Definition step (fuel : nat) (c : cstate) (pr : tok) (it : list tok)
    : cres (cstate * list tok) :=
    let prev_end := match c_end c with Some p => p | None => 0 end in
    let lc := line_col src (tk_start pr) in
    let cls := tag_classify (tk_rule pr) in
    do c1 <- trailing_string c pr lc;
    do r <-
      match cls with
      | KTemplate => COk (with_ts c1 (t_empty :: c_ts c1), it)
      | KRawText =>
          let start := if negb (N.eqb (tk_start pr) prev_end) then prev_end else tk_start pr in
          match slice src start (tk_end pr) with
          | None => CPanic (`"raw_text slice")
          | Some txt =>
              do el <- raw_string txt (Some (pr, inner_escapes pr)) (c_omit c1) (c_trim c1);
              do ts' <- push_front_el (c_ts c1) el lc (`"raw_text front");
              COk (set_stack c1 ts' (c_omit c1) false, it)
          end
      | KBlockStart deco =>
          do '(e, ts1, it1) <- tag_prologue fuel c1 pr it;
          do '(trim, ts2) <- process_standalone_statement ts1 pr true (o_is_partial opts);
          let ibw := trim && negb (es_pre e) in
          let c2 :=
            if deco then
              {| c_ts := ts2; c_hs := c_hs c1; c_ds := mk_deco e ibw :: c_ds c1;
                 c_omit := es_pro e; c_trim := trim; c_end := c_end c1 |}
            else
              {| c_ts := ts2; c_hs := mk_helper e true false ibw :: c_hs c1; c_ds := c_ds c1;
                 c_omit := es_pro e; c_trim := trim; c_end := c_end c1 |} in
          match c_ts c2 with
          | [] => CPanic (`"block start front")
          | t :: r => COk (with_ts c2 (t_push_map t lc :: r), it1)
          end
      | KInvert chain =>
          (* `{{~else if ..}}`: the tilde precedes the `else` item that parse_name consumes *)
          let '(chain_pre, ita) :=
            if chain then
              match it with
              | t0 :: it0 => if is_rule R_leading_tilde_to_omit_whitespace t0 then (true, it0) else (false, it)
              | [] => (false, it)
              end
            else (false, it) in
          do it0 <- (if chain then do '(_, it') <- parse_name fuel ita; COk it' else COk ita);
          do '(e0, it1) <- parse_expression fuel it0 (tk_end pr);
          let e := es_or_pre e0 chain_pre in
          do ts1 <- (if es_pre e then remove_previous_whitespace (c_ts c1) else COk (c_ts c1));
          do '(trim, ts2) <- process_standalone_statement ts1 pr true (o_is_partial opts);
          let ibw := trim && negb (es_pre e) in
          match ts2 with
          | [] => CPanic (`"invert pop_front")
          | t :: ts3 =>
              match c_hs c1 with
              | [] => CPanic (`"invert helper front")
              | h :: hs =>
                  let h1 := if chain then h_set_chain h true else h in
                  do h2 <- set_chain_template h1 (Some t);
                  let h3 := if chain then insert_inverse_node h2 (mk_helper e true true ibw) else h2 in
                  COk ({| c_ts := ts3; c_hs := h3 :: hs; c_ds := c_ds c1;
                          c_omit := es_pro e; c_trim := trim; c_end := c_end c1 |}, it1)
              end
          end
      | KRawBlockText =>
          let start := if negb (N.eqb (tk_start pr) prev_end) then prev_end else tk_start pr in
          match slice src start (tk_end pr) with
          | None => CPanic (`"raw_block_text slice")
          | Some txt =>
              do el <- raw_string txt (Some (pr, inner_escapes pr)) (c_omit c1) (c_trim c1);
              COk (with_ts c1 (t_push t_empty el lc :: c_ts c1), it)
          end
      | KValueExpr html =>
          do '(e, ts1, it1) <- tag_prologue fuel c1 pr it;
          let h := mk_helper e false false false in
          let el := if html then ElHtml h else ElExpr h in
          do ts2 <- push_front_el ts1 el lc (`"expression front");
          COk (set_stack c1 ts2 (es_pro e) false, it1)
      | KDecoExpr is_partial_exp =>
          do '(e, ts1, it1) <- tag_prologue fuel c1 pr it;
          let prevent_indent := negb (is_partial_exp && o_prevent_indent opts) in
          do '(trim, ts2) <- process_standalone_statement ts1 pr prevent_indent (o_is_partial opts);
          do indent <-
            (if is_partial_exp && negb (o_prevent_indent opts) && negb (es_pre e) then
               match prefix_to src (tk_start pr) with
               | None => CPanic (`"indent prefix slice")
               | Some before => COk (find_trailing_whitespace_chars before)
               end
             else COk None);
          let d := d_set_indent (mk_deco e (trim && negb (es_pre e))) indent in
          let el := if is_partial_exp then ElPartExpr d else ElDecoExpr d in
          do ts3 <- push_front_el ts2 el lc (`"decorator expression front");
          COk (set_stack c1 ts3 (es_pro e) trim, it1)
      | KHelperEnd =>
          do '(e, ts1, it1) <- tag_prologue fuel c1 pr it;
          do '(trim, ts2) <- process_standalone_statement ts1 pr true (o_is_partial opts);
          match c_hs c1 with
          | [] => CPanic (`"helper_stack pop")
          | h :: hs =>
              if opt_str_eqb (as_name (h_name h)) (as_name (es_name e)) then
                match ts2 with
                | [] => CPanic (`"block end pop_front")
                | prev_t :: ts3 =>
                    do h' <- revert_chain_and_set fuel h (Some prev_t);
                    match ts3 with
                    | [] => CPanic (`"block end front")
                    | t :: r =>
                        COk ({| c_ts := t_push_el t (ElBlock h') :: r; c_hs := hs; c_ds := c_ds c1;
                                c_omit := es_pro e; c_trim := trim; c_end := c_end c1 |}, it1)
                    end
                end
              else CErr (TEMismatchHelper (as_name (h_name h)) (as_name (es_name e)) (fst lc) (snd lc))
          end
      | KDecoEnd is_partial_end =>
          do '(e, ts1, it1) <- tag_prologue fuel c1 pr it;
          do '(trim, ts2) <- process_standalone_statement ts1 pr true (o_is_partial opts);
          match c_ds c1 with
          | [] => CPanic (`"decorator_stack pop")
          | d :: ds =>
              if opt_str_eqb (as_name (d_name d)) (as_name (es_name e)) then
                match ts2 with
                | [] => CPanic (`"deco end pop_front")
                | prev_t :: ts3 =>
                    let d' := d_set_tpl d (Some prev_t) in
                    match ts3 with
                    | [] => CPanic (`"deco end front")
                    | t :: r =>
                        let el := if is_partial_end then ElPartBlock d' else ElDecoBlock d' in
                        COk ({| c_ts := t_push_el t el :: r; c_hs := c_hs c1; c_ds := ds;
                                c_omit := es_pro e; c_trim := trim; c_end := c_end c1 |}, it1)
                    end
                end
              else CErr (TEMismatchDeco (as_name (d_name d)) (as_name (es_name e)) (fst lc) (snd lc))
          end
      | KComment compact =>
          do '(trim, ts1) <- process_standalone_statement (c_ts c1) pr true (o_is_partial opts);
          do txt <- span_str pr (`"comment span");
          let body :=
            if compact then trim_matches_both (`"{{!") (`"}}") txt
            else trim_matches_both (`"{{!--") (`"--}}") txt in
          do ts2 <- push_front_el ts1 (ElComment body) lc (`"comment front");
          COk (set_stack c1 ts2 false trim, it)
      | KOtherRule => COk (c1, it)
      end;
    let '(c', it') := r in
    match cls with
    | KTemplate => COk (c', it')
    | _ => COk ({| c_ts := c_ts c'; c_hs := c_hs c'; c_ds := c_ds c'; c_omit := c_omit c';
                   c_trim := c_trim c'; c_end := Some (tk_end pr) |}, it')
    end.

  Fixpoint main_loop (fuel : nat) (c : cstate) (it : list tok) {struct fuel} : cres template :=
    match fuel with
    | O => CFuel
    | S f =>
        match it with
        | pr :: it' =>
            do '(c', it'') <- step f c pr it';
            main_loop f c' it''
        | [] =>
            let prev_end := match c_end c with Some p => p | None => 0 end in
            do ts <-
              (if N.ltb prev_end (len src) then
                 match slice src prev_end (len src), c_end c with
                 | Some text, Some ep =>
                     push_front_el (c_ts c) (ElRaw text) (line_col src ep) (`"tail front")
                 | _, _ => CPanic (`"tail end_pos unwrap")
                 end
               else COk (c_ts c));
            match ts with
            | [] => CPanic (`"root pop_front")
            | root :: _ => COk (t_set_name root (o_name opts))
            end
        end
    end.
End Compile.

(* ---------- Template::compile2 ---------- *)
Definition peg_fuel (src : str) : nat := 200 + 48 * length src.

Definition init_cstate : cstate :=
  {| c_ts := []; c_hs := []; c_ds := []; c_omit := false; c_trim := false; c_end := None |}.

Definition compile_tokens (src : str) (opts : copts) (ts : list tok) : cres template :=
  let it := filter (fun t => negb (is_rule R_escape t)) ts in
  main_loop src ts opts (16 + 4 * length ts) init_cstate it.

Definition compile2 (src : str) (opts : copts) : cres template :=
  match hb_parse (peg_fuel src) R_handlebars src with
  | SyntaxError => CErr TESyntax
  | ParseOutOfFuel => CFuel
  | Parsed ts => compile_tokens src opts ts
  end.

Definition default_opts : copts := {| o_prevent_indent := false; o_is_partial := false; o_name := None |}.
