(* Tpl/LitJson.v — serde_json::from_str::<Value> on the text of a template
   literal (RFC 8259 syntax as serde_json 1.0 implements it: no trailing
   characters, raw control characters rejected, surrogate pairs combined, lone
   surrogates rejected, duplicate keys: last wins, numbers per Base/Num.v). *)
From HB Require Export Base.Json.
Open Scope N_scope.

Definition is_json_ws (c : N) : bool := N.eqb c 32 || N.eqb c 9 || N.eqb c 10 || N.eqb c 13.
Definition skip_ws (s : str) : str := drop_while is_json_ws s.

Definition hex_val (c : N) : option N :=
  if N.leb 48 c && N.leb c 57 then Some (c - 48)
  else if N.leb 97 c && N.leb c 102 then Some (c - 87)
  else if N.leb 65 c && N.leb c 70 then Some (c - 55)
  else None.

Definition hex4 (s : str) : option (N * str) :=
  match s with
  | a :: b :: c :: d :: r =>
      match hex_val a, hex_val b, hex_val c, hex_val d with
      | Some a, Some b, Some c, Some d => Some (((a * 16 + b) * 16 + c) * 16 + d, r)
      | _, _, _, _ => None
      end
  | _ => None
  end.

Definition simple_escape (e : N) : option N :=
  if N.eqb e 34 then Some 34 else if N.eqb e 92 then Some 92 else if N.eqb e 47 then Some 47
  else if N.eqb e 98 then Some 8 else if N.eqb e 102 then Some 12 else if N.eqb e 110 then Some 10
  else if N.eqb e 114 then Some 13 else if N.eqb e 116 then Some 9 else None.

Definition strip2 (a b : N) (s : str) : option str :=
  match s with
  | x :: y :: r => if N.eqb x a && N.eqb y b then Some r else None
  | _ => None
  end.

(* \uXXXX escape (after the 'u'): one scalar value, surrogate pairs combined *)
Definition unicode_escape (r : str) : option (N * str) :=
  match hex4 r with
  | None => None
  | Some (n1, r1) =>
      if N.leb 56320 n1 && N.leb n1 57343 then None          (* lone trailing surrogate *)
      else if N.leb 55296 n1 && N.leb n1 56319 then
        match strip2 92 117 r1 with
        | Some r2 =>
            match hex4 r2 with
            | Some (n2, r3) =>
                if N.leb 56320 n2 && N.leb n2 57343
                then Some (65536 + (n1 - 55296) * 1024 + (n2 - 56320), r3)
                else None
            | None => None
            end
        | None => None
        end
      else Some (n1, r1)
  end.

(* body of a JSON string after the opening quote; returns content and the rest
   after the closing quote *)
Fixpoint json_string_body (fuel : nat) (s : str) (acc : str) : option (str * str) :=
  match fuel with
  | O => None
  | S f =>
      match s with
      | [] => None
      | c :: r =>
          if N.eqb c 34 then Some (rev acc, r)
          else if N.eqb c 92 then
            match r with
            | [] => None
            | e :: r' =>
                if N.eqb e 117 then
                  match unicode_escape r' with
                  | Some (u, r'') => json_string_body f r'' (u :: acc)
                  | None => None
                  end
                else
                  match simple_escape e with
                  | Some x => json_string_body f r' (x :: acc)
                  | None => None
                  end
            end
          else if N.ltb c 32 then None
          else json_string_body f r (c :: acc)
      end
  end.

Definition is_numch (c : N) : bool :=
  is_digit c || N.eqb c 45 || N.eqb c 43 || N.eqb c 46 || N.eqb c 101 || N.eqb c 69.

Fixpoint json_elems (value : str -> option (json * str)) (g : nat) (s : str) (acc : list json)
  : option (json * str) :=
  match g with
  | O => None
  | S g' =>
      match value s with
      | None => None
      | Some (v, r1) =>
          match skip_ws r1 with
          | c :: r2 =>
              if N.eqb c 44 then json_elems value g' r2 (v :: acc)
              else if N.eqb c 93 then Some (JArr (rev (v :: acc)), r2)
              else None
          | [] => None
          end
      end
  end.

Fixpoint json_members (value : str -> option (json * str)) (g : nat) (s : str)
         (acc : list (str * json)) : option (json * str) :=
  match g with
  | O => None
  | S g' =>
      match skip_ws s with
      | q :: r0 =>
          if N.eqb q 34 then
            match json_string_body (S (length r0)) r0 [] with
            | None => None
            | Some (k, r1) =>
                match skip_ws r1 with
                | c :: r2 =>
                    if N.eqb c 58 then
                      match value r2 with
                      | None => None
                      | Some (v, r3) =>
                          let acc' := map_insert acc k v in
                          match skip_ws r3 with
                          | d :: r4 =>
                              if N.eqb d 44 then json_members value g' r4 acc'
                              else if N.eqb d 125 then Some (JObj acc', r4)
                              else None
                          | [] => None
                          end
                      end
                    else None
                | [] => None
                end
            end
          else None
      | [] => None
      end
  end.

Definition first_eq (c : N) (s : str) : bool :=
  match s with x :: _ => N.eqb x c | [] => false end.

Fixpoint json_value (fuel : nat) (s : str) : option (json * str) :=
  match fuel with
  | O => None
  | S f =>
      let s0 := skip_ws s in
      if starts_with (`"null") s0 then Some (JNull, skipn 4 s0)
      else if starts_with (`"true") s0 then Some (JBool true, skipn 4 s0)
      else if starts_with (`"false") s0 then Some (JBool false, skipn 5 s0)
      else
        match s0 with
        | [] => None
        | c :: r =>
            if N.eqb c 34 then
              match json_string_body (S (length r)) r [] with
              | Some (x, r') => Some (JStr x, r')
              | None => None
              end
            else if N.eqb c 91 then
              let r0 := skip_ws r in
              if first_eq 93 r0 then Some (JArr [], tl r0)
              else json_elems (json_value f) f r []
            else if N.eqb c 123 then
              let r0 := skip_ws r in
              if first_eq 125 r0 then Some (JObj [], tl r0)
              else json_members (json_value f) f r []
            else if is_numch c then
              let txt := take_while is_numch s0 in
              match parse_json_number txt with
              | Some n => Some (JNum n, drop_while is_numch s0)
              | None => None
              end
            else None
        end
  end.

(* serde_json::from_str: one value, then only whitespace *)
Definition json_from_str (s : str) : option json :=
  match json_value (S (length s)) s with
  | Some (v, r) => match skip_ws r with [] => Some v | _ => None end
  | None => None
  end.
