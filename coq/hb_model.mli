
val negb : bool -> bool

type nat =
| O
| S of nat

val option_map : ('a1 -> 'a2) -> 'a1 option -> 'a2 option

val fst : ('a1 * 'a2) -> 'a1

val snd : ('a1 * 'a2) -> 'a2

val length : 'a1 list -> nat

val app : 'a1 list -> 'a1 list -> 'a1 list

type comparison =
| Eq
| Lt
| Gt

val compOpp : comparison -> comparison

val add : nat -> nat -> nat

val mul : nat -> nat -> nat

module Nat :
 sig
  val eqb : nat -> nat -> bool
 end

type positive =
| XI of positive
| XO of positive
| XH

type n =
| N0
| Npos of positive

type z =
| Z0
| Zpos of positive
| Zneg of positive

module Pos :
 sig
  type mask =
  | IsNul
  | IsPos of positive
  | IsNeg
 end

module Coq_Pos :
 sig
  val succ : positive -> positive

  val add : positive -> positive -> positive

  val add_carry : positive -> positive -> positive

  val pred_double : positive -> positive

  type mask = Pos.mask =
  | IsNul
  | IsPos of positive
  | IsNeg

  val succ_double_mask : mask -> mask

  val double_mask : mask -> mask

  val double_pred_mask : positive -> mask

  val sub_mask : positive -> positive -> mask

  val sub_mask_carry : positive -> positive -> mask

  val mul : positive -> positive -> positive

  val iter : ('a1 -> 'a1) -> 'a1 -> positive -> 'a1

  val pow : positive -> positive -> positive

  val size : positive -> positive

  val compare_cont : comparison -> positive -> positive -> comparison

  val compare : positive -> positive -> comparison

  val eqb : positive -> positive -> bool

  val iter_op : ('a1 -> 'a1 -> 'a1) -> positive -> 'a1 -> 'a1

  val to_nat : positive -> nat

  val of_succ_nat : nat -> positive
 end

module N :
 sig
  val succ_double : n -> n

  val double : n -> n

  val add : n -> n -> n

  val sub : n -> n -> n

  val mul : n -> n -> n

  val compare : n -> n -> comparison

  val eqb : n -> n -> bool

  val leb : n -> n -> bool

  val ltb : n -> n -> bool

  val even : n -> bool

  val pow : n -> n -> n

  val log2 : n -> n

  val pos_div_eucl : positive -> n -> n * n

  val div_eucl : n -> n -> n * n

  val div : n -> n -> n

  val modulo : n -> n -> n

  val to_nat : n -> nat

  val of_nat : nat -> n
 end

val rev : 'a1 list -> 'a1 list

val filter : ('a1 -> bool) -> 'a1 list -> 'a1 list

val firstn : nat -> 'a1 list -> 'a1 list

val skipn : nat -> 'a1 list -> 'a1 list

module Z :
 sig
  val double : z -> z

  val succ_double : z -> z

  val pred_double : z -> z

  val pos_sub : positive -> positive -> z

  val add : z -> z -> z

  val opp : z -> z

  val sub : z -> z -> z

  val compare : z -> z -> comparison

  val leb : z -> z -> bool

  val max : z -> z -> z

  val to_N : z -> n

  val of_nat : nat -> z

  val of_N : n -> z
 end

type ascii =
| Ascii of bool * bool * bool * bool * bool * bool * bool * bool

val n_of_digits : bool list -> n

val n_of_ascii : ascii -> n

type string =
| EmptyString
| String of ascii * string

type str = n list

val list_eqb : ('a1 -> 'a1 -> bool) -> 'a1 list -> 'a1 list -> bool

val str_eqb : str -> str -> bool

val starts_with : str -> str -> bool

val drop_while : (n -> bool) -> str -> str

val take_while : (n -> bool) -> str -> str

val drop_while_end : (n -> bool) -> str -> str

val len : str -> n

val last_opt : 'a1 list -> 'a1 option

val str_cmp : str -> str -> comparison

val is_blank : n -> bool

val is_newline : n -> bool

val is_ws : n -> bool

val trim_start : str -> str

val trim_end : str -> str

val trim_start_blank : str -> str

val trim_end_blank : str -> str

val strip_first_newline : str -> str

val first_is : (n -> bool) -> str -> bool

val last_is : (n -> bool) -> str -> bool

val ends_with_empty_line : str -> bool

val starts_with_empty_line : str -> bool

val find_trailing_whitespace_chars : str -> str option

val slice : str -> n -> n -> str option

val prefix_to : str -> n -> str option

val suffix_from : str -> n -> str option

val remove_at : str -> nat -> str option

val line_col_go : str -> n -> n -> n * n

val line_col : str -> n -> n * n

val is_digit : n -> bool

val digits_val : str -> n -> n option

val replace_go : nat -> str -> str -> str -> str

val replace : str -> str -> str -> str

val strip_prefix_rep : nat -> str -> str -> str

val trim_start_matches_str : str -> str -> str

val trim_end_matches_str : str -> str -> str

val trim_matches_both : str -> str -> str -> str

val of_string : string -> str

type num =
| PosInt of n
| NegInt of z
| Float of n

val two64 : n

val two63 : n

val two52 : n

val two53 : n

val round_pos_ratio : n -> n -> n option

val f64_of_ratio : bool -> n -> n -> n option

val split_digits : str -> str * str

val parse_json_number : str -> num option

type json =
| JNull
| JBool of bool
| JNum of num
| JStr of str
| JArr of json list
| JObj of (str * json) list

val map_insert : (str * 'a1) list -> str -> 'a1 -> (str * 'a1) list

type rkind =
| KNormal
| KSilent
| KAtomic
| KCompound
| KNonAtomic

type atomicity =
| ANon
| AAtomic
| ACompound

type 'rule expr =
| EStr of str
| ERange of n * n
| EAny
| EEoi
| ERef of 'rule
| ESeq of 'rule expr * 'rule expr
| EAlt of 'rule expr * 'rule expr
| EOpt of 'rule expr
| ERepTail of 'rule expr
| ERepPlain of 'rule expr
| ESkip
| ENot of 'rule expr
| EAnd of 'rule expr

val e_seq : 'a1 expr -> 'a1 expr -> 'a1 expr

val e_star : 'a1 expr -> 'a1 expr

val e_plus : 'a1 expr -> 'a1 expr

type 'rule token = ('rule * n) * n

val tk_rule : 'a1 token -> 'a1

val tk_start : 'a1 token -> n

val tk_end : 'a1 token -> n

type 'rule res =
| Ok of n * str * 'rule token list
| Fail
| OutOfFuel

val emit :
  atomicity -> bool -> 'a1 -> n -> n -> 'a1 token list -> 'a1 token list

val eval :
  ('a1 -> rkind * 'a1 expr) -> 'a1 expr -> nat -> 'a1 expr -> atomicity ->
  bool -> str -> n -> 'a1 res

type 'rule parse_res =
| Parsed of 'rule token list
| SyntaxError
| ParseOutOfFuel

val parse :
  ('a1 -> rkind * 'a1 expr) -> 'a1 expr -> nat -> 'a1 -> str -> 'a1 parse_res

type rule =
| R_WHITESPACE
| R_keywords
| R_escape
| R_raw_text
| R_raw_block_text
| R_literal
| R_null_literal
| R_boolean_literal
| R_number_literal
| R_json_char_double_quote
| R_json_char_single_quote
| R_string_inner_double_quote
| R_string_inner_single_quote
| R_string_literal
| R_array_literal
| R_object_literal
| R_symbol_char
| R_partial_symbol_char
| R_path_char
| R_identifier
| R_partial_identifier
| R_reference
| R_name
| R_helper_parameter
| R_hash
| R_block_param
| R_exp_line
| R_partial_exp_line
| R_subexpression
| R_leading_tilde_to_omit_whitespace
| R_trailing_tilde_to_omit_whitespace
| R_expression
| R_html_expression_triple_bracket_legacy
| R_html_expression_triple_bracket
| R_amp_expression
| R_html_expression
| R_decorator_expression
| R_partial_expression
| R_invert_tag_item
| R_invert_tag
| R_invert_chain_tag
| R_helper_block_start
| R_helper_block_end
| R_helper_block
| R_decorator_block_start
| R_decorator_block_end
| R_decorator_block
| R_partial_block_start
| R_partial_block_end
| R_partial_block
| R_raw_block_start
| R_raw_block_end
| R_raw_block
| R_hbs_comment
| R_hbs_comment_compact
| R_template
| R_parameter
| R_handlebars
| R_path_id
| R_path_raw_id
| R_path_sep
| R_path_up
| R_path_key
| R_path_root
| R_path_current
| R_path_item
| R_path_local
| R_path_inline
| R_path
| R_EOI

val rule_index : rule -> n

val rule_eqb : rule -> rule -> bool

val rule_name : rule -> str

val hb_defs : rule -> rkind * rule expr

val hb_ws : rule expr

val hb_parse : nat -> rule -> str -> rule parse_res

type pathseg =
| SegNamed of str
| SegRuled of rule

type path =
| PathRelative of pathseg list * str
| PathLocal of n * str * str

type blockparam =
| BP1 of str
| BP2 of str * str

type param =
| PName of str
| PPath of path
| PLit of json
| PSub of element
and element =
| ElRaw of str
| ElExpr of helper_t
| ElHtml of helper_t
| ElBlock of helper_t
| ElDecoExpr of deco_t
| ElDecoBlock of deco_t
| ElPartExpr of deco_t
| ElPartBlock of deco_t
| ElComment of str
and helper_t =
| MkH of param * param list * (str * param) list * blockparam option
   * template option * template option * bool * bool * bool
and deco_t =
| MkD of param * param list * (str * param) list * template option
   * str option * bool
and template =
| MkT of str option * element list * (n * n) list

val h_name : helper_t -> param

val h_tpl : helper_t -> template option

val h_inv : helper_t -> template option

val h_chain : helper_t -> bool

val h_set_tpl : helper_t -> template option -> helper_t

val h_set_inv : helper_t -> template option -> helper_t

val h_set_chain : helper_t -> bool -> helper_t

val d_name : deco_t -> param

val d_set_tpl : deco_t -> template option -> deco_t

val d_set_indent : deco_t -> str option -> deco_t

val t_empty : template

val t_push : template -> element -> (n * n) -> template

val t_push_el : template -> element -> template

val t_push_map : template -> (n * n) -> template

val t_set_name : template -> str option -> template

val path_raw : path -> str

val as_name : param -> str option

val is_ruled : rule -> pathseg -> bool

val local_level : pathseg list -> n -> (n * str) option

val get_local_path_and_level : pathseg list -> (n * str) option

val path_new : str -> pathseg list -> path

val is_json_ws : n -> bool

val skip_ws : str -> str

val hex_val : n -> n option

val hex4 : str -> (n * str) option

val json_string_body : nat -> str -> str -> (str * str) option

val is_numch : n -> bool

val json_value : nat -> str -> (json * str) option

val json_from_str : str -> json option

type tok = rule token

type terror =
| TESyntax
| TEMismatchHelper of str option * str option * n * n
| TEMismatchDeco of str option * str option * n * n
| TEInvalidParam of str

type 'a cres =
| COk of 'a
| CErr of terror
| CPanic of str
| CFuel

val cbind : 'a1 cres -> ('a1 -> 'a2 cres) -> 'a2 cres

val is_rule : rule -> tok -> bool

type espec = { es_name : param; es_params : param list;
               es_hash : (str * param) list; es_bp : blockparam option;
               es_pre : bool; es_pro : bool }

val span_str : str -> tok -> str -> str cres

val parse_json_path :
  str -> tok list -> n -> pathseg list -> (pathseg list * tok list) cres

val skip_upto : tok list -> n -> tok list

val single_quote_rewrite : str -> str

val new_subexpression : espec -> param

val parse_block_param : str -> tok list -> n -> (blockparam * tok list) cres

val parse_expression : str -> nat -> tok list -> n -> (espec * tok list) cres

val parse_name : str -> nat -> tok list -> (param * tok list) cres

val map_last_raw : (str -> str) -> template -> template

val remove_previous_whitespace : template list -> template list cres

val process_standalone_statement :
  str -> template list -> tok -> bool -> bool -> (bool * template list) cres

val remove_escapes : str -> n -> n -> tok list -> str cres

val raw_string :
  str -> (tok * tok list) option -> bool -> bool -> element cres

val insert_inverse_node : helper_t -> helper_t -> helper_t

val ref_chain_head : helper_t -> helper_t option option

val set_chain_head : helper_t -> helper_t -> helper_t

val set_chain_template : helper_t -> template option -> helper_t cres

val revert_loop :
  nat -> template option -> template option -> template option cres

val revert_chain_and_set : nat -> helper_t -> template option -> helper_t cres

type copts = { o_prevent_indent : bool; o_is_partial : bool;
               o_name : str option }

type cstate = { c_ts : template list; c_hs : helper_t list;
                c_ds : deco_t list; c_omit : bool; c_trim : bool;
                c_end : n option }

val with_ts : cstate -> template list -> cstate

val with_flags : cstate -> bool -> bool -> cstate

val push_front_el :
  template list -> element -> (n * n) -> str -> template list cres

val inner_escapes : tok list -> tok -> tok list

val mk_helper : espec -> bool -> bool -> bool -> helper_t

val mk_deco : espec -> bool -> deco_t

val opt_str_eqb : str option -> str option -> bool

val step :
  str -> tok list -> copts -> nat -> cstate -> tok -> tok list ->
  (cstate * tok list) cres

val main_loop :
  str -> tok list -> copts -> nat -> cstate -> tok list -> template cres

val peg_fuel : str -> nat

val init_cstate : cstate

val compile_tokens : str -> copts -> tok list -> template cres

val compile2 : str -> copts -> template cres

val default_opts : copts
