(* Reg/RegOps.v — the registry (src/registry.rs, src/sources.rs as a path ->
   content map), its eight render entry points, and the interpreter of the
   case protocol (PROTOCOL.md): one model run = one list of observations. *)
From HB Require Export Rt.Render.
Open Scope N_scope.

Definition builtin_helpers : list (str * helper_id) :=
  fold_left (fun m kv => map_insert m (fst kv) (snd kv))
    [(`"if", HIf); (`"unless", HUnless); (`"each", HEach); (`"with", HWith);
     (`"lookup", HLookup); (`"raw", HRaw); (`"log", HLog);
     (`"eq", HEq); (`"ne", HNe); (`"gt", HGt); (`"gte", HGte); (`"lt", HLt); (`"lte", HLte);
     (`"and", HAnd); (`"or", HOr); (`"not", HNot); (`"len", HLen)] [].

Definition reg_new : registry :=
  {| r_templates := []; r_sources := []; r_helpers := builtin_helpers;
     r_decorators := [(`"inline", DInline)];
     r_escape := escape_html; r_esc_mark := false;
     r_strict := false; r_dev := false; r_prevent_indent := false |}.

Definition reg_with (r : registry) tpls srcs :=
  {| r_templates := tpls; r_sources := srcs; r_helpers := r_helpers r; r_decorators := r_decorators r;
     r_escape := r_escape r; r_esc_mark := r_esc_mark r; r_strict := r_strict r; r_dev := r_dev r;
     r_prevent_indent := r_prevent_indent r |}.
Definition reg_set_helpers (r : registry) hs ds :=
  {| r_templates := r_templates r; r_sources := r_sources r; r_helpers := hs; r_decorators := ds;
     r_escape := r_escape r; r_esc_mark := r_esc_mark r; r_strict := r_strict r; r_dev := r_dev r;
     r_prevent_indent := r_prevent_indent r |}.
Definition reg_set_flags (r : registry) strict dev pi srcs :=
  {| r_templates := r_templates r; r_sources := srcs; r_helpers := r_helpers r;
     r_decorators := r_decorators r; r_escape := r_escape r; r_esc_mark := r_esc_mark r;
     r_strict := strict; r_dev := dev; r_prevent_indent := pi |}.
Definition reg_set_escape (r : registry) f mark :=
  {| r_templates := r_templates r; r_sources := r_sources r; r_helpers := r_helpers r;
     r_decorators := r_decorators r; r_escape := f; r_esc_mark := mark; r_strict := r_strict r;
     r_dev := r_dev r; r_prevent_indent := r_prevent_indent r |}.

Definition files := list (str * str).

(* ---------- mutating operations ---------- *)
Definition set_strict_mode (r : registry) (b : bool) := reg_set_flags r b (r_dev r) (r_prevent_indent r) (r_sources r).
Definition set_dev_mode (r : registry) (b : bool) :=
  reg_set_flags r (r_strict r) b (r_prevent_indent r) (if b then r_sources r else []).
Definition set_prevent_indent (r : registry) (b : bool) := reg_set_flags r (r_strict r) (r_dev r) b (r_sources r).

(* register_template drops a dev-mode source tracked under the same name (F6 fix);
   register_template_file re-adds its source afterwards *)
Definition register_template (r : registry) (name : str) (t : template) : registry :=
  reg_with r (map_insert (r_templates r) name t) (map_remove (r_sources r) name).

Definition reg_opts (r : registry) (name : option str) : copts :=
  {| o_prevent_indent := r_prevent_indent r; o_is_partial := false; o_name := name |}.

Definition register_template_string (r : registry) (name src : str) : registry * cres unit :=
  match compile2 src (reg_opts r (Some name)) with
  | COk t => (register_template r name t, COk tt)
  | CErr e => (r, CErr e)
  | CPanic p => (r, CPanic p)
  | CFuel => (r, CFuel)
  end.

Definition register_template_file (r : registry) (fs : files) (name path : str)
  : registry * cres unit :=
  match map_get fs path with
  | None => (r, CErr TEIo)
  | Some content =>
      match register_template_string r name content with
      | (r', COk _) =>
          (if r_dev r' then reg_with r' (r_templates r') (map_insert (r_sources r') name path) else r',
           COk tt)
      | x => x
      end
  end.

Definition unregister_template (r : registry) (name : str) : registry :=
  reg_with r (map_remove (r_templates r) name) (map_remove (r_sources r) name).
Definition clear_templates (r : registry) : registry := reg_with r [] [].

(* ---------- template lookup for rendering ---------- *)
Inductive load_res :=
| LoadOk (t : template)
| LoadErr (e : rreason)
| LoadPanic
| LoadFuel.

(* get_or_load_template_optional *)
Definition get_or_load_template_optional (r : registry) (fs : files) (name : str) : option load_res :=
  match (if r_dev r then map_get (r_sources r) name else None) with
  | Some path =>
      Some (match map_get fs path with
            | None => LoadErr RTemplateIo
            | Some content =>
                match compile2 content (reg_opts r (Some name)) with
                | COk t => LoadOk t
                | CErr e => LoadErr (RTemplateError e)
                | CPanic _ => LoadPanic
                | CFuel => LoadFuel
                end
            end)
  | None => option_map LoadOk (map_get (r_templates r) name)
  end.

Definition get_or_load_template (r : registry) (fs : files) (name : str) : load_res :=
  match get_or_load_template_optional r fs name with
  | Some x => x
  | None => LoadErr (RTemplateNotFound name)
  end.

(* gather_dev_mode_templates: tracked names in key order (the implementation
   iterates a HashMap; the order matters only for which of several load
   errors is reported) *)
Fixpoint gather_dev (r : registry) (fs : files) (names : list str) (skip : option str)
         (acc : list (str * template)) : load_res + list (str * template) :=
  match names with
  | [] => inr acc
  | n :: rest =>
      if match skip with Some k => str_eqb k n | None => false end
      then gather_dev r fs rest skip acc
      else match get_or_load_template r fs n with
           | LoadOk t => gather_dev r fs rest skip (map_insert acc n t)
           | e => inl e
           end
  end.

Definition render_fuel (r : registry) (t : template) : nat := 400.

Inductive render_obs :=
| RoOk (out log : str) (nwrites : N)
| RoErr (e : rerror) (accepted log : str)
| RoPanic
| RoFuel.

Definition finish_render (x : rres unit) : render_obs :=
  match x with
  | ROk _ s => RoOk (out_text (s_out s)) (log_text s) (o_writes (s_out s))
  | RErr e s => RoErr e (out_text (s_out s)) (log_text s)
  | RPanic _ => RoPanic
  | RFuel => RoFuel
  end.

Definition load_fail (l : load_res) : render_obs :=
  match l with
  | LoadErr e => RoErr (mk_err e) [] []
  | LoadPanic => RoPanic
  | LoadFuel => RoFuel
  | LoadOk _ => RoPanic
  end.

(* render_resolved_template_to_output *)
Definition render_resolved (r : registry) (fs : files) (ft : ftable) (name : option str)
           (t : template) (data : json) (fail_at : option N) : render_obs :=
  if negb (r_dev r) then
    finish_render (render_template r data ft (render_fuel r t) t (st_init (t_name t) None fail_at))
  else
    match gather_dev r fs (map fst (r_sources r)) name [] with
    | inl e => load_fail e
    | inr dm0 =>
        let dm := match name with Some n => map_insert dm0 n t | None => dm0 end in
        finish_render (render_template r data ft (render_fuel r t) t (st_init (t_name t) (Some dm) fail_at))
    end.

(* render_to_output *)
Definition render_named (r : registry) (fs : files) (ft : ftable) (name : str) (data : json)
           (fail_at : option N) : render_obs :=
  match get_or_load_template r fs name with
  | LoadOk t => render_resolved r fs ft (Some name) t data fail_at
  | e => load_fail e
  end.

Definition render_string (r : registry) (fs : files) (ft : ftable) (src : str) (data : json)
           (fail_at : option N) : render_obs :=
  match compile2 src (reg_opts r None) with
  | COk t => render_resolved r fs ft None t data fail_at
  | CErr e => RoErr (mk_err (RTemplateError e)) [] []
  | CPanic _ => RoPanic
  | CFuel => RoFuel
  end.

(* the eight entry points: 0-3 by name, 4-7 by template string; only the
   *_to_write ones hand the user's writer (and its failures) to the renderer *)
Definition entry_uses_writer (entry : N) : bool :=
  N.eqb entry 2 || N.eqb entry 3 || N.eqb entry 6 || N.eqb entry 7.

Definition render_entry (r : registry) (fs : files) (ft : ftable) (entry : N)
           (target : str) (data : json) (fail_at : option N) : render_obs :=
  let fa := if entry_uses_writer entry then fail_at else None in
  if N.ltb entry 4 then render_named r fs ft target data fa
  else render_string r fs ft target data fa.

(* ---------- the case interpreter ---------- *)
Inductive op :=
| OStrict (b : bool) | ODev (b : bool) | OPi (b : bool) | OEsc (k : N)
| OProbes | OHooks (m : N) | OMacros | OFt (t : ftable)
| OFw (path content : str) | OFd (path : str) | OClone | OSel (b : bool)
| OUnreg (name : str) | OClear
| ORegs (name src : str) | ORegp (name src : str) | ORegf (name path : str)
| ORegt (name : str) (mode : N) (src : str)
| OHas (name : str) | OKeys
| ORender (entry : N) (target : str) (data : json) (fail_at : option N)
| OCmp (src : str)
| OTok (r : rule) (src : str)
| OEscHtml (lo hi : N)
| OLeafTruthy (iz : bool) (v : json)
| OLeafRender (v : json)
| OLeafEsc (s : str)
| OLeafCmp (opname : str) (a b : json).

Inductive obs :=
| ObUnit (r : cres unit)                 (* ok / terr / PANIC *)
| ObBool (b : bool)
| ObKeys (l : list str)
| ObRender (r : render_obs)
| ObAst (r : cres template)
| ObTok (r : parse_res rule)
| ObEh (h : N)
| ObStr (s : str)
| ObLeafCmp (r : render_obs).

Record world := {
  w_a : registry;
  w_b : option registry;
  w_sel : bool;              (* true: B selected *)
  w_files : files;
  w_ft : ftable
}.
Definition world_init : world :=
  {| w_a := reg_new; w_b := None; w_sel := false; w_files := []; w_ft := [] |}.

Definition cur (w : world) : registry :=
  if w_sel w then match w_b w with Some b => b | None => w_a w end else w_a w.
Definition set_cur (w : world) (r : registry) : world :=
  if w_sel w then {| w_a := w_a w; w_b := Some r; w_sel := true; w_files := w_files w; w_ft := w_ft w |}
  else {| w_a := r; w_b := w_b w; w_sel := false; w_files := w_files w; w_ft := w_ft w |}.

Definition add_helpers (r : registry) (l : list (str * helper_id)) : registry :=
  reg_set_helpers r (fold_left (fun m kv => map_insert m (fst kv) (snd kv)) l (r_helpers r))
                  (r_decorators r).

Definition probe_helpers : list (str * helper_id) :=
  [(`"dump", HDump); (`"dump2", HDump); (`"id", HId); (`"blk", HBlk); (`"cnt", HCnt);
   (`"state", HState); (`"evalp", HEvalp); (`"fail", HFail);
   (* registry helper names need not be identifiers: a bare tag looks its raw path text up *)
   (`"ns.id", HId); (`"math/pi", HDump)].

Definition all_macros : list macro_id :=
  [M_str; M_i64; M_u64; M_f64; M_bool; M_arr; M_obj; M_null; M_json; M_vec; M_0; M_2; M_3;
   M_o0; M_o1; M_o2; M_args; M_kw; M_all; M_ret_i; M_ret_b; M_ret_j].

Definition is_scalar_value (c : N) : bool := negb (N.leb 55296 c && N.leb c 57343).

Fixpoint eschtml_loop (fuel : nat) (c : N) (h : N) : N :=
  match fuel with
  | O => h
  | S f =>
      let h' := if is_scalar_value c
                then (h * 31 + fold_left (fun a o => a + o + 1) (escape_char c) 0) mod 1000000007
                else h in
      eschtml_loop f (c + 1) h'
  end.

Definition step_op (w : world) (o : op) : world * option obs :=
  let r := cur w in
  match o with
  | OStrict b => (set_cur w (set_strict_mode r b), None)
  | ODev b => (set_cur w (set_dev_mode r b), None)
  | OPi b => (set_cur w (set_prevent_indent r b), None)
  | OEsc k =>
      (set_cur w (if N.eqb k 0 then reg_set_escape r escape_html false
                  else if N.eqb k 1 then reg_set_escape r (fun s => s) false
                  else reg_set_escape r (fun s => [1] ++ s ++ [2]) true), None)
  | OProbes =>
      let r1 := add_helpers r probe_helpers in
      (set_cur w (reg_set_helpers r1 (r_helpers r1)
                    (map_insert (map_insert (r_decorators r1) (`"sethelper") DSetHelper)
                                (`"setctx") DSetCtx)), None)
  | OHooks m =>
      let r1 := if N.odd m then add_helpers r [(HELPER_MISSING, HHelperMissing)] else r in
      let r2 := if N.odd (m / 2) then add_helpers r1 [(BLOCK_HELPER_MISSING, HBlockHelperMissing)] else r1 in
      let r3 := if N.odd (m / 4) then add_helpers r2 [(HELPER_MISSING, HMacro M_0)] else r2 in
      (set_cur w r3, None)
  | OMacros =>
      (set_cur w (add_helpers r (map (fun m => (ms_name (macro_sig m), HMacro m)) all_macros)), None)
  | OFt t => ({| w_a := w_a w; w_b := w_b w; w_sel := w_sel w; w_files := w_files w; w_ft := t |}, None)
  | OFw p c => ({| w_a := w_a w; w_b := w_b w; w_sel := w_sel w;
                   w_files := map_insert (w_files w) p c; w_ft := w_ft w |}, None)
  | OFd p => ({| w_a := w_a w; w_b := w_b w; w_sel := w_sel w;
                 w_files := map_remove (w_files w) p; w_ft := w_ft w |}, None)
  | OClone => ({| w_a := w_a w; w_b := Some r; w_sel := w_sel w; w_files := w_files w; w_ft := w_ft w |}, None)
  | OSel b => ({| w_a := w_a w; w_b := w_b w; w_sel := b; w_files := w_files w; w_ft := w_ft w |}, None)
  | OUnreg n => (set_cur w (unregister_template r n), None)
  | OClear => (set_cur w (clear_templates r), None)
  | ORegs n s | ORegp n s =>
      let '(r', res) := register_template_string r n s in (set_cur w r', Some (ObUnit res))
  | ORegf n p =>
      let '(r', res) := register_template_file r (w_files w) n p in (set_cur w r', Some (ObUnit res))
  | ORegt n mode s =>
      match compile2 s {| o_prevent_indent := false; o_is_partial := false;
                          o_name := if N.eqb mode 0 then None else Some n |} with
      | COk t => (set_cur w (register_template r n t), Some (ObUnit (COk tt)))
      | CErr e => (w, Some (ObUnit (CErr e)))
      | CPanic p => (w, Some (ObUnit (CPanic p)))
      | CFuel => (w, Some (ObUnit CFuel))
      end
  | OHas n => (w, Some (ObBool (match map_get (r_templates r) n with Some _ => true | None => false end)))
  | OKeys => (w, Some (ObKeys (map fst (r_templates r))))
  | ORender entry target data fa =>
      (w, Some (ObRender (render_entry r (w_files w) (w_ft w) entry target data fa)))
  | OCmp s => (w, Some (ObAst (compile2 s default_opts)))
  | OTok ru s => (w, Some (ObTok (hb_parse (peg_fuel s) ru s)))
  | OEscHtml lo hi => (w, Some (ObEh (eschtml_loop (N.to_nat (hi - lo)) lo 7)))
  | OLeafTruthy iz v => (w, Some (ObBool (is_truthy iz v)))
  | OLeafRender v => (w, Some (ObStr (json_render (w_ft w) v)))
  | OLeafEsc s => (w, Some (ObStr (escape_html s)))
  | OLeafCmp opname a b =>
      let r0 := reg_set_escape reg_new (fun s => s) false in
      let src := `"{{" ++ opname ++ `" a b}}" in
      let data := JObj (map_insert (map_insert [] (`"a") a) (`"b") b) in
      (w, Some (ObLeafCmp (render_string r0 [] (w_ft w) src data None)))
  end.

Fixpoint run_ops (w : world) (ops : list op) : list obs :=
  match ops with
  | [] => []
  | o :: rest =>
      let '(w', ob) := step_op w o in
      match ob with
      | Some x => x :: run_ops w' rest
      | None => run_ops w' rest
      end
  end.

Definition run_case (ops : list op) : list obs := run_ops world_init ops.
