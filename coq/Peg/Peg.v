(* Peg/Peg.v — an interpreter for pest's PEG dialect with pest's run-time
   semantics (pest 2.9 / pest_generator 2.9, DESIGN.md Appendix A).
   One Fixpoint on fuel; the implicit skip and repetition tails are expression
   constructors so that proofs are a single induction on fuel. *)
From HB Require Export Base.Str.
Open Scope N_scope.

Inductive rkind := KNormal | KSilent | KAtomic | KCompound | KNonAtomic.
Inductive atomicity := ANon | AAtomic | ACompound.

Section Peg.
  Variable rule : Type.

  Inductive expr :=
  | EStr (s : str)
  | ERange (lo hi : N)
  | EAny
  | EEoi                       (* end of input (body of the EOI rule) *)
  | ERef (r : rule)
  | ESeq (a b : expr)          (* raw sequence, no implicit skip *)
  | EAlt (a b : expr)
  | EOpt (a : expr)
  | ERepTail (a : expr)        (* (skip ~ a)* *)
  | ERepPlain (a : expr)       (* a* without skip (used by skip itself) *)
  | ESkip                      (* implicit whitespace skip *)
  | ENot (a : expr)
  | EAnd (a : expr).

  (* derived forms exactly as pest_generator emits them *)
  Definition e_seq (a b : expr) : expr := ESeq a (ESeq ESkip b).      (* a ~ b *)
  Definition e_star (a : expr) : expr := EOpt (ESeq a (ERepTail a)).  (* a* *)
  Definition e_plus (a : expr) : expr := ESeq a (ERepTail a).         (* a+ *)

  Variable defs : rule -> rkind * expr.
  Variable ws : expr.          (* the WHITESPACE rule, as an expression *)

  Definition token := (rule * N * N)%type.
  Definition tk_rule (t : token) : rule := fst (fst t).
  Definition tk_start (t : token) : N := snd (fst t).
  Definition tk_end (t : token) : N := snd t.

  Inductive res :=
  | Ok (pos : N) (rest : str) (ts : list token)
  | Fail
  | OutOfFuel.

  Definition emit (at_ : atomicity) (quiet : bool) (r : rule) (s e : N) (ts : list token) :=
    if quiet then ts else
      match at_ with AAtomic => ts | _ => (r, s, e) :: ts end.

  Fixpoint eval (fuel : nat) (e : expr) (at_ : atomicity) (quiet : bool)
           (inp : str) (pos : N) {struct fuel} : res :=
    match fuel with
    | O => OutOfFuel
    | S f =>
        match e with
        | EStr s =>
            if starts_with s inp then Ok (pos + len s) (skipn (length s) inp) [] else Fail
        | ERange lo hi =>
            match inp with
            | c :: r => if N.leb lo c && N.leb c hi then Ok (pos + 1) r [] else Fail
            | [] => Fail
            end
        | EAny => match inp with _ :: r => Ok (pos + 1) r [] | [] => Fail end
        | EEoi => match inp with [] => Ok pos [] [] | _ => Fail end
        | ERef r =>
            let '(k, body) := defs r in
            match k with
            | KSilent => eval f body at_ quiet inp pos
            | KNormal =>
                match eval f body at_ quiet inp pos with
                | Ok p' r' ts => Ok p' r' (emit at_ quiet r pos p' ts)
                | x => x
                end
            | KAtomic =>
                match eval f body AAtomic quiet inp pos with
                | Ok p' r' ts => Ok p' r' (emit at_ quiet r pos p' ts)
                | x => x
                end
            | KCompound =>
                match eval f body ACompound quiet inp pos with
                | Ok p' r' ts => Ok p' r' (emit ACompound quiet r pos p' ts)
                | x => x
                end
            | KNonAtomic =>
                match eval f body ANon quiet inp pos with
                | Ok p' r' ts => Ok p' r' (emit ANon quiet r pos p' ts)
                | x => x
                end
            end
        | ESeq a b =>
            match eval f a at_ quiet inp pos with
            | Ok p1 r1 ts1 =>
                match eval f b at_ quiet r1 p1 with
                | Ok p2 r2 ts2 => Ok p2 r2 (ts1 ++ ts2)
                | x => x
                end
            | x => x
            end
        | EAlt a b =>
            match eval f a at_ quiet inp pos with
            | Fail => eval f b at_ quiet inp pos
            | x => x
            end
        | EOpt a =>
            match eval f a at_ quiet inp pos with
            | Fail => Ok pos inp []
            | x => x
            end
        | ERepTail a =>
            match eval f (ESeq ESkip a) at_ quiet inp pos with
            | Fail => Ok pos inp []
            | Ok p1 r1 ts1 =>
                match eval f (ERepTail a) at_ quiet r1 p1 with
                | Ok p2 r2 ts2 => Ok p2 r2 (ts1 ++ ts2)
                | x => x
                end
            | OutOfFuel => OutOfFuel
            end
        | ERepPlain a =>
            match eval f a at_ quiet inp pos with
            | Fail => Ok pos inp []
            | Ok p1 r1 ts1 =>
                match eval f (ERepPlain a) at_ quiet r1 p1 with
                | Ok p2 r2 ts2 => Ok p2 r2 (ts1 ++ ts2)
                | x => x
                end
            | OutOfFuel => OutOfFuel
            end
        | ESkip =>
            match at_ with
            | ANon => eval f (ERepPlain ws) AAtomic true inp pos
            | _ => Ok pos inp []
            end
        | ENot a =>
            match eval f a at_ true inp pos with
            | Ok _ _ _ => Fail
            | Fail => Ok pos inp []
            | OutOfFuel => OutOfFuel
            end
        | EAnd a =>
            match eval f a at_ true inp pos with
            | Ok _ _ _ => Ok pos inp []
            | x => x
            end
        end
    end.

  (* parse a whole input from a start rule, as HandlebarsParser::parse(rule, src)
     followed by .flatten(): the pre-order token list, or a syntax error *)
  Inductive parse_res :=
  | Parsed (ts : list token)
  | SyntaxError
  | ParseOutOfFuel.

  Definition parse (fuel : nat) (start : rule) (inp : str) : parse_res :=
    match eval fuel (ERef start) ANon false inp 0 with
    | Ok _ _ ts => Parsed ts
    | Fail => SyntaxError
    | OutOfFuel => ParseOutOfFuel
    end.

End Peg.

Arguments EStr {rule}. Arguments ERange {rule}. Arguments EAny {rule}. Arguments EEoi {rule}.
Arguments ERef {rule}. Arguments ESeq {rule}. Arguments EAlt {rule}. Arguments EOpt {rule}.
Arguments ERepTail {rule}. Arguments ERepPlain {rule}. Arguments ESkip {rule}.
Arguments ENot {rule}. Arguments EAnd {rule}.
Arguments e_seq {rule}. Arguments e_star {rule}. Arguments e_plus {rule}.
Arguments Ok {rule}. Arguments Fail {rule}. Arguments OutOfFuel {rule}.
Arguments Parsed {rule}. Arguments SyntaxError {rule}. Arguments ParseOutOfFuel {rule}.
Arguments tk_rule {rule}. Arguments tk_start {rule}. Arguments tk_end {rule}.
