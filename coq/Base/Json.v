(* Base/Json.v — serde_json::Value as the crate is built (BTreeMap objects =
   key-sorted association lists), JsonRender, JsonTruthy, equality, merge_json,
   get_data, compare_json and the small value helpers of helper_extras. *)
From HB Require Export Base.Num.
Open Scope N_scope.

Inductive json :=
| JNull
| JBool (b : bool)
| JNum (n : num)
| JStr (s : str)
| JArr (l : list json)
| JObj (m : list (str * json)).

(* float display oracle: serde_json prints floats with ryu, which is not
   modelled; a case carries the table bits -> text for the floats it involves
   (validated by the Rust harness against Number::to_string on load). *)
Definition ftable := list (N * str).

Fixpoint ftable_get (t : ftable) (b : N) : option str :=
  match t with
  | [] => None
  | (k, v) :: r => if N.eqb k b then Some v else ftable_get r b
  end.

Definition num_render (ft : ftable) (x : num) : str :=
  match x with
  | PosInt n => n_to_dec n
  | NegInt z => z_to_dec z
  | Float b => match ftable_get ft b with Some s => s | None => `"<float?>" end
  end.

(* ---------- sorted-map operations (BTreeMap<String, _>) ---------- *)
Fixpoint map_get {A} (m : list (str * A)) (k : str) : option A :=
  match m with
  | [] => None
  | (k', v) :: r => if str_eqb k k' then Some v else map_get r k
  end.

Fixpoint map_insert {A} (m : list (str * A)) (k : str) (v : A) : list (str * A) :=
  match m with
  | [] => [(k, v)]
  | (k', v') :: r =>
      match str_cmp k k' with
      | Lt => (k, v) :: m
      | Eq => (k, v) :: r
      | Gt => (k', v') :: map_insert r k v
      end
  end.

Fixpoint map_remove {A} (m : list (str * A)) (k : str) : list (str * A) :=
  match m with
  | [] => []
  | (k', v') :: r => if str_eqb k k' then r else (k', v') :: map_remove r k
  end.

Fixpoint keys_sorted {A} (m : list (str * A)) : bool :=
  match m with
  | [] => true
  | (k, _) :: r =>
      match r with
      | [] => true
      | (k', _) :: _ => str_ltb k k' && keys_sorted r
      end
  end.

(* ---------- JsonRender ---------- *)
Section Render.
  Variable ft : ftable.

  Fixpoint json_render (v : json) : str :=
    match v with
    | JStr s => s
    | JBool true => `"true"
    | JBool false => `"false"
    | JNum n => num_render ft n
    | JNull => []
    | JArr l =>
        let fix go (l : list json) : str :=
          match l with
          | [] => []
          | [x] => json_render x
          | x :: r => json_render x ++ `", " ++ go r
          end in
        `"[" ++ go l ++ `"]"
    | JObj _ => `"[object]"
    end.
End Render.

(* ---------- JsonTruthy ---------- *)
Definition is_truthy (include_zero : bool) (v : json) : bool :=
  match v with
  | JBool b => b
  | JNum n => if include_zero then negb (as_f64_is_nan n) else as_f64_nonzero n
  | JNull => false
  | JStr s => match s with [] => false | _ => true end
  | JArr l => match l with [] => false | _ => true end
  | JObj m => match m with [] => false | _ => true end
  end.

(* ---------- serde_json equality ---------- *)
Fixpoint json_eqb (a b : json) : bool :=
  match a, b with
  | JNull, JNull => true
  | JBool x, JBool y => Bool.eqb x y
  | JNum x, JNum y => num_eqb x y
  | JStr x, JStr y => str_eqb x y
  | JArr x, JArr y =>
      (fix go (x y : list json) : bool :=
         match x, y with
         | [], [] => true
         | p :: x', q :: y' => json_eqb p q && go x' y'
         | _, _ => false
         end) x y
  | JObj x, JObj y =>
      (fix go (x y : list (str * json)) : bool :=
         match x, y with
         | [], [] => true
         | (k, p) :: x', (k', q) :: y' => str_eqb k k' && json_eqb p q && go x' y'
         | _, _ => false
         end) x y
  | _, _ => false
  end.

(* list indexing by an N that may be astronomically large (an index taken from the data: `a.[18446744073709551615]`,
   `lookup a 9007199254740993`): the bounds test comes first so that evaluation never builds a huge unary number *)
Definition nth_N {A} (l : list A) (i : N) : option A :=
  if N.ltb i (N.of_nat (length l)) then nth_error l (N.to_nat i) else None.

Lemma nth_N_spec {A} (l : list A) (i : N) : nth_N l i = nth_error l (N.to_nat i).
Proof.
  unfold nth_N. destruct (N.ltb_spec i (N.of_nat (length l))) as [H|H]; [reflexivity|].
  symmetry. apply nth_error_None. lia.
Qed.

(* ---------- context::get_data ---------- *)
Inductive nav_res :=
| NavSome (v : json)
| NavNone
| NavBadIndex (seg : str).       (* RenderErrorReason::InvalidJsonIndex *)

Definition get_data (d : option json) (p : str) : nav_res :=
  match d with
  | Some (JArr l) =>
      match parse_usize p with
      | Some i => match nth_N l i with Some v => NavSome v | None => NavNone end
      | None => NavBadIndex p
      end
  | Some (JObj m) => match map_get m p with Some v => NavSome v | None => NavNone end
  | _ => NavNone
  end.

Fixpoint walk (d : option json) (ps : list str) : nav_res :=
  match ps with
  | [] => match d with Some v => NavSome v | None => NavNone end
  | p :: r =>
      match get_data d p with
      | NavSome v => walk (Some v) r
      | NavNone => walk None r
      | NavBadIndex s => NavBadIndex s
      end
  end.

(* ---------- context::merge_json ---------- *)
Fixpoint enum_from {A} (i : N) (l : list A) : list (N * A) :=
  match l with [] => [] | x :: r => (i, x) :: enum_from (i + 1) r end.

Definition merge_json (base : json) (addition : list (str * json)) : json :=
  match addition with
  | [] => base
  | _ =>
      let base_map : list (str * json) :=
        match base with
        | JObj m => m
        | JArr a => fold_left (fun m '(i, v) => map_insert m (n_to_dec i) v) (enum_from 0 a) []
        | JStr s => fold_left (fun m '(i, c) => map_insert m (n_to_dec i) (JStr [c])) (enum_from 0 s) []
        | _ => []
        end in
      JObj (fold_left (fun m '(k, v) => map_insert m k v) addition base_map)
  end.

(* ---------- helper_extras ---------- *)
Definition compare_json (x y : json) : option comparison :=
  match x, y with
  | JNum a, JNum b => cmp_nums a b
  | JStr a, JStr b => Some (str_cmp a b)
  | JBool a, JBool b =>
      Some (match a, b with false, true => Lt | true, false => Gt | _, _ => Eq end)
  | JNum a, JStr b =>
      match parse_json_number b with Some bn => cmp_nums a bn | None => None end
  | JStr a, JNum b =>
      match parse_json_number a with
      | Some an => option_map CompOpp (cmp_nums b an)
      | None => None
      end
  | _, _ => None
  end.

Definition h_gt x y := match compare_json x y with Some Gt => true | _ => false end.
Definition h_lt x y := match compare_json x y with Some Lt => true | _ => false end.
Definition h_gte x y := match compare_json x y with Some Lt => false | Some _ => true | None => false end.
Definition h_lte x y := match compare_json x y with Some Gt => false | Some _ => true | None => false end.
Definition h_eq x y := json_eqb x y.
Definition h_ne x y := negb (json_eqb x y).
Definition h_not x := negb (is_truthy false x).
Definition h_and (l : list json) := forallb (is_truthy false) l.
Definition h_or (l : list json) := existsb (is_truthy false) l.
Definition h_len (x : json) : N :=
  match x with
  | JArr a => N.of_nat (length a)
  | JObj m => N.of_nat (length m)
  | JStr s => utf8_len s
  | _ => 0
  end.

(* well-formed JSON values: numbers in range, object keys strictly sorted *)
Fixpoint wf_json (v : json) : bool :=
  match v with
  | JNum n => num_wf n
  | JArr l => forallb wf_json l
  | JObj m => keys_sorted m && forallb (fun kv => wf_json (snd kv)) m
  | _ => true
  end.
