(* Base/Num.v — serde_json::Number as the crate sees it: three representations,
   exact values as dyadic rationals, the accessors used by the crate, exact
   comparison (what num-order's NumOrd provides), and JSON number text parsing
   (serde_json's grammar; decimal -> binary64 by correct rounding in Z). *)
From HB Require Export Base.Str.
Open Scope N_scope.

Inductive num :=
| PosInt (n : N)          (* 0 <= n < 2^64 *)
| NegInt (z : Z)          (* -2^63 <= z < 0 *)
| Float (bits : N).       (* IEEE-754 binary64 pattern, finite *)

Definition two64 : N := 18446744073709551616.
Definition two63 : N := 9223372036854775808.
Definition two52 : N := 4503599627370496.
Definition two53 : N := 9007199254740992.
Definition i64_max : N := 9223372036854775807.

Definition f_sign (b : N) : bool := N.leb two63 b.
Definition f_exp (b : N) : N := (b / two52) mod 2048.
Definition f_man (b : N) : N := b mod two52.

Definition num_wf (x : num) : bool :=
  match x with
  | PosInt n => N.ltb n two64
  | NegInt z => Z.ltb z 0 && Z.leb (- Z.of_N two63) z
  | Float b => N.ltb b two64 && negb (N.eqb (f_exp b) 2047)
  end.

(* exact value as mant * 2^exp *)
Definition f_dyadic (b : N) : Z * Z :=
  let m := f_man b in
  let e := f_exp b in
  let mag := if N.eqb e 0 then (Z.of_N m, (-1074)%Z)
             else (Z.of_N (two52 + m), (Z.of_N e - 1075)%Z) in
  if f_sign b then (- fst mag, snd mag)%Z else mag.

Definition dyadic (x : num) : Z * Z :=
  match x with
  | PosInt n => (Z.of_N n, 0%Z)
  | NegInt z => (z, 0%Z)
  | Float b => f_dyadic b
  end.

Definition dy_cmp (a b : Z * Z) : comparison :=
  let '(m1, e1) := a in
  let '(m2, e2) := b in
  let e := Z.min e1 e2 in
  Z.compare (m1 * 2 ^ (e1 - e)) (m2 * 2 ^ (e2 - e)).

(* ---- serde_json::Number accessors ---- *)
Definition is_u64 (x : num) : bool := match x with PosInt _ => true | _ => false end.
Definition is_i64 (x : num) : bool :=
  match x with PosInt n => N.leb n i64_max | NegInt _ => true | Float _ => false end.
Definition is_f64 (x : num) : bool := match x with Float _ => true | _ => false end.
Definition as_u64 (x : num) : option N := match x with PosInt n => Some n | _ => None end.
Definition as_i64 (x : num) : option Z :=
  match x with
  | PosInt n => if N.leb n i64_max then Some (Z.of_N n) else None
  | NegInt z => Some z
  | Float _ => None
  end.

(* f64 classification of as_f64(): for integers the conversion is to the nearest
   double, which is zero iff the integer is zero and is never subnormal/NaN. *)
Definition f_is_zero (b : N) : bool := N.eqb (f_exp b) 0 && N.eqb (f_man b) 0.
Definition f_is_normal (b : N) : bool := negb (N.eqb (f_exp b) 0) && negb (N.eqb (f_exp b) 2047).
Definition f_is_nan (b : N) : bool := N.eqb (f_exp b) 2047 && negb (N.eqb (f_man b) 0).

Definition as_f64_is_normal (x : num) : bool :=
  match x with
  | PosInt n => negb (N.eqb n 0)
  | NegInt z => negb (Z.eqb z 0)
  | Float b => f_is_normal b
  end.
(* as_f64() != 0.0 && !as_f64().is_nan()  (JsonTruthy after the F5 fix) *)
Definition as_f64_nonzero (x : num) : bool :=
  match x with
  | PosInt n => negb (N.eqb n 0)
  | NegInt z => negb (Z.eqb z 0)
  | Float b => negb (f_is_zero b) && negb (f_is_nan b)
  end.
Definition as_f64_is_nan (x : num) : bool :=
  match x with Float b => f_is_nan b | _ => false end.

(* ---- the model of helper_extras::cmp_nums: nine arms, each an exact
   comparison of the two machine values (num-order's contract) ---- *)
Definition cmp_u64_f64 (a : N) (b : N) := dy_cmp (Z.of_N a, 0%Z) (f_dyadic b).
Definition cmp_i64_f64 (a : Z) (b : N) := dy_cmp (a, 0%Z) (f_dyadic b).

Definition cmp_nums (a b : num) : option comparison :=
  if is_u64 a then
    match as_u64 a with
    | None => None
    | Some x =>
        if is_u64 b then option_map (fun y => N.compare x y) (as_u64 b)
        else if is_i64 b then option_map (fun y => Z.compare (Z.of_N x) y) (as_i64 b)
        else match b with Float fb => Some (cmp_u64_f64 x fb) | _ => None end
    end
  else if is_i64 a then
    match as_i64 a with
    | None => None
    | Some x =>
        if is_u64 b then option_map (fun y => Z.compare x (Z.of_N y)) (as_u64 b)
        else if is_i64 b then option_map (fun y => Z.compare x y) (as_i64 b)
        else match b with Float fb => Some (cmp_i64_f64 x fb) | _ => None end
    end
  else
    match a with
    | Float fa =>
        if is_u64 b then option_map (fun y => CompOpp (cmp_u64_f64 y fa)) (as_u64 b)
        else if is_i64 b then option_map (fun y => CompOpp (cmp_i64_f64 y fa)) (as_i64 b)
        else match b with Float fb => Some (dy_cmp (f_dyadic fa) (f_dyadic fb)) | _ => None end
    | _ => None
    end.

(* serde_json's derived PartialEq on Number: same representation and equal
   payload; floats by f64 == (so -0.0 == 0.0). *)
Definition num_eqb (a b : num) : bool :=
  match a, b with
  | PosInt x, PosInt y => N.eqb x y
  | NegInt x, NegInt y => Z.eqb x y
  | Float x, Float y =>
      match dy_cmp (f_dyadic x) (f_dyadic y) with Eq => true | _ => false end
  | _, _ => false
  end.

(* ---- rounding a positive rational n/d to binary64 (nearest, ties to even) ---- *)
(* returns the bit pattern of the magnitude, None on overflow to infinity *)
Definition round_pos_ratio (n d : N) : option N :=
  if N.eqb n 0 then Some 0 else
  (* choose binary exponent e with 2^52 <= n/d * 2^-e < 2^53, clamped to >= -1074 *)
  let l := (Z.of_N (N.log2 n) - Z.of_N (N.log2 d))%Z in   (* floor(log2(n/d)) in {l-1, l} *)
  let try (e : Z) : N * N * N :=  (* q, r, den : n/d * 2^-e = q + r/den *)
    let '(nn, dd) := if Z.leb 0 e then (n, d * 2 ^ (Z.to_N e)) else (n * 2 ^ (Z.to_N (- e)), d) in
    (nn / dd, nn mod dd, dd) in
  let e0 := (l - 52)%Z in
  let '(q0, _, _) := try e0 in
  let e1 := if N.ltb q0 two52 then (e0 - 1)%Z else if N.leb two53 q0 then (e0 + 1)%Z else e0 in
  let e := Z.max e1 (-1074)%Z in
  let '(q, r, den) := try e in
  (* round half to even *)
  let q' := match N.compare (2 * r) den with
            | Lt => q
            | Gt => q + 1
            | Eq => if N.even q then q else q + 1
            end in
  (* renormalise if rounding carried to 2^53 *)
  let '(q'', e'') := if N.eqb q' two53 then (two52, (e + 1)%Z) else (q', e) in
  if N.ltb q'' two52 then Some q''  (* subnormal or zero: exponent field 0 (e = -1074) *)
  else
    let ef := (e'' + 1075)%Z in
    if Z.leb 2047 ef then None
    else Some (Z.to_N ef * two52 + (q'' - two52)).

Definition f64_of_ratio (neg : bool) (n d : N) : option N :=
  match round_pos_ratio n d with
  | Some b => Some (if neg then b + two63 else b)
  | None => None
  end.

(* ---- JSON number text -> Number (serde_json de.rs: parse_integer /
   parse_number / parse_decimal / parse_exponent; value by correct rounding) ---- *)
Definition split_digits (s : str) : str * str := (take_while is_digit s, drop_while is_digit s).

Definition strip_char (c : N) (s : str) : bool * str :=
  match s with
  | x :: r => if N.eqb x c then (true, r) else (false, s)
  | [] => (false, s)
  end.

Definition leading_zero (ip : str) : bool :=
  match ip with
  | x :: _ :: _ => N.eqb x 48
  | _ => false
  end.

Definition parse_exp_part (s3 : str) : option (option Z * str) :=
  match s3 with
  | c :: r =>
      if N.eqb c 101 || N.eqb c 69 then
        let '(eneg, r0) := strip_char 45 r in
        let '(_, r1) := if eneg then (false, r0) else strip_char 43 r0 in
        let '(ed, r2) := split_digits r1 in
        match ed with
        | [] => None
        | _ => match digits_val ed 0 with
               | Some ev => Some (Some (if eneg then (- Z.of_N ev)%Z else Z.of_N ev), r2)
               | None => None
               end
        end
      else Some (None, s3)
  | [] => Some (None, [])
  end.

Definition parse_json_number (s : str) : option num :=
  let '(neg, s1) := strip_char 45 s in
  let '(ip, s2) := split_digits s1 in
  match ip with
  | [] => None
  | _ =>
    if leading_zero ip then None else
      let '(has_frac, r) := strip_char 46 s2 in
      let '(fp, s3) := if has_frac then split_digits r else ([], s2) in
      if has_frac && Nat.eqb (length fp) 0 then None else
      match parse_exp_part s3 with
      | None => None
      | Some (eo, rest) =>
          match rest with
          | _ :: _ => None
          | [] =>
              match digits_val (ip ++ fp) 0 with
              | None => None
              | Some sig =>
                  let is_int := negb has_frac && match eo with None => true | Some _ => false end in
                  if is_int && N.ltb sig two64 && (negb neg) then Some (PosInt sig)
                  else if is_int && neg && N.leb sig two63 && negb (N.eqb sig 0)
                       then Some (NegInt (- Z.of_N sig))
                  else
                    let e10 := ((match eo with Some e => e | None => 0 end) - Z.of_nat (length fp))%Z in
                    let '(n, d) := if Z.leb 0 e10 then (sig * 10 ^ Z.to_N e10, 1)
                                   else (sig, 10 ^ Z.to_N (- e10)) in
                    option_map Float (f64_of_ratio neg n d)
              end
          end
      end
  end.
