(* Base/Str.v — strings as lists of Unicode scalar values, and the string
   utilities of handlebars-rust (support::str, Rust std trimming, pest's
   line/column rule, usize parsing, decimal printing).  Model file: executable
   definitions only, proofs live in Proofs/. *)
From Coq Require Export Strings.String Strings.Ascii.
From Coq Require Export List NArith ZArith Bool Lia.
Export ListNotations.
Open Scope N_scope.
Open Scope list_scope.

Definition str := list N.

(* ---------- generic list helpers ---------- *)

Fixpoint list_eqb {A} (eqb : A -> A -> bool) (a b : list A) : bool :=
  match a, b with
  | [], [] => true
  | x :: a', y :: b' => eqb x y && list_eqb eqb a' b'
  | _, _ => false
  end.

Definition str_eqb (a b : str) : bool := list_eqb N.eqb a b.

Fixpoint starts_with (p s : str) : bool :=
  match p, s with
  | [], _ => true
  | x :: p', y :: s' => N.eqb x y && starts_with p' s'
  | _ :: _, [] => false
  end.

Fixpoint drop_while (f : N -> bool) (s : str) : str :=
  match s with
  | [] => []
  | c :: s' => if f c then drop_while f s' else s
  end.

Fixpoint take_while (f : N -> bool) (s : str) : str :=
  match s with
  | [] => []
  | c :: s' => if f c then c :: take_while f s' else []
  end.

(* trim at the end: drop the longest suffix whose characters satisfy f *)
Fixpoint drop_while_end (f : N -> bool) (s : str) : str :=
  match s with
  | [] => []
  | c :: s' =>
      match drop_while_end f s' with
      | [] => if f c then [] else [c]
      | r => c :: r
      end
  end.

Definition len (s : str) : N := N.of_nat (length s).

Fixpoint last_opt {A} (l : list A) : option A :=
  match l with
  | [] => None
  | [x] => Some x
  | _ :: l' => last_opt l'
  end.

(* lexicographic comparison by code point = Rust String::cmp (UTF-8 byte order) *)
Fixpoint str_cmp (a b : str) : comparison :=
  match a, b with
  | [], [] => Eq
  | [], _ :: _ => Lt
  | _ :: _, [] => Gt
  | x :: a', y :: b' =>
      match N.compare x y with
      | Eq => str_cmp a' b'
      | c => c
      end
  end.

Definition str_ltb (a b : str) : bool :=
  match str_cmp a b with Lt => true | _ => false end.

(* ---------- character classes ---------- *)

Definition ch_space := 32. Definition ch_tab := 9. Definition ch_lf := 10. Definition ch_cr := 13.

(* support::str::whitespace_matcher *)
Definition is_blank (c : N) : bool := N.eqb c 32 || N.eqb c 9.
(* support::str::newline_matcher *)
Definition is_newline (c : N) : bool := N.eqb c 10 || N.eqb c 13.

(* Rust char::is_whitespace (Unicode White_Space) *)
Definition is_ws (c : N) : bool :=
  (N.leb 9 c && N.leb c 13) || N.eqb c 32 || N.eqb c 133 (* U+0085 *) || N.eqb c 160 (* U+00A0 *)
  || N.eqb c 5760 (* U+1680 *) || (N.leb 8192 c && N.leb c 8202) (* U+2000..U+200A *)
  || N.eqb c 8232 || N.eqb c 8233 (* U+2028 U+2029 *) || N.eqb c 8239 (* U+202F *)
  || N.eqb c 8287 (* U+205F *) || N.eqb c 12288 (* U+3000 *).

(* pest WHITESPACE of grammar.pest is checked against the grammar by L1; this
   predicate is Rust's, used by trim()/trim_start()/trim_end(). *)

Definition trim_start (s : str) : str := drop_while is_ws s.
Definition trim_end (s : str) : str := drop_while_end is_ws s.
Definition trim_start_blank (s : str) : str := drop_while is_blank s.
Definition trim_end_blank (s : str) : str := drop_while_end is_blank s.

(* support::str::strip_first_newline *)
Definition strip_first_newline (s : str) : str :=
  match s with
  | 13 :: 10 :: r => r
  | 10 :: r => r
  | _ => s
  end.

Definition first_is (f : N -> bool) (s : str) : bool :=
  match s with c :: _ => f c | [] => false end.
Definition last_is (f : N -> bool) (s : str) : bool :=
  match last_opt s with Some c => f c | None => false end.

(* support::str::ends_with_empty_line *)
Definition ends_with_empty_line (s : str) : bool :=
  let t := trim_end_blank s in
  last_is is_newline t || match t with [] => true | _ => false end.

(* support::str::starts_with_empty_line *)
Definition starts_with_empty_line (s : str) : bool :=
  first_is is_newline (trim_start_blank s).

(* support::str::find_trailing_whitespace_chars *)
Definition find_trailing_whitespace_chars (s : str) : option str :=
  let t := trim_end_blank s in
  if Nat.eqb (length t) (length s) then None else Some (skipn (length t) s).

(* ---------- UTF-8 length ---------- *)
Definition utf8_width (c : N) : N :=
  if N.ltb c 128 then 1 else if N.ltb c 2048 then 2 else if N.ltb c 65536 then 3 else 4.
Definition utf8_len (s : str) : N := fold_left (fun a c => a + utf8_width c) s 0.

(* ---------- slicing by code-point offsets; None = Rust slice panic ---------- *)
Definition slice (s : str) (a b : N) : option str :=
  if N.leb a b && N.leb b (len s)
  then Some (firstn (N.to_nat (b - a)) (skipn (N.to_nat a) s))
  else None.

Definition prefix_to (s : str) (b : N) : option str := slice s 0 b.
Definition suffix_from (s : str) (a : N) : option str := slice s a (len s).

(* remove the character at index i (String::remove); None = panic *)
Fixpoint remove_at (s : str) (i : nat) : option str :=
  match s, i with
  | [], _ => None
  | _ :: r, O => Some r
  | c :: r, S i' => match remove_at r i' with Some r' => Some (c :: r') | None => None end
  end.

(* ---------- pest Position::line_col on the prefix of length pos ---------- *)
Fixpoint line_col_go (s : str) (line col : N) : N * N :=
  match s with
  | [] => (line, col)
  | 13 :: r =>
      match r with
      | 10 :: r' => line_col_go r' (line + 1) 1
      | _ => line_col_go r line (col + 1)
      end
  | 10 :: r => line_col_go r (line + 1) 1
  | _ :: r => line_col_go r line (col + 1)
  end.

Definition line_col (src : str) (pos : N) : N * N :=
  line_col_go (firstn (N.to_nat pos) src) 1 1.

(* ---------- decimal printing and parsing ---------- *)
Definition digit_char (d : N) : N := 48 + d.

Fixpoint n_to_dec_go (fuel : nat) (n : N) (acc : str) : str :=
  match fuel with
  | O => acc
  | S f =>
      let acc' := digit_char (n mod 10) :: acc in
      if N.ltb n 10 then acc' else n_to_dec_go f (n / 10) acc'
  end.

Definition n_to_dec (n : N) : str := n_to_dec_go (S (N.to_nat (N.log2 n))) n [].

Definition z_to_dec (z : Z) : str :=
  match z with
  | Zneg p => 45 :: n_to_dec (Npos p)
  | _ => n_to_dec (Z.to_N z)
  end.

Definition is_digit (c : N) : bool := N.leb 48 c && N.leb c 57.

Fixpoint digits_val (s : str) (acc : N) : option N :=
  match s with
  | [] => Some acc
  | c :: r => if is_digit c then digits_val r (acc * 10 + (c - 48)) else None
  end.

Definition u64_max : N := 18446744073709551615.

(* Rust <usize as FromStr>::from_str on a 64-bit target: optional '+', at least
   one digit, no overflow. *)
Definition parse_usize (s : str) : option N :=
  let body := match s with 43 :: r => r | _ => s end in
  match body with
  | [] => None
  | _ => match digits_val body 0 with
         | Some n => if N.leb n u64_max then Some n else None
         | None => None
         end
  end.

(* replace all occurrences of pattern p (non-empty) by r, left to right *)
Fixpoint replace_go (fuel : nat) (p r s : str) : str :=
  match fuel with
  | O => s
  | S f =>
      match s with
      | [] => []
      | c :: s' =>
          if starts_with p s then r ++ replace_go f p r (skipn (length p) s)
          else c :: replace_go f p r s'
      end
  end.
Definition replace (p r s : str) : str :=
  match p with [] => s | _ => replace_go (S (length s)) p r s end.

(* str::trim_start_matches(pat) / trim_end_matches(pat) for a string pattern:
   remove every repeated occurrence at the start / end *)
Fixpoint strip_prefix_rep (fuel : nat) (p s : str) : str :=
  match fuel with
  | O => s
  | S f => if starts_with p s then strip_prefix_rep f p (skipn (length p) s) else s
  end.
Definition trim_start_matches_str (p s : str) : str :=
  match p with [] => s | _ => strip_prefix_rep (S (length s)) p s end.
Definition trim_end_matches_str (p s : str) : str :=
  rev (trim_start_matches_str (rev p) (rev s)).
Definition trim_matches_both (p q s : str) : str :=
  trim_end_matches_str q (trim_start_matches_str p s).

(* s.find('\n') : index of first LF *)
Fixpoint find_lf (s : str) : option nat :=
  match s with
  | [] => None
  | c :: r => if N.eqb c 10 then Some O else option_map S (find_lf r)
  end.

Definition str_concat (l : list str) : str := concat l.

(* ASCII literal helper: strings in model files are written with this *)
Fixpoint of_string (s : string) : str :=
  match s with
  | EmptyString => []
  | String a r => N_of_ascii a :: of_string r
  end.
Notation "` s" := (of_string s%string) (at level 0, s at level 0, only parsing).
