(* Proofs/MacroProofs.v — property C20: helpers defined with handlebars_helper!
   enforce their declared signature.  All theorems are about Rt/Macro.v
   (`macro_call`, for an arbitrary signature and body) and about the way
   Rt/Render.v (`call_inner`, `call_helper_for_value`, `call_helper`) uses it. *)
From Coq Require Import Lia ZArith NArith List Bool.
From HB Require Import Rt.Render Reg.RegOps Spec.MacroSpec.
Import ListNotations.
Open Scope nat_scope.

Arguments N.add : simpl never. Arguments N.sub : simpl never. Arguments N.mul : simpl never.
Arguments N.div : simpl never. Arguments N.modulo : simpl never.
Arguments N.eqb : simpl never. Arguments N.ltb : simpl never. Arguments N.leb : simpl never.

(* ------------------------------------------------------------------ *)
(* 1. classification of a positional argument                          *)
(* ------------------------------------------------------------------ *)

Lemma arg_trichotomy strict given i t :
  arg_ok strict given i t \/ arg_absent strict given i \/ arg_illtyped strict given i t.
Proof.
  unfold arg_ok, arg_delivers, arg_absent, arg_illtyped.
  destruct (nth_error given i) as [x|] eqn:Hn.
  - destruct strict.
    + destruct (sc_missing (pj_val x)) eqn:Hm.
      * right; left; right. exists x. auto.
      * destruct (conv t (pj_value x)) as [v|] eqn:Hc.
        -- left. exists v, x. auto.
        -- right; right. exists x. auto.
    + destruct (conv t (pj_value x)) as [v|] eqn:Hc.
      * left. exists v, x. repeat split; auto; discriminate.
      * right; right. exists x. repeat split; auto; discriminate.
  - right; left; left; reflexivity.
Qed.

Lemma arg_ok_not_absent strict given i t :
  arg_ok strict given i t -> ~ arg_absent strict given i.
Proof.
  intros (v & x & Hn & Hs & Hc) [Hnone | (y & Hy & Hst & Hm)].
  - congruence.
  - rewrite Hn in Hy; injection Hy as <-. rewrite (Hs Hst) in Hm. discriminate.
Qed.

Lemma arg_ok_not_illtyped strict given i t :
  arg_ok strict given i t -> ~ arg_illtyped strict given i t.
Proof.
  intros (v & x & Hn & Hs & Hc) (y & Hy & _ & Hcy).
  rewrite Hn in Hy; injection Hy as <-. congruence.
Qed.

Lemma arg_absent_not_illtyped strict given i t :
  arg_absent strict given i -> ~ arg_illtyped strict given i t.
Proof.
  intros [Hnone | (x & Hn & Hst & Hm)] (y & Hy & Hs & _).
  - congruence.
  - rewrite Hn in Hy; injection Hy as <-. rewrite (Hs Hst) in Hm. discriminate.
Qed.

Lemma opt_dichotomy hash o t : opt_ok hash o t \/ opt_illtyped hash o t.
Proof.
  unfold opt_ok, opt_illtyped. destruct (map_get hash o) as [x|].
  - destruct (conv t (pj_value x)) eqn:Hc.
    + left. intros y Hy. injection Hy as <-. congruence.
    + right. exists x. auto.
  - left. discriminate.
Qed.

Lemma opt_ok_not_illtyped hash o t : opt_ok hash o t -> ~ opt_illtyped hash o t.
Proof. intros Hok (x & Hx & Hc). exact (Hok x Hx Hc). Qed.

(* ------------------------------------------------------------------ *)
(* 2. macro_params / macro_opts: exact behaviour                       *)
(* ------------------------------------------------------------------ *)

Lemma macro_params_spec : forall decl name strict idx given acc,
  match macro_params name strict decl idx given acc with
  | inr ps =>
      exists vs, ps = rev acc ++ vs /\ length vs = length decl /\
        forall i pn t, nth_error decl i = Some (pn, t) ->
          exists v, nth_error vs i = Some v /\ arg_delivers strict given (idx + i) t v
  | inl e =>
      exists i pn t, nth_error decl i = Some (pn, t) /\
        (forall j pn' tj, j < i -> nth_error decl j = Some (pn', tj) ->
           arg_ok strict given (idx + j) tj) /\
        ((arg_absent strict given (idx + i) /\ e = RParamNotFoundForName name pn) \/
         (arg_illtyped strict given (idx + i) t /\
          e = RParamTypeMismatchForName name pn (mtype_name t)))
  end.
Proof.
  induction decl as [|[pn t] rest IH]; intros name strict idx given acc; cbn [macro_params].
  - exists []. rewrite app_nil_r. repeat split; auto.
    intros i pn t Hn. destruct i; discriminate.
  - destruct (nth_error given idx) as [x|] eqn:Hx.
    + destruct (strict && sc_missing (pj_val x))%bool eqn:Hsm.
      * apply andb_prop in Hsm as [Hst Hm].
        exists 0, pn, t. split; [reflexivity|]. split; [intros j ? ? Hj; lia|].
        left. split; [|reflexivity]. right. exists x. rewrite Nat.add_0_r. auto.
      * assert (Hs : strict = true -> sc_missing (pj_val x) = false).
        { intros ->. exact Hsm. }
        destruct (conv t (pj_value x)) as [v|] eqn:Hc.
        -- specialize (IH name strict (S idx) given (v :: acc)).
           destruct (macro_params name strict rest (S idx) given (v :: acc)) as [e|ps].
           ++ destruct IH as (i & pn' & t' & Hn & Hbefore & Hcase).
              exists (S i), pn', t'. split; [exact Hn|]. split.
              ** intros j pn'' tj Hj Hnj. destruct j as [|j].
                 --- injection Hnj as <- <-. exists v, x. rewrite Nat.add_0_r. auto.
                 --- rewrite Nat.add_succ_r. apply (Hbefore j pn'' tj); [lia|exact Hnj].
              ** rewrite Nat.add_succ_r. exact Hcase.
           ++ destruct IH as (vs & Hps & Hlen & Hall).
              exists (v :: vs). split; [|split].
              ** rewrite Hps. cbn [rev]. rewrite <- app_assoc. reflexivity.
              ** cbn [length]. rewrite Hlen. reflexivity.
              ** intros i pn' t' Hn. destruct i as [|i].
                 --- injection Hn as <- <-. exists v. split; [reflexivity|].
                     exists x. rewrite Nat.add_0_r. auto.
                 --- rewrite Nat.add_succ_r. apply (Hall i pn' t'). exact Hn.
        -- exists 0, pn, t. split; [reflexivity|]. split; [intros j ? ? Hj; lia|].
           right. split; [|reflexivity]. exists x. rewrite Nat.add_0_r. auto.
    + exists 0, pn, t. split; [reflexivity|]. split; [intros j ? ? Hj; lia|].
      left. split; [|reflexivity]. left. rewrite Nat.add_0_r. exact Hx.
Qed.

Lemma macro_opts_spec : forall decl name hash acc,
  match macro_opts name decl hash acc with
  | inr os =>
      exists vs, os = rev acc ++ vs /\ length vs = length decl /\
        forall k on t d, nth_error decl k = Some (on, t, d) ->
          exists v, nth_error vs k = Some v /\ opt_delivers hash on t d v
  | inl e =>
      exists k on t d, nth_error decl k = Some (on, t, d) /\
        (forall j on' tj dj, j < k -> nth_error decl j = Some (on', tj, dj) -> opt_ok hash on' tj) /\
        opt_illtyped hash on t /\
        e = RHashTypeMismatchForName name on (mtype_name t)
  end.
Proof.
  induction decl as [|[[on t] d] rest IH]; intros name hash acc; cbn [macro_opts].
  - exists []. rewrite app_nil_r. repeat split; auto.
    intros k on t d Hn. destruct k; discriminate.
  - assert (Hstep : forall v, opt_delivers hash on t d v -> opt_ok hash on t ->
      match macro_opts name rest hash (v :: acc) with
      | inr os =>
          exists vs, os = rev acc ++ vs /\ length vs = length ((on, t, d) :: rest) /\
            forall k on0 t0 d0, nth_error ((on, t, d) :: rest) k = Some (on0, t0, d0) ->
              exists v0, nth_error vs k = Some v0 /\ opt_delivers hash on0 t0 d0 v0
      | inl e =>
          exists k on0 t0 d0, nth_error ((on, t, d) :: rest) k = Some (on0, t0, d0) /\
            (forall j on' tj dj, j < k -> nth_error ((on, t, d) :: rest) j = Some (on', tj, dj) ->
               opt_ok hash on' tj) /\
            opt_illtyped hash on0 t0 /\
            e = RHashTypeMismatchForName name on0 (mtype_name t0)
      end).
    { intros v Hdel Hok. specialize (IH name hash (v :: acc)).
      destruct (macro_opts name rest hash (v :: acc)) as [e|os].
      - destruct IH as (k & on' & t' & d' & Hn & Hbefore & Hill & He).
        exists (S k), on', t', d'. split; [exact Hn|]. split; [|split; assumption].
        intros j on'' tj dj Hj Hnj. destruct j as [|j].
        + injection Hnj as <- <- <-. exact Hok.
        + apply (Hbefore j on'' tj dj); [lia|exact Hnj].
      - destruct IH as (vs & Hos & Hlen & Hall).
        exists (v :: vs). split; [|split].
        + rewrite Hos. cbn [rev]. rewrite <- app_assoc. reflexivity.
        + cbn [length]. rewrite Hlen. reflexivity.
        + intros k on' t' d' Hn. destruct k as [|k].
          * injection Hn as <- <- <-. exists v. split; [reflexivity|exact Hdel].
          * apply (Hall k on' t' d'). exact Hn. }
    destruct (map_get hash on) as [x|] eqn:Hx.
    + destruct (conv t (pj_value x)) as [v|] eqn:Hc.
      * apply Hstep.
        -- unfold opt_delivers. rewrite Hx. exact Hc.
        -- intros y Hy. rewrite Hx in Hy. injection Hy as <-. congruence.
      * exists 0, on, t, d. split; [reflexivity|]. split; [intros j ? ? ? Hj; lia|].
        split; [|reflexivity]. exists x. auto.
    + apply Hstep.
      * unfold opt_delivers. rewrite Hx. reflexivity.
      * intros y Hy. rewrite Hx in Hy. discriminate.
Qed.

(* ------------------------------------------------------------------ *)
(* 3. macro_call: the exact four-way characterisation                  *)
(* ------------------------------------------------------------------ *)

Theorem macro_call_cases : forall sg body strict h,
  (exists i pn t, nth_error (ms_params sg) i = Some (pn, t) /\
     args_ok_before strict (hv_params h) (ms_params sg) i /\
     arg_absent strict (hv_params h) i /\
     macro_call sg body strict h = inl (RParamNotFoundForName (ms_name sg) pn))
  \/
  (exists i pn t, nth_error (ms_params sg) i = Some (pn, t) /\
     args_ok_before strict (hv_params h) (ms_params sg) i /\
     arg_illtyped strict (hv_params h) i t /\
     macro_call sg body strict h = inl (RParamTypeMismatchForName (ms_name sg) pn (mtype_name t)))
  \/
  (args_all_ok strict (hv_params h) (ms_params sg) /\
   exists k on t d, nth_error (ms_opts sg) k = Some (on, t, d) /\
     opts_ok_before (hv_hash h) (ms_opts sg) k /\
     opt_illtyped (hv_hash h) on t /\
     macro_call sg body strict h = inl (RHashTypeMismatchForName (ms_name sg) on (mtype_name t)))
  \/
  (args_all_ok strict (hv_params h) (ms_params sg) /\
   opts_all_ok (hv_hash h) (ms_opts sg) /\
   exists ps os, delivered sg strict h ps os /\
     macro_call sg body strict h = inr (body ps os (all_args h) (all_kwargs h))).
Proof.
  intros sg body strict h. unfold macro_call.
  pose proof (macro_params_spec (ms_params sg) (ms_name sg) strict 0 (hv_params h) []) as HP.
  destruct (macro_params (ms_name sg) strict (ms_params sg) 0 (hv_params h) []) as [e|ps].
  - destruct HP as (i & pn & t & Hn & Hbefore & [[Habs ->] | [Hill ->]]).
    + left. exists i, pn, t. split; [exact Hn|]. split; [|split; [exact Habs|reflexivity]].
      intros j pn' tj Hj Hnj. exact (Hbefore j pn' tj Hj Hnj).
    + right; left. exists i, pn, t. split; [exact Hn|]. split; [|split; [exact Hill|reflexivity]].
      intros j pn' tj Hj Hnj. exact (Hbefore j pn' tj Hj Hnj).
  - destruct HP as (vs & -> & Hlen & Hall). cbn [rev app] in *.
    assert (Hargs : args_all_ok strict (hv_params h) (ms_params sg)).
    { intros j pn tj Hnj. destruct (Hall j pn tj Hnj) as (v & _ & Hd). exists v. exact Hd. }
    pose proof (macro_opts_spec (ms_opts sg) (ms_name sg) (hv_hash h) []) as HO.
    destruct (macro_opts (ms_name sg) (ms_opts sg) (hv_hash h) []) as [e|os].
    + destruct HO as (k & on & t & d & Hn & Hbefore & Hill & ->).
      right; right; left. split; [exact Hargs|]. exists k, on, t, d. repeat split; auto.
    + destruct HO as (ws & -> & Hlen' & Hall'). cbn [rev app] in *.
      right; right; right. split; [exact Hargs|]. split.
      * intros j on tj dj Hnj x Hx. destruct (Hall' j on tj dj Hnj) as (v & _ & Hd).
        unfold opt_delivers in Hd. rewrite Hx in Hd. congruence.
      * exists vs, ws. split; [|reflexivity]. repeat split; auto.
Qed.

(* the first failing parameter is unique *)
Ltac first_fail_unique i i' Hb Hb' Hn Hn' :=
  destruct (Nat.lt_trichotomy i' i) as [Hlt | [Heq | Hlt]];
  [ let Hok := fresh "Hok" in
    pose proof (Hb _ _ _ Hlt Hn') as Hok
  | subst i'
  | let Hok := fresh "Hok" in
    pose proof (Hb' _ _ _ Hlt Hn) as Hok ].

Theorem missing_required : forall sg body strict h i pn t,
  nth_error (ms_params sg) i = Some (pn, t) ->
  args_ok_before strict (hv_params h) (ms_params sg) i ->
  arg_absent strict (hv_params h) i ->
  macro_call sg body strict h = inl (RParamNotFoundForName (ms_name sg) pn).
Proof.
  intros sg body strict h i pn t Hn Hb Habs.
  destruct (macro_call_cases sg body strict h)
    as [(i' & pn' & t' & Hn' & Hb' & Habs' & ->)
       | [(i' & pn' & t' & Hn' & Hb' & Hill' & ->)
         | [(Hall & _) | (Hall & _)]]].
  - first_fail_unique i i' Hb Hb' Hn Hn'.
    + exfalso. exact (arg_ok_not_absent _ _ _ _ Hok Habs').
    + congruence.
    + exfalso. exact (arg_ok_not_absent _ _ _ _ Hok Habs).
  - exfalso. first_fail_unique i i' Hb Hb' Hn Hn'.
    + exact (arg_ok_not_illtyped _ _ _ _ Hok Hill').
    + exact (arg_absent_not_illtyped _ _ _ _ Habs Hill').
    + exact (arg_ok_not_absent _ _ _ _ Hok Habs).
  - exfalso. exact (arg_ok_not_absent _ _ _ _ (Hall _ _ _ Hn) Habs).
  - exfalso. exact (arg_ok_not_absent _ _ _ _ (Hall _ _ _ Hn) Habs).
Qed.

Theorem type_mismatch : forall sg body strict h i pn t,
  nth_error (ms_params sg) i = Some (pn, t) ->
  args_ok_before strict (hv_params h) (ms_params sg) i ->
  arg_illtyped strict (hv_params h) i t ->
  macro_call sg body strict h = inl (RParamTypeMismatchForName (ms_name sg) pn (mtype_name t)).
Proof.
  intros sg body strict h i pn t Hn Hb Hill.
  destruct (macro_call_cases sg body strict h)
    as [(i' & pn' & t' & Hn' & Hb' & Habs' & ->)
       | [(i' & pn' & t' & Hn' & Hb' & Hill' & ->)
         | [(Hall & _) | (Hall & _)]]].
  - exfalso. first_fail_unique i i' Hb Hb' Hn Hn'.
    + exact (arg_ok_not_absent _ _ _ _ Hok Habs').
    + exact (arg_absent_not_illtyped _ _ _ _ Habs' Hill).
    + exact (arg_ok_not_illtyped _ _ _ _ Hok Hill).
  - first_fail_unique i i' Hb Hb' Hn Hn'.
    + exfalso. exact (arg_ok_not_illtyped _ _ _ _ Hok Hill').
    + congruence.
    + exfalso. exact (arg_ok_not_illtyped _ _ _ _ Hok Hill).
  - exfalso. exact (arg_ok_not_illtyped _ _ _ _ (Hall _ _ _ Hn) Hill).
  - exfalso. exact (arg_ok_not_illtyped _ _ _ _ (Hall _ _ _ Hn) Hill).
Qed.

Theorem option_mismatch : forall sg body strict h k on t d,
  args_all_ok strict (hv_params h) (ms_params sg) ->
  nth_error (ms_opts sg) k = Some (on, t, d) ->
  opts_ok_before (hv_hash h) (ms_opts sg) k ->
  opt_illtyped (hv_hash h) on t ->
  macro_call sg body strict h = inl (RHashTypeMismatchForName (ms_name sg) on (mtype_name t)).
Proof.
  intros sg body strict h k on t d Hargs Hn Hb Hill.
  destruct (macro_call_cases sg body strict h)
    as [(i' & pn' & t' & Hn' & Hb' & Habs' & _)
       | [(i' & pn' & t' & Hn' & Hb' & Hill' & _)
         | [(_ & k' & on' & t' & d' & Hn' & Hb' & Hill' & ->) | (_ & Hall & _)]]].
  - exfalso. exact (arg_ok_not_absent _ _ _ _ (Hargs _ _ _ Hn') Habs').
  - exfalso. exact (arg_ok_not_illtyped _ _ _ _ (Hargs _ _ _ Hn') Hill').
  - destruct (Nat.lt_trichotomy k' k) as [Hlt | [Heq | Hlt]].
    + exfalso. exact (opt_ok_not_illtyped _ _ _ (Hb _ _ _ _ Hlt Hn') Hill').
    + subst k'. congruence.
    + exfalso. exact (opt_ok_not_illtyped _ _ _ (Hb' _ _ _ _ Hlt Hn) Hill).
  - exfalso. exact (opt_ok_not_illtyped _ _ _ (Hall _ _ _ _ Hn) Hill).
Qed.

Theorem all_ok_delivers : forall sg body strict h,
  args_all_ok strict (hv_params h) (ms_params sg) ->
  opts_all_ok (hv_hash h) (ms_opts sg) ->
  exists ps os, delivered sg strict h ps os /\
    macro_call sg body strict h = inr (body ps os (all_args h) (all_kwargs h)).
Proof.
  intros sg body strict h Hargs Hopts.
  destruct (macro_call_cases sg body strict h)
    as [(i' & pn' & t' & Hn' & Hb' & Habs' & _)
       | [(i' & pn' & t' & Hn' & Hb' & Hill' & _)
         | [(_ & k' & on' & t' & d' & Hn' & Hb' & Hill' & _) | (_ & _ & Hex)]]].
  - exfalso. exact (arg_ok_not_absent _ _ _ _ (Hargs _ _ _ Hn') Habs').
  - exfalso. exact (arg_ok_not_illtyped _ _ _ _ (Hargs _ _ _ Hn') Hill').
  - exfalso. exact (opt_ok_not_illtyped _ _ _ (Hopts _ _ _ _ Hn') Hill').
  - exact Hex.
Qed.

(* success delivers: i-th parameter from i-th argument, options from
   same-named hash entries or defaults, *args / **kwargs complete *)
Theorem param_i_from_arg_i : forall sg body strict h v,
  macro_call sg body strict h = inr v ->
  exists ps os,
    v = body ps os (all_args h) (all_kwargs h) /\ delivered sg strict h ps os.
Proof.
  intros sg body strict h v Hv.
  destruct (macro_call_cases sg body strict h)
    as [(i' & pn' & t' & _ & _ & _ & He)
       | [(i' & pn' & t' & _ & _ & _ & He)
         | [(_ & k' & on' & t' & d' & _ & _ & _ & He) | (_ & _ & ps & os & Hd & He)]]];
    rewrite He in Hv; try discriminate.
  injection Hv as <-. exists ps, os. split; [reflexivity|exact Hd].
Qed.

(* the error outcomes, as equivalences *)
Theorem param_not_found_iff : forall sg body strict h n p,
  macro_call sg body strict h = inl (RParamNotFoundForName n p) <->
  exists i t, n = ms_name sg /\ nth_error (ms_params sg) i = Some (p, t) /\
    args_ok_before strict (hv_params h) (ms_params sg) i /\
    arg_absent strict (hv_params h) i.
Proof.
  intros sg body strict h n p. split.
  - intros Hv.
    destruct (macro_call_cases sg body strict h)
      as [(i' & pn' & t' & Hn' & Hb' & Habs' & He)
         | [(i' & pn' & t' & _ & _ & _ & He)
           | [(_ & k' & on' & t' & d' & _ & _ & _ & He) | (_ & _ & ps & os & _ & He)]]];
      rewrite He in Hv; try discriminate.
    injection Hv as <- <-. exists i', t'. auto.
  - intros (i & t & -> & Hn & Hb & Habs). exact (missing_required sg body strict h i p t Hn Hb Habs).
Qed.

Theorem type_mismatch_iff : forall sg body strict h n p ty,
  macro_call sg body strict h = inl (RParamTypeMismatchForName n p ty) <->
  exists i t, n = ms_name sg /\ ty = mtype_name t /\
    nth_error (ms_params sg) i = Some (p, t) /\
    args_ok_before strict (hv_params h) (ms_params sg) i /\
    arg_illtyped strict (hv_params h) i t.
Proof.
  intros sg body strict h n p ty. split.
  - intros Hv.
    destruct (macro_call_cases sg body strict h)
      as [(i' & pn' & t' & _ & _ & _ & He)
         | [(i' & pn' & t' & Hn' & Hb' & Hill' & He)
           | [(_ & k' & on' & t' & d' & _ & _ & _ & He) | (_ & _ & ps & os & _ & He)]]];
      rewrite He in Hv; try discriminate.
    injection Hv as <- <- <-. exists i', t'. auto.
  - intros (i & t & -> & -> & Hn & Hb & Hill). exact (type_mismatch sg body strict h i p t Hn Hb Hill).
Qed.

Theorem hash_mismatch_iff : forall sg body strict h n o ty,
  macro_call sg body strict h = inl (RHashTypeMismatchForName n o ty) <->
  args_all_ok strict (hv_params h) (ms_params sg) /\
  exists k t d, n = ms_name sg /\ ty = mtype_name t /\
    nth_error (ms_opts sg) k = Some (o, t, d) /\
    opts_ok_before (hv_hash h) (ms_opts sg) k /\
    opt_illtyped (hv_hash h) o t.
Proof.
  intros sg body strict h n o ty. split.
  - intros Hv.
    destruct (macro_call_cases sg body strict h)
      as [(i' & pn' & t' & _ & _ & _ & He)
         | [(i' & pn' & t' & _ & _ & _ & He)
           | [(Hargs & k' & on' & t' & d' & Hn' & Hb' & Hill' & He) | (_ & _ & ps & os & _ & He)]]];
      rewrite He in Hv; try discriminate.
    injection Hv as <- <- <-. split; [exact Hargs|]. exists k', t', d'. auto.
  - intros (Hargs & k & t & d & -> & -> & Hn & Hb & Hill).
    exact (option_mismatch sg body strict h k o t d Hargs Hn Hb Hill).
Qed.

(* the only error reasons a macro helper can produce *)
Theorem macro_errors_only : forall sg body strict h e,
  macro_call sg body strict h = inl e ->
  (exists p, e = RParamNotFoundForName (ms_name sg) p) \/
  (exists p ty, e = RParamTypeMismatchForName (ms_name sg) p ty) \/
  (exists o ty, e = RHashTypeMismatchForName (ms_name sg) o ty).
Proof.
  intros sg body strict h e Hv.
  destruct (macro_call_cases sg body strict h)
    as [(i' & pn' & t' & _ & _ & _ & He)
       | [(i' & pn' & t' & _ & _ & _ & He)
         | [(_ & k' & on' & t' & d' & _ & _ & _ & He) | (_ & _ & ps & os & _ & He)]]];
    rewrite He in Hv; try discriminate; injection Hv as <-; eauto.
Qed.

(* a present option of the wrong type is never silently replaced by its
   default, and a present argument of the wrong type never reaches the body *)
Theorem no_silent_default : forall sg body strict h k on t d x,
  nth_error (ms_opts sg) k = Some (on, t, d) ->
  map_get (hv_hash h) on = Some x ->
  conv t (pj_value x) = None ->
  exists e, macro_call sg body strict h = inl e.
Proof.
  intros sg body strict h k on t d x Hn Hx Hc.
  destruct (macro_call sg body strict h) as [e|v] eqn:Hv; [eauto|exfalso].
  destruct (param_i_from_arg_i _ _ _ _ _ Hv) as (ps & os & _ & _ & _ & _ & Hopts).
  destruct (Hopts k on t d Hn) as (w & _ & Hd). unfold opt_delivers in Hd.
  rewrite Hx in Hd. congruence.
Qed.

Theorem no_illtyped_argument : forall sg body strict h i pn t x,
  nth_error (ms_params sg) i = Some (pn, t) ->
  nth_error (hv_params h) i = Some x ->
  conv t (pj_value x) = None ->
  exists e, macro_call sg body strict h = inl e.
Proof.
  intros sg body strict h i pn t x Hn Hx Hc.
  destruct (macro_call sg body strict h) as [e|v] eqn:Hv; [eauto|exfalso].
  destruct (param_i_from_arg_i _ _ _ _ _ Hv) as (ps & os & _ & _ & Hps & _ & _).
  destruct (Hps i pn t Hn) as (w & _ & y & Hy & _ & Hcy).
  rewrite Hx in Hy. injection Hy as <-. congruence.
Qed.

(* *args and **kwargs *)
Theorem args_kwargs_all : forall sg body strict h v,
  macro_call sg body strict h = inr v ->
  exists ps os,
    v = body ps os (map pj_value (hv_params h))
                   (map (fun kv : str * pj => (fst kv, pj_value (snd kv))) (hv_hash h)).
Proof.
  intros sg body strict h v Hv.
  destruct (param_i_from_arg_i _ _ _ _ _ Hv) as (ps & os & -> & _). exists ps, os. reflexivity.
Qed.

(* ------------------------------------------------------------------ *)
(* 4. conv: the per-type-token table                                   *)
(* ------------------------------------------------------------------ *)

Lemma all_u64_iff : forall l ns, all_u64 l = Some ns <-> l = map u64_json ns.
Proof.
  induction l as [|x l IH]; intros ns; cbn [all_u64].
  - split.
    + intros H; injection H as <-. reflexivity.
    + destruct ns; [reflexivity|discriminate].
  - destruct x as [| |[n|z|b]| | |]; try (split; [discriminate|destruct ns; discriminate]).
    destruct (all_u64 l) as [ms|] eqn:Hl; cbn [option_map].
    + split.
      * intros H; injection H as <-. cbn [map]. f_equal. apply IH. reflexivity.
      * destruct ns as [|m ns]; [discriminate|]. cbn [map]. unfold u64_json at 1.
        intros H; injection H as <- Hr. apply IH in Hr. congruence.
    + split; [discriminate|].
      destruct ns as [|m ns]; [discriminate|]. cbn [map]. unfold u64_json at 1.
      intros H; injection H as <- Hr. apply IH in Hr. discriminate.
Qed.

Lemma round_pos_ratio_some n : (N.log2 n <= 900)%N -> round_pos_ratio n 1 <> None.
Proof.
  intros Hl. unfold round_pos_ratio.
  destruct (N.eqb n 0); [discriminate|].
  cbv zeta.
  change (N.log2 1) with 0%N.
  set (e0 := (Z.of_N (N.log2 n) - Z.of_N 0 - 52)%Z).
  destruct (if (0 <=? e0)%Z then (n, (1 * 2 ^ Z.to_N e0)%N) else ((n * 2 ^ Z.to_N (- e0))%N, 1%N))
    as [nn0 dd0].
  set (q0 := (nn0 / dd0)%N).
  set (e1 := if (q0 <? two52)%N then (e0 - 1)%Z else if (two53 <=? q0)%N then (e0 + 1)%Z else e0).
  assert (He1 : (e1 <= e0 + 1)%Z).
  { unfold e1. destruct (q0 <? two52)%N; [lia|]. destruct (two53 <=? q0)%N; lia. }
  clearbody e1.
  set (e := Z.max e1 (-1074)).
  assert (He : (e <= Z.of_N (N.log2 n) - 51)%Z) by (unfold e, e0 in *; lia).
  clearbody e.
  destruct (if (0 <=? e)%Z then (n, (1 * 2 ^ Z.to_N e)%N) else ((n * 2 ^ Z.to_N (- e))%N, 1%N))
    as [nn dd].
  set (q' := match (2 * (nn mod dd) ?= dd)%N with
             | Eq => if N.even (nn / dd) then (nn / dd)%N else (nn / dd + 1)%N
             | Lt => (nn / dd)%N
             | Gt => (nn / dd + 1)%N
             end).
  clearbody q'.
  destruct (q' =? two53)%N.
  - destruct (two52 <? two52)%N; [discriminate|].
    destruct (Z.leb_spec 2047 (e + 1 + 1075)); [lia|discriminate].
  - destruct (q' <? two52)%N; [discriminate|].
    destruct (Z.leb_spec 2047 (e + 1075)); [lia|discriminate].
Qed.

Lemma log2_small n : (n <= two64)%N -> (N.log2 n <= 900)%N.
Proof.
  intros Hn. destruct (N.eq_dec n 0) as [->|Hz]; [cbn; lia|].
  assert (N.log2 n < 65)%N; [|lia].
  apply N.log2_lt_pow2; [lia|]. change (2 ^ 65)%N with (2 * two64)%N.
  unfold two64 in *. lia.
Qed.

Lemma f64_of_num_wf x : num_wf x = true -> f64_of_num x <> None.
Proof.
  destruct x as [n|z|b]; cbn [num_wf f64_of_num]; intros Hwf; [| |discriminate].
  - apply N.ltb_lt in Hwf. unfold f64_of_ratio.
    pose proof (round_pos_ratio_some n (log2_small n ltac:(lia))) as Hr.
    destruct (round_pos_ratio n 1); [discriminate|congruence].
  - apply andb_prop in Hwf as [Hneg Hlo]. apply Z.ltb_lt in Hneg. apply Z.leb_le in Hlo.
    unfold f64_of_ratio.
    assert (Hb : (Z.to_N (- z) <= two64)%N).
    { unfold two63, two64 in *. lia. }
    pose proof (round_pos_ratio_some _ (log2_small _ Hb)) as Hr.
    destruct (round_pos_ratio (Z.to_N (- z)) 1); [discriminate|congruence].
Qed.

(* which JSON values each type token accepts *)
Theorem conv_accepts : forall v : json,
  (conv TStr v <> None <-> exists s, v = JStr s) /\
  (conv TI64 v <> None <->
     (exists n, v = JNum (PosInt n) /\ (n <= i64_max)%N) \/ (exists z, v = JNum (NegInt z))) /\
  (conv TU64 v <> None <-> exists n, v = JNum (PosInt n)) /\
  (conv TF64 v <> None -> exists x, v = JNum x) /\
  (forall x, v = JNum x -> num_wf x = true -> conv TF64 v <> None) /\
  (conv TBool v <> None <-> exists b, v = JBool b) /\
  (conv TArr v <> None <-> exists l, v = JArr l) /\
  (conv TObj v <> None <-> exists m, v = JObj m) /\
  (conv TNull v <> None <-> v = JNull) /\
  (conv TJson v <> None) /\
  (conv TVecU64 v <> None <-> exists ns, v = JArr (map u64_json ns)).
Proof.
  intros v. repeat split.
  - destruct v; cbn; intros H; try congruence. eauto.
  - intros (s & ->). discriminate.
  - destruct v as [| |[n|z|b]| | |]; cbn; intros H; try congruence.
    + left. exists n. split; [reflexivity|].
      destruct (N.leb_spec n i64_max); [assumption|]. cbn in H. congruence.
    + right. eauto.
  - intros [(n & -> & Hn) | (z & ->)]; cbn.
    + apply N.leb_le in Hn. rewrite Hn. discriminate.
    + discriminate.
  - destruct v as [| |[n|z|b]| | |]; cbn; intros H; try congruence. eauto.
  - intros (n & ->). discriminate.
  - destruct v; cbn; intros H; try congruence. eauto.
  - intros x -> Hwf. cbn [conv]. pose proof (f64_of_num_wf x Hwf).
    destruct (f64_of_num x); [discriminate|congruence].
  - destruct v; cbn; intros H; try congruence. eauto.
  - intros (b & ->). discriminate.
  - destruct v; cbn; intros H; try congruence. eauto.
  - intros (l & ->). discriminate.
  - destruct v; cbn; intros H; try congruence. eauto.
  - intros (l & ->). discriminate.
  - destruct v; cbn; intros H; try congruence.
  - intros ->. discriminate.
  - destruct v; discriminate.
  - destruct v as [| | | |l|]; cbn [conv]; intros H; try congruence.
    destruct (all_u64 l) as [ns|] eqn:Hl; [|cbn in H; congruence].
    exists ns. f_equal. apply all_u64_iff. exact Hl.
  - intros (ns & ->). cbn [conv].
    replace (all_u64 (map u64_json ns)) with (Some ns); [discriminate|].
    symmetry. apply all_u64_iff. reflexivity.
Qed.

(* what the body receives for an accepted value *)
Theorem conv_values :
  (forall s, conv TStr (JStr s) = Some (VStr s)) /\
  (forall n, (n <= i64_max)%N -> conv TI64 (JNum (PosInt n)) = Some (VI64 (Z.of_N n))) /\
  (forall z, conv TI64 (JNum (NegInt z)) = Some (VI64 z)) /\
  (forall n, conv TU64 (JNum (PosInt n)) = Some (VU64 n)) /\
  (forall x, conv TF64 (JNum x) = option_map VF64 (f64_of_num x)) /\
  (forall b, conv TF64 (JNum (Float b)) = Some (VF64 b)) /\
  (forall b, conv TBool (JBool b) = Some (VBool b)) /\
  (forall l, conv TArr (JArr l) = Some (VArr l)) /\
  (forall m, conv TObj (JObj m) = Some (VObj m)) /\
  (conv TNull JNull = Some VNull) /\
  (forall v, conv TJson v = Some (VJson v)) /\
  (forall ns, conv TVecU64 (JArr (map u64_json ns)) = Some (VVec ns)).
Proof.
  repeat split; try reflexivity.
  - intros n Hn. cbn. apply N.leb_le in Hn. rewrite Hn. reflexivity.
  - intros ns. cbn [conv].
    replace (all_u64 (map u64_json ns)) with (Some ns); [reflexivity|].
    symmetry. apply all_u64_iff. reflexivity.
Qed.

(* i64 rejects floats and u64 values above i64::MAX; u64 rejects negatives and floats *)
Theorem conv_rejects :
  (forall b, conv TI64 (JNum (Float b)) = None) /\
  (forall n, (i64_max < n)%N -> conv TI64 (JNum (PosInt n)) = None) /\
  (forall z, conv TU64 (JNum (NegInt z)) = None) /\
  (forall b, conv TU64 (JNum (Float b)) = None).
Proof.
  repeat split; try reflexivity.
  intros n Hn. cbn. apply N.leb_gt in Hn. rewrite Hn. reflexivity.
Qed.

(* "f64 accepts every number" needs the number to be a u64/i64/finite double:
   the unconstrained model type also contains integers beyond 2^1024, for
   which the conversion overflows *)
Theorem conv_f64_every_num_refuted : exists x, conv TF64 (JNum x) = None.
Proof. exists (PosInt (2 ^ 1024)). vm_compute. reflexivity. Qed.

(* ------------------------------------------------------------------ *)
(* 5. how the renderer uses macro helpers                              *)
(* ------------------------------------------------------------------ *)

Lemma macro_err_not_unimplemented sg body strict h e :
  macro_call sg body strict h = inl e -> is_unimplemented (mk_err e) = false.
Proof.
  intros He. destruct (macro_errors_only _ _ _ _ _ He) as [(p & ->) | [(p & ty & ->) | (o & ty & ->)]];
    reflexivity.
Qed.

(* call_inner of a macro helper (arbitrary signature): a typed JSON value with
   the state untouched, or the signature error with the state untouched *)
Theorem macro_inner_result : forall reg sg body h s,
  macro_inner reg sg body h s =
  match macro_call sg body (r_strict reg) h with
  | inl e => RErr (mk_err e) s
  | inr v => ROk (SDerived v) s
  end.
Proof. reflexivity. Qed.

Theorem call_inner_macro : forall reg m h s,
  call_inner reg (HMacro m) h s =
  match macro_call (macro_sig m) (macro_body m) (r_strict reg) h with
  | inl e => RErr (mk_err e) s
  | inr v => ROk (SDerived v) s
  end.
Proof. reflexivity. Qed.

(* subexpression callers receive the JSON value itself *)
Theorem call_helper_for_value_macro : forall reg data ft f m h s,
  call_helper_for_value reg data ft (S f) (HMacro m) h s =
  match macro_call (macro_sig m) (macro_body m) (r_strict reg) h with
  | inl e => RErr (mk_err e) s
  | inr v => ROk {| pj_rel := None; pj_val := SDerived v |} s
  end.
Proof.
  intros. cbn [call_helper_for_value]. rewrite call_inner_macro.
  destruct (macro_call (macro_sig m) (macro_body m) (r_strict reg) h) as [e|v] eqn:Hc; [|reflexivity].
  rewrite (macro_err_not_unimplemented _ _ _ _ _ Hc). reflexivity.
Qed.

(* HelperDef::call for every helper that has a call_inner *)
Theorem call_helper_has_inner : forall reg data ft f hid h s,
  has_call_inner hid = true ->
  call_helper reg data ft (S f) hid h s =
  match call_inner reg hid h s with
  | ROk result s1 =>
      if (r_strict reg && sc_missing result)%bool then strict_error None s1
      else let '(output, s2) := do_escape reg (json_render ft (sc_json result)) s1 in
           indent_aware_write output s2
  | RErr e s1 => if is_unimplemented e then ROk tt s1 else RErr e s1
  | RPanic p => RPanic p
  | RFuel => RFuel
  end.
Proof. intros reg data ft f hid h s Hh. cbn [call_helper]. rewrite Hh. reflexivity. Qed.

(* as an expression: the rendered JSON goes through do_escape and is written *)
Theorem call_helper_macro : forall reg data ft f m h s,
  call_helper reg data ft (S f) (HMacro m) h s =
  match macro_call (macro_sig m) (macro_body m) (r_strict reg) h with
  | inl e => RErr (mk_err e) s
  | inr v => let '(output, s2) := do_escape reg (json_render ft v) s in
             indent_aware_write output s2
  end.
Proof.
  intros. rewrite call_helper_has_inner by reflexivity. rewrite call_inner_macro.
  destruct (macro_call (macro_sig m) (macro_body m) (r_strict reg) h) as [e|v] eqn:Hc.
  - rewrite (macro_err_not_unimplemented _ _ _ _ _ Hc). reflexivity.
  - cbn [sc_missing sc_json]. rewrite andb_false_r. reflexivity.
Qed.

(* do_escape applies the registry's escape function exactly once (ghost trace) *)
Theorem do_escape_once : forall reg c s,
  s_disable_escape s = false ->
  fst (do_escape reg c s) = r_escape reg c /\
  s_esc_trace (snd (do_escape reg c s)) = c :: s_esc_trace s /\
  s_out (snd (do_escape reg c s)) = s_out s.
Proof.
  intros reg c s Hd. unfold do_escape. rewrite Hd. cbn [fst snd].
  destruct (r_esc_mark reg); cbn; auto.
Qed.

Theorem do_escape_disabled : forall reg c s,
  s_disable_escape s = true -> do_escape reg c s = (c, s).
Proof. intros reg c s Hd. unfold do_escape. rewrite Hd. reflexivity. Qed.

(* ---- no panic / no fuel exhaustion on the macro path ---- *)
Lemma rbind_settled {A B} (x : rres A) (k : A -> rstate -> rres B) :
  settled x -> (forall a s, settled (k a s)) -> settled (rbind x k).
Proof. destruct x; cbn; auto; contradiction. Qed.

Lemma out_write_settled c s : settled (out_write c s).
Proof.
  unfold out_write. destruct c; [exact I|].
  destruct (match o_fail_at (s_out s) with Some k => (k <=? o_writes (s_out s))%N | None => false end);
    exact I.
Qed.

Lemma find_lf_lt : forall v k, find_lf v = Some k -> k < length v.
Proof.
  induction v as [|c v IH]; intros k; cbn [find_lf length]; [discriminate|].
  destruct (N.eqb c 10).
  - intros H; injection H as <-. lia.
  - destruct (find_lf v) as [k'|]; cbn; [|discriminate].
    intros H; injection H as <-. specialize (IH k' eq_refl). lia.
Qed.

Lemma write_indented_settled : forall f v ind s, length v < f -> settled (write_indented f v ind s).
Proof.
  induction f as [|f IH]; intros v ind s Hlen; [lia|]. cbn [write_indented].
  destruct (find_lf v) as [k|] eqn:Hk; [|apply out_write_settled].
  apply find_lf_lt in Hk.
  apply rbind_settled; [apply out_write_settled|]. intros _ s1.
  destruct (skipn (S k) v) eqn:Hr; [exact I|]. rewrite <- Hr.
  apply rbind_settled; [apply out_write_settled|]. intros _ s2.
  apply IH. rewrite skipn_length. lia.
Qed.

Lemma indent_aware_write_settled v s : settled (indent_aware_write v s).
Proof.
  unfold indent_aware_write. destruct v as [|c v]; [exact I|].
  apply rbind_settled.
  - destruct (negb _ && _)%bool; [|exact I]. destruct (s_indent _); [apply out_write_settled|exact I].
  - intros _ s2. apply rbind_settled.
    + destruct (s_indent s2); [apply write_indented_settled; lia|apply out_write_settled].
    + intros; exact I.
Qed.

(* a macro helper never panics and never runs out of fuel, as a value source
   and as an expression *)
Theorem macro_no_panic : forall reg data ft f m h s,
  settled (call_inner reg (HMacro m) h s) /\
  settled (call_helper_for_value reg data ft (S f) (HMacro m) h s) /\
  settled (call_helper reg data ft (S f) (HMacro m) h s).
Proof.
  intros. rewrite call_inner_macro, call_helper_for_value_macro, call_helper_macro.
  destruct (macro_call (macro_sig m) (macro_body m) (r_strict reg) h); repeat split; try exact I.
  destruct (do_escape reg (json_render ft j) s). apply indent_aware_write_settled.
Qed.

(* ---- the Helper value built from a template keeps argument count and the
   hash keys in template order (compiled templates keep the hash key-sorted:
   Compile.v builds it with map_insert) ---- *)
Lemma mapM_length {A B} (f : A -> rstate -> rres B) : forall l s ys s',
  mapM f l s = ROk ys s' -> length ys = length l.
Proof.
  induction l as [|x l IH]; intros s ys s'; cbn [mapM].
  - intros H; injection H as <- _. reflexivity.
  - destruct (f x s) as [y s1| | |]; cbn [rbind]; try discriminate.
    destruct (mapM f l s1) as [zs s2| | |] eqn:Hm; cbn [rbind]; try discriminate.
    intros H; injection H as <- _. cbn [length]. f_equal. exact (IH _ _ _ Hm).
Qed.

Lemma mapM_keys {A B} (f : A -> rstate -> rres B) : forall (l : list (str * A)) s ys s',
  mapM (fun kv s0 => rbind (f (snd kv) s0) (fun v s1 => ROk (fst kv, v) s1)) l s = ROk ys s' ->
  map fst ys = map fst l.
Proof.
  induction l as [|x l IH]; intros s ys s'; cbn [mapM].
  - intros H; injection H as <- _. reflexivity.
  - destruct (f (snd x) s) as [y s1| | |]; cbn [rbind]; try discriminate.
    destruct (mapM _ l s1) as [zs s2| | |] eqn:Hm; cbn [rbind]; try discriminate.
    intros H; injection H as <- _. cbn [map fst]. f_equal. exact (IH _ _ _ Hm).
Qed.

Lemma helper_from_template_unfold reg data ft f ht s :
  helper_from_template reg data ft (S f) ht s =
  rbind (expand_as_name reg data ft f (h_name ht) s) (fun name s1 =>
  rbind (mapM (expand_param reg data ft f) (h_params ht) s1) (fun pv s2 =>
  rbind (mapM (fun kv s' => rbind (expand_param reg data ft f (snd kv) s')
                                   (fun v s'' => ROk (fst kv, v) s''))
              (h_hash ht) s2) (fun hm s3 =>
    ROk {| hv_name := name; hv_params := pv; hv_hash := hm; hv_tpl := h_tpl ht;
           hv_inv := h_inv ht; hv_bp := h_bp ht; hv_block := h_block ht |} s3))).
Proof. reflexivity. Qed.

Theorem helper_from_template_shape : forall reg data ft f ht s h s',
  helper_from_template reg data ft f ht s = ROk h s' ->
  length (hv_params h) = length (h_params ht) /\
  map fst (hv_hash h) = map fst (h_hash ht) /\
  map fst (all_kwargs h) = map fst (h_hash ht) /\
  length (all_args h) = length (h_params ht).
Proof.
  intros reg data ft f ht s h s' H. destruct f as [|f]; [discriminate|].
  rewrite helper_from_template_unfold in H.
  destruct (expand_as_name reg data ft f (h_name ht) s) as [nm s1| | |]; cbn [rbind] in H; try discriminate.
  destruct (mapM (expand_param reg data ft f) (h_params ht) s1) as [pv s2| | |] eqn:Hp;
    cbn [rbind] in H; try discriminate.
  destruct (mapM _ (h_hash ht) s2) as [hm s3| | |] eqn:Hh; cbn [rbind] in H; try discriminate.
  injection H as <- _. cbn [hv_params hv_hash]. unfold all_kwargs, all_args. cbn [hv_params hv_hash].
  pose proof (mapM_length _ _ _ _ _ Hp) as Hl. pose proof (mapM_keys _ _ _ _ _ Hh) as Hk.
  rewrite map_length, map_map. cbn [fst]. auto.
Qed.

(* ------------------------------------------------------------------ *)
(* 6. two members of the harness family as instances                   *)
(* ------------------------------------------------------------------ *)

Lemma conv_i64_shape v w : conv TI64 v = Some w -> exists z, w = VI64 z.
Proof.
  destruct v as [| |n| | |]; cbn; try discriminate.
  destruct (as_i64 n); cbn; [|discriminate]. intros H; injection H as <-. eauto.
Qed.

Lemma conv_str_shape v w : conv TStr v = Some w -> exists s, v = JStr s /\ w = VStr s.
Proof. destruct v; cbn; try discriminate. intros H; injection H as <-. eauto. Qed.

Lemma length1 {A} (l : list A) : length l = 1 -> exists a, l = [a].
Proof. destruct l as [|a [|b l]]; try discriminate. eauto. Qed.
Lemma length2 {A} (l : list A) : length l = 2 -> exists a b, l = [a; b].
Proof. destruct l as [|a [|b [|c l]]]; try discriminate. eauto. Qed.

(* mo1(a: i64, {k: i64 = 7}) *)
Corollary M_o1_delivery : forall strict h v,
  macro_call (macro_sig M_o1) (macro_body M_o1) strict h = inr v ->
  exists x a k,
    nth_error (hv_params h) 0 = Some x /\
    (strict = true -> sc_missing (pj_val x) = false) /\
    conv TI64 (pj_value x) = Some (VI64 a) /\
    match map_get (hv_hash h) (`"k") with
    | Some y => conv TI64 (pj_value y) = Some (VI64 k)
    | None => k = 7%Z
    end /\
    v = pfx "mo1:" (z_to_dec a ++ `":" ++ z_to_dec k).
Proof.
  intros strict h v Hv.
  destruct (param_i_from_arg_i _ _ _ _ _ Hv) as (ps & os & -> & Hlp & Hps & Hlo & Hos).
  destruct (length1 _ Hlp) as (p0 & ->). destruct (length1 _ Hlo) as (o0 & ->).
  destruct (Hps 0 (`"a") TI64 eq_refl) as (p & Hp & x & Hx & Hs & Hc). injection Hp as <-.
  destruct (Hos 0 (`"k") TI64 (VI64 7) eq_refl) as (o & Ho & Hd). injection Ho as <-.
  destruct (conv_i64_shape _ _ Hc) as (a & ->).
  unfold opt_delivers in Hd.
  assert (Hk : exists k, o0 = VI64 k).
  { destruct (map_get (hv_hash h) (`"k")); [exact (conv_i64_shape _ _ Hd)|eauto]. }
  destruct Hk as (k & ->).
  exists x, a, k. repeat split; auto.
  destruct (map_get (hv_hash h) (`"k")); [exact Hd|congruence].
Qed.

Corollary M_o1_missing : forall strict h,
  hv_params h = [] ->
  macro_call (macro_sig M_o1) (macro_body M_o1) strict h = inl (RParamNotFoundForName (`"mo1") (`"a")).
Proof.
  intros strict h Hp.
  apply (missing_required (macro_sig M_o1) (macro_body M_o1) strict h 0 (`"a") TI64 eq_refl).
  - intros j pn tj Hj. lia.
  - left. rewrite Hp. reflexivity.
Qed.

Corollary M_o1_option_mismatch : forall strict h x y,
  hv_params h = [x] -> (strict = true -> sc_missing (pj_val x) = false) ->
  conv TI64 (pj_value x) <> None ->
  map_get (hv_hash h) (`"k") = Some y -> conv TI64 (pj_value y) = None ->
  macro_call (macro_sig M_o1) (macro_body M_o1) strict h
  = inl (RHashTypeMismatchForName (`"mo1") (`"k") (`"i64")).
Proof.
  intros strict h x y Hp Hs Hc Hy Hcy.
  apply (option_mismatch (macro_sig M_o1) (macro_body M_o1) strict h 0 (`"k") TI64 (VI64 7)).
  - intros j pn tj Hn. destruct j as [|[|j]]; try discriminate. injection Hn as <- <-.
    destruct (conv TI64 (pj_value x)) as [w|] eqn:Hw; [|congruence].
    exists w, x. rewrite Hp. auto.
  - reflexivity.
  - intros j on tj dj Hj. lia.
  - exists y. auto.
Qed.

(* m2(a: i64, b: str) *)
Corollary M_2_delivery : forall strict h v,
  macro_call (macro_sig M_2) (macro_body M_2) strict h = inr v ->
  exists x y a b,
    nth_error (hv_params h) 0 = Some x /\ nth_error (hv_params h) 1 = Some y /\
    conv TI64 (pj_value x) = Some (VI64 a) /\ pj_value y = JStr b /\
    v = pfx "m2:" (z_to_dec a ++ `":" ++ b).
Proof.
  intros strict h v Hv.
  destruct (param_i_from_arg_i _ _ _ _ _ Hv) as (ps & os & -> & Hlp & Hps & Hlo & Hos).
  destruct (length2 _ Hlp) as (p0 & p1 & ->).
  destruct (Hps 0 (`"a") TI64 eq_refl) as (p & Hp & x & Hx & _ & Hc). injection Hp as <-.
  destruct (Hps 1 (`"b") TStr eq_refl) as (p & Hp & y & Hy & _ & Hcy). injection Hp as <-.
  destruct (conv_i64_shape _ _ Hc) as (a & ->).
  destruct (conv_str_shape _ _ Hcy) as (b & Hb & ->).
  exists x, y, a, b. repeat split; auto.
Qed.

Corollary M_2_second_illtyped : forall strict h x y,
  hv_params h = [x; y] ->
  (strict = true -> sc_missing (pj_val x) = false) ->
  (strict = true -> sc_missing (pj_val y) = false) ->
  conv TI64 (pj_value x) <> None ->
  (forall s, pj_value y <> JStr s) ->
  macro_call (macro_sig M_2) (macro_body M_2) strict h
  = inl (RParamTypeMismatchForName (`"m2") (`"b") (`"str")).
Proof.
  intros strict h x y Hp Hsx Hsy Hc Hy.
  apply (type_mismatch (macro_sig M_2) (macro_body M_2) strict h 1 (`"b") TStr eq_refl).
  - intros j pn tj Hj Hn. destruct j as [|j]; [|lia]. injection Hn as <- <-.
    destruct (conv TI64 (pj_value x)) as [w|] eqn:Hw; [|congruence].
    exists w, x. rewrite Hp. auto.
  - exists y. rewrite Hp. repeat split; auto.
    destruct (pj_value y) eqn:Hv; try reflexivity. exfalso. exact (Hy s eq_refl).
Qed.

(* ------------------------------------------------------------------ *)
(* 7. satisfiability of the hypotheses (concrete instances)            *)
(* ------------------------------------------------------------------ *)

Definition mk_pj (v : json) : pj := {| pj_rel := None; pj_val := SConstant v |}.
Definition missing_pj : pj := {| pj_rel := Some (`"nope"); pj_val := SMissing |}.
Definition mk_h (ps : list pj) (hs : list (str * pj)) : helper_v :=
  {| hv_name := `"h"; hv_params := ps; hv_hash := hs; hv_tpl := None; hv_inv := None;
     hv_bp := None; hv_block := false |}.

Example ex_success :
  macro_call (macro_sig M_o1) (macro_body M_o1) true
             (mk_h [mk_pj (JNum (NegInt (-5)))] [(`"k", mk_pj (JNum (PosInt 2)))])
  = inr (pfx "mo1:" (`"-5:2")).
Proof. vm_compute. reflexivity. Qed.

Example ex_default :
  macro_call (macro_sig M_o1) (macro_body M_o1) false (mk_h [mk_pj (JNum (PosInt 4))] [])
  = inr (pfx "mo1:" (`"4:7")).
Proof. vm_compute. reflexivity. Qed.

(* missing_required: second parameter absent after a good first one *)
Example ex_missing_required_hyps :
  let h := mk_h [mk_pj (JNum (PosInt 1))] [] in
  nth_error (ms_params (macro_sig M_2)) 1 = Some (`"b", TStr) /\
  args_ok_before false (hv_params h) (ms_params (macro_sig M_2)) 1 /\
  arg_absent false (hv_params h) 1.
Proof.
  cbn zeta. split; [reflexivity|]. split.
  - intros j pn tj Hj Hn. destruct j as [|j]; [|lia]. injection Hn as <- <-.
    eexists. eexists. split; [reflexivity|]. split; [discriminate|]. reflexivity.
  - left. reflexivity.
Qed.

(* strict mode: a missing path counts as absent *)
Example ex_missing_strict_hyps :
  let h := mk_h [missing_pj] [] in
  nth_error (ms_params (macro_sig M_json)) 0 = Some (`"x", TJson) /\
  args_ok_before true (hv_params h) (ms_params (macro_sig M_json)) 0 /\
  arg_absent true (hv_params h) 0 /\
  macro_call (macro_sig M_json) (macro_body M_json) true h
  = inl (RParamNotFoundForName (`"m_json") (`"x")) /\
  macro_call (macro_sig M_json) (macro_body M_json) false h = inr (pfx "json:" (`"n")).
Proof.
  cbn zeta. split; [reflexivity|]. split; [intros j ? ? Hj; lia|]. split.
  - right. exists missing_pj. auto.
  - split; vm_compute; reflexivity.
Qed.

(* type_mismatch: first parameter a string where i64 is declared *)
Example ex_type_mismatch_hyps :
  let h := mk_h [mk_pj (JStr (`"s")); mk_pj (JStr (`"t"))] [] in
  nth_error (ms_params (macro_sig M_2)) 0 = Some (`"a", TI64) /\
  args_ok_before false (hv_params h) (ms_params (macro_sig M_2)) 0 /\
  arg_illtyped false (hv_params h) 0 TI64 /\
  macro_call (macro_sig M_2) (macro_body M_2) false h
  = inl (RParamTypeMismatchForName (`"m2") (`"a") (`"i64")).
Proof.
  cbn zeta. split; [reflexivity|]. split; [intros j ? ? Hj; lia|]. split.
  - eexists. split; [reflexivity|]. split; [discriminate|]. reflexivity.
  - vm_compute. reflexivity.
Qed.

(* option_mismatch / no_silent_default: option present with the wrong type *)
Example ex_option_mismatch_hyps :
  let h := mk_h [mk_pj (JNum (PosInt 1))] [(`"k", mk_pj (JStr (`"x")))] in
  args_all_ok false (hv_params h) (ms_params (macro_sig M_o1)) /\
  nth_error (ms_opts (macro_sig M_o1)) 0 = Some (`"k", TI64, VI64 7) /\
  opts_ok_before (hv_hash h) (ms_opts (macro_sig M_o1)) 0 /\
  opt_illtyped (hv_hash h) (`"k") TI64 /\
  macro_call (macro_sig M_o1) (macro_body M_o1) false h
  = inl (RHashTypeMismatchForName (`"mo1") (`"k") (`"i64")).
Proof.
  cbn zeta. split.
  - intros j pn tj Hn. destruct j as [|[|j]]; try discriminate. injection Hn as <- <-.
    eexists. eexists. split; [reflexivity|]. split; [discriminate|]. reflexivity.
  - split; [reflexivity|]. split; [intros j ? ? ? Hj; lia|]. split.
    + eexists. split; reflexivity.
    + vm_compute. reflexivity.
Qed.

(* all_ok_delivers: hypotheses satisfiable *)
Example ex_all_ok_hyps :
  let h := mk_h [mk_pj (JNum (PosInt 1)); mk_pj (JStr (`"t"))] [] in
  args_all_ok true (hv_params h) (ms_params (macro_sig M_2)) /\
  opts_all_ok (hv_hash h) (ms_opts (macro_sig M_2)).
Proof.
  cbn zeta. split.
  - intros j pn tj Hn. destruct j as [|[|[|j]]]; try discriminate; injection Hn as <- <-;
      (eexists; eexists; split; [reflexivity|]; split; [reflexivity|]; reflexivity).
  - intros j on tj dj Hn. destruct j; discriminate.
Qed.

(* no_silent_default / no_illtyped_argument *)
Example ex_no_silent_default_hyps :
  let h := mk_h [mk_pj (JNum (PosInt 1))] [(`"k", mk_pj JNull)] in
  nth_error (ms_opts (macro_sig M_o1)) 0 = Some (`"k", TI64, VI64 7) /\
  map_get (hv_hash h) (`"k") = Some (mk_pj JNull) /\
  conv TI64 (pj_value (mk_pj JNull)) = None.
Proof. cbn zeta. repeat split; reflexivity. Qed.

Example ex_no_illtyped_argument_hyps :
  let h := mk_h [mk_pj (JNum (Float 4607182418800017408))] [] in
  nth_error (ms_params (macro_sig M_i64)) 0 = Some (`"x", TI64) /\
  nth_error (hv_params h) 0 = Some (mk_pj (JNum (Float 4607182418800017408))) /\
  conv TI64 (pj_value (mk_pj (JNum (Float 4607182418800017408)))) = None /\
  macro_call (macro_sig M_i64) (macro_body M_i64) false h
  = inl (RParamTypeMismatchForName (`"m_i64") (`"x") (`"i64")).
Proof. cbn zeta. repeat split; vm_compute; reflexivity. Qed.

Example ex_M_o1_option_mismatch_hyps :
  let x := mk_pj (JNum (PosInt 1)) in let y := mk_pj (JStr (`"s")) in
  let h := mk_h [x] [(`"k", y)] in
  hv_params h = [x] /\ (true = true -> sc_missing (pj_val x) = false) /\
  conv TI64 (pj_value x) <> None /\
  map_get (hv_hash h) (`"k") = Some y /\ conv TI64 (pj_value y) = None.
Proof. cbn zeta. repeat split; try reflexivity. discriminate. Qed.

Example ex_M_2_second_illtyped_hyps :
  let x := mk_pj (JNum (PosInt 1)) in let y := mk_pj (JBool true) in
  let h := mk_h [x; y] [] in
  hv_params h = [x; y] /\
  (true = true -> sc_missing (pj_val x) = false) /\ (true = true -> sc_missing (pj_val y) = false) /\
  conv TI64 (pj_value x) <> None /\ (forall s, pj_value y <> JStr s).
Proof. cbn zeta. repeat split; try reflexivity; discriminate. Qed.

(* helper_from_template_shape: {{mo1 4 k=2}} at the model's default registry *)
Example ex_shape : exists h s',
  helper_from_template reg_new JNull [] 3
    (MkH (PName (`"mo1")) [PLit (JNum (PosInt 4))] [(`"k", PLit (JNum (PosInt 2)))]
         None None None false false false)
    (st_init None None None) = ROk h s' /\
  all_args h = [JNum (PosInt 4)] /\ all_kwargs h = [(`"k", JNum (PosInt 2))].
Proof. repeat eexists; repeat split; vm_compute; reflexivity. Qed.

(* as an expression: `{{mo1 4 k=2}}` writes the escaped text once *)
Example ex_written : exists h s1 s2,
  helper_from_template reg_new JNull [] 3
    (MkH (PName (`"mo1")) [PLit (JNum (PosInt 4))] [(`"k", PLit (JNum (PosInt 2)))]
         None None None false false false)
    (st_init None None None) = ROk h s1 /\
  s_disable_escape s1 = false /\
  call_helper reg_new JNull [] 1 (HMacro M_o1) h s1 = ROk tt s2 /\
  out_text (s_out s2) = `"mo1:4:2" /\ s_esc_trace s2 = [`"mo1:4:2"].
Proof. repeat eexists; repeat split; vm_compute; reflexivity. Qed.
