(* Proofs/ConservationBlocks.v — C03 for templates with blocks: when no `~` and
   no standalone tag occurs, the raw text of the compiled template, block
   bodies included and in document order, is the source with its tags deleted.

   Part 1  the token grammar of Spec/WfTokens.v with one more fact per tag: the
           tokens below a tag token are "kid" tokens (rules the compile loop
           does not interpret), so strip_tags skips them;
   Part 2  all_raw_text of the pieces the loop builds, in particular of the
           helper under construction while its else-chain is still reversed;
   Part 3  one step of the loop on the block tags, with the helper and
           decorator stacks (complements step_ws of WsProofs.v);
   Part 4  the fold over the token grammar (continuation style, as in
           AlignedSchema.v);
   Part 5  every pest output is in the refined token grammar (the schema proof
           of GrammarTemplates.v, carried out again with the extra facts);
   Part 6  compile2. *)
From Coq Require Import List NArith Lia Bool Sorting.Sorted.
From HB Require Import Base.Str Peg.Peg Peg.Grammar Tpl.Ast Tpl.Compile Spec.WfTokens
  Spec.AlignedSpec Spec.WsSpec Spec.StripTags Spec.StripTagsBlocks Spec.ChainSpec
  Proofs.PegFacts Proofs.PegTermination Proofs.PegForest Proofs.CompileBase Proofs.CompileNoPanic
  Proofs.CompileStages Proofs.CompilePositions Proofs.CompileTermination Proofs.GrammarSchema
  Proofs.RawBlockAdjacent Proofs.GrammarTemplates Proofs.WsProofs Proofs.ChainProofs
  Proofs.Conservation.
Import ListNotations.
Open Scope N_scope.

Arguments N.add : simpl never.
Arguments N.sub : simpl never.
Arguments N.mul : simpl never.
Arguments N.leb : simpl never.
Arguments N.ltb : simpl never.
Arguments N.eqb : simpl never.

#[local] Hint Rewrite flats_cons' flat_node' flats_app' flats_nil : fl.
#[local] Hint Rewrite @app_nil_r : fl.

Ltac okinv H := injection H; clear H; intros; subst.

(* ================= Part 1: the token grammar with kid facts ================= *)
Notation KID := (Forall kid_tok).

Inductive kitems : N -> N -> list tok -> Prop :=
| kis_nil lo : kitems lo lo []
| kis_cons lo mid hi a rest : kitem lo mid a -> kitems mid hi rest -> kitems lo hi (a ++ rest)
with kitem : N -> N -> list tok -> Prop :=
| ki_raw lo s e : lo <= s -> s <= e -> kitem lo e [(R_raw_text, s, e)]
| ki_tag lo r s e l : simple_tag r -> lo <= s -> s <= e -> tag_toks e l -> KID l ->
    kitem lo e ((r, s, e) :: l)
| ki_comment lo r s e : comment_rule r -> lo <= s -> s <= e -> kitem lo e [(r, s, e)]
| ki_hblock lo s0 e0 l0 body m1 chains m2 inv m3 s9 e9 l9 :
    lo <= s0 -> s0 <= e0 -> tag_toks e0 l0 -> KID l0 ->
    ktmpl e0 m1 body -> kchain m1 m2 chains -> kinv m2 m3 inv ->
    m3 <= s9 -> s9 <= e9 -> tag_toks e9 l9 -> KID l9 ->
    kitem lo e9 (((R_helper_block_start, s0, e0) :: l0) ++ body ++ chains ++ inv
                 ++ (R_helper_block_end, s9, e9) :: l9)
| ki_rawblock lo s0 e0 l0 s1 e1 e2 l2 :
    lo <= s0 -> s0 <= e0 -> tag_toks e0 l0 -> KID l0 -> e0 <= s1 -> s1 <= e1 -> e1 <= e2 ->
    tag_toks e2 l2 -> KID l2 ->
    kitem lo e2 (((R_raw_block_start, s0, e0) :: l0)
                 ++ (R_raw_block_text, s1, e1) :: (R_raw_block_end, e1, e2) :: l2)
| ki_dblock lo rs re s0 e0 l0 body m1 s9 e9 l9 :
    deco_pair rs re -> lo <= s0 -> s0 <= e0 -> tag_toks e0 l0 -> KID l0 -> ktmpl e0 m1 body ->
    m1 <= s9 -> s9 <= e9 -> tag_toks e9 l9 -> KID l9 ->
    kitem lo e9 (((rs, s0, e0) :: l0) ++ body ++ (re, s9, e9) :: l9)
with ktmpl : N -> N -> list tok -> Prop :=
| kt_mk lo hi s e body : lo <= s -> s <= e -> kitems lo hi body ->
    ktmpl lo hi ((R_template, s, e) :: body)
with kchain : N -> N -> list tok -> Prop :=
| kcp_nil lo : kchain lo lo []
| kcp_cons lo s e tl si ei l body mid hi rest :
    lo <= s -> s <= e -> opt_tilde tl -> sub_toks e l -> KID (tl ++ (R_invert_tag_item, si, ei) :: l) ->
    ktmpl e mid body -> kchain mid hi rest ->
    kchain lo hi (((R_invert_chain_tag, s, e) :: tl ++ (R_invert_tag_item, si, ei) :: l)
                  ++ body ++ rest)
with kinv : N -> N -> list tok -> Prop :=
| kip_none lo : kinv lo lo []
| kip_some lo s e l body hi : lo <= s -> s <= e -> tag_toks e l -> KID l -> ktmpl e hi body ->
    kinv lo hi (((R_invert_tag, s, e) :: l) ++ body).

Scheme kitems_mut := Minimality for kitems Sort Prop
with kitem_mut := Minimality for kitem Sort Prop
with ktmpl_mut := Minimality for ktmpl Sort Prop
with kchain_mut := Minimality for kchain Sort Prop
with kinv_mut := Minimality for kinv Sort Prop.
Combined Scheme kwf_mutind from kitems_mut, kitem_mut, ktmpl_mut, kchain_mut, kinv_mut.

Definition kwf_tokens (ts : list tok) : Prop :=
  exists s e body hi p, ts = (R_template, s, e) :: body ++ [(R_EOI, p, p)] /\
                        kitems 0 hi body /\ hi <= p.

(* forgetting the kid facts *)
Lemma kwf_forget :
  (forall lo hi l, kitems lo hi l -> items lo hi l) /\
  (forall lo hi l, kitem lo hi l -> item lo hi l) /\
  (forall lo hi l, ktmpl lo hi l -> tmpl lo hi l) /\
  (forall lo hi l, kchain lo hi l -> chain_parts lo hi l) /\
  (forall lo hi l, kinv lo hi l -> inv_part lo hi l).
Proof.
  apply kwf_mutind; intros; try (econstructor; eassumption).
Qed.

Lemma kwf_first :
  (forall lo hi l, kitems lo hi l -> Ffirst lo hi l) /\
  (forall lo hi l, kitem lo hi l -> Ffirst lo hi l) /\
  (forall lo hi l, ktmpl lo hi l -> Ffirst lo hi l) /\
  (forall lo hi l, kchain lo hi l -> Ffirst lo hi l) /\
  (forall lo hi l, kinv lo hi l -> Ffirst lo hi l).
Proof.
  destruct kwf_forget as (A & B & C & D & E). destruct wf_first as (A' & B' & C' & D' & E').
  split; [|split; [|split; [|split]]]; intros; eauto.
Qed.

(* ================= Part 2: all_raw_text of what the loop builds ================= *)
Definition oart (o : option template) : str := match o with Some t => art_t t | None => [] end.

Lemma art_t_els n els m : art_t (MkT n els m) = all_raw_text els.
Proof.
  cbn [art_t]. unfold all_raw_text. induction els as [|e r IH]; [reflexivity|].
  cbn [map concat]. rewrite <- IH. reflexivity.
Qed.

Lemma art_t_t_els t : art_t t = all_raw_text (t_els t).
Proof. destruct t. apply art_t_els. Qed.

Lemma art_h_eq n ps hs bp tpl inv bl ch w : art_h (MkH n ps hs bp tpl inv bl ch w) = oart tpl ++ oart inv.
Proof. reflexivity. Qed.

Lemma art_h_proj h : art_h h = oart (h_tpl h) ++ oart (h_inv h).
Proof. destruct h. reflexivity. Qed.

Lemma all_raw_text_app a b : all_raw_text (a ++ b) = all_raw_text a ++ all_raw_text b.
Proof. unfold all_raw_text. rewrite map_app, concat_app. reflexivity. Qed.

Lemma all_raw_text_one e : all_raw_text [e] = art_e e.
Proof. unfold all_raw_text. cbn. apply app_nil_r. Qed.

Lemma art_wrap h : art_t (ChainSpec.wrap h) = art_h h.
Proof. unfold ChainSpec.wrap. rewrite art_t_els, all_raw_text_one. reflexivity. Qed.

Definition links_text (ls : list link) : str := concat (map (fun l : link => art_t (snd (fst l))) ls).

Lemma links_text_app a b : links_text (a ++ b) = links_text a ++ links_text b.
Proof. unfold links_text. rewrite map_app, concat_app. reflexivity. Qed.

Lemma oart_nest ls fe : oart (nest ls fe) = links_text ls ++ oart fe.
Proof.
  induction ls as [|[[e b] w] r IH]; [reflexivity|].
  cbn [nest oart]. rewrite art_wrap, art_h_eq. cbn [oart]. rewrite IH.
  unfold links_text. cbn [map concat fst snd]. rewrite <- app_assoc. reflexivity.
Qed.

(* the reversal loop, for any fuel on which it succeeds *)
Lemma revert_loop_rtail_ok : forall done fuel prev p,
  revert_loop fuel (rtail done) prev = COk p -> p = nest (rev done) prev.
Proof.
  induction done as [|[[e b] w] r IH]; intros fuel prev p H; (destruct fuel as [|f]; [discriminate|]).
  - cbn in H. okinv H. reflexivity.
  - cbn [rtail revert_loop ChainSpec.wrap h_inv h_set_inv] in H. apply IH in H. subst p.
    cbn [rev]. rewrite nest_app. reflexivity.
Qed.

(* the helper at the front of the helper stack while its block is open *)
Inductive chain_st :=
| CS0                                                          (* only the first body so far *)
| CS1 (b0 : template) (done : list link) (e : espec) (w : bool) (* links; the last one (e, w) has no body yet *)
| CE0 (b0 : template)                                          (* `{{else}}` seen, no links *)
| CE1 (b0 : template) (done : list link).                      (* links, then `{{else}}` *)

Definition mkh (e0 : espec) (tpl inv : option template) (chain w0 : bool) : helper_t :=
  MkH (es_name e0) (es_params e0) (es_hash e0) (es_bp e0) tpl inv true chain w0.

Definition hstate (e0 : espec) (w0 : bool) (cs : chain_st) : helper_t :=
  match cs with
  | CS0 => mkh e0 None None false w0
  | CS1 b0 done e w => mkh e0 (Some b0) (Some (ChainSpec.wrap (mkh e None (rtail done) true w))) true w0
  | CE0 b0 => mkh e0 (Some b0) None false w0
  | CE1 b0 done => mkh e0 (Some b0) (rtail done) true w0
  end.

(* the text already stored in it, in document order *)
Definition closed_text (cs : chain_st) : str :=
  match cs with
  | CS0 => []
  | CS1 b0 done _ _ => art_t b0 ++ links_text (rev done)
  | CE0 b0 => art_t b0
  | CE1 b0 done => art_t b0 ++ links_text (rev done)
  end.

Definition chainable (cs : chain_st) : Prop :=
  match cs with CS0 | CS1 _ _ _ _ => True | _ => False end.

Definition cs_link (cs : chain_st) (t : template) (e' : espec) (w' : bool) : chain_st :=
  match cs with
  | CS1 b0 done e w => CS1 b0 ((e, t, w) :: done) e' w'
  | _ => CS1 t [] e' w'
  end.

Definition cs_else (cs : chain_st) (t : template) : chain_st :=
  match cs with
  | CS1 b0 done e w => CE1 b0 ((e, t, w) :: done)
  | _ => CE0 t
  end.

Lemma mk_helper_hstate e0 w0 : mk_helper e0 true false w0 = hstate e0 w0 CS0.
Proof. reflexivity. Qed.

Lemma link_op_hstate e0 w0 cs t e' w' : chainable cs ->
  link_op (hstate e0 w0 cs) t e' w' = COk (hstate e0 w0 (cs_link cs t e' w')).
Proof. destruct cs; intros H; try contradiction; reflexivity. Qed.

Lemma cs_link_text cs t e' w' : chainable cs ->
  closed_text (cs_link cs t e' w') = closed_text cs ++ art_t t /\ chainable (cs_link cs t e' w').
Proof.
  destruct cs; intros H; try contradiction; cbn [cs_link closed_text chainable].
  - split; [cbn; rewrite app_nil_r; reflexivity | exact I].
  - split; [|exact I]. cbn [rev]. rewrite links_text_app. unfold links_text at 2. cbn.
    rewrite app_nil_r, app_assoc. reflexivity.
Qed.

Lemma set_chain_template_hstate e0 w0 cs t : chainable cs ->
  set_chain_template (hstate e0 w0 cs) (Some t) = COk (hstate e0 w0 (cs_else cs t)).
Proof. destruct cs; intros H; try contradiction; reflexivity. Qed.

Lemma cs_else_text cs t : chainable cs -> closed_text (cs_else cs t) = closed_text cs ++ art_t t.
Proof.
  destruct cs; intros H; try contradiction; cbn [cs_else closed_text].
  - reflexivity.
  - cbn [rev]. rewrite links_text_app. unfold links_text at 2. cbn.
    rewrite app_nil_r, app_assoc. reflexivity.
Qed.

(* the block end: whatever the state of the chain, the finished helper holds the
   stored text followed by the last body *)
Definition cs_ok (cs : chain_st) : Prop := match cs with CE1 _ [] => False | _ => True end.

Lemma chainable_ok cs : chainable cs -> cs_ok cs.
Proof. destruct cs; intros H; try contradiction; exact I. Qed.

Lemma cs_else_ok cs t : cs_ok (cs_else cs t).
Proof. destruct cs; exact I. Qed.

Lemma revert_hstate fuel e0 w0 cs prev h' :
  cs_ok cs ->
  revert_chain_and_set fuel (hstate e0 w0 cs) (Some prev) = COk h' ->
  art_h h' = closed_text cs ++ art_t prev.
Proof.
  intros Hok. destruct cs as [|b0 done e w|b0|b0 done]; unfold revert_chain_and_set;
    cbn [hstate mkh h_chain h_tpl ref_chain_head h_inv ChainSpec.wrap set_chain_head h_set_tpl h_set_inv closed_text].
  - intro H. okinv H. cbn. rewrite app_nil_r. reflexivity.
  - intro H. cinv H. okinv H.
    change (Some (MkT None [ElBlock (MkH (es_name e) (es_params e) (es_hash e) (es_bp e)
              (Some prev) (rtail done) true true w)] [])) with (rtail ((e, prev, w) :: done)) in E.
    apply revert_loop_rtail_ok in E. subst a.
    cbn [h_set_inv]. rewrite art_h_eq. cbn [oart]. rewrite oart_nest. cbn [rev oart].
    rewrite links_text_app. unfold links_text at 2. cbn. rewrite !app_nil_r, app_assoc. reflexivity.
  - intro H. okinv H. reflexivity.
  - destruct done as [|[[e b] w] r].
    + contradiction Hok.
    + cbn [rtail ChainSpec.wrap h_tpl]. intro H. cinv H. okinv H.
      change (revert_loop fuel (rtail ((e, b, w) :: r)) (Some prev) = COk a) in E.
      apply revert_loop_rtail_ok in E. subst a.
      cbn [h_set_inv]. rewrite art_h_eq. cbn [oart]. rewrite oart_nest. cbn [oart].
      rewrite app_assoc. reflexivity.
Qed.

(* ================= Part 3: one step on the block tags, with the helper / decorator stacks ================= *)
Section StepBlk.
  Variable src : str.
  Variable all : list tok.
  Variable opts : copts.

  Theorem step_blk fuel c pr it c' it' :
    step src all opts fuel c pr it = COk (c', it') ->
    let lc := line_col src (tk_start pr) in
    let cls := tag_classify (tk_rule pr) in
    exists c1, trailing_string src c pr lc = COk c1 /\
    match cls with
    | KBlockStart deco =>
        exists e t r w,
          tag_expr src fuel pr it = COk (e, it') /\
          tag_ws_stack src opts cls pr (es_pre e) (c_ts c1) = t :: r /\
          c_ts c' = t_push_map t lc :: r /\
          c_hs c' = (if deco then c_hs c1 else mk_helper e true false w :: c_hs c1) /\
          c_ds c' = (if deco then mk_deco e w :: c_ds c1 else c_ds c1)
    | KInvert chain =>
        exists e t h hs h3,
          tag_expr src fuel pr it = COk (e, it') /\
          tag_ws_stack src opts cls pr (es_pre e) (c_ts c1) = t :: c_ts c' /\
          c_hs c1 = h :: hs /\ c_hs c' = h3 :: hs /\ c_ds c' = c_ds c1 /\
          (if chain then exists w, link_op h t e w = COk h3
           else set_chain_template h (Some t) = COk h3)
    | KHelperEnd =>
        exists e prev t r h hs h',
          tag_expr src fuel pr it = COk (e, it') /\
          tag_ws_stack src opts cls pr (es_pre e) (c_ts c1) = prev :: t :: r /\
          c_hs c1 = h :: hs /\
          revert_chain_and_set fuel h (Some prev) = COk h' /\
          c_ts c' = t_push_el t (ElBlock h') :: r /\ c_hs c' = hs /\ c_ds c' = c_ds c1
    | KDecoEnd p =>
        exists e prev t r d ds,
          tag_expr src fuel pr it = COk (e, it') /\
          tag_ws_stack src opts cls pr (es_pre e) (c_ts c1) = prev :: t :: r /\
          c_ds c1 = d :: ds /\
          c_ts c' = t_push_el t (if p then ElPartBlock (d_set_tpl d (Some prev))
                                 else ElDecoBlock (d_set_tpl d (Some prev))) :: r /\
          c_hs c' = c_hs c1 /\ c_ds c' = ds
    | KValueExpr html =>
        exists e t r,
          tag_expr src fuel pr it = COk (e, it') /\
          tag_ws_stack src opts cls pr (es_pre e) (c_ts c1) = t :: r /\
          c_ts c' = t_push t (if html then ElHtml (mk_helper e false false false)
                              else ElExpr (mk_helper e false false false)) lc :: r /\
          c_hs c' = c_hs c1 /\ c_ds c' = c_ds c1
    | KDecoExpr p =>
        exists e t r w ind,
          tag_expr src fuel pr it = COk (e, it') /\
          tag_ws_stack src opts cls pr (es_pre e) (c_ts c1) = t :: r /\
          c_ts c' = t_push t (if p then ElPartExpr (d_set_indent (mk_deco e w) ind)
                              else ElDecoExpr (d_set_indent (mk_deco e w) ind)) lc :: r /\
          c_hs c' = c_hs c1 /\ c_ds c' = c_ds c1
    | _ => c_hs c' = c_hs c1 /\ c_ds c' = c_ds c1
    end.
  Proof.
    unfold step, tag_expr. intros H. cbv zeta. cinv H. rename a into c1. exists c1. split; [reflexivity|].
    clear E. fold (prev_end c) in H. cinv H. destruct a as [c2 it2].
    destruct (tag_classify (tk_rule pr)) eqn:Ecls.
    - okinv E. okinv H. split; reflexivity.
    - destruct (slice src _ _) as [txt|]; [|discriminate].
      cinv E. cinv E. okinv E. okinv H. split; reflexivity.
    - destruct (slice src _ _) as [txt|]; [|discriminate].
      cinv E. okinv E. okinv H. split; reflexivity.
    - (* block start *)
      cinv E. destruct a as [[e ts1] it1]. cinv E. destruct a as [trim ts2].
      destruct (tag_prologue_spec _ _ _ _ _ _ _ _ E0) as [Hpe ->].
      destruct (process_standalone_statement_spec _ _ _ _ _ _ _ E1) as [-> ->].
      destruct deco; cbn [c_ts] in E;
        (destruct (sa_trim src pr true (o_is_partial opts) (lead_trim (es_pre e) (c_ts c1))) as [|t r] eqn:Ets;
         [discriminate|]); okinv E; okinv H;
        exists e, t, r; eexists; (split; [exact Hpe|]);
        (split; [unfold tag_ws_stack; cbn [standalone_capable]; exact Ets|]);
        repeat split.
    - (* invert *)
      match type of E with (let '(_, _) := ?x in _) = _ => destruct x as [chain_pre ita] eqn:Epre end.
      cinv E. rename a into it0. cinv E. destruct a as [e0 it1].
      cinv E. rename a into ts1. cinv E. destruct a as [trim ts2].
      apply lead_trim_spec in E2. subst ts1.
      destruct (process_standalone_statement_spec _ _ _ _ _ _ _ E3) as [-> ->].
      destruct (sa_trim src pr true (o_is_partial opts)
                  (lead_trim (es_pre (es_or_pre e0 chain_pre)) (c_ts c1))) as [|t ts3] eqn:Ets;
        [discriminate|].
      destruct (c_hs c1) as [|h hs]; [discriminate|]. cinv E. okinv E. okinv H.
      assert (Hexpr : (if chain
                       then (let '(chain_pre0, ita0) :=
                               match it with
                               | t0 :: it0' => if is_rule R_leading_tilde_to_omit_whitespace t0
                                               then (true, it0') else (false, it)
                               | [] => (false, it)
                               end in
                             do '(_, it0') <- parse_name src fuel ita0;
                             do '(e1, it1') <- parse_expression src fuel it0' (tk_end pr);
                             COk (es_or_pre e1 chain_pre0, it1'))
                       else parse_expression src fuel it (tk_end pr))
                      = COk (es_or_pre e0 chain_pre, it')).
      { destruct chain.
        - rewrite Epre. cbv beta iota.
          destruct (parse_name src fuel ita) as [[nm it0']| | |]; cbn [cbind] in E0 |- *;
            try discriminate.
          okinv E0. rewrite E1. reflexivity.
        - okinv Epre. okinv E0. rewrite es_or_pre_false. exact E1. }
      exists (es_or_pre e0 chain_pre), t, h, hs. eexists. split.
      + destruct chain; exact Hexpr.
      + split; [unfold tag_ws_stack; cbn [standalone_capable]; exact Ets|].
        split; [reflexivity|]. split; [reflexivity|]. split; [reflexivity|].
        destruct chain.
        * eexists. unfold link_op.
          match goal with Hs : set_chain_template _ _ = COk _ |- _ => rewrite Hs end. reflexivity.
        * match goal with Hs : set_chain_template _ _ = COk _ |- _ => exact Hs end.
    - (* value expression *)
      cinv E. destruct a as [[e ts1] it1]. cinv E. okinv E. okinv H.
      destruct (tag_prologue_spec _ _ _ _ _ _ _ _ E0) as [Hpe ->].
      unfold push_front_el in E1. destruct (lead_trim (es_pre e) (c_ts c1)) as [|t r] eqn:Ets; [discriminate|].
      okinv E1. exists e, t, r. split; [exact Hpe|].
      split; [unfold tag_ws_stack; cbn [standalone_capable]; exact Ets|]. repeat split.
    - (* decorator / partial expression *)
      cinv E. destruct a as [[e ts1] it1]. cinv E. destruct a as [trim ts2]. cinv E. cinv E.
      okinv E. okinv H.
      destruct (tag_prologue_spec _ _ _ _ _ _ _ _ E0) as [Hpe ->].
      destruct (process_standalone_statement_spec _ _ _ _ _ _ _ E1) as [-> ->].
      unfold push_front_el in E3.
      destruct (sa_trim src pr (negb (partial && o_prevent_indent opts)) (o_is_partial opts)
                  (lead_trim (es_pre e) (c_ts c1))) as [|t r] eqn:Ets; [discriminate|].
      okinv E3. exists e, t, r. eexists. eexists. split; [exact Hpe|].
      split; [unfold tag_ws_stack; cbn [standalone_capable]; exact Ets|]. repeat split.
    - (* helper block end *)
      cinv E. destruct a as [[e ts1] it1]. cinv E. destruct a as [trim ts2].
      destruct (tag_prologue_spec _ _ _ _ _ _ _ _ E0) as [Hpe ->].
      destruct (process_standalone_statement_spec _ _ _ _ _ _ _ E1) as [-> ->].
      destruct (c_hs c1) as [|h hs]; [discriminate|].
      destruct (opt_str_eqb _ _); [|discriminate].
      destruct (sa_trim src pr true (o_is_partial opts) (lead_trim (es_pre e) (c_ts c1)))
        as [|prev_t ts3] eqn:Ets; [discriminate|].
      cinv E. destruct ts3 as [|t r]; [discriminate|]. okinv E. okinv H.
      exists e, prev_t, t, r, h, hs, a. split; [exact Hpe|].
      split; [unfold tag_ws_stack; cbn [standalone_capable]; exact Ets|].
      repeat split.
      match goal with Hs : revert_chain_and_set _ _ _ = COk _ |- _ => exact Hs end.
    - (* decorator / partial block end *)
      cinv E. destruct a as [[e ts1] it1]. cinv E. destruct a as [trim ts2].
      destruct (tag_prologue_spec _ _ _ _ _ _ _ _ E0) as [Hpe ->].
      destruct (process_standalone_statement_spec _ _ _ _ _ _ _ E1) as [-> ->].
      destruct (c_ds c1) as [|d ds]; [discriminate|].
      destruct (opt_str_eqb _ _); [|discriminate].
      destruct (sa_trim src pr true (o_is_partial opts) (lead_trim (es_pre e) (c_ts c1)))
        as [|prev_t ts3] eqn:Ets; [discriminate|].
      destruct ts3 as [|t r]; [discriminate|]. okinv E. okinv H.
      exists e, prev_t, t, r, d, ds. split; [exact Hpe|].
      split; [unfold tag_ws_stack; cbn [standalone_capable]; exact Ets|].
      repeat split.
    - cinv E. destruct a as [trim ts1]. cinv E. cinv E. okinv E. okinv H. split; reflexivity.
    - okinv E. okinv H. split; reflexivity.
  Qed.
End StepBlk.

(* ================= Part 4: the fold ================= *)
Section BlkFold.
  Variable src : str.
  Variable all : list tok.
  Variable opts : copts.
  Hypothesis Hesc : escapes_sorted all.

  Notation strip := (strip_tags src all).
  Notation SP := (Forall (span_ok src)).
  Notation BP := (Forall (fun t => blocks_plain_token src opts t = true)).
  Notation txt T := (all_raw_text (t_els T)).

  Lemma NT_of_BP l : BP l -> NT l.
  Proof.
    intros H. eapply Forall_impl; [|exact H]. intros t Ht. unfold blocks_plain_token in Ht.
    apply andb_true_iff in Ht. destruct Ht as [Ht _]. apply negb_true_iff in Ht. exact Ht.
  Qed.

  Lemma NT_app a b : NT a -> NT b -> NT (a ++ b).
  Proof. intros; apply Forall_app; split; assumption. Qed.

  (* the loop state between two items: no pending flag *)
  Definition Good (n k d : nat) (lo : N) (c : cstate) : Prop :=
    St n k d lo c /\ c_omit c = false /\ c_trim c = false.

  Lemma Good_pe n k d lo c : Good n k d lo c -> prev_end c = lo.
  Proof. intros [[_ E] _]. exact E. Qed.

  (* the pre-step in front of a tag: the skipped text is appended to the front template *)
  Lemma tr_blk c pr lc c1 T r lo :
    trailing_string src c pr lc = COk c1 ->
    c_omit c = false -> c_trim c = false -> prev_end c = lo -> c_ts c = T :: r ->
    lo <= tk_start pr -> tk_start pr <= len src ->
    rule_eqb (tk_rule pr) R_template = false -> rule_eqb (tk_rule pr) R_raw_text = false ->
    rule_eqb (tk_rule pr) R_raw_block_text = false ->
    (rule_eqb (tk_rule pr) R_raw_block_end = false \/ tk_start pr = lo) ->
    exists T1, c_ts c1 = T1 :: r /\ txt T1 = txt T ++ gap src lo (tk_start pr) /\
               c_omit c1 = false /\ c_trim c1 = false /\ c_hs c1 = c_hs c /\ c_ds c1 = c_ds c.
  Proof.
    intros H Eo Et Epe ET Hlo Hlen R1 R2 R3 R4.
    destruct (trailing_string_spec src c pr lc c1 H) as (Ao & Ah & Ad & _ & Hf).
    destruct (trailing_fires c pr) eqn:Ef.
    - destruct Hf as (_ & Et1 & tx & Es & Hp). unfold trailing_push in Hp.
      destruct R4 as [R4 | R4].
      + rewrite R4 in Hp. destruct Hp as (t0 & r0 & E0 & E1). rewrite ET in E0. injection E0 as <- <-.
        rewrite Et in E1. unfold ws_text in E1. rewrite Epe in Es.
        eexists. split; [exact E1|]. rewrite t_els_push, all_raw_text_app, all_raw_text_one.
        cbn [art_e]. rewrite (gap_slice _ _ _ _ Es).
        repeat split; try assumption; congruence.
      + exfalso. unfold trailing_fires in Ef. fold (prev_end c) in Ef. rewrite Epe, R4, N.eqb_refl in Ef.
        cbn [negb] in Ef. rewrite andb_false_r in Ef. cbn in Ef. discriminate.
    - subst c1. exists T. split; [exact ET|].
      unfold trailing_fires in Ef. fold (prev_end c) in Ef. rewrite Epe, R1, R2, R3, Eo in Ef.
      cbn [negb andb] in Ef. rewrite !andb_true_r in Ef. apply negb_false_iff, N.eqb_eq in Ef.
      rewrite Ef, gap_same, app_nil_r by lia. repeat split; assumption.
  Qed.

  (* without `~` tokens the expression of a tag has neither flag *)
  Lemma tag_expr_flags f pr it e it' : NT it -> tag_expr src f pr it = COk (e, it') ->
    es_pre e = false /\ es_pro e = false.
  Proof.
    intros Hnt H. unfold tag_expr in H.
    assert (Hplain : forall it0 e0 it1, NT it0 -> parse_expression src f it0 (tk_end pr) = COk (e0, it1) ->
                       es_pre e0 = false /\ es_pro e0 = false)
      by (intros; eapply parse_expression_flags; eassumption).
    destruct (tag_classify (tk_rule pr)); try (eapply Hplain; eassumption).
    destruct chain; [|eapply Hplain; eassumption].
    destruct it as [|t0 it0].
    - cbv beta iota in H. cinv H. destruct a as [nm it1]. cinv H. destruct a as [e0 it2]. okinv H.
      destruct f; discriminate.
    - assert (Ht : is_rule R_leading_tilde_to_omit_whitespace t0 = false).
      { inversion Hnt as [|x y Hp _]; subst. unfold is_tilde in Hp. apply orb_false_iff in Hp. apply Hp. }
      rewrite Ht in H. cbv beta iota in H.
      destruct (parse_name src f (t0 :: it0)) as [[nm it1]| | |] eqn:En; cbn [cbind] in H; try discriminate.
      destruct (parse_expression src f it1 (tk_end pr)) as [[e0 it2]| | |] eqn:Ee; cbn [cbind] in H;
        try discriminate.
      okinv H. destruct (parsers_sfx src f) as (_ & _ & HQN & _).
      assert (Hn1 : NT it1).
      { eapply Suffix_Forall; [|exact Hnt]. exact (sfx_ok _ _ _ _ (HQN _) En). }
      destruct (Hplain _ _ _ Hn1 Ee) as [A B]. cbn [es_or_pre es_pre es_pro]. rewrite A, B. split; reflexivity.
  Qed.

  Lemma bp_standalone pr : blocks_plain_token src opts pr = true ->
    match standalone_capable opts (tag_classify (tk_rule pr)) with
    | None => True
    | Some pi => line_end_after src pr (o_is_partial opts) && (pi && line_start_before src pr) = false
    end /\
    match tag_classify (tk_rule pr) with
    | KBlockStart _ | KInvert _ | KHelperEnd | KDecoEnd _ | KDecoExpr _ | KComment _ =>
        standalone src pr (o_is_partial opts) = false
    | _ => True
    end.
  Proof.
    unfold blocks_plain_token. intros H. apply andb_true_iff in H. destruct H as [_ H].
    destruct (tag_classify (tk_rule pr)); cbn [standalone_capable]; try (split; exact I);
      apply negb_true_iff in H; (split; [apply standalone_false_sa; exact H | exact H]).
  Qed.

  (* the common part of every tag that carries an expression *)
  Lemma tag_core f c pr it c' it' T r lo :
    step src all opts f c pr it = COk (c', it') ->
    expr_class (tag_classify (tk_rule pr)) = true ->
    c_omit c = false -> c_trim c = false -> prev_end c = lo -> c_ts c = T :: r ->
    lo <= tk_start pr -> tk_start pr <= len src ->
    (rule_eqb (tk_rule pr) R_raw_block_end = false \/ tk_start pr = lo) ->
    blocks_plain_token src opts pr = true -> NT it ->
    exists c1 T1 e,
      trailing_string src c pr (line_col src (tk_start pr)) = COk c1 /\
      c_ts c1 = T1 :: r /\ txt T1 = txt T ++ gap src lo (tk_start pr) /\
      c_hs c1 = c_hs c /\ c_ds c1 = c_ds c /\
      tag_expr src f pr it = COk (e, it') /\
      tag_ws_stack src opts (tag_classify (tk_rule pr)) pr (es_pre e) (c_ts c1) = c_ts c1 /\
      c_omit c' = false /\ c_trim c' = false.
  Proof.
    intros Es Hcls Eo Et Epe ET Hlo Hlen R4 Hbp Hnt.
    destruct (step_ws src all opts _ _ _ _ _ _ Es) as (c1 & Htr & Hw). cbv zeta in Hw.
    assert (R123 : rule_eqb (tk_rule pr) R_template = false /\ rule_eqb (tk_rule pr) R_raw_text = false
                   /\ rule_eqb (tk_rule pr) R_raw_block_text = false).
    { destruct (tk_rule pr); cbn in Hcls; try discriminate Hcls; repeat split; reflexivity. }
    destruct R123 as (R1 & R2 & R3).
    destruct (tr_blk c pr _ c1 T r lo Htr Eo Et Epe ET Hlo Hlen R1 R2 R3 R4)
      as (T1 & ET1 & EA1 & Eo1 & Et1 & Eh1 & Ed1).
    destruct (bp_standalone pr Hbp) as [Hsa1 Hsa2].
    assert (Hall : exists e, tag_expr src f pr it = COk (e, it') /\ c_omit c' = es_pro e /\
              c_trim c' = match tag_classify (tk_rule pr) with
                          | KValueExpr _ => false | _ => standalone src pr (o_is_partial opts) end).
    { destruct (tag_classify (tk_rule pr)); try discriminate Hcls;
        destruct Hw as (e & H1 & H2 & H3 & _); exists e; repeat split; assumption. }
    destruct Hall as (e & Hex & Ho' & Ht').
    destruct (tag_expr_flags _ _ _ _ _ Hnt Hex) as [Epre Epro].
    exists c1, T1, e. repeat split; try assumption.
    - rewrite Epre. apply tag_ws_stack_id. exact Hsa1.
    - congruence.
    - rewrite Ht'. destruct (tag_classify (tk_rule pr)); try reflexivity; try discriminate Hcls; exact Hsa2.
  Qed.

  Lemma strip_tag_cons pr l rest lo :
    Forall kid_tok l ->
    match tag_classify (tk_rule pr) with
    | KTemplate | KOtherRule | KRawText | KRawBlockText => False | _ => True end ->
    strip (pr :: l ++ rest) lo = gap src lo (tk_start pr) ++ strip rest (tk_end pr).
  Proof.
    intros Hk Hc. cbn [strip_tags]. destruct (tag_classify (tk_rule pr)); try contradiction;
      rewrite strip_kids by exact Hk; reflexivity.
  Qed.

  Lemma txt_push_map T lc : txt (t_push_map T lc) = txt T.
  Proof. destruct T; reflexivity. Qed.
  Lemma txt_push_el T e : txt (t_push_el T e) = txt T ++ art_e e.
  Proof. destruct T as [n es m]. cbn [t_push_el t_els]. rewrite all_raw_text_app, all_raw_text_one. reflexivity. Qed.
  Lemma txt_push T e lc : txt (t_push T e lc) = txt T ++ art_e e.
  Proof. rewrite t_els_push, all_raw_text_app, all_raw_text_one. reflexivity. Qed.

  Lemma cok_inj {A} (a b : A) : COk a = COk b -> a = b.
  Proof. intro H. injection H. auto. Qed.

  (* ---------- single steps ---------- *)
  (* raw text *)
  Lemma S_raw f c s e rest c' it' n k d lo T r0 :
    step src all opts f c (R_raw_text, s, e) rest = COk (c', it') ->
    Good n k d lo c -> (1 <= n)%nat -> c_ts c = T :: r0 -> lo <= s -> span_ok src (R_raw_text, s, e) ->
    it' = rest /\ Good n k d e c' /\ c_hs c' = c_hs c /\ c_ds c' = c_ds c /\
    exists T', c_ts c' = T' :: r0 /\
               txt T' ++ strip rest e = txt T ++ strip ((R_raw_text, s, e) :: rest) lo.
  Proof.
    intros Es HG Hn ET Hlo Hsp. pose proof (Good_pe _ _ _ _ _ HG) as Epe. destruct HG as (HSt & Eo & Et).
    pose proof (okres_ok _ _ _ (step_raw_text src all opts Hesc f c s e rest n k d lo HSt Hn Hlo Hsp) Es) as [E1 E2].
    cbn [fst snd] in E1, E2.
    destruct (text_element src all opts _ _ _ _ _ _ Es eq_refl)
      as (tx & s0 & t0 & r1 & Esl & Eun & Ets & Ets' & Eo' & Et' & _).
    destruct (step_blk src all opts _ _ _ _ _ _ Es) as (c1 & Htr & Hb). cbv zeta in Hb.
    cbn [tk_rule fst snd tag_classify] in Hb. destruct Hb as [Hh Hd].
    pose proof (trailing_string_text src c _ _ c1 Htr) as Hc1. cbn [tk_rule fst snd tag_classify] in Hc1. subst c1.
    rewrite ET in Ets. injection Ets as <- <-.
    rewrite Eo, Et in Ets'. unfold ws_text in Ets'. rewrite Epe in Esl. cbn [tk_end snd] in Esl.
    split; [exact E1|]. split; [split; [exact E2 | split; [congruence | exact Et']]|].
    split; [exact Hh|]. split; [exact Hd|].
    eexists. split; [exact Ets'|]. rewrite txt_push. cbn [art_e].
    cbn [strip_tags tk_rule tk_end fst snd tag_classify]. rewrite (gap_slice _ _ _ _ Esl).
    unfold unesc. rewrite Eun. rewrite app_assoc. reflexivity.
  Qed.

  (* {{x}} {{{x}}} {{> p}} {{* d}} *)
  Lemma S_tag f c r s e l rest c' it' n k d lo T r0 :
    step src all opts f c (r, s, e) (l ++ rest) = COk (c', it') ->
    simple_tag r -> Good n k d lo c -> (1 <= n)%nat -> c_ts c = T :: r0 -> lo <= s ->
    span_ok src (r, s, e) -> tag_toks e l -> SP l -> KID l -> next_ge e rest ->
    blocks_plain_token src opts (r, s, e) = true -> NT (l ++ rest) ->
    it' = rest /\ Good n k d e c' /\ c_hs c' = c_hs c /\ c_ds c' = c_ds c /\
    exists T', c_ts c' = T' :: r0 /\
               txt T' ++ strip rest e = txt T ++ strip ((r, s, e) :: l ++ rest) lo.
  Proof.
    intros Es Hr HG Hn ET Hlo Hsp Ht Hsl Hk Hnx Hbp Hnt.
    pose proof (Good_pe _ _ _ _ _ HG) as Epe. destruct HG as (HSt & Eo & Et).
    pose proof Hsp as [Hse Hel]. cbn [tk_start tk_end fst snd] in Hse, Hel.
    destruct (simple_tag_rules r Hr) as (_ & _ & _ & R4).
    assert (Hcls : expr_class (tag_classify r) = true)
      by (destruct Hr as [E | [E | [E | E]]]; subst r; reflexivity).
    destruct (tag_core f c (r, s, e) _ c' it' T r0 lo Es Hcls Eo Et Epe ET) as
      (c1 & T1 & ex & Htr & ET1 & EA1 & Eh1 & Ed1 & Hex & Hws & Eo' & Et');
      try assumption; [cbn; lia | left; exact R4 |].
    cbn [tk_start tk_rule fst snd] in *.
    destruct (step_blk src all opts _ _ _ _ _ _ Es) as (c1' & Htr' & Hb). cbv zeta in Hb.
    cbn [tk_start tk_rule fst snd] in Htr', Hb.
    rewrite Htr in Htr'. apply cok_inj in Htr'. subst c1'.
    assert (Hstrip : strip ((r, s, e) :: l ++ rest) lo = gap src lo s ++ strip rest e).
    { apply (strip_tag_cons (r, s, e)); [exact Hk|].
      destruct Hr as [E | [E | [E | E]]]; subst r; exact I. }
    rewrite Hstrip.
    destruct (simple_tag_class r Hr) as (b & [Hc | Hc]).
    - pose proof (okres_ok _ _ _ (step_value src all opts f c r s e l rest n k d lo b Hc
                    HSt Hn Hlo Hsp Ht Hsl Hnx) Es) as [E1 E2].
      cbn [fst snd] in E1, E2.
      rewrite Hc in Hb, Hws. destruct Hb as (e2 & t0 & r1 & Hex2 & Hst & Ets' & Hh & Hd).
      rewrite Hex in Hex2. apply cok_inj in Hex2. injection Hex2 as <-.
      rewrite Hws, ET1 in Hst. injection Hst as <- <-.
      split; [exact E1|]. split; [split; [exact E2 | split; assumption]|].
      split; [congruence|]. split; [congruence|].
      eexists. split; [exact Ets'|]. rewrite txt_push, EA1.
      destruct b; cbn [art_e art_h mk_helper]; rewrite !app_nil_r, <- ?app_assoc; reflexivity.
    - pose proof (okres_ok _ _ _ (step_deco_expr src all opts f c r s e l rest n k d lo b Hc
                    HSt Hn Hlo Hsp Ht Hsl Hnx) Es) as [E1 E2].
      cbn [fst snd] in E1, E2.
      rewrite Hc in Hb, Hws. destruct Hb as (e2 & t0 & r1 & w & ind & Hex2 & Hst & Ets' & Hh & Hd).
      rewrite Hex in Hex2. apply cok_inj in Hex2. injection Hex2 as <-.
      rewrite Hws, ET1 in Hst. injection Hst as <- <-.
      split; [exact E1|]. split; [split; [exact E2 | split; assumption]|].
      split; [congruence|]. split; [congruence|].
      eexists. split; [exact Ets'|]. rewrite txt_push, EA1.
      destruct b; cbn [art_e art_d mk_deco d_set_indent]; rewrite !app_nil_r, <- ?app_assoc; reflexivity.
  Qed.

  (* comments *)
  Lemma S_comment f c r s e rest c' it' n k d lo T r0 :
    step src all opts f c (r, s, e) rest = COk (c', it') ->
    comment_rule r -> Good n k d lo c -> (1 <= n)%nat -> c_ts c = T :: r0 -> lo <= s ->
    span_ok src (r, s, e) -> blocks_plain_token src opts (r, s, e) = true ->
    it' = rest /\ Good n k d e c' /\ c_hs c' = c_hs c /\ c_ds c' = c_ds c /\
    exists T', c_ts c' = T' :: r0 /\
               txt T' ++ strip rest e = txt T ++ strip ((r, s, e) :: rest) lo.
  Proof.
    intros Es Hr HG Hn ET Hlo Hsp Hbp.
    pose proof (Good_pe _ _ _ _ _ HG) as Epe. destruct HG as (HSt & Eo & Et).
    pose proof Hsp as [Hse Hel]. cbn [tk_start tk_end fst snd] in Hse, Hel.
    assert (exists compact, tag_classify r = KComment compact) as (compact & Hc)
      by (destruct Hr as [-> | ->]; eexists; reflexivity).
    destruct (step_ws src all opts _ _ _ _ _ _ Es) as (c1 & Htr & Hw). cbv zeta in Hw.
    cbn [tk_rule tk_start fst snd] in Hw, Htr.
    destruct (tr_blk c (r, s, e) _ c1 T r0 lo Htr Eo Et Epe ET) as
      (T1 & ET1 & EA1 & Eo1 & Et1 & Eh1 & Ed1);
      try (cbn; lia); try (destruct Hr as [-> | ->]; reflexivity);
      [left; destruct Hr as [-> | ->]; reflexivity|].
    cbn [tk_start fst snd] in EA1.
    pose proof (okres_ok _ _ _ (step_comment src all opts f c r s e rest n k d lo compact Hc
                  HSt Hn Hlo Hsp) Es) as [E1 E2].
    cbn [fst snd] in E1, E2.
    rewrite Hc in Hw. destruct Hw as (Eo' & Et' & Hown & _).
    destruct (bp_standalone _ Hbp) as [Hsa1 Hsa2]. cbn [tk_rule fst snd] in Hsa1, Hsa2.
    rewrite Hc in Hsa1, Hsa2.
    rewrite tag_ws_stack_id in Hown by exact Hsa1.
    destruct Hown as (t0 & r1 & s0 & E0 & E'). rewrite ET1 in E0. injection E0 as <- <-.
    destruct (step_blk src all opts _ _ _ _ _ _ Es) as (c1' & Htr' & Hb). cbv zeta in Hb.
    cbn [tk_start tk_rule fst snd] in Htr', Hb.
    rewrite Htr in Htr'. apply cok_inj in Htr'. subst c1'. rewrite Hc in Hb. destruct Hb as [Hh Hd].
    split; [exact E1|]. split; [split; [exact E2 | split; [exact Eo' | rewrite Et'; exact Hsa2]]|].
    split; [congruence|]. split; [congruence|].
    eexists. split; [exact E'|]. rewrite txt_push, EA1. cbn [art_e]. rewrite app_nil_r.
    cbn [strip_tags tk_rule tk_start tk_end fst snd]. rewrite Hc. rewrite <- app_assoc. reflexivity.
  Qed.

  (* the `template` token in front of a body *)
  Lemma S_template f c s e rest c' it' n k d lo :
    step src all opts f c (R_template, s, e) rest = COk (c', it') ->
    Good n k d lo c ->
    it' = rest /\ Good (S n) k d lo c' /\ c_hs c' = c_hs c /\ c_ds c' = c_ds c /\
    c_ts c' = t_empty :: c_ts c.
  Proof.
    intros Es (HSt & Eo & Et).
    pose proof (okres_ok _ _ _ (step_template src all opts f c s e rest n k d lo HSt) Es) as [E1 E2].
    cbn [fst snd] in E1, E2.
    destruct (step_ws src all opts _ _ _ _ _ _ Es) as (c1 & Htr & Hw). cbv zeta in Hw.
    cbn [tk_rule fst snd tag_classify] in Hw. destruct Hw as (Eo' & Et' & Ets' & _).
    destruct (step_blk src all opts _ _ _ _ _ _ Es) as (c1' & Htr' & Hb). cbv zeta in Hb.
    cbn [tk_rule fst snd tag_classify] in Hb. rewrite Htr in Htr'. apply cok_inj in Htr'. subst c1'.
    pose proof (trailing_string_text src c _ _ c1 Htr) as Hc1. cbn [tk_rule fst snd tag_classify] in Hc1. subst c1.
    destruct Hb as [Hh Hd].
    split; [exact E1|]. split; [split; [exact E2 | split; congruence]|]. repeat split; assumption.
  Qed.


  (* block start tags *)
  Lemma S_bstart f c r s e l rest c' it' n k d lo T r0 deco :
    step src all opts f c (r, s, e) (l ++ rest) = COk (c', it') ->
    tag_classify r = KBlockStart deco -> Good n k d lo c -> (1 <= n)%nat -> c_ts c = T :: r0 -> lo <= s ->
    span_ok src (r, s, e) -> tag_toks e l -> SP l -> KID l -> next_ge e rest ->
    blocks_plain_token src opts (r, s, e) = true -> NT (l ++ rest) ->
    it' = rest /\ Good n (if deco then k else S k) (if deco then S d else d) e c' /\
    exists T1 ex w,
      c_ts c' = T1 :: r0 /\ txt T1 = txt T ++ gap src lo s /\
      c_hs c' = (if deco then c_hs c else hstate ex w CS0 :: c_hs c) /\
      c_ds c' = (if deco then mk_deco ex w :: c_ds c else c_ds c) /\
      strip ((r, s, e) :: l ++ rest) lo = gap src lo s ++ strip rest e.
  Proof.
    intros Es Hc HG Hn ET Hlo Hsp Ht Hsl Hk Hnx Hbp Hnt.
    pose proof (Good_pe _ _ _ _ _ HG) as Epe. destruct HG as (HSt & Eo & Et).
    pose proof Hsp as [Hse Hel]. cbn [tk_start tk_end fst snd] in Hse, Hel.
    assert (R4 : rule_eqb r R_raw_block_end = false) by (destruct r; cbn in Hc; try discriminate Hc; reflexivity).
    assert (Hcls : expr_class (tag_classify r) = true) by (rewrite Hc; reflexivity).
    destruct (tag_core f c (r, s, e) _ c' it' T r0 lo Es Hcls Eo Et Epe ET) as
      (c1 & T1 & ex & Htr & ET1 & EA1 & Eh1 & Ed1 & Hex & Hws & Eo' & Et');
      try assumption; [cbn; lia | left; exact R4 |].
    cbn [tk_start tk_rule fst snd] in *.
    destruct (step_blk src all opts _ _ _ _ _ _ Es) as (c1' & Htr' & Hb). cbv zeta in Hb.
    cbn [tk_start tk_rule fst snd] in Htr', Hb.
    rewrite Htr in Htr'. apply cok_inj in Htr'. subst c1'.
    pose proof (okres_ok _ _ _ (step_block_start src all opts f c r s e l rest n k d lo deco Hc
                  HSt Hn Hlo Hsp Ht Hsl Hnx) Es) as [E1 E2].
    cbn [fst snd] in E1, E2.
    rewrite Hc in Hb, Hws. destruct Hb as (e2 & t0 & r1 & w & Hex2 & Hst & Ets' & Hh & Hd).
    rewrite Hex in Hex2. apply cok_inj in Hex2. injection Hex2 as <-.
    rewrite Hws, ET1 in Hst. injection Hst as <- <-.
    split; [exact E1|]. split; [split; [exact E2 | split; assumption]|].
    exists (t_push_map T1 (line_col src s)), ex, w.
    split; [exact Ets'|]. split; [rewrite txt_push_map; exact EA1|].
    split; [rewrite Hh, Eh1; destruct deco; reflexivity|].
    split; [rewrite Hd, Ed1; reflexivity|].
    apply (strip_tag_cons (r, s, e)); [exact Hk|]. cbn [tk_rule fst]. rewrite Hc. exact I.
  Qed.

  (* the body of a raw block *)
  Lemma S_rawbody f c s e rest c' it' n k d lo :
    step src all opts f c (R_raw_block_text, s, e) rest = COk (c', it') ->
    Good n k d lo c -> (1 <= n)%nat -> lo <= s -> span_ok src (R_raw_block_text, s, e) ->
    it' = rest /\ Good (S n) k d e c' /\ c_hs c' = c_hs c /\ c_ds c' = c_ds c /\
    exists Tb, c_ts c' = Tb :: c_ts c /\
               txt Tb ++ strip rest e = strip ((R_raw_block_text, s, e) :: rest) lo.
  Proof.
    intros Es HG Hn Hlo Hsp. pose proof (Good_pe _ _ _ _ _ HG) as Epe. destruct HG as (HSt & Eo & Et).
    pose proof (okres_ok _ _ _ (step_raw_block_text src all opts Hesc f c s e rest n k d lo HSt Hn Hlo Hsp) Es)
      as [E1 E2].
    cbn [fst snd] in E1, E2.
    destruct (raw_block_text_element src all opts _ _ _ _ _ _ Es eq_refl)
      as (tx & s0 & Esl & Eun & Ets' & Eo' & Et' & _).
    destruct (step_blk src all opts _ _ _ _ _ _ Es) as (c1 & Htr & Hb). cbv zeta in Hb.
    cbn [tk_rule fst snd tag_classify] in Hb. destruct Hb as [Hh Hd].
    pose proof (trailing_string_text src c _ _ c1 Htr) as Hc1. cbn [tk_rule fst snd tag_classify] in Hc1. subst c1.
    rewrite Eo, Et in Ets'. unfold ws_text in Ets'. rewrite Epe in Esl. cbn [tk_end snd] in Esl.
    split; [exact E1|]. split; [split; [exact E2 | split; congruence]|].
    split; [exact Hh|]. split; [exact Hd|].
    eexists. split; [exact Ets'|]. rewrite txt_push. cbn [art_e t_empty t_els all_raw_text map concat app].
    cbn [strip_tags tk_rule tk_end fst snd tag_classify]. rewrite (gap_slice _ _ _ _ Esl).
    unfold unesc. rewrite Eun. reflexivity.
  Qed.

  (* {{else if ..}} *)
  Lemma S_chain f c s e tl si ei l rest c' it' n k d lo Tb r0 e0 w0 cs hs :
    step src all opts f c (R_invert_chain_tag, s, e) (tl ++ (R_invert_tag_item, si, ei) :: l ++ rest)
      = COk (c', it') ->
    Good (S n) (S k) d lo c -> c_ts c = Tb :: r0 -> c_hs c = hstate e0 w0 cs :: hs -> chainable cs ->
    lo <= s -> span_ok src (R_invert_chain_tag, s, e) -> opt_tilde tl ->
    span_ok src (R_invert_tag_item, si, ei) -> tag_toks e l -> SP l ->
    KID (tl ++ (R_invert_tag_item, si, ei) :: l) -> next_ge e rest ->
    blocks_plain_token src opts (R_invert_chain_tag, s, e) = true ->
    NT (tl ++ (R_invert_tag_item, si, ei) :: l ++ rest) ->
    it' = rest /\ Good n (S k) d e c' /\ c_ts c' = r0 /\ c_ds c' = c_ds c /\
    exists cs', c_hs c' = hstate e0 w0 cs' :: hs /\ chainable cs' /\
      closed_text cs' ++ strip rest e
      = closed_text cs ++ txt Tb
        ++ strip ((R_invert_chain_tag, s, e) :: (tl ++ (R_invert_tag_item, si, ei) :: l) ++ rest) lo.
  Proof.
    intros Es HG ET EH Hch Hlo Hsp Htl Hspi Ht Hsl Hk Hnx Hbp Hnt.
    pose proof (Good_pe _ _ _ _ _ HG) as Epe. destruct HG as (HSt & Eo & Et).
    pose proof Hsp as [Hse Hel]. cbn [tk_start tk_end fst snd] in Hse, Hel.
    destruct (tag_core f c (R_invert_chain_tag, s, e) _ c' it' Tb r0 lo Es eq_refl Eo Et Epe ET) as
      (c1 & T1 & ex & Htr & ET1 & EA1 & Eh1 & Ed1 & Hex & Hws & Eo' & Et');
      try assumption; [cbn; lia | left; reflexivity |].
    cbn [tk_start tk_rule fst snd tag_classify] in *.
    destruct (step_blk src all opts _ _ _ _ _ _ Es) as (c1' & Htr' & Hb). cbv zeta in Hb.
    cbn [tk_start tk_rule fst snd tag_classify] in Htr', Hb.
    rewrite Htr in Htr'. apply cok_inj in Htr'. subst c1'.
    pose proof (okres_ok _ _ _ (step_invert_chain src all opts f c s e tl si ei l rest n k d lo
                  HSt Hlo Hsp Htl Hspi Ht Hsl Hnx) Es) as [E1 E2].
    cbn [fst snd] in E1, E2.
    destruct Hb as (e2 & t0 & h & hs' & h3 & Hex2 & Hst & Eh & Eh' & Ed' & (w & Hlink)).
    rewrite Hex in Hex2. apply cok_inj in Hex2. injection Hex2 as <-.
    rewrite Hws, ET1 in Hst. injection Hst as <- Er0.
    rewrite Eh1, EH in Eh. injection Eh as <- <-.
    rewrite (link_op_hstate e0 w0 cs T1 ex w Hch) in Hlink. apply cok_inj in Hlink. subst h3.
    destruct (cs_link_text cs T1 ex w Hch) as [Etx Hch'].
    split; [exact E1|]. split; [split; [exact E2 | split; assumption]|].
    split; [symmetry; exact Er0|]. split; [congruence|].
    exists (cs_link cs T1 ex w). split; [exact Eh'|]. split; [exact Hch'|].
    rewrite Etx, art_t_t_els, EA1.
    rewrite <- (app_assoc (closed_text cs)). f_equal.
    rewrite <- (app_assoc (txt Tb)). f_equal. symmetry.
    apply (strip_tag_cons (R_invert_chain_tag, s, e)); [exact Hk | exact I].
  Qed.


  (* {{else}} *)
  Lemma S_else f c s e l rest c' it' n k d lo Tb r0 e0 w0 cs hs :
    step src all opts f c (R_invert_tag, s, e) (l ++ rest) = COk (c', it') ->
    Good (S n) (S k) d lo c -> c_ts c = Tb :: r0 -> c_hs c = hstate e0 w0 cs :: hs -> chainable cs ->
    lo <= s -> span_ok src (R_invert_tag, s, e) -> tag_toks e l -> SP l -> KID l -> next_ge e rest ->
    blocks_plain_token src opts (R_invert_tag, s, e) = true -> NT (l ++ rest) ->
    it' = rest /\ Good n (S k) d e c' /\ c_ts c' = r0 /\ c_ds c' = c_ds c /\
    exists cs', c_hs c' = hstate e0 w0 cs' :: hs /\ cs_ok cs' /\
      closed_text cs' ++ strip rest e
      = closed_text cs ++ txt Tb ++ strip ((R_invert_tag, s, e) :: l ++ rest) lo.
  Proof.
    intros Es HG ET EH Hch Hlo Hsp Ht Hsl Hk Hnx Hbp Hnt.
    pose proof (Good_pe _ _ _ _ _ HG) as Epe. destruct HG as (HSt & Eo & Et).
    pose proof Hsp as [Hse Hel]. cbn [tk_start tk_end fst snd] in Hse, Hel.
    destruct (tag_core f c (R_invert_tag, s, e) _ c' it' Tb r0 lo Es eq_refl Eo Et Epe ET) as
      (c1 & T1 & ex & Htr & ET1 & EA1 & Eh1 & Ed1 & Hex & Hws & Eo' & Et');
      try assumption; [cbn; lia | left; reflexivity |].
    cbn [tk_start tk_rule fst snd tag_classify] in *.
    destruct (step_blk src all opts _ _ _ _ _ _ Es) as (c1' & Htr' & Hb). cbv zeta in Hb.
    cbn [tk_start tk_rule fst snd tag_classify] in Htr', Hb.
    rewrite Htr in Htr'. apply cok_inj in Htr'. subst c1'.
    pose proof (okres_ok _ _ _ (step_invert_plain src all opts f c s e l rest n k d lo
                  HSt Hlo Hsp Ht Hsl Hnx) Es) as [E1 E2].
    cbn [fst snd] in E1, E2.
    destruct Hb as (e2 & t0 & h & hs' & h3 & Hex2 & Hst & Eh & Eh' & Ed' & Hset).
    rewrite Hex in Hex2. apply cok_inj in Hex2. injection Hex2 as <-.
    rewrite Hws, ET1 in Hst. injection Hst as <- Er0.
    rewrite Eh1, EH in Eh. injection Eh as <- <-.
    rewrite (set_chain_template_hstate e0 w0 cs T1 Hch) in Hset. apply cok_inj in Hset. subst h3.
    split; [exact E1|]. split; [split; [exact E2 | split; assumption]|].
    split; [symmetry; exact Er0|]. split; [congruence|].
    exists (cs_else cs T1). split; [exact Eh'|]. split; [apply cs_else_ok|].
    rewrite (cs_else_text cs T1 Hch), art_t_t_els, EA1.
    rewrite <- (app_assoc (closed_text cs)). f_equal.
    rewrite <- (app_assoc (txt Tb)). f_equal. symmetry.
    apply (strip_tag_cons (R_invert_tag, s, e)); [exact Hk | exact I].
  Qed.

  (* {{/name}} of a helper block, {{{{/name}}}} of a raw block *)
  Lemma S_hend f c r s e l rest c' it' n k d lo Tb P r0 e0 w0 cs hs :
    step src all opts f c (r, s, e) (l ++ rest) = COk (c', it') ->
    tag_classify r = KHelperEnd ->
    Good (S (S n)) (S k) d lo c -> c_ts c = Tb :: P :: r0 -> c_hs c = hstate e0 w0 cs :: hs -> cs_ok cs ->
    lo <= s -> (rule_eqb r R_raw_block_end = false \/ s = lo) ->
    span_ok src (r, s, e) -> tag_toks e l -> SP l -> KID l -> next_ge e rest ->
    blocks_plain_token src opts (r, s, e) = true -> NT (l ++ rest) ->
    it' = rest /\ Good (S n) k d e c' /\ c_hs c' = hs /\ c_ds c' = c_ds c /\
    exists P', c_ts c' = P' :: r0 /\
      txt P' ++ strip rest e
      = txt P ++ closed_text cs ++ txt Tb ++ strip ((r, s, e) :: l ++ rest) lo.
  Proof.
    intros Es Hc HG ET EH Hok Hlo R4 Hsp Ht Hsl Hk Hnx Hbp Hnt.
    pose proof (Good_pe _ _ _ _ _ HG) as Epe. destruct HG as (HSt & Eo & Et).
    pose proof Hsp as [Hse Hel]. cbn [tk_start tk_end fst snd] in Hse, Hel.
    assert (Hcls : expr_class (tag_classify r) = true) by (rewrite Hc; reflexivity).
    destruct (tag_core f c (r, s, e) _ c' it' Tb (P :: r0) lo Es Hcls Eo Et Epe ET) as
      (c1 & T1 & ex & Htr & ET1 & EA1 & Eh1 & Ed1 & Hex & Hws & Eo' & Et');
      try assumption; [cbn; lia|].
    cbn [tk_start tk_rule fst snd] in *.
    destruct (step_blk src all opts _ _ _ _ _ _ Es) as (c1' & Htr' & Hb). cbv zeta in Hb.
    cbn [tk_start tk_rule fst snd] in Htr', Hb.
    rewrite Htr in Htr'. apply cok_inj in Htr'. subst c1'.
    pose proof (okres_ok _ _ _ (step_helper_end src all opts f c r s e l rest n k d lo Hc
                  HSt Hlo Hsp Ht Hsl Hnx) Es) as [E1 E2].
    cbn [fst snd] in E1, E2.
    rewrite Hc in Hb, Hws. destruct Hb as (e2 & prev & t0 & r1 & h & hs' & h' & Hex2 & Hst & Eh & Hrev & Ets' & Eh' & Ed').
    rewrite Hex in Hex2. apply cok_inj in Hex2. injection Hex2 as <-.
    rewrite Hws, ET1 in Hst. injection Hst as <- <- <-.
    rewrite Eh1, EH in Eh. injection Eh as <- <-.
    pose proof (revert_hstate _ _ _ _ _ _ Hok Hrev) as Htxt.
    split; [exact E1|]. split; [split; [exact E2 | split; assumption]|].
    split; [exact Eh'|]. split; [congruence|].
    eexists. split; [exact Ets'|]. rewrite txt_push_el. cbn [art_e]. rewrite Htxt, art_t_t_els, EA1.
    rewrite <- (app_assoc (txt P)). f_equal.
    rewrite <- (app_assoc (closed_text cs)). f_equal.
    rewrite <- (app_assoc (txt Tb)). f_equal. symmetry.
    apply (strip_tag_cons (r, s, e)); [exact Hk |]. cbn [tk_rule fst]. rewrite Hc. exact I.
  Qed.

  (* {{/inline}} / {{/partial}} *)
  Lemma S_dend f c r s e l rest c' it' n k d lo Tb P r0 d0 ds part :
    step src all opts f c (r, s, e) (l ++ rest) = COk (c', it') ->
    tag_classify r = KDecoEnd part ->
    Good (S (S n)) k (S d) lo c -> c_ts c = Tb :: P :: r0 -> c_ds c = d0 :: ds ->
    lo <= s -> span_ok src (r, s, e) -> tag_toks e l -> SP l -> KID l -> next_ge e rest ->
    blocks_plain_token src opts (r, s, e) = true -> NT (l ++ rest) ->
    it' = rest /\ Good (S n) k d e c' /\ c_hs c' = c_hs c /\ c_ds c' = ds /\
    exists P', c_ts c' = P' :: r0 /\
      txt P' ++ strip rest e = txt P ++ txt Tb ++ strip ((r, s, e) :: l ++ rest) lo.
  Proof.
    intros Es Hc HG ET ED Hlo Hsp Ht Hsl Hk Hnx Hbp Hnt.
    pose proof (Good_pe _ _ _ _ _ HG) as Epe. destruct HG as (HSt & Eo & Et).
    pose proof Hsp as [Hse Hel]. cbn [tk_start tk_end fst snd] in Hse, Hel.
    assert (Hcls : expr_class (tag_classify r) = true) by (rewrite Hc; reflexivity).
    assert (R4 : rule_eqb r R_raw_block_end = false) by (destruct r; cbn in Hc; try discriminate Hc; reflexivity).
    destruct (tag_core f c (r, s, e) _ c' it' Tb (P :: r0) lo Es Hcls Eo Et Epe ET) as
      (c1 & T1 & ex & Htr & ET1 & EA1 & Eh1 & Ed1 & Hex & Hws & Eo' & Et');
      try assumption; [cbn; lia | left; exact R4 |].
    cbn [tk_start tk_rule fst snd] in *.
    destruct (step_blk src all opts _ _ _ _ _ _ Es) as (c1' & Htr' & Hb). cbv zeta in Hb.
    cbn [tk_start tk_rule fst snd] in Htr', Hb.
    rewrite Htr in Htr'. apply cok_inj in Htr'. subst c1'.
    pose proof (okres_ok _ _ _ (step_deco_end src all opts f c r s e l rest n k d lo part Hc
                  HSt Hlo Hsp Ht Hsl Hnx) Es) as [E1 E2].
    cbn [fst snd] in E1, E2.
    rewrite Hc in Hb, Hws. destruct Hb as (e2 & prev & t0 & r1 & dd & ds' & Hex2 & Hst & Edd & Ets' & Eh' & Ed').
    rewrite Hex in Hex2. apply cok_inj in Hex2. injection Hex2 as <-.
    rewrite Hws, ET1 in Hst. injection Hst as <- <- <-.
    rewrite Ed1, ED in Edd. injection Edd as <- <-.
    split; [exact E1|]. split; [split; [exact E2 | split; assumption]|].
    split; [congruence|]. split; [exact Ed'|].
    eexists. split; [exact Ets'|]. rewrite txt_push_el.
    assert (Hd : forall dx, art_d (d_set_tpl dx (Some T1)) = txt T1)
      by (intros [? ? ? ? ? ?]; cbn [d_set_tpl art_d]; apply art_t_t_els).
    replace (art_e (if part then ElPartBlock (d_set_tpl d0 (Some T1)) else ElDecoBlock (d_set_tpl d0 (Some T1))))
      with (txt T1) by (destruct part; cbn [art_e]; symmetry; apply Hd).
    rewrite EA1.
    rewrite <- (app_assoc (txt P)). f_equal.
    rewrite <- (app_assoc (txt Tb)). f_equal. symmetry.
    apply (strip_tag_cons (r, s, e)); [exact Hk |]. cbn [tk_rule fst]. rewrite Hc. exact I.
  Qed.


  (* ---------- the fold, continuation style ---------- *)
  Definition K0 (rest : list tok) (n k d : nat) (hi : N) (r0 : list template)
             (hs : list helper_t) (ds : list deco_t) (target : str) (Q : template -> Prop) : Prop :=
    forall fuel c' t T', main_loop src all opts fuel c' rest = COk t ->
      Good n k d hi c' -> c_ts c' = T' :: r0 -> c_hs c' = hs -> c_ds c' = ds ->
      txt T' ++ strip rest hi = target -> Q t.

  Definition Ktm (rest : list tok) (n k d : nat) (hi : N) (ts0 : list template)
             (hs : list helper_t) (ds : list deco_t) (target : str) (Q : template -> Prop) : Prop :=
    forall fuel c' t Tb, main_loop src all opts fuel c' rest = COk t ->
      Good (S n) k d hi c' -> c_ts c' = Tb :: ts0 -> c_hs c' = hs -> c_ds c' = ds ->
      txt Tb ++ strip rest hi = target -> Q t.

  Definition Kch (okp : chain_st -> Prop) (rest : list tok) (n k d : nat) (hi : N) (r0 : list template)
             (e0 : espec) (w0 : bool) (hs : list helper_t) (ds : list deco_t) (target : str)
             (Q : template -> Prop) : Prop :=
    forall fuel c' t Tb' cs', main_loop src all opts fuel c' rest = COk t ->
      Good (S n) (S k) d hi c' -> c_ts c' = Tb' :: r0 -> c_hs c' = hstate e0 w0 cs' :: hs -> okp cs' ->
      c_ds c' = ds -> closed_text cs' ++ txt Tb' ++ strip rest hi = target -> Q t.

  Definition A0 (lo hi : N) (l : list tok) : Prop :=
    forall rest n k d Q, (1 <= n)%nat -> SP l -> BP l -> NT rest -> first_ge hi rest ->
    forall c0 T0 r0, Good n k d lo c0 -> c_ts c0 = T0 :: r0 ->
      K0 rest n k d hi r0 (c_hs c0) (c_ds c0) (txt T0 ++ strip (l ++ rest) lo) Q ->
    forall fuel t, main_loop src all opts fuel c0 (l ++ rest) = COk t -> Q t.

  Definition Atm (lo hi : N) (l : list tok) : Prop :=
    forall rest n k d Q, (1 <= n)%nat -> SP l -> BP l -> NT rest -> first_ge hi rest ->
    forall c0, Good n k d lo c0 ->
      Ktm rest n k d hi (c_ts c0) (c_hs c0) (c_ds c0) (strip (l ++ rest) lo) Q ->
    forall fuel t, main_loop src all opts fuel c0 (l ++ rest) = COk t -> Q t.

  Definition Ach (okp : chain_st -> Prop) (lo hi : N) (l : list tok) : Prop :=
    forall rest n k d Q, (1 <= n)%nat -> SP l -> BP l -> NT rest -> first_ge hi rest ->
    forall c0 Tb r0 e0 w0 cs hs, Good (S n) (S k) d lo c0 -> c_ts c0 = Tb :: r0 ->
      c_hs c0 = hstate e0 w0 cs :: hs -> chainable cs ->
      Kch okp rest n k d hi r0 e0 w0 hs (c_ds c0)
          (closed_text cs ++ txt Tb ++ strip (l ++ rest) lo) Q ->
    forall fuel t, main_loop src all opts fuel c0 (l ++ rest) = COk t -> Q t.

  Lemma SP_cons' t l : SP (t :: l) <-> span_ok src t /\ SP l.
  Proof. split; [intros H; inversion H; auto | intros [A B]; constructor; auto]. Qed.
  Lemma BP_cons' t l : BP (t :: l) <-> blocks_plain_token src opts t = true /\ BP l.
  Proof. split; [intros H; inversion H; auto | intros [A B]; constructor; auto]. Qed.

  Ltac split_all :=
    repeat match goal with
    | H : SP (_ ++ _) |- _ => apply Forall_app in H; destruct H
    | H : SP (_ :: _) |- _ => apply SP_cons' in H; destruct H
    | H : BP (_ ++ _) |- _ => apply Forall_app in H; destruct H
    | H : BP (_ :: _) |- _ => apply BP_cons' in H; destruct H
    end.

  Lemma NT_of_BP_one t : blocks_plain_token src opts t = true -> is_tilde t = false.
  Proof.
    unfold blocks_plain_token. intro H. apply andb_true_iff in H. destruct H as [H _].
    apply negb_true_iff in H. exact H.
  Qed.

  Lemma NT_cons t l : is_tilde t = false -> NT l -> NT (t :: l).
  Proof. intros; constructor; assumption. Qed.


  Ltac first_step H f c' it' Es Hl :=
    destruct (loop_inv src all opts _ _ _ _ _ H) as (f & c' & it' & -> & Es & Hl).

  Theorem bloop :
    (forall lo hi l, kitems lo hi l -> A0 lo hi l) /\
    (forall lo hi l, kitem lo hi l -> A0 lo hi l) /\
    (forall lo hi l, ktmpl lo hi l -> Atm lo hi l) /\
    (forall lo hi l, kchain lo hi l -> Ach chainable lo hi l) /\
    (forall lo hi l, kinv lo hi l -> Ach cs_ok lo hi l).
  Proof.
    destruct kwf_first as (F1 & F2 & F3 & F4 & F5).
    apply kwf_mutind; unfold A0, Atm, Ach.
    - (* kis_nil *)
      intros lo rest n k d Q Hn Hs Hb Hnt Hf c0 T0 r0 HG ET HK fuel t H. cbn [app] in *.
      eapply HK; try eassumption; reflexivity.
    - (* kis_cons *)
      intros lo mid hi a rest' Ha IHa Hr IHr rest n k d Q Hn Hs Hb Hnt Hf c0 T0 r0 HG ET HK fuel t H.
      split_all. rewrite <- app_assoc in H. rewrite <- app_assoc in HK.
      destruct (F1 _ _ _ Hr) as [_ Fr].
      eapply (IHa (rest' ++ rest) n k d Q); try eassumption.
      + apply NT_app; [apply NT_of_BP|]; assumption.
      + apply Fr; assumption.
      + intros fuel' c' t' T' Hl HG' ET' Eh' Ed' Eq.
        eapply (IHr rest n k d Q); try eassumption.
        rewrite Eh', Ed', Eq. exact HK.
    - (* ki_raw *)
      intros lo s e Hlo Hse rest n k d Q Hn Hs Hb Hnt Hf c0 T0 r0 HG ET HK fuel t H.
      cbn [app] in *. split_all. first_step H f c' it' Es Hl.
      destruct (S_raw _ _ _ _ _ _ _ _ _ _ _ _ _ Es HG Hn ET Hlo) as (-> & HG' & Eh & Ed & T' & ET' & Eq);
        [assumption|].
      eapply HK; eassumption.
    - (* ki_tag *)
      intros lo r s e l Hr Hlo Hse Ht Hk rest n k d Q Hn Hs Hb Hnt Hf c0 T0 r0 HG ET HK fuel t H.
      split_all. rewrite <- app_comm_cons in *. first_step H f c' it' Es Hl.
      destruct (S_tag _ _ _ _ _ _ _ _ _ _ _ _ _ _ _ Es Hr HG Hn ET Hlo) as (-> & HG' & Eh & Ed & T' & ET' & Eq);
        try assumption; [apply first_ge_next; assumption | apply NT_app; [apply NT_of_BP|]; assumption |].
      eapply HK; eassumption.
    - (* ki_comment *)
      intros lo r s e Hr Hlo Hse rest n k d Q Hn Hs Hb Hnt Hf c0 T0 r0 HG ET HK fuel t H.
      cbn [app] in *. split_all. first_step H f c' it' Es Hl.
      destruct (S_comment _ _ _ _ _ _ _ _ _ _ _ _ _ _ Es Hr HG Hn ET Hlo) as (-> & HG' & Eh & Ed & T' & ET' & Eq);
        try assumption.
      eapply HK; eassumption.
    - (* ki_hblock *)
      intros lo s0 e0 l0 body m1 chains m2 inv m3 s9 e9 l9 Hlo Hse0 Ht0 Hk0 Hb IHb Hc IHc Hi IHi Hm3 Hse9 Ht9 Hk9
             rest n k d Q Hn Hs Hbp Hnt Hf c0 T0 r0 HG ET HK fuel t H.
      split_all.
      destruct (F3 _ _ _ Hb) as [Lb Fb]. destruct (F4 _ _ _ Hc) as [Lc Fc]. destruct (F5 _ _ _ Hi) as [Li Fi].
      assert (Fend : first_ge m3 (((R_helper_block_end, s9, e9) :: l9) ++ rest))
        by (cbn [app first_ge tk_start tk_end fst snd]; lia).
      assert (NTend : NT (l9 ++ rest)) by (apply NT_app; [apply NT_of_BP|]; assumption).
      assert (NT4 : NT (((R_helper_block_end, s9, e9) :: l9) ++ rest))
        by (cbn [app]; apply NT_cons; [apply NT_of_BP_one; assumption | exact NTend]).
      assert (NT3 : NT (inv ++ ((R_helper_block_end, s9, e9) :: l9) ++ rest))
        by (apply NT_app; [apply NT_of_BP; assumption | exact NT4]).
      assert (NT2 : NT (chains ++ inv ++ ((R_helper_block_end, s9, e9) :: l9) ++ rest))
        by (apply NT_app; [apply NT_of_BP; assumption | exact NT3]).
      assert (NT1 : NT (body ++ chains ++ inv ++ ((R_helper_block_end, s9, e9) :: l9) ++ rest))
        by (apply NT_app; [apply NT_of_BP; assumption | exact NT2]).
      rewrite <- ?app_assoc, <- ?app_comm_cons in H, HK.
      destruct n as [|n']; [lia|].
      first_step H f c1 it' Es Hl.
      destruct (S_bstart _ _ _ _ _ _ _ _ _ _ _ _ _ _ _ false Es eq_refl HG Hn ET Hlo)
        as (-> & HG1 & T1 & ex & w & ET1 & EA1 & EH1 & ED1 & Eq1); try assumption;
        [apply first_ge_next; apply Fb; apply Fc; apply Fi; exact Fend
        | apply NT_app; [apply NT_of_BP; assumption | exact NT1] |].
      cbn iota in HG1, EH1, ED1.
      refine (IHb _ (S n') (S k) d Q _ _ _ NT2 _ c1 HG1 _ _ _ Hl); [lia | assumption | assumption
        | apply Fc; apply Fi; exact Fend |].
      intros fuel2 c2 t2 Tb Hl2 HG2 ET2 EH2 ED2 Eq2.
      refine (IHc _ (S n') k d Q _ _ _ NT3 _ c2 Tb (T1 :: r0) ex w CS0 (c_hs c0) HG2 _ _ I _ _ _ Hl2);
        [lia | assumption | assumption | apply Fi; exact Fend | rewrite ET2, ET1; reflexivity
        | rewrite EH2, EH1; reflexivity |].
      intros fuel3 c3 t3 Tb3 cs3 Hl3 HG3 ET3 EH3 Hch3 ED3 Eq3.
      refine (IHi _ (S n') k d Q _ _ _ NT4 Fend c3 Tb3 (T1 :: r0) ex w cs3 (c_hs c0) HG3 ET3 EH3 Hch3 _ _ _ Hl3);
        [lia | assumption | assumption |].
      intros fuel4 c4 t4 Tb4 cs4 Hl4 HG4 ET4 EH4 Hok4 ED4 Eq4.
      rewrite <- app_comm_cons in Hl4. first_step Hl4 f5 c5 it5 Es5 Hl5.
      destruct (S_hend _ _ _ _ _ _ _ _ _ _ _ _ _ _ _ _ _ _ _ _ Es5 eq_refl HG4 ET4 EH4 Hok4 Hm3)
        as (-> & HG5 & EH5 & ED5 & P' & ET5 & Eq5); try assumption;
        [left; reflexivity | apply first_ge_next; assumption |].
      eapply HK; try eassumption; [congruence|].
      etransitivity; [exact Eq5|].
      etransitivity; [apply (f_equal (app (txt T1))); exact Eq4|].
      etransitivity; [apply (f_equal (app (txt T1))); exact Eq3|].
      cbn [closed_text app].
      etransitivity; [apply (f_equal (app (txt T1))); exact Eq2|].
      rewrite EA1, <- app_assoc. apply (f_equal (app (txt T0))). symmetry. exact Eq1.
    - (* ki_rawblock *)
      intros lo s0 e0 l0 s1 e1 e2 l2 Hlo Hse0 Ht0 Hk0 He0 Hse1 He12 Ht2 Hk2
             rest n k d Q Hn Hs Hbp Hnt Hf c0 T0 r0 HG ET HK fuel t H.
      split_all.
      assert (NTend : NT (l2 ++ rest)) by (apply NT_app; [apply NT_of_BP|]; assumption).
      rewrite <- ?app_assoc, <- ?app_comm_cons in H, HK.
      destruct n as [|n']; [lia|].
      first_step H f c1 it' Es Hl.
      destruct (S_bstart _ _ _ _ _ _ _ _ _ _ _ _ _ _ _ false Es eq_refl HG Hn ET Hlo)
        as (-> & HG1 & T1 & ex & w & ET1 & EA1 & EH1 & ED1 & Eq1); try assumption;
        [cbn [next_ge tk_end snd]; lia
        | apply NT_app; [apply NT_of_BP; assumption|];
          apply NT_cons; [apply NT_of_BP_one; assumption|];
          apply NT_cons; [apply NT_of_BP_one; assumption | exact NTend] |].
      cbn iota in HG1, EH1, ED1.
      first_step Hl f2 c2 it2 Es2 Hl2.
      destruct (S_rawbody _ _ _ _ _ _ _ _ _ _ _ Es2 HG1) as (-> & HG2 & EH2 & ED2 & Tb & ET2 & Eq2);
        [lia | assumption | assumption |].
      first_step Hl2 f3 c3 it3 Es3 Hl3.
      destruct (S_hend _ _ _ _ _ _ _ _ _ _ _ _ _ Tb T1 r0 ex w CS0 (c_hs c0) Es3 eq_refl HG2)
        as (-> & HG3 & EH3 & ED3 & P' & ET3 & Eq3); try assumption;
        [rewrite ET2, ET1; reflexivity | rewrite EH2, EH1; reflexivity | exact I | lia
        | right; reflexivity | apply first_ge_next; assumption |].
      eapply HK; try eassumption; [congruence|].
      etransitivity; [exact Eq3|]. cbn [closed_text app].
      etransitivity; [apply (f_equal (app (txt T1))); exact Eq2|].
      rewrite EA1, <- app_assoc. apply (f_equal (app (txt T0))). symmetry. exact Eq1.
    - (* ki_dblock *)
      intros lo rs re s0 e0 l0 body m1 s9 e9 l9 Hp Hlo Hse0 Ht0 Hk0 Hb IHb Hm1 Hse9 Ht9 Hk9
             rest n k d Q Hn Hs Hbp Hnt Hf c0 T0 r0 HG ET HK fuel t H.
      split_all.
      destruct (F3 _ _ _ Hb) as [Lb Fb].
      assert (Fend : first_ge m1 (((re, s9, e9) :: l9) ++ rest))
        by (cbn [app first_ge tk_start tk_end fst snd]; lia).
      assert (NTend : NT (l9 ++ rest)) by (apply NT_app; [apply NT_of_BP|]; assumption).
      assert (NT4 : NT (((re, s9, e9) :: l9) ++ rest))
        by (cbn [app]; apply NT_cons; [apply NT_of_BP_one; assumption | exact NTend]).
      assert (Hcs : tag_classify rs = KBlockStart true /\ exists b, tag_classify re = KDecoEnd b).
      { destruct Hp as [[-> ->]|[-> ->]]; (split; [reflexivity | eexists; reflexivity]). }
      destruct Hcs as [Hcs (b & Hce)].
      rewrite <- ?app_assoc, <- ?app_comm_cons in H, HK.
      destruct n as [|n']; [lia|].
      first_step H f c1 it' Es Hl.
      destruct (S_bstart _ _ _ _ _ _ _ _ _ _ _ _ _ _ _ true Es Hcs HG Hn ET Hlo)
        as (-> & HG1 & T1 & ex & w & ET1 & EA1 & EH1 & ED1 & Eq1); try assumption;
        [apply first_ge_next; apply Fb; exact Fend
        | apply NT_app; [apply NT_of_BP; assumption|]; apply NT_app; [apply NT_of_BP; assumption | exact NT4] |].
      cbn iota in HG1, EH1, ED1.
      refine (IHb _ (S n') k (S d) Q _ _ _ NT4 Fend c1 HG1 _ _ _ Hl); [lia | assumption | assumption |].
      intros fuel2 c2 t2 Tb Hl2 HG2 ET2 EH2 ED2 Eq2.
      rewrite <- app_comm_cons in Hl2. first_step Hl2 f3 c3 it3 Es3 Hl3.
      destruct (S_dend _ _ _ _ _ _ _ _ _ _ _ _ _ Tb T1 r0 (mk_deco ex w) (c_ds c0) b Es3 Hce HG2)
        as (-> & HG3 & EH3 & ED3 & P' & ET3 & Eq3); try assumption;
        [rewrite ET2, ET1; reflexivity | rewrite ED2, ED1; reflexivity
        | apply first_ge_next; assumption |].
      eapply HK; try eassumption; [congruence|].
      etransitivity; [exact Eq3|].
      etransitivity; [apply (f_equal (app (txt T1))); exact Eq2|].
      rewrite EA1, <- app_assoc. apply (f_equal (app (txt T0))). symmetry. exact Eq1.
    - (* kt_mk *)
      intros lo hi s e body Hlo Hse Hb IHb rest n k d Q Hn Hs Hbp Hnt Hf c0 HG HK fuel t H.
      split_all. rewrite <- app_comm_cons in H, HK. first_step H f c1 it' Es Hl.
      destruct (S_template _ _ _ _ _ _ _ _ _ _ _ Es HG) as (-> & HG1 & EH1 & ED1 & ET1).
      refine (IHb rest (S n) k d Q _ _ _ Hnt Hf c1 t_empty (c_ts c0) HG1 ET1 _ _ _ Hl);
        [lia | assumption | assumption |].
      intros fuel2 c2 t2 T' Hl2 HG2 ET2 EH2 ED2 Eq2.
      eapply HK; try eassumption; try congruence.
    - (* kcp_nil *)
      intros lo rest n k d Q Hn Hs Hb Hnt Hf c0 Tb r0 e0 w0 cs hs HG ET EH Hch HK fuel t H.
      cbn [app] in *. eapply HK; try eassumption; reflexivity.
    - (* kcp_cons *)
      intros lo s e tl si ei l body mid hi rest' Hlo Hse Htl Hsub Hkid Hb IHb Hc IHc
             rest n k d Q Hn Hs Hbp Hnt Hf c0 Tb r0 e0 w0 cs hs HG ET EH Hch HK fuel t H.
      split_all.
      destruct (F3 _ _ _ Hb) as [Lb Fb]. destruct (F4 _ _ _ Hc) as [Lc Fc].
      assert (NT2 : NT (rest' ++ rest)) by (apply NT_app; [apply NT_of_BP|]; assumption).
      assert (NT1 : NT (body ++ rest' ++ rest)) by (apply NT_app; [apply NT_of_BP; assumption | exact NT2]).
      rewrite <- ?app_assoc, <- ?app_comm_cons in H, HK. rewrite <- ?app_assoc, <- ?app_comm_cons in H, HK.
      first_step H f c1 it' Es Hl.
      destruct (S_chain _ _ _ _ _ _ _ _ _ _ _ _ _ _ _ _ _ _ _ _ _ Es HG ET EH Hch Hlo)
        as (-> & HG1 & ET1 & ED1 & cs1 & EH1 & Hch1 & Eq1); try assumption;
        [apply tg_plain; assumption | apply first_ge_next; apply Fb; apply Fc; assumption
        | apply NT_app; [apply NT_of_BP; assumption|];
          apply NT_cons; [apply NT_of_BP_one; assumption|];
          apply NT_app; [apply NT_of_BP; assumption | exact NT1] |].
      refine (IHb _ n (S k) d Q Hn _ _ NT2 _ c1 HG1 _ _ _ Hl); [assumption | assumption | apply Fc; assumption |].
      intros fuel2 c2 t2 Tb2 Hl2 HG2 ET2 EH2 ED2 Eq2.
      refine (IHc rest n k d Q Hn _ _ Hnt Hf c2 Tb2 r0 e0 w0 cs1 hs HG2 _ _ Hch1 _ _ _ Hl2);
        [assumption | assumption | rewrite ET2, ET1; reflexivity | rewrite EH2, EH1; reflexivity |].
      intros fuel3 c3 t3 Tb3 cs3 Hl3 HG3 ET3 EH3 Hch3 ED3 Eq3.
      eapply HK; try eassumption; [congruence|].
      etransitivity; [exact Eq3|].
      etransitivity; [apply (f_equal (app (closed_text cs1))); exact Eq2|].
      rewrite <- app_assoc, <- app_comm_cons in Eq1. exact Eq1.
    - (* kip_none *)
      intros lo rest n k d Q Hn Hs Hb Hnt Hf c0 Tb r0 e0 w0 cs hs HG ET EH Hch HK fuel t H.
      cbn [app] in *. eapply HK; try eassumption; try reflexivity. apply chainable_ok; exact Hch.
    - (* kip_some *)
      intros lo s e l body hi Hlo Hse Htg Hkid Hb IHb
             rest n k d Q Hn Hs Hbp Hnt Hf c0 Tb r0 e0 w0 cs hs HG ET EH Hch HK fuel t H.
      split_all.
      destruct (F3 _ _ _ Hb) as [Lb Fb].
      assert (NT1 : NT (body ++ rest)) by (apply NT_app; [apply NT_of_BP|]; assumption).
      rewrite <- ?app_assoc, <- ?app_comm_cons in H, HK.
      first_step H f c1 it' Es Hl.
      destruct (S_else _ _ _ _ _ _ _ _ _ _ _ _ _ _ _ _ _ _ Es HG ET EH Hch Hlo)
        as (-> & HG1 & ET1 & ED1 & cs1 & EH1 & Hok1 & Eq1); try assumption;
        [apply first_ge_next; apply Fb; assumption
        | apply NT_app; [apply NT_of_BP; assumption | exact NT1] |].
      refine (IHb rest n (S k) d Q Hn _ _ Hnt Hf c1 HG1 _ _ _ Hl); [assumption | assumption |].
      intros fuel2 c2 t2 Tb2 Hl2 HG2 ET2 EH2 ED2 Eq2.
      eapply (HK fuel2 c2 t2 Tb2 cs1); try eassumption;
        [rewrite ET2, ET1; reflexivity | rewrite EH2, EH1; reflexivity | congruence |].
      etransitivity; [apply (f_equal (app (closed_text cs1))); exact Eq2|]. exact Eq1.
  Qed.

  (* the end of the token list: EOI, then the tail of the source *)
  Lemma eoi_blk fuel c t T hi p :
    main_loop src all opts fuel c [(R_EOI, p, p)] = COk t ->
    Good 1 0 0 hi c -> c_ts c = [T] -> hi <= p -> p <= len src ->
    all_raw_text (t_els t) = txt T ++ strip [(R_EOI, p, p)] hi.
  Proof.
    intros H HG ET Hhi Hp. pose proof (Good_pe _ _ _ _ _ HG) as Epe. destruct HG as (HSt & Eo & Et).
    destruct (loop_inv src all opts _ _ _ _ _ H) as (f & c' & it' & -> & Es & Hl).
    destruct (step_ws src all opts _ _ _ _ _ _ Es) as (c1 & Htr & Hw). cbv zeta in Hw.
    cbn [tk_rule tk_start fst snd tag_classify] in Hw, Htr.
    destruct Hw as (Eo' & Et' & Ets' & ->).
    destruct (tr_blk c (R_EOI, p, p) _ c1 T [] hi Htr Eo Et Epe ET) as
      (T1 & ET1 & EA1 & Eo1 & Et1 & Eh1 & Ed1); try reflexivity; try (cbn; lia); [left; reflexivity|].
    cbn [tk_start fst snd] in EA1.
    assert (Hce : c_end c' = Some p).
    { assert (Hne : tag_classify (tk_rule (R_EOI, p, p)) <> KTemplate) by (cbn; discriminate).
      exact (step_c_end src all opts _ _ _ _ _ _ Hne Es). }
    destruct f as [|f]; [discriminate|]. cbn [main_loop] in Hl. rewrite Hce in Hl.
    cbn [strip_tags tk_rule fst snd tag_classify].
    rewrite <- (gap_split src hi p (len src)) by lia. rewrite app_assoc, <- EA1.
    rewrite Ets', ET1 in Hl.
    destruct (p <? len src) eqn:Elt.
    - destruct (slice_some src p (len src)) as (tx & Esl & _); [lia|lia|].
      rewrite Esl in Hl. cbn [push_front_el cbind] in Hl. injection Hl as <-.
      rewrite t_els_set_name, txt_push. cbn [art_e].
      rewrite (gap_slice _ _ _ _ Esl). reflexivity.
    - cbn [cbind] in Hl. injection Hl as <-. apply N.ltb_ge in Elt.
      assert (p = len src) by lia. subst p.
      rewrite t_els_set_name, gap_same, app_nil_r by lia. reflexivity.
  Qed.

  Theorem main_loop_blocks s e body hi p t fuel :
    kitems 0 hi body -> hi <= p -> p <= len src ->
    SP ((R_template, s, e) :: body ++ [(R_EOI, p, p)]) ->
    BP ((R_template, s, e) :: body ++ [(R_EOI, p, p)]) ->
    main_loop src all opts fuel init_cstate ((R_template, s, e) :: body ++ [(R_EOI, p, p)]) = COk t ->
    all_raw_text (t_els t) = strip ((R_template, s, e) :: body ++ [(R_EOI, p, p)]) 0.
  Proof.
    intros Hit Hhi Hp Hs Hb H.
    destruct (loop_inv src all opts _ _ _ _ _ H) as (f & c1 & it' & -> & Es & Hl).
    assert (HG0 : Good 0 0 0 0 init_cstate).
    { split; [split; [repeat split; constructor | reflexivity] | split; reflexivity]. }
    destruct (S_template _ _ _ _ _ _ _ _ _ _ _ Es HG0) as (-> & HG1 & EH1 & ED1 & ET1).
    cbn [init_cstate c_ts] in ET1.
    apply SP_cons' in Hs. destruct Hs as [_ Hs]. apply Forall_app in Hs. destruct Hs as [Hsb Hse].
    apply BP_cons' in Hb. destruct Hb as [_ Hb]. apply Forall_app in Hb. destruct Hb as [Hbb Hbe].
    cbn [strip_tags tk_rule fst snd tag_classify].
    refine (proj1 bloop 0 hi body Hit [(R_EOI, p, p)] 1%nat 0%nat 0%nat
              (fun t => all_raw_text (t_els t) = strip (body ++ [(R_EOI, p, p)]) 0)
              (le_n _) Hsb Hbb _ _ c1 t_empty [] HG1 ET1 _ f t Hl).
    - apply NT_of_BP. exact Hbe.
    - cbn [first_ge tk_start tk_end fst snd]. lia.
    - intros fuel' c' t' T' Hl' HG' ET' _ _ Eq.
      rewrite (eoi_blk _ _ _ _ _ _ Hl' HG' ET' Hhi Hp). exact Eq.
  Qed.

End BlkFold.

(* ================= Part 5: every pest output is in the refined token grammar ================= *)
Definition KTPs (f : nat) : Prop := forall p p' F lo,
  hgen f (ERef R_template) ANon false p p' F -> lo <= p ->
  exists hi, ktmpl lo hi (fl (flats F)) /\ lo <= hi /\ hi <= p'.
Definition KITs (f : nat) : Prop := forall p p' F lo,
  hgen f (ERepTail ITEM) ANon false p p' F -> lo <= p ->
  exists hi, kitems lo hi (fl (flats F)) /\ lo <= hi /\ hi <= p'.
Definition KCHs (f : nat) : Prop := forall p p' F lo,
  hgen f (ERepTail CHAIN) ANon false p p' F -> lo <= p ->
  exists hi, kchain lo hi (fl (flats F)) /\ lo <= hi /\ hi <= p'.
Definition KAll (f : nat) : Prop := KTPs f /\ KITs f /\ KCHs f.

Lemma ksimple_item lo f r p p' F :
  simple_tag r -> TagShape r -> esc_free r = true -> refs_ok rule kid (snd (hb_defs r)) = true ->
  hgen f (ERef r) ANon false p p' F -> lo <= p ->
  kitem lo p' (fl (flats F)) /\ p < p'.
Proof.
  intros Hs Hsh Ho Hkc H Hlo. rewrite (fl_tag _ _ _ _ _ Ho H).
  destruct (Hsh _ _ _ _ H) as (ch & -> & Ht & Lt). pose proof (ref_kids _ _ _ _ _ Hkc H) as HKd. tidy.
  split; [apply ki_tag; [exact Hs | exact Hlo | lia | exact Ht | exact HKd] | exact Lt].
Qed.

Lemma kcomment_item lo f r p p' F :
  comment_rule r ->
  emits_k (fst (hb_defs r)) ANon false = true ->
  silent rule hb_defs 80 (snd (hb_defs r)) (body_at (fst (hb_defs r)) ANon) false = true ->
  nullable_e rule hb_nl (ERef r) = false ->
  hgen f (ERef r) ANon false p p' F -> lo <= p ->
  kitem lo p' (fl (flats F)) /\ p < p'.
Proof.
  intros Hc He Hs Hn H Hlo. assert (L : p < p') by (eapply hprogress; eassumption).
  apply ref_leaf in H; [subst|exact He|exact Hs]. tidy.
  cbn [filter]. replace (not_escape (r, p, p')) with true by (destruct Hc as [-> | ->]; reflexivity).
  split; [apply ki_comment; [exact Hc | exact Hlo | lia] | exact L].
Qed.

Lemma kitems_one lo hi a : kitem lo hi a -> kitems lo hi a.
Proof. intros H. rewrite <- (app_nil_r a). eapply kis_cons; [exact H | apply kis_nil]. Qed.

Lemma KAll_step f : (forall f', (f' < f)%nat -> KAll f') -> KAll f.
Proof.
  intros IH.
  assert (IHT : forall f', (f' < f)%nat -> KTPs f') by (intros f' L; apply IH; exact L).
  assert (IHI : forall f', (f' < f)%nat -> KITs f') by (intros f' L; apply IH; exact L).
  assert (IHC : forall f', (f' < f)%nat -> KCHs f') by (intros f' L; apply IH; exact L).
  clear IH. unfold KTPs, KITs, KCHs in *.
  (* a block with a start tag, a template and an end tag (decorator / partial blocks) *)
  assert (DBLOCK : forall f' rs re p p' F lo, (f' < f)%nat -> deco_pair rs re ->
            TagShape rs -> TagShape re ->
            esc_free rs = true -> esc_free re = true ->
            refs_ok rule kid (snd (hb_defs rs)) = true -> refs_ok rule kid (snd (hb_defs re)) = true ->
            hgen f' (e_seq (ERef rs) (e_seq (ERef R_template) (ERef re))) ANon false p p' F -> lo <= p ->
            kitem lo p' (fl (flats F)) /\ p < p').
  { intros f' rs re p p' F lo Lf Hpair Hs He Hos Hoe Hks Hke H Hlo. unfold e_seq in H. repeat eseq.
    match goal with H : hgen _ (ERef rs) _ _ _ _ _ |- _ =>
      pose proof (fl_tag _ _ _ _ _ Hos H) as E1; destruct (Hs _ _ _ _ H) as (ch1 & -> & Ht1 & L1);
      pose proof (ref_kids _ _ _ _ _ Hks H) as Kd1; clear H end.
    match goal with H : hgen _ (ERef re) _ _ _ _ _ |- _ =>
      pose proof (fl_tag _ _ _ _ _ Hoe H) as E2; destruct (He _ _ _ _ H) as (ch2 & -> & Ht2 & L2);
      pose proof (ref_kids _ _ _ _ _ Hke H) as Kd2; clear H end.
        match goal with H : hgen _ (ERef R_template) _ _ ?a _ _ |- _ =>
      eapply IHT with (lo := p1) in H; [destruct H as (m1 & Htm & La & Lb) | lia | lia] end.
    rewrite !flats_app', !fl_app, E1, E2. tidy. cbn [filter app].
    split; [|lia].
        match goal with |- kitem _ _ (?t :: flats ch1 ++ ?body ++ ?e :: flats ch2) =>
      change (t :: flats ch1 ++ body ++ e :: flats ch2) with ((t :: flats ch1) ++ body ++ e :: flats ch2) end.
    eapply ki_dblock; try eassumption; lia. }
  (* one `else if` link: chain tag and its template *)
  assert (CHAIN1 : forall f' p p' F lo, (f' < f)%nat -> hgen f' CHAIN ANon false p p' F -> lo <= p ->
            exists mid, lo <= mid /\ mid <= p' /\ p < p' /\
              forall hi rest, kchain mid hi rest -> kchain lo hi (fl (flats F) ++ rest)).
  { intros f' p p' F lo Lf H Hlo. unfold CHAIN, e_seq in H. repeat eseq.
    match goal with H : hgen _ (ERef R_invert_chain_tag) _ _ _ _ _ |- _ =>
      fltag H E1;
      destruct (tag_chain _ _ _ _ H) as (ch & -> & L1 & tl & si & ei & l & Ech & Htl & Hsub);
      pose proof (ref_kids _ R_invert_chain_tag _ _ _ ltac:(vm_compute; reflexivity) H) as Kc; rewrite Ech in Kc; clear H end.
    match goal with H : hgen _ (ERef R_template) _ _ _ _ _ |- _ =>
      pose proof (hle _ _ _ _ _ _ _ H);
      eapply IHT with (lo := p1) in H; [destruct H as (m1 & Htm & La & Lb) | lia | lia] end.
    exists m1. split; [lia|]. split; [lia|]. split; [lia|].
    intros hi rest Hrest.
    rewrite !flats_app', !fl_app, E1. tidy. cbn [filter app]. rewrite Ech.
    match goal with |- kchain _ _ ?L =>
      replace L with (((R_invert_chain_tag, p, p1) :: tl ++ (R_invert_tag_item, si, ei) :: l)
                      ++ fl (flats F3) ++ rest)
        by (cbn [app]; rewrite <- ?app_assoc; cbn [app]; reflexivity) end.
    eapply kcp_cons; try eassumption; lia. }
  assert (CHREP : forall f' p p' F lo, (f' < f)%nat -> hgen f' (ERepTail CHAIN) ANon false p p' F -> lo <= p ->
            exists hi, kchain lo hi (fl (flats F)) /\ lo <= hi /\ hi <= p').
  { intros f' p p' F lo Lf H Hlo. eapply IHC; eassumption. }
  assert (STARCH : forall f' p p' F lo, (f' < f)%nat -> hgen f' (e_star CHAIN) ANon false p p' F -> lo <= p ->
            exists hi, kchain lo hi (fl (flats F)) /\ lo <= hi /\ hi <= p').
  { intros f' p p' F lo Lf H Hlo. unfold e_star in H. inversion H; clear H; subst.
    - match goal with H : hgen _ (ESeq CHAIN _) _ _ _ _ _ |- _ => inversion H; clear H; subst end.
      match goal with H : hgen _ CHAIN _ _ _ _ _ |- _ =>
        eapply CHAIN1 with (lo := lo) in H; [destruct H as (mid & M1 & M2 & M3 & Hk) | lia | lia] end.
      match goal with H : hgen _ (ERepTail CHAIN) _ _ _ _ _ |- _ =>
        pose proof (hle _ _ _ _ _ _ _ H);
        eapply CHREP with (lo := mid) in H; [destruct H as (hi & Hc & C1 & C2) | lia | lia] end.
      exists hi. rewrite flats_app', fl_app. split; [apply Hk; exact Hc | lia].
    - exists lo. tidy. cbn [filter]. split; [constructor | lia]. }
  (* the optional `{{else}} template` part *)
  assert (OPTINV : forall f' p p' F lo, (f' < f)%nat ->
            hgen f' (EOpt (e_seq (ERef R_invert_tag) (ERef R_template))) ANon false p p' F -> lo <= p ->
            exists hi, kinv lo hi (fl (flats F)) /\ lo <= hi /\ hi <= p').
  { intros f' p p' F lo Lf H Hlo. unfold e_seq in H. inversion H; clear H; subst.
    - repeat eseq.
      match goal with H : hgen _ (ERef R_invert_tag) _ _ _ _ _ |- _ =>
        fltag H Ei; destruct (tag_invert_tag _ _ _ _ H) as (chi & -> & Hti & Li);
        pose proof (ref_kids _ R_invert_tag _ _ _ ltac:(vm_compute; reflexivity) H) as Ki; clear H end.
      match goal with H : hgen _ (ERef R_template) _ _ _ _ _ |- _ =>
        pose proof (hle _ _ _ _ _ _ _ H);
        eapply IHT with (lo := p1) in H; [destruct H as (m3 & Htm3 & Ia & Ib) | lia | lia] end.
      exists m3. rewrite !flats_app', !fl_app, Ei. tidy. cbn [filter app]. split; [|lia].
      match goal with |- kinv _ _ ?L =>
        replace L with (((R_invert_tag, p, p1) :: flats chi) ++ fl (flats F3))
          by (cbn [app]; rewrite <- ?app_assoc; cbn [app]; reflexivity) end.
      eapply kip_some; try eassumption; lia.
    - exists lo. tidy. cbn [filter]. split; [constructor | lia]. }
  (* one kitem *)
  assert (ONE : forall f' p p' F lo, (f' < f)%nat -> hgen f' ITEM ANon false p p' F -> lo <= p ->
            kitem lo p' (fl (flats F)) /\ p < p').
  { intros f' p p' F lo Lf H Hlo. unfold ITEM in H. gen_inv.
    - (* raw_text *)
      match goal with H : hgen _ (ERef R_raw_text) _ _ _ _ _ |- _ =>
        pose proof (hle _ _ _ _ _ _ _ H); destruct (raw_text_shape _ _ _ _ H) as (-> & L1) end.
      split; [apply ki_raw; lia | exact L1].
    - eapply ksimple_item; try eassumption;
        [left; reflexivity | exact tag_expression | vm_compute; reflexivity | vm_compute; reflexivity].
    - eapply ksimple_item; try eassumption;
        [right; left; reflexivity | exact tag_html_expression | vm_compute; reflexivity | vm_compute; reflexivity].
    - (* helper block *)
      match goal with H : hgen _ (ERef R_helper_block) _ _ _ _ _ |- _ => gen_ref H end.
      repeat eseq.
      match goal with H : hgen _ (ERef R_helper_block_start) _ _ _ _ _ |- _ =>
        fltag H E1;
        destruct (tag_helper_block_start _ _ _ _ H) as (ch1 & -> & Ht1 & L1);
        pose proof (ref_kids _ R_helper_block_start _ _ _ ltac:(vm_compute; reflexivity) H) as K1; clear H end.
      match goal with H : hgen _ (ERef R_helper_block_end) _ _ _ _ _ |- _ =>
        fltag H E9;
        destruct (tag_helper_block_end _ _ _ _ H) as (ch9 & -> & Ht9 & L9);
        pose proof (ref_kids _ R_helper_block_end _ _ _ ltac:(vm_compute; reflexivity) H) as K9; clear H end.
      match goal with H : hgen _ (ERef R_template) _ _ _ _ _ |- _ =>
        pose proof (hle _ _ _ _ _ _ _ H);
        eapply IHT with (lo := p1) in H; [destruct H as (m1 & Htm & Ta & Tb) | lia | lia] end.
      match goal with H : hgen _ (EOpt (ESeq (ESeq (ERef R_invert_chain_tag) _) _)) _ _ _ _ _ |- _ =>
        pose proof (hle _ _ _ _ _ _ _ H);
        eapply (STARCH _ _ _ _ m1) in H; [destruct H as (m2 & Hch & Ca & Cb) | lia | lia] end.
      match goal with H : hgen _ (EOpt (ESeq (ERef R_invert_tag) _)) _ _ _ _ _ |- _ =>
        pose proof (hle _ _ _ _ _ _ _ H);
        eapply (OPTINV _ _ _ _ m2) in H; [destruct H as (m3 & Hinv & Va & Vb) | lia | lia] end.
      rewrite !flats_app', !fl_app, E1, E9. tidy. cbn [filter app]. split; [|lia].
      match goal with |- kitem _ _ ?L =>
        match L with context [fl (flats ?Fb) ++ fl (flats ?Fc) ++ fl (flats ?Fi) ++ _] =>
        replace L with (((R_helper_block_start, p, p1) :: flats ch1) ++ fl (flats Fb) ++ fl (flats Fc)
                        ++ fl (flats Fi) ++ (R_helper_block_end, p8, p') :: flats ch9)
          by (cbn [app]; rewrite <- ?app_assoc; cbn [app]; reflexivity) end end.
      eapply ki_hblock; try eassumption; lia.
    - (* raw block *)
      match goal with H : hgen _ (ERef R_raw_block) _ _ _ _ _ |- _ => gen_ref H end.
      match goal with HR : hb_RP R_raw_block _ _ _ |- _ =>
        specialize (HR eq_refl eq_refl eq_refl); rename HR into Hadj end.
      repeat eseq.
      match goal with H : hgen _ (ERef R_raw_block_start) _ _ _ _ _ |- _ =>
        fltag H E1;
        destruct (tag_raw_block_start _ _ _ _ H) as (ch1 & -> & Ht1 & L1);
        pose proof (ref_kids _ R_raw_block_start _ _ _ ltac:(vm_compute; reflexivity) H) as K1; clear H end.
      match goal with H : hgen _ (ERef R_raw_block_end) _ _ _ _ _ |- _ =>
        fltag H E9;
        destruct (tag_raw_block_end _ _ _ _ H) as (ch9 & -> & Ht9 & L9);
        pose proof (ref_kids _ R_raw_block_end _ _ _ ltac:(vm_compute; reflexivity) H) as K9; clear H end.
      match goal with H : hgen _ (ERef R_raw_block_text) _ _ _ _ _ |- _ =>
        destruct (raw_block_text_shape _ _ _ _ H) as (Et & Lt); clear H end.
      rewrite !flats_app', !fl_app, E1, E9, Et in Hadj.
      cbn [app] in Hadj; autorewrite with fl in Hadj; cbn [filter app] in Hadj.
      assert (p4 = p3) as ->.
      { apply (Hadj ((R_raw_block_start, p, p1) :: flats ch1) p2 p3 p4 p' (flats ch9)).
        cbn [app]. rewrite <- ?app_assoc. cbn [app]. reflexivity. }
      rewrite ?flats_app', ?fl_app, ?E1, ?E9, ?Et. tidy. cbn [filter app]. split; [|lia].
      match goal with |- kitem _ _ ?L =>
        replace L with (((R_raw_block_start, p, p1) :: flats ch1)
                        ++ (R_raw_block_text, p2, p3) :: (R_raw_block_end, p3, p') :: flats ch9)
          by (cbn [app]; rewrite <- ?app_assoc; cbn [app]; reflexivity) end.
      eapply ki_rawblock; try eassumption; lia.
    - eapply kcomment_item; try eassumption;
        [left; reflexivity | reflexivity | vm_compute; reflexivity | vm_compute; reflexivity].
    - eapply kcomment_item; try eassumption;
        [right; reflexivity | reflexivity | vm_compute; reflexivity | vm_compute; reflexivity].
    - eapply ksimple_item; try eassumption;
        [right; right; left; reflexivity | exact tag_decorator_expression | vm_compute; reflexivity | vm_compute; reflexivity].
    - match goal with H : hgen _ (ERef R_decorator_block) _ _ _ _ _ |- _ => gen_ref H end.
      match goal with H : hgen ?g _ _ _ _ _ _ |- _ =>
        eapply (DBLOCK g R_decorator_block_start R_decorator_block_end); try exact H; try lia end;
        [left; split; reflexivity | exact tag_decorator_block_start | exact tag_decorator_block_end
        | vm_compute; reflexivity | vm_compute; reflexivity | vm_compute; reflexivity | vm_compute; reflexivity].
    - eapply ksimple_item; try eassumption;
        [right; right; right; reflexivity | exact tag_partial_expression | vm_compute; reflexivity | vm_compute; reflexivity].
    - match goal with H : hgen _ (ERef R_partial_block) _ _ _ _ _ |- _ => gen_ref H end.
      match goal with H : hgen ?g _ _ _ _ _ _ |- _ =>
        eapply (DBLOCK g R_partial_block_start R_partial_block_end); try exact H; try lia end;
        [right; split; reflexivity | exact tag_partial_block_start | exact tag_partial_block_end
        | vm_compute; reflexivity | vm_compute; reflexivity | vm_compute; reflexivity | vm_compute; reflexivity]. }
  (* kitems after the first *)
  assert (REP : forall f' p p' F lo, (f' < f)%nat -> hgen f' (ERepTail ITEM) ANon false p p' F -> lo <= p ->
            exists hi, kitems lo hi (fl (flats F)) /\ lo <= hi /\ hi <= p').
  { intros f' p p' F lo Lf H Hlo. eapply IHI; eassumption. }
  split; [|split].
  - (* template *)
    intros p p' F lo H Hlo. pose proof (hle _ _ _ _ _ _ _ H) as L.
    gen_ref H. fold ITEM in *. tidy. rewrite fl_cons_keep by reflexivity.
    match goal with H : hgen _ (EOpt _) _ _ _ _ _ |- _ => inversion H; clear H; subst end.
    + match goal with H : hgen _ (ESeq _ (ERepTail _)) _ _ _ _ _ |- _ => inversion H; clear H; subst end.
            match goal with H : hgen _ ITEM _ _ _ _ _ |- _ =>
        eapply ONE with (lo := lo) in H; [destruct H as (Hit & Li) | lia | lia] end.
      match goal with H : hgen _ (ERepTail ITEM) _ _ _ _ _ |- _ =>
        pose proof (hle _ _ _ _ _ _ _ H);
        eapply REP with (lo := p1) in H; [destruct H as (hi & Hits & Ra & Rb) | lia | lia] end.
      exists hi. rewrite flats_app', fl_app. split; [|lia].
      apply kt_mk; [exact Hlo | lia | eapply kis_cons; eassumption].
    + exists lo. tidy. cbn [filter]. split; [apply kt_mk; [exact Hlo | lia | constructor] | lia].
  - (* kitem repetition *)
    intros p p' F lo H Hlo. inversion H; clear H; subst.
    + exists lo. tidy. cbn [filter]. split; [constructor | lia].
    + match goal with H : hgen _ (ESeq ESkip ITEM) _ _ _ _ _ |- _ => inversion H; clear H; subst end.
      match goal with H : hgen _ ESkip _ _ _ _ _ |- _ => apply hskip in H; destruct H as [-> Ls] end.
      match goal with H : hgen _ ITEM _ _ _ _ _ |- _ =>
        eapply ONE with (lo := lo) in H; [destruct H as (Hit & Li) | lia | lia] end.
      match goal with H : hgen _ (ERepTail ITEM) _ _ _ _ _ |- _ =>
        pose proof (hle _ _ _ _ _ _ _ H);
        eapply REP with (lo := p1) in H; [destruct H as (hi & Hits & Ra & Rb) | lia | lia] end.
      exists hi. tidy. rewrite fl_app. split; [eapply kis_cons; eassumption | lia].
  - (* chain repetition *)
    intros p p' F lo H Hlo. inversion H; clear H; subst.
    + exists lo. tidy. cbn [filter]. split; [constructor | lia].
    + match goal with H : hgen _ (ESeq ESkip CHAIN) _ _ _ _ _ |- _ => inversion H; clear H; subst end.
      match goal with H : hgen _ ESkip _ _ _ _ _ |- _ => apply hskip in H; destruct H as [-> Ls] end.
      match goal with H : hgen _ CHAIN _ _ _ _ _ |- _ =>
        eapply CHAIN1 with (lo := lo) in H; [destruct H as (mid & M1 & M2 & M3 & Hk) | lia | lia] end.
      match goal with H : hgen _ (ERepTail CHAIN) _ _ _ _ _ |- _ =>
        pose proof (hle _ _ _ _ _ _ _ H);
        eapply CHREP with (lo := mid) in H; [destruct H as (hi & Hc & C1 & C2) | lia | lia] end.
      exists hi. tidy. rewrite fl_app. split; [apply Hk; exact Hc | lia].
Qed.

Theorem KAll_all : forall f, KAll f.
Proof. induction f as [f IH] using lt_wf_ind. apply KAll_step. exact IH. Qed.

Theorem kschema : forall f p' F,
  hgen f (ERef R_handlebars) ANon false 0 p' F ->
  kwf_tokens (fl (flats F)) /\ escapes_sorted (flats F).
Proof.
  intros f p' F H. split; [|eapply hb_escapes_sorted; exact H].
  gen_ref H. repeat eseq.
  match goal with H : hgen _ (ERef R_template) _ _ _ _ _ |- _ =>
    pose proof (hle _ _ _ _ _ _ _ H);
    destruct (proj1 (KAll_all _) _ _ _ 0 H (N.le_refl 0)) as (hi & Htm & Ha & Hb) end.
  match goal with H : hgen _ (ERef R_EOI) _ _ _ _ _ |- _ => gen_ref H; gen_inv end.
  rewrite !flats_app', !fl_app. tidy. cbn [filter app].
  change (not_escape (R_EOI, p', p')) with true. cbn iota.
  inversion Htm as [lo hi' s e body Hs He Hit Eq]; subst.
  exists s, e, body, hi, p'. split; [reflexivity|]. split; [exact Hit | lia].
Qed.

(* ================= Part 6: compile2 ================= *)
Lemma BP_of_blocks_plain src opts ts : blocks_plain src opts ts = true ->
  Forall (fun t => blocks_plain_token src opts t = true) ts.
Proof. unfold blocks_plain. intros H. apply Forall_forall. apply forallb_forall. exact H. Qed.

(* the stage theorem: the fold over any token stream of the refined grammar *)
Theorem compile_tokens_conservation_kwf : forall src opts ts t,
  kwf_tokens (filter not_escape ts) -> escapes_sorted ts -> Forall (span_ok src) ts ->
  blocks_plain src opts ts = true ->
  compile_tokens src opts ts = COk t ->
  all_raw_text (t_els t) = strip_tags src ts (filter not_escape ts) 0.
Proof.
  intros src opts ts t (s & e & body & hi & p & Efl & Hit & Hhi) Hesc Hsp Hbl Hc.
  unfold compile_tokens in Hc. change (fun t0 : tok => negb (is_rule R_escape t0)) with not_escape in Hc.
  pose proof (BP_of_blocks_plain _ _ _ Hbl) as Hbp.
  rewrite Efl in *.
  assert (Hsp' : Forall (span_ok src) ((R_template, s, e) :: body ++ [(R_EOI, p, p)])).
  { rewrite <- Efl. apply Forall_filter. exact Hsp. }
  assert (Hbp' : Forall (fun t => blocks_plain_token src opts t = true) ((R_template, s, e) :: body ++ [(R_EOI, p, p)])).
  { rewrite <- Efl. apply Forall_filter. exact Hbp. }
  assert (Hpos : p <= len src).
  { inversion Hsp' as [|x y _ Hy]; subst. apply Forall_app in Hy. destruct Hy as [_ Hy].
    inversion Hy as [|x' y' [_ Hx'] _]; subst. exact Hx'. }
  eapply main_loop_blocks; eassumption.
Qed.

Theorem hb_parse_kwf : forall fuel src ts,
  hb_parse fuel R_handlebars src = Parsed ts ->
  kwf_tokens (filter not_escape ts) /\ escapes_sorted ts.
Proof.
  intros fuel src ts Hp. rewrite hb_parse_unfold in Hp. unfold parse in Hp.
  destruct (eval rule hb_defs hb_ws fuel (ERef R_handlebars) ANon false src 0) as [pos rest ts0| |] eqn:E;
    try discriminate.
  inversion Hp; subst ts0.
  destruct (eval_gen rule hb_defs hb_ws hb_RP hb_RP_holds _ _ _ _ _ _ _ _ _ E) as (F & -> & G).
  exact (kschema _ _ _ G).
Qed.

(* C03 with blocks *)
Theorem conservation_blocks : forall src opts ts t,
  hb_parse (peg_fuel src) R_handlebars src = Parsed ts ->
  blocks_plain src opts ts = true ->
  compile2 src opts = COk t ->
  all_raw_text (t_els t) = strip_tags src ts (filter not_escape ts) 0.
Proof.
  intros src opts ts t Hp Hbl Hc.
  rewrite compile2_unfold in Hc.
  pose proof (hb_parse_spans _ _ _ _ Hp) as Hsp.
  destruct (hb_parse_kwf _ _ _ Hp) as [Hk Hesc].
  rewrite Hp in Hc. eapply compile_tokens_conservation_kwf; eassumption.
Qed.

(* the hypotheses hold for a source with a nested block, an else chain, a plain
   else, a raw block (with a tag inside), an inline partial, a comment and an
   escape; the conserved text is computed *)
Definition cb_src : str :=
  `"a {{#if x}}b {{#each y}}c{{else}}d{{/each}} e{{else if z}}f \{{g}} {{else}}h{{/if}} {{{{raw}}}} {{r}} {{{{/raw}}}}{{#*inline ""i""}}j{{/inline}}{{!k}} l".

Example conservation_blocks_example :
  exists ts t,
    hb_parse (peg_fuel cb_src) R_handlebars cb_src = Parsed ts /\
    blocks_plain cb_src default_opts ts = true /\
    compile2 cb_src default_opts = COk t /\
    all_raw_text (t_els t) = strip_tags cb_src ts (filter not_escape ts) 0 /\
    all_raw_text (t_els t) = `"a b cd ef {{g}} h  {{r}} j l".
Proof.
  destruct (hb_parse (peg_fuel cb_src) R_handlebars cb_src) as [ts| |] eqn:Ep;
    [|vm_compute in Ep; discriminate Ep..].
  assert (Hb : blocks_plain cb_src default_opts ts = true).
  { vm_compute in Ep. injection Ep as <-. vm_compute. reflexivity. }
  destruct (compile2 cb_src default_opts) as [t| | |] eqn:Ec; [|vm_compute in Ec; discriminate Ec..].
  exists ts, t. split; [reflexivity|]. split; [exact Hb|]. split; [reflexivity|].
  split; [eapply conservation_blocks; eassumption|].
  vm_compute in Ec. injection Ec as <-. vm_compute. reflexivity.
Qed.
