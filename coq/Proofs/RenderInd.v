(* Proofs/RenderInd.v — reusable scaffold for render-wide invariants of the
   mutual fixpoint of Rt/Render.v.

   1. `sat r Qok Qerr Qpanic`: a predicate on outcomes, with the generic
      lemmas for `rbind`, `rmap_err`, `fold_idx`, `mapM` and post-processing
      matches.
   2. One-step unfolding equations `F_0`, `F_S` for each of the sixteen
      functions (all by `reflexivity`; `cbn` does not refold the mutual fix).
   3. `rspec` (one predicate per function), `holds Sp f` (all sixteen satisfy
      their predicate at fuel f) and `render_ind` (induction on fuel, organised
      as one step lemma per function taking `holds Sp f` as hypothesis).
   4. `crit`: the three fields of the state that only the writer, the escape
      function and the two "bracketing" constructs (triple-brace expressions,
      subexpression evaluation) touch; the theorem `crit_rel`: any pair of
      relations (Rok, Rerr) on `crit` that is a preorder, is respected by a
      successful write and by an escape-log step, and is compatible with the
      two brackets, relates the input state of every one of the sixteen
      functions to its output state.  Instantiated in WriterPrefix.v,
      EscapeFlag.v. *)
From Coq Require Import List Lia NArith ZArith.
From HB Require Import Rt.Render Spec.RenderAll.
Import ListNotations.
Open Scope N_scope.

(* ====================================================================== *)
(** * 1. Outcome predicates *)

Definition sat {A} (r : rres A) (Qok : A -> rstate -> Prop)
           (Qerr : rerror -> rstate -> Prop) (Qpanic : Prop) : Prop :=
  match r with
  | ROk a s => Qok a s
  | RErr e s => Qerr e s
  | RPanic _ => Qpanic
  | RFuel => True
  end.

Lemma sat_ok {A} (r : rres A) Q E P a s : sat r Q E P -> r = ROk a s -> Q a s.
Proof. intros H ->. exact H. Qed.
Lemma sat_err {A} (r : rres A) Q E P e s : sat r Q E P -> r = RErr e s -> E e s.
Proof. intros H ->. exact H. Qed.
Lemma sat_nopanic {A} (r : rres A) Q E p : sat r Q E False -> r <> RPanic p.
Proof. intros H ->. exact H. Qed.

Lemma sat_mono {A} (r : rres A) (Q Q' : A -> rstate -> Prop) (E E' : rerror -> rstate -> Prop)
      (P P' : Prop) :
  sat r Q E P -> (forall a s, Q a s -> Q' a s) -> (forall e s, E e s -> E' e s) -> (P -> P') ->
  sat r Q' E' P'.
Proof. destruct r; cbn; auto. Qed.

Lemma sat_rbind {A B} (x : rres A) (f : A -> rstate -> rres B) Q1 Q2 E P :
  sat x Q1 E P -> (forall a s, Q1 a s -> sat (f a s) Q2 E P) -> sat (rbind x f) Q2 E P.
Proof. destruct x; cbn; auto. Qed.

Lemma sat_rmap_err {A} (x : rres A) g Q (E1 E2 : rerror -> rstate -> Prop) P :
  sat x Q E1 P -> (forall e s, E1 e s -> E2 (g e) s) -> sat (rmap_err x g) Q E2 P.
Proof. destruct x; cbn; auto. Qed.

(* a match that post-processes the Ok and Err outcomes and passes on the rest
   (render_expression's flag reset, expand_partial's cleanup,
   call_helper_for_value's restore) *)
Lemma sat_post {A B} (r : rres A) (v : A -> rstate -> B) (g h : rstate -> rstate)
      Q E (Q' : B -> rstate -> Prop) (E' : rerror -> rstate -> Prop) P :
  sat r Q E P ->
  (forall a s, Q a s -> Q' (v a s) (g s)) ->
  (forall e s, E e s -> E' e (h s)) ->
  sat (match r with
       | ROk a s' => ROk (v a s') (g s')
       | RErr e s' => RErr e (h s')
       | RPanic p => RPanic p
       | RFuel => RFuel
       end) Q' E' P.
Proof. destruct r; cbn; auto. Qed.

(* the same with the catch-all spelling `| x => x` used by render_expression and
   expand_partial (the branch returns the scrutinee itself) *)
Lemma sat_post_id {A} (r : rres A) (g h : rstate -> rstate)
      Q E (Q' : A -> rstate -> Prop) (E' : rerror -> rstate -> Prop) P :
  sat r Q E P ->
  (forall a s, Q a s -> Q' a (g s)) ->
  (forall e s, E e s -> E' e (h s)) ->
  sat (match r with
       | ROk a s' => ROk a (g s')
       | RErr e s' => RErr e (h s')
       | x => x
       end) Q' E' P.
Proof. destruct r; cbn; auto. Qed.

(* if `step` preserves the state invariant I then so does `fold_idx step` *)
Lemma sat_fold_idx {A} (step : A -> nat -> rstate -> rres unit) (I : rstate -> Prop) E P l :
  (forall x i s, In x l -> I s -> sat (step x i s) (fun _ => I) E P) ->
  forall i s, I s -> sat (fold_idx step l i s) (fun _ => I) E P.
Proof.
  induction l as [|x r IHl]; intros Hstep i s Hs; cbn [fold_idx].
  - exact Hs.
  - eapply sat_rbind.
    + apply Hstep; [left; reflexivity | exact Hs].
    + intros u s' Hs'. apply IHl; [|exact Hs']. intros; apply Hstep; [right|]; assumption.
Qed.

(* if `f` preserves I and establishes Qb of its result then `mapM f` preserves
   I and establishes Qb of every result *)
Lemma sat_mapM {A B} (f : A -> rstate -> rres B) (I : rstate -> Prop) (Qb : B -> Prop) E P l :
  (forall x s, In x l -> I s -> sat (f x s) (fun b s' => I s' /\ Qb b) E P) ->
  forall s, I s -> sat (mapM f l s) (fun bs s' => I s' /\ Forall Qb bs) E P.
Proof.
  induction l as [|x r IHl]; intros Hf s Hs; cbn [mapM].
  - split; [exact Hs | constructor].
  - eapply sat_rbind.
    + apply Hf; [left; reflexivity | exact Hs].
    + intros b s1 [Hs1 Hb]. eapply sat_rbind.
      * apply IHl; [|exact Hs1]. intros; apply Hf; [right|]; assumption.
      * intros bs s2 [Hs2 Hbs]. cbn. split; [exact Hs2 | constructor; assumption].
Qed.

(* ====================================================================== *)
(** * 2. One-step unfolding of the sixteen functions *)
Section Eqns.
Variables (reg : registry) (data : json) (ft : ftable).

Lemma render_template_0 (t : template) (s : rstate) : render_template reg data ft O t s = RFuel.
Proof. reflexivity. Qed.

Lemma render_template_S (f : nat) (t : template) (s : rstate) :
  render_template reg data ft (S f) t s =
        rbind (fold_idx (fun e idx s' => rmap_err (render_element reg data ft f e s') (attach_render t idx))
                        (t_els t) O (set_current s (t_name t)))
              (fun _ s' => ROk tt (set_current s' (s_current s))).
Proof. reflexivity. Qed.

Lemma eval_template_0 (t : template) (s : rstate) : eval_template reg data ft O t s = RFuel.
Proof. reflexivity. Qed.

Lemma eval_template_S (f : nat) (t : template) (s : rstate) :
  eval_template reg data ft (S f) t s =
        fold_idx (fun e idx s' => rmap_err (eval_element reg data ft f e s') (attach_eval t idx))
                 (t_els t) O s.
Proof. reflexivity. Qed.

Lemma opt_render_0 (t : option template) (s : rstate) : opt_render reg data ft O t s = RFuel.
Proof. reflexivity. Qed.

Lemma opt_render_S (f : nat) (t : option template) (s : rstate) :
  opt_render reg data ft (S f) t s = match t with Some t' => render_template reg data ft f t' s | None => ROk tt s end.
Proof. reflexivity. Qed.

Lemma render_element_0 (e : element) (s : rstate) : render_element reg data ft O e s = RFuel.
Proof. reflexivity. Qed.

Lemma render_element_S (f : nat) (e : element) (s : rstate) :
  render_element reg data ft (S f) e s =
        match e with
        | ElRaw v => indent_aware_write v s
        | ElExpr ht => render_expression reg data ft f ht false s
        | ElHtml ht => render_expression reg data ft f ht true s
        | ElBlock ht => render_helper reg data ft f ht s
        | ElDecoExpr dt => eval_decorator reg data ft f dt s
        | ElDecoBlock dt => eval_decorator reg data ft f dt s
        | ElPartExpr dt => render_partial reg data ft f dt s
        | ElPartBlock dt => render_partial reg data ft f dt s
        | ElComment _ => ROk tt s
        end.
Proof. reflexivity. Qed.

Lemma eval_element_0 (e : element) (s : rstate) : eval_element reg data ft O e s = RFuel.
Proof. reflexivity. Qed.

Lemma eval_element_S (f : nat) (e : element) (s : rstate) :
  eval_element reg data ft (S f) e s =
        match e with
        | ElDecoExpr dt => eval_decorator reg data ft f dt s
        | ElDecoBlock dt => eval_decorator reg data ft f dt s
        | _ => ROk tt s
        end.
Proof. reflexivity. Qed.

Lemma render_expression_0 (ht : helper_t) (html : bool) (s : rstate) : render_expression reg data ft O ht html s = RFuel.
Proof. reflexivity. Qed.

Lemma render_expression_S (f : nat) (ht : helper_t) (html : bool) (s : rstate) :
  render_expression reg data ft (S f) ht html s =
        let s0 := if html then set_disable_escape s true else s in
        let result :=
          if is_name_only ht then
            rbind (expand_as_name reg data ft f (h_name ht) s0) (fun helper_name s1 =>
              if helper_exists reg s1 helper_name then render_helper reg data ft f ht s1
              else
                rbind (expand_param reg data ft f (h_name ht) s1) (fun cj s2 =>
                  if sc_missing (pj_val cj) then
                    if r_strict reg then strict_error (pj_rel cj) s2
                    else
                      match find_reg_helper reg HELPER_MISSING with
                      | Some hook =>
                          rbind (helper_from_template reg data ft f ht s2) (fun h s3 => call_helper reg data ft f hook h s3)
                      | None => ROk tt s2
                      end
                  else
                    let '(output, s3) := do_escape reg (render_json ft (pj_value cj)) s2 in
                    indent_aware_write output s3))
          else render_helper reg data ft f ht s0 in
        (* early `?` returns inside the block skip the reset; only the Ok path
           and errors of the final expression reach it *)
        match result with
        | ROk u s' => ROk u (if html then set_disable_escape s' false else s')
        | RErr e s' => RErr e (if html then set_disable_escape s' false else s')
        | x => x
        end.
Proof. reflexivity. Qed.

Lemma render_helper_0 (ht : helper_t) (s : rstate) : render_helper reg data ft O ht s = RFuel.
Proof. reflexivity. Qed.

Lemma render_helper_S (f : nat) (ht : helper_t) (s : rstate) :
  render_helper reg data ft (S f) ht s =
        rbind (helper_from_template reg data ft f ht s) (fun h s1 =>
          let call_indent_aware (hid : helper_id) (s : rstate) : rres unit :=
            let ibw_before := s_indent_before_write s in
            let cp_before := s_content_produced s in
            let s' := set_indent_before_write (set_content_produced s false)
                        (ibw_before || (h_ibw ht && s_trailing_newline s)) in
            rbind (call_helper reg data ft f hid h s') (fun _ s2 =>
              if s_content_produced s2
              then ROk tt (set_indent_before_write s2 (s_trailing_newline s2))
              else ROk tt (set_indent_before_write (set_content_produced s2 cp_before) ibw_before)) in
          match find_local_helper s1 (hv_name h) with
          | Some hid => call_indent_aware hid s1
          | None =>
              match find_reg_helper reg (hv_name h) with
              | Some hid => call_indent_aware hid s1
              | None =>
                  match find_reg_helper reg (if h_block ht then BLOCK_HELPER_MISSING else HELPER_MISSING) with
                  | Some hid => call_indent_aware hid s1
                  | None => rfail (RHelperNotFound (hv_name h)) s1
                  end
              end
          end).
Proof. reflexivity. Qed.

Lemma helper_from_template_0 (ht : helper_t) (s : rstate) : helper_from_template reg data ft O ht s = RFuel.
Proof. reflexivity. Qed.

Lemma helper_from_template_S (f : nat) (ht : helper_t) (s : rstate) :
  helper_from_template reg data ft (S f) ht s =
        rbind (expand_as_name reg data ft f (h_name ht) s) (fun name s1 =>
        rbind (mapM (expand_param reg data ft f) (h_params ht) s1) (fun pv s2 =>
        rbind (mapM (fun kv s' => rbind (expand_param reg data ft f (snd kv) s') (fun v s'' => ROk (fst kv, v) s''))
                    (h_hash ht) s2) (fun hm s3 =>
          ROk {| hv_name := name; hv_params := pv; hv_hash := hm; hv_tpl := h_tpl ht;
                 hv_inv := h_inv ht; hv_bp := h_bp ht; hv_block := h_block ht |} s3))).
Proof. reflexivity. Qed.

Lemma deco_from_template_0 (dt : deco_t) (s : rstate) : deco_from_template reg data ft O dt s = RFuel.
Proof. reflexivity. Qed.

Lemma deco_from_template_S (f : nat) (dt : deco_t) (s : rstate) :
  deco_from_template reg data ft (S f) dt s =
        rbind (expand_as_name reg data ft f (d_name dt) s) (fun name s1 =>
        rbind (mapM (expand_param reg data ft f) (d_params dt) s1) (fun pv s2 =>
        rbind (mapM (fun kv s' => rbind (expand_param reg data ft f (snd kv) s') (fun v s'' => ROk (fst kv, v) s''))
                    (d_hash dt) s2) (fun hm s3 =>
          ROk {| dv_name := name; dv_params := pv; dv_hash := hm; dv_tpl := d_tpl dt;
                 dv_indent := combine_indent (s_indent s3) (d_indent dt) |} s3))).
Proof. reflexivity. Qed.

Lemma expand_as_name_0 (p : param) (s : rstate) : expand_as_name reg data ft O p s = RFuel.
Proof. reflexivity. Qed.

Lemma expand_as_name_S (f : nat) (p : param) (s : rstate) :
  expand_as_name reg data ft (S f) p s =
        match p with
        | PName n => ROk n s
        | PPath pa => ROk (path_raw pa) s
        | PSub _ => rbind (expand_param reg data ft f p s) (fun v s1 => ROk (render_json ft (pj_value v)) s1)
        | PLit j => ROk (render_json ft j) s
        end.
Proof. reflexivity. Qed.

Lemma expand_param_0 (p : param) (s : rstate) : expand_param reg data ft O p s = RFuel.
Proof. reflexivity. Qed.

Lemma expand_param_S (f : nat) (p : param) (s : rstate) :
  expand_param reg data ft (S f) p s =
        match p with
        | PName n => ROk {| pj_rel := Some n; pj_val := SMissing |} s
        | PPath pa =>
            match s_modified s with
            | Some c =>
                rbind (evaluate2 c pa s) (fun r s1 =>
                  ROk {| pj_rel := Some (path_raw pa); pj_val := SDerived (sc_json r) |} s1)
            | None =>
                rbind (evaluate2 data pa s) (fun r s1 =>
                  ROk {| pj_rel := Some (path_raw pa); pj_val := r |} s1)
            end
        | PLit j => ROk {| pj_rel := None; pj_val := SConstant j |} s
        | PSub el =>
            match el with
            | ElExpr ht =>
                rbind (expand_as_name reg data ft f (h_name ht) s) (fun name s1 =>
                rbind (helper_from_template reg data ft f ht s1) (fun h s2 =>
                  match find_local_helper s2 name with
                  | Some hid => call_helper_for_value reg data ft f hid h s2
                  | None =>
                      match find_reg_helper reg name with
                      | Some hid => call_helper_for_value reg data ft f hid h s2
                      | None =>
                          match find_reg_helper reg (if h_block ht then BLOCK_HELPER_MISSING
                                                 else HELPER_MISSING) with
                          | Some hid => call_helper_for_value reg data ft f hid h s2
                          | None => rfail (RHelperNotFound name) s2
                          end
                      end
                  end))
            | _ => RPanic (`"Parameter::expand unreachable")
            end
        end.
Proof. reflexivity. Qed.

Lemma call_helper_for_value_0 (hid : helper_id) (h : helper_v) (s : rstate) : call_helper_for_value reg data ft O hid h s = RFuel.
Proof. reflexivity. Qed.

Lemma call_helper_for_value_S (f : nat) (hid : helper_id) (h : helper_v) (s : rstate) :
  call_helper_for_value reg data ft (S f) hid h s =
        match call_inner reg hid h s with
        | ROk r s1 => ROk {| pj_rel := None; pj_val := r |} s1
        | RErr e s1 =>
            if is_unimplemented e then
              (* a private StringOutput; escaping disabled while the helper writes *)
              let saved_out := s_out s1 in
              let de := s_disable_escape s1 in
              let s2 := set_disable_escape (set_out s1 (out_new None)) true in
              match call_helper reg data ft f hid h s2 with
              | ROk _ s3 =>
                  let text := out_text (s_out s3) in
                  ROk {| pj_rel := None; pj_val := SDerived (JStr text) |}
                      (set_disable_escape (set_out s3 saved_out) de)
              | RErr e' s3 => RErr e' (set_out s3 saved_out)
              | RPanic p => RPanic p
              | RFuel => RFuel
              end
            else RErr e s1
        | RPanic p => RPanic p
        | RFuel => RFuel
        end.
Proof. reflexivity. Qed.

Lemma call_helper_0 (hid : helper_id) (h : helper_v) (s : rstate) : call_helper reg data ft O hid h s = RFuel.
Proof. reflexivity. Qed.

Lemma call_helper_S (f : nat) (hid : helper_id) (h : helper_v) (s : rstate) :
  call_helper reg data ft (S f) hid h s =
        if has_call_inner hid then
          match call_inner reg hid h s with
          | ROk result s1 =>
              if r_strict reg && sc_missing result then strict_error None s1
              else
                let '(output, s2) := do_escape reg (render_json ft (sc_json result)) s1 in
                indent_aware_write output s2
          | RErr e s1 => if is_unimplemented e then ROk tt s1 else RErr e s1
          | RPanic p => RPanic p
          | RFuel => RFuel
          end
        else
          match hid with
          | HIf | HUnless =>
              param_or h 0 (`"if") s (fun param =>
                let include_zero :=
                  match map_get (hv_hash h) (`"includeZero") with
                  | Some v => match pj_value v with JBool b => b | _ => false end
                  | None => false
                  end in
                let value := is_truthy include_zero (pj_value param) in
                let value := match hid with HUnless => negb value | _ => value end in
                opt_render reg data ft f (if value then hv_tpl h else hv_inv h) s)
          | HWith =>
              param_or h 0 (`"with") s (fun param =>
                if is_truthy false (pj_value param) then
                  let b0 := create_block param in
                  let b1 :=
                    match hv_bp h with
                    | Some (BP1 a) =>
                        b_set_params b0
                          (map_insert [] a
                             (match sc_context_path (pj_val param) with
                              | Some _ => BPPath []
                              | None => BPValue (pj_value param)
                              end))
                    | _ => b0
                    end in
                  rbind (opt_render reg data ft f (hv_tpl h) (push_block b1 s)) (fun _ s1 => ROk tt (pop_block s1))
                else
                  match hv_inv h with
                  | Some t => render_template reg data ft f t s
                  | None => if r_strict reg then strict_error (pj_rel param) s else ROk tt s
                  end)
          | HEach =>
              param_or h 0 (`"each") s (fun value =>
                match hv_tpl h with
                | None => ROk tt s
                | Some t =>
                    let no_inverse := match hv_inv h with None => true | Some _ => false end in
                    let otherwise :=
                      match hv_inv h with
                      | Some et => render_template reg data ft f et s
                      | None => if r_strict reg then strict_error (pj_rel value) s else ROk tt s
                      end in
                    let path := sc_context_path (pj_val value) in
                    match pj_value value with
                    | JArr l =>
                        if negb (Nat.eqb (length l) 0) || no_inverse then
                          let n := length l in
                          rbind (fold_idx (fun v i s' =>
                                             render_template reg data ft f t (each_iter_setup h path n i None v s'))
                                          l O (push_block (create_block value) s))
                                (fun _ s1 => ROk tt (pop_block s1))
                        else otherwise
                    | JObj m =>
                        if negb (Nat.eqb (length m) 0) || no_inverse then
                          let n := length m in
                          rbind (fold_idx (fun (kv : str * json) i s' =>
                                             render_template reg data ft f t
                                               (each_iter_setup h path n i (Some (fst kv)) (snd kv) s'))
                                          m O (push_block (create_block value) s))
                                (fun _ s1 => ROk tt (pop_block s1))
                        else otherwise
                    | _ => otherwise
                    end
                end)
          | HRaw => opt_render reg data ft f (hv_tpl h) s
          | HLog =>
              let level :=
                match map_get (hv_hash h) (`"level") with
                | Some v => match pj_value v with JStr l => l | _ => `"info" end
                | None => `"info"
                end in
              if valid_log_level level then ROk tt s else rfail (RInvalidLoggingLevel level) s
          | HDump =>
              let txt := hv_name h ++ `"(" ++ params_text (hv_params h) ++ `";" ++ hash_text (hv_hash h)
                         ++ `";" ++ (if hv_block h then `"B" else `"b")
                         ++ (match hv_tpl h with Some _ => `"T" | None => `"t" end)
                         ++ (match hv_inv h with Some _ => `"I" | None => `"i" end)
                         ++ `";" ++ bp_text (hv_bp h) ++ `")" in
              log_write txt s
          | HBlk =>
              rbind (out_write (`"[") (log_entry s (`"blk"))) (fun _ s1 =>
              rbind (opt_render reg data ft f (hv_tpl h) s1) (fun _ s2 =>
              rbind (out_write (`"|") s2) (fun _ s3 =>
              rbind (opt_render reg data ft f (hv_inv h) s3) (fun _ s4 => out_write (`"]") s4))))
          | HCnt =>
              ROk tt (log_entry s (`"cnt(" ++ match hv_params h with
                                              | p :: _ => render_json ft (pj_value p)
                                              | [] => []
                                              end ++ `")"))
          | HState => log_write (state_text s) s
          | HEvalp =>
              match hv_params h with
              | p :: _ =>
                  match pj_value p with
                  | JStr raw =>
                      rbind (evaluate data raw s) (fun r s1 =>
                        let body :=
                          match r with
                          | SMissing => `"m"
                          | SConstant j => `"c" ++ canon j
                          | SDerived j => `"d" ++ canon j
                          | SContext j cp => `"x" ++ canon_segs cp ++ canon j
                          end in
                        log_write (`"ev(" ++ body ++ `")") s1)
                  | _ => rfail (ROther (`"evalp")) s
                  end
              | [] => rfail (ROther (`"evalp")) s
              end
          | HFail => rfail (ROther (`"fail")) s
          | HHelperMissing =>
              log_write (`"hm(" ++ hv_name h ++ `":" ++ params_text (hv_params h) ++ `")") s
          | HBlockHelperMissing =>
              rbind (log_write (`"bhm(" ++ hv_name h ++ `")") s) (fun _ s1 => opt_render reg data ft f (hv_tpl h) s1)
          | HLocal n =>
              let txt := `"local(" ++ n ++ `":" ++ params_text (hv_params h) ++ `")" in
              if starts_with (`"c:") n
              then (* logs the usual line, captures its block body with Renderable::renders (a fresh
                      in-memory output that never fails, the same render context otherwise), then
                      writes "<", the captured text, ">"; on error the error propagates unchanged and
                      nothing of the body reaches the real output *)
                   match hv_tpl h with
                   | None => ROk tt (log_entry s txt)
                   | Some t =>
                       let s0 := log_entry s txt in
                       match render_template reg data ft f t (set_out s0 (out_new None)) with
                       | ROk _ s2 =>
                           rbind (out_write (`"<") (set_out s2 (s_out s0))) (fun _ s3 =>
                           rbind (out_write (out_text (s_out s2)) s3) (fun _ s4 => out_write (`">") s4))
                       | RErr e s2 => RErr e (set_out s2 (s_out s0))
                       | RPanic p => RPanic p
                       | RFuel => RFuel
                       end
                   end
              else if starts_with (`"f:") n
              then (* logs the usual line, then write!(out, "literal-0123456789") — a format string
                      without arguments *)
                   out_write (`"literal-0123456789") (log_entry s txt)
              else if starts_with (`"w:") n
              then (* logs the usual line, writes the rendered text of its first parameter (nothing if
                      there is none), unescaped *)
                   out_write (match hv_params h with p :: _ => render_json ft (pj_value p) | [] => [] end)
                             (log_entry s txt)
              else if starts_with (`"e:") n
              then let '(output, s1) := do_escape reg txt (log_entry s txt) in out_write output s1
              else log_write txt s
          | _ => ROk tt s
          end.
Proof. reflexivity. Qed.

Lemma eval_decorator_0 (dt : deco_t) (s : rstate) : eval_decorator reg data ft O dt s = RFuel.
Proof. reflexivity. Qed.

Lemma eval_decorator_S (f : nat) (dt : deco_t) (s : rstate) :
  eval_decorator reg data ft (S f) dt s =
        rbind (deco_from_template reg data ft f dt s) (fun d s1 =>
          match map_get (r_decorators reg) (dv_name d) with
          | None => rfail (RDecoratorNotFound (dv_name d)) s1
          | Some DInline =>
              match dv_params d with
              | [] => rfail (RParamNotFoundForIndex (`"inline") 0) s1
              | p :: _ =>
                  match pj_value p with
                  | JStr name =>
                      match dv_tpl d with
                      | None => rfail RBlockContentRequired s1
                      | Some t => ROk tt (set_partials s1 (map_insert (s_partials s1) name t))
                      end
                  | _ => rfail (RInvalidParamType (`"String")) s1
                  end
              end
          | Some DSetHelper =>
              match dv_params d with
              | p :: _ =>
                  match pj_value p with
                  | JStr name =>
                      ROk tt (set_local_helpers s1 (map_insert (s_local_helpers s1) name (HLocal (sethelper_tag d name))))
                  | _ => rfail (ROther (`"sethelper")) s1
                  end
              | [] => rfail (ROther (`"sethelper")) s1
              end
          | Some DSetCtx =>
              match dv_params d with
              | p :: _ => ROk tt (set_modified s1 (Some (pj_value p)))
              | [] => rfail (RParamNotFoundForIndex (`"setctx") 0) s1
              end
          end).
Proof. reflexivity. Qed.

Lemma render_partial_0 (dt : deco_t) (s : rstate) : render_partial reg data ft O dt s = RFuel.
Proof. reflexivity. Qed.

Lemma render_partial_S (f : nat) (dt : deco_t) (s : rstate) :
  render_partial reg data ft (S f) dt s =
        rbind (deco_from_template reg data ft f dt s) (fun di s1 =>
          let ibw_before := s_indent_before_write s1 in
          let cp_before := s_content_produced s1 in
          let has_indent := match d_indent dt with Some _ => true | None => false end in
          let s2 := set_content_produced
                      (set_indent_before_write s1 (d_ibw dt && (s_trailing_newline s1 || has_indent)))
                      false in
          rbind (expand_partial reg data ft f di s2) (fun _ s3 =>
            if s_content_produced s3
            then ROk tt (set_indent_before_write s3 (s_trailing_newline s3))
            else ROk tt (set_indent_before_write (set_content_produced s3 cp_before) ibw_before))).
Proof. reflexivity. Qed.

Lemma expand_partial_0 (d : deco_v) (s : rstate) : expand_partial reg data ft O d s = RFuel.
Proof. reflexivity. Qed.

Lemma expand_partial_S (f : nat) (d : deco_v) (s : rstate) :
  expand_partial reg data ft (S f) d s =
        rbind (match dv_tpl d with Some t => eval_template reg data ft f t s | None => ROk tt s end) (fun _ s1 =>
          let tname := dv_name d in
          let current_before := s_current s1 in
          let depth_before := s_pb_depth s1 in
          let indent_before := s_indent s1 in
          if match s_current s1 with Some c => str_eqb c tname | None => false end
          then rfail RCannotIncludeSelf s1
          else
            let found :=
              match get_partial s1 tname with
              | Some p => Some p
              | None =>
                  match (match s_dev s1 with Some dm => map_get dm tname | None => None end) with
                  | Some p => Some p
                  | None =>
                      match map_get (r_templates reg) tname with
                      | Some p => Some p
                      | None => dv_tpl d
                      end
                  end
              end in
            match found with
            | None => rfail (RPartialNotFound tname) s1
            | Some partial =>
                let s2 :=
                  if str_eqb tname PARTIAL_BLOCK then
                    match current_pb s1 with
                    | Some (_, d0) => set_pb_depth s1 d0
                    | None => s1
                    end
                  else s1 in
                let hash_ctx := map (fun kv : str * pj => (fst kv, pj_value (snd kv))) (dv_hash d) in
                rbind
                  (match dv_params d with
                   | p :: _ =>
                       match pj_rel p with
                       | Some rel =>
                           rbind (evaluate data rel s2) (fun r s' => ROk (merge_json (sc_json r) hash_ctx) s')
                       | None => ROk (merge_json (pj_value p) hash_ctx) s2
                       end
                   | [] =>
                       rbind (evaluate2 data path_current s2)
                             (fun r s' => ROk (merge_json (sc_json r) hash_ctx) s')
                   end)
                  (fun merged s3 =>
                     let current_blocks := s_blocks s3 in
                     let s4 := set_blocks s3 [b_set_base_value block_new merged] in
                     let s5 := match dv_tpl d with
                               | Some pb =>
                                   set_pb_depth (set_pb_stack s4 ((pb, s_pb_depth s4) :: s_pb_stack s4))
                                                (Z.of_nat (S (length (s_pb_stack s4))))
                               | None => s4
                               end in
                     let s6 := set_indent s5 (dv_indent d) in
                     let cleanup (s : rstate) : rstate :=
                       let sa := match dv_tpl d with
                                 | Some _ => set_pb_stack s (tl (s_pb_stack s))
                                 | None => s
                                 end in
                       set_indent (set_pb_depth (set_current (set_blocks sa current_blocks) current_before)
                                                depth_before) indent_before in
                     match render_template reg data ft f partial s6 with
                     | ROk u s7 => ROk u (cleanup s7)
                     | RErr e s7 => RErr e (cleanup s7)
                     | x => x
                     end)
            end).
Proof. reflexivity. Qed.

End Eqns.

(* ====================================================================== *)
(** * 3. Specs, `holds`, induction on fuel *)
Section Ind.
Variables (reg : registry) (data : json) (ft : ftable).

Record rspec := {
  sp_rt : template -> rstate -> rres unit -> Prop;              (* render_template *)
  sp_et : template -> rstate -> rres unit -> Prop;              (* eval_template *)
  sp_or : option template -> rstate -> rres unit -> Prop;       (* opt_render *)
  sp_re : element -> rstate -> rres unit -> Prop;               (* render_element *)
  sp_ee : element -> rstate -> rres unit -> Prop;               (* eval_element *)
  sp_rx : helper_t -> bool -> rstate -> rres unit -> Prop;      (* render_expression *)
  sp_rh : helper_t -> rstate -> rres unit -> Prop;              (* render_helper *)
  sp_hft : helper_t -> rstate -> rres helper_v -> Prop;         (* helper_from_template *)
  sp_dft : deco_t -> rstate -> rres deco_v -> Prop;             (* deco_from_template *)
  sp_ean : param -> rstate -> rres str -> Prop;                 (* expand_as_name *)
  sp_ep : param -> rstate -> rres pj -> Prop;                   (* expand_param *)
  sp_chv : helper_id -> helper_v -> rstate -> rres pj -> Prop;  (* call_helper_for_value *)
  sp_ch : helper_id -> helper_v -> rstate -> rres unit -> Prop; (* call_helper *)
  sp_ed : deco_t -> rstate -> rres unit -> Prop;                (* eval_decorator *)
  sp_rp : deco_t -> rstate -> rres unit -> Prop;                (* render_partial *)
  sp_xp : deco_v -> rstate -> rres unit -> Prop                 (* expand_partial *)
}.

(* all sixteen functions satisfy their predicate at fuel f *)
Record holds (Sp : rspec) (f : nat) : Prop := {
  h_rt : forall t s, sp_rt Sp t s (render_template reg data ft f t s);
  h_et : forall t s, sp_et Sp t s (eval_template reg data ft f t s);
  h_or : forall t s, sp_or Sp t s (opt_render reg data ft f t s);
  h_re : forall e s, sp_re Sp e s (render_element reg data ft f e s);
  h_ee : forall e s, sp_ee Sp e s (eval_element reg data ft f e s);
  h_rx : forall ht html s, sp_rx Sp ht html s (render_expression reg data ft f ht html s);
  h_rh : forall ht s, sp_rh Sp ht s (render_helper reg data ft f ht s);
  h_hft : forall ht s, sp_hft Sp ht s (helper_from_template reg data ft f ht s);
  h_dft : forall dt s, sp_dft Sp dt s (deco_from_template reg data ft f dt s);
  h_ean : forall p s, sp_ean Sp p s (expand_as_name reg data ft f p s);
  h_ep : forall p s, sp_ep Sp p s (expand_param reg data ft f p s);
  h_chv : forall hid h s, sp_chv Sp hid h s (call_helper_for_value reg data ft f hid h s);
  h_ch : forall hid h s, sp_ch Sp hid h s (call_helper reg data ft f hid h s);
  h_ed : forall dt s, sp_ed Sp dt s (eval_decorator reg data ft f dt s);
  h_rp : forall dt s, sp_rp Sp dt s (render_partial reg data ft f dt s);
  h_xp : forall d s, sp_xp Sp d s (expand_partial reg data ft f d s)
}.

(* every predicate accepts the out-of-fuel outcome *)
Record fuel_ok (Sp : rspec) : Prop := {
  z_rt : forall t s, sp_rt Sp t s RFuel;
  z_et : forall t s, sp_et Sp t s RFuel;
  z_or : forall t s, sp_or Sp t s RFuel;
  z_re : forall e s, sp_re Sp e s RFuel;
  z_ee : forall e s, sp_ee Sp e s RFuel;
  z_rx : forall ht html s, sp_rx Sp ht html s RFuel;
  z_rh : forall ht s, sp_rh Sp ht s RFuel;
  z_hft : forall ht s, sp_hft Sp ht s RFuel;
  z_dft : forall dt s, sp_dft Sp dt s RFuel;
  z_ean : forall p s, sp_ean Sp p s RFuel;
  z_ep : forall p s, sp_ep Sp p s RFuel;
  z_chv : forall hid h s, sp_chv Sp hid h s RFuel;
  z_ch : forall hid h s, sp_ch Sp hid h s RFuel;
  z_ed : forall dt s, sp_ed Sp dt s RFuel;
  z_rp : forall dt s, sp_rp Sp dt s RFuel;
  z_xp : forall d s, sp_xp Sp d s RFuel
}.

(* the step obligations: one per function, each with the induction hypothesis
   for all sixteen at the smaller fuel *)
Record steps (Sp : rspec) : Prop := {
  st_rt : forall f, holds Sp f -> forall t s, sp_rt Sp t s (render_template reg data ft (S f) t s);
  st_et : forall f, holds Sp f -> forall t s, sp_et Sp t s (eval_template reg data ft (S f) t s);
  st_or : forall f, holds Sp f -> forall t s, sp_or Sp t s (opt_render reg data ft (S f) t s);
  st_re : forall f, holds Sp f -> forall e s, sp_re Sp e s (render_element reg data ft (S f) e s);
  st_ee : forall f, holds Sp f -> forall e s, sp_ee Sp e s (eval_element reg data ft (S f) e s);
  st_rx : forall f, holds Sp f -> forall ht html s,
      sp_rx Sp ht html s (render_expression reg data ft (S f) ht html s);
  st_rh : forall f, holds Sp f -> forall ht s, sp_rh Sp ht s (render_helper reg data ft (S f) ht s);
  st_hft : forall f, holds Sp f -> forall ht s,
      sp_hft Sp ht s (helper_from_template reg data ft (S f) ht s);
  st_dft : forall f, holds Sp f -> forall dt s,
      sp_dft Sp dt s (deco_from_template reg data ft (S f) dt s);
  st_ean : forall f, holds Sp f -> forall p s, sp_ean Sp p s (expand_as_name reg data ft (S f) p s);
  st_ep : forall f, holds Sp f -> forall p s, sp_ep Sp p s (expand_param reg data ft (S f) p s);
  st_chv : forall f, holds Sp f -> forall hid h s,
      sp_chv Sp hid h s (call_helper_for_value reg data ft (S f) hid h s);
  st_ch : forall f, holds Sp f -> forall hid h s, sp_ch Sp hid h s (call_helper reg data ft (S f) hid h s);
  st_ed : forall f, holds Sp f -> forall dt s, sp_ed Sp dt s (eval_decorator reg data ft (S f) dt s);
  st_rp : forall f, holds Sp f -> forall dt s, sp_rp Sp dt s (render_partial reg data ft (S f) dt s);
  st_xp : forall f, holds Sp f -> forall d s, sp_xp Sp d s (expand_partial reg data ft (S f) d s)
}.

Theorem render_ind (Sp : rspec) : fuel_ok Sp -> steps Sp -> forall f, holds Sp f.
Proof.
  intros Z St f. induction f as [|f IH].
  - destruct Z. constructor; intros; assumption || auto.
  - destruct St. constructor; intros; auto.
Qed.

End Ind.

Arguments h_rt {reg data ft Sp f}. Arguments h_et {reg data ft Sp f}. Arguments h_or {reg data ft Sp f}.
Arguments h_re {reg data ft Sp f}. Arguments h_ee {reg data ft Sp f}. Arguments h_rx {reg data ft Sp f}.
Arguments h_rh {reg data ft Sp f}. Arguments h_hft {reg data ft Sp f}. Arguments h_dft {reg data ft Sp f}.
Arguments h_ean {reg data ft Sp f}. Arguments h_ep {reg data ft Sp f}. Arguments h_chv {reg data ft Sp f}.
Arguments h_ch {reg data ft Sp f}. Arguments h_ed {reg data ft Sp f}. Arguments h_rp {reg data ft Sp f}.
Arguments h_xp {reg data ft Sp f}.

(* ====================================================================== *)
(** * 4. Relations on the critical fields *)

Definition crit_t : Type := (outbuf * bool * list str)%type.
Definition crit (s : rstate) : crit_t := (s_out s, s_disable_escape s, s_esc_trace s).

Lemma crit_set_blocks s x : crit (set_blocks s x) = crit s. Proof. reflexivity. Qed.
Lemma crit_set_modified s x : crit (set_modified s x) = crit s. Proof. reflexivity. Qed.
Lemma crit_set_partials s x : crit (set_partials s x) = crit s. Proof. reflexivity. Qed.
Lemma crit_set_pb_stack s x : crit (set_pb_stack s x) = crit s. Proof. reflexivity. Qed.
Lemma crit_set_pb_depth s x : crit (set_pb_depth s x) = crit s. Proof. reflexivity. Qed.
Lemma crit_set_local_helpers s x : crit (set_local_helpers s x) = crit s. Proof. reflexivity. Qed.
Lemma crit_set_current s x : crit (set_current s x) = crit s. Proof. reflexivity. Qed.
Lemma crit_set_trailing_newline s x : crit (set_trailing_newline s x) = crit s. Proof. reflexivity. Qed.
Lemma crit_set_content_produced s x : crit (set_content_produced s x) = crit s. Proof. reflexivity. Qed.
Lemma crit_set_indent_before_write s x : crit (set_indent_before_write s x) = crit s. Proof. reflexivity. Qed.
Lemma crit_set_indent s x : crit (set_indent s x) = crit s. Proof. reflexivity. Qed.
Lemma crit_set_log s x : crit (set_log s x) = crit s. Proof. reflexivity. Qed.
Lemma crit_log_entry s x : crit (log_entry s x) = crit s. Proof. reflexivity. Qed.
Lemma crit_pop_block s : crit (pop_block s) = crit s. Proof. reflexivity. Qed.
Lemma crit_push_block b s : crit (push_block b s) = crit s. Proof. reflexivity. Qed.
Lemma crit_map_front_block g s : crit (map_front_block g s) = crit s.
Proof. unfold map_front_block. destruct (s_blocks s); reflexivity. Qed.
Lemma crit_each_iter_setup h p n i k v s : crit (each_iter_setup h p n i k v s) = crit s.
Proof. apply crit_map_front_block. Qed.
Lemma crit_set_out s o : crit (set_out s o) = (o, s_disable_escape s, s_esc_trace s).
Proof. reflexivity. Qed.
Lemma crit_set_disable_escape s b : crit (set_disable_escape s b) = (s_out s, b, s_esc_trace s).
Proof. reflexivity. Qed.
Lemma crit_set_esc_trace s t : crit (set_esc_trace s t) = (s_out s, s_disable_escape s, t).
Proof. reflexivity. Qed.

#[export] Hint Rewrite crit_set_blocks crit_set_modified crit_set_partials crit_set_pb_stack
  crit_set_pb_depth crit_set_local_helpers crit_set_current crit_set_trailing_newline
  crit_set_content_produced crit_set_indent_before_write crit_set_indent crit_set_log
  crit_log_entry crit_pop_block crit_push_block crit_map_front_block crit_each_iter_setup : crit.

(* innermost scrutinee of a nest of matches *)
Ltac inner_scrut x :=
  lazymatch x with
  | context [match ?y with _ => _ end] => inner_scrut y
  | _ => x
  end.

(* what a pair of relations on the critical fields must satisfy *)
Class crel_ok (Rok Rerr : crit_t -> crit_t -> Prop) : Prop := {
  R_refl : forall c, Rok c c;
  R_trans : forall a b c, Rok a b -> Rok b c -> Rok a c;
  R_sub : forall a b, Rok a b -> Rerr a b;
  R_etrans : forall a b c, Rerr a b -> Rerr b c -> Rerr a c;
  (* an accepted write *)
  R_write : forall o d t chunk,
    chunk <> [] ->
    match o_fail_at o with Some k => N.leb k (o_writes o) | None => false end = false ->
    Rok (o, d, t)
        ({| o_chunks := chunk :: o_chunks o; o_writes := o_writes o + 1; o_fail_at := o_fail_at o |},
         d, t);
  (* an escape call with escaping enabled *)
  R_esc : forall o t c, Rok (o, false, t) (o, false, c :: t);
  (* the triple-brace bracket: flag forced to true before, to false after *)
  R_html_ok : forall o d t o' d' t',
    Rok (o, true, t) (o', d', t') -> Rok (o, d, t) (o', false, t');
  R_html_err : forall o d t o' d' t',
    Rerr (o, true, t) (o', d', t') -> Rerr (o, d, t) (o', false, t');
  (* the subexpression bracket: private buffer and flag true before; buffer
     (and, on Ok, the flag) restored after *)
  R_sub_ok : forall o d t o' d' t',
    Rok (out_new None, true, t) (o', d', t') -> Rok (o, d, t) (o, d, t');
  R_sub_err : forall o d t o' d' t',
    Rerr (out_new None, true, t) (o', d', t') -> Rerr (o, d, t) (o, d', t');
  (* the capture bracket (Renderable::renders): private buffer before, the flag
     as it is; buffer restored after, the flag as the body left it *)
  R_cap_ok : forall o d t o' d' t',
    Rok (out_new None, d, t) (o', d', t') -> Rok (o, d, t) (o, d', t');
  R_cap_err : forall o d t o' d' t',
    Rerr (out_new None, d, t) (o', d', t') -> Rerr (o, d, t) (o, d', t')
}.

Definition okc (Rok : crit_t -> crit_t -> Prop) {A} (c0 : crit_t) : A -> rstate -> Prop :=
  fun _ s' => Rok c0 (crit s').
Definition errc (Rerr : crit_t -> crit_t -> Prop) (c0 : crit_t) : rerror -> rstate -> Prop :=
  fun _ s' => Rerr c0 (crit s').

(* threaded form: from any c0 related to the input state *)
Definition thr (Rok Rerr : crit_t -> crit_t -> Prop) {A} (s : rstate) (r : rres A) : Prop :=
  forall c0, Rok c0 (crit s) -> sat r (okc Rok c0) (errc Rerr c0) True.

Definition rel_spec (Rok Rerr : crit_t -> crit_t -> Prop) : rspec :=
  let t {A} := @thr Rok Rerr A in
  {| sp_rt := fun _ => t; sp_et := fun _ => t; sp_or := fun _ => t; sp_re := fun _ => t;
     sp_ee := fun _ => t; sp_rx := fun _ _ => t; sp_rh := fun _ => t; sp_hft := fun _ => t;
     sp_dft := fun _ => t; sp_ean := fun _ => t; sp_ep := fun _ => t; sp_chv := fun _ _ => t;
     sp_ch := fun _ _ => t; sp_ed := fun _ => t; sp_rp := fun _ => t; sp_xp := fun _ => t |}.

Section CritPrims.
Context {Rok Rerr : crit_t -> crit_t -> Prop} {HR : crel_ok Rok Rerr}.
Variable reg : registry.


Lemma thr_rbind {A B} c0 (x : rres A) (f : A -> rstate -> rres B) :
  sat x (okc Rok c0) (errc Rerr c0) True ->
  (forall a s1, Rok c0 (crit s1) -> sat (f a s1) (okc Rok c0) (errc Rerr c0) True) ->
  sat (rbind x f) (okc Rok c0) (errc Rerr c0) True.
Proof. intros Hx Hf. eapply sat_rbind; [exact Hx | exact Hf]. Qed.

Lemma thr_rmap_err {A} c0 (x : rres A) g :
  sat x (okc Rok c0) (errc Rerr c0) True -> sat (rmap_err x g) (okc Rok c0) (errc Rerr c0) True.
Proof. intros Hx. eapply sat_rmap_err; [exact Hx | auto]. Qed.

Lemma thr_fold_idx {A} c0 (step : A -> nat -> rstate -> rres unit) l i s :
  Rok c0 (crit s) ->
  (forall x i s, Rok c0 (crit s) -> sat (step x i s) (okc Rok c0) (errc Rerr c0) True) ->
  sat (fold_idx step l i s) (okc Rok c0) (errc Rerr c0) True.
Proof.
  intros Hs Hstep.
  apply (sat_fold_idx step (fun s' => Rok c0 (crit s')) (errc Rerr c0) True l); [|exact Hs].
  intros x j s' _ Hs'. apply Hstep. exact Hs'.
Qed.

Lemma thr_mapM {A B} c0 (f : A -> rstate -> rres B) l s :
  Rok c0 (crit s) ->
  (forall x s, Rok c0 (crit s) -> sat (f x s) (okc Rok c0) (errc Rerr c0) True) ->
  sat (mapM f l s) (okc Rok c0) (errc Rerr c0) True.
Proof.
  intros Hs Hf.
  eapply sat_mono;
    [apply (sat_mapM f (fun s' => Rok c0 (crit s')) (fun _ => True) (errc Rerr c0) True l); [|exact Hs]
    | | | ]; cbn; try tauto.
  intros x s' _ Hs'. eapply sat_mono; [apply Hf; exact Hs' | | | ]; cbn; auto.
Qed.

(* ---------- primitives ---------- *)
Lemma thr_out_write c0 chunk s :
  Rok c0 (crit s) -> sat (out_write chunk s) (okc Rok c0) (errc Rerr c0) True.
Proof.
  intros Hs. unfold out_write. destruct chunk as [|c r]; [exact Hs|].
  destruct (match o_fail_at (s_out s) with Some k => N.leb k (o_writes (s_out s)) | None => false end)
    eqn:Hf.
  - cbn. unfold errc. apply R_sub. exact Hs.
  - cbn. unfold okc. rewrite crit_set_out. eapply R_trans; [exact Hs|].
    apply R_write; [discriminate | exact Hf].
Qed.

Lemma thr_write_indented c0 fuel v ind s :
  Rok c0 (crit s) -> sat (write_indented fuel v ind s) (okc Rok c0) (errc Rerr c0) True.
Proof.
  revert v s. induction fuel as [|f IH]; intros v s Hs; cbn [write_indented]; [exact I|].
  destruct (find_lf v) as [k|]; [|apply thr_out_write; exact Hs].
  apply thr_rbind; [apply thr_out_write; exact Hs|]. intros _ s1 Hs1.
  destruct (skipn (S k) v) eqn:Hsk; [exact Hs1|].
  apply thr_rbind; [apply thr_out_write; exact Hs1|]. intros _ s2 Hs2. apply IH. exact Hs2.
Qed.

Lemma thr_indent_aware_write c0 v s :
  Rok c0 (crit s) -> sat (indent_aware_write v s) (okc Rok c0) (errc Rerr c0) True.
Proof.
  intros Hs. unfold indent_aware_write. destruct v as [|c r]; [exact Hs|].
  apply thr_rbind.
  - destruct (negb (first_is is_newline (c :: r)) && s_indent_before_write (set_content_produced s true)).
    + destruct (s_indent (set_content_produced s true)).
      * apply thr_out_write. exact Hs.
      * exact Hs.
    + exact Hs.
  - intros _ s2 Hs2. apply thr_rbind.
    + destruct (s_indent s2); [apply thr_write_indented | apply thr_out_write]; exact Hs2.
    + intros _ s3 Hs3. exact Hs3.
Qed.

Lemma do_escape_rel c0 content s :
  Rok c0 (crit s) -> Rok c0 (crit (snd (do_escape reg content s))).
Proof.
  intros Hs. unfold do_escape. destruct (s_disable_escape s) eqn:Hd; [exact Hs|].
  cbn [snd]. assert (Rok c0 (crit (set_esc_trace s (content :: s_esc_trace s)))) as H1.
  { rewrite crit_set_esc_trace, Hd. eapply R_trans; [exact Hs|]. unfold crit. rewrite Hd. apply R_esc. }
  destruct (r_esc_mark reg); [rewrite crit_log_entry|]; exact H1.
Qed.

Lemma thr_evaluate2 c0 d p s :
  Rok c0 (crit s) -> sat (evaluate2 d p s) (okc Rok c0) (errc Rerr c0) True.
Proof.
  intros Hs. unfold evaluate2. destruct p; [|exact Hs].
  destruct (navigate d segs (s_blocks s)); cbn; unfold errc; auto. apply R_sub; exact Hs.
Qed.

Lemma thr_evaluate c0 d raw s :
  Rok c0 (crit s) -> sat (evaluate d raw s) (okc Rok c0) (errc Rerr c0) True.
Proof.
  intros Hs. unfold evaluate. destruct (path_parse raw); [apply thr_evaluate2; exact Hs|].
  cbn. unfold errc. apply R_sub; exact Hs.
Qed.

Lemma thr_log_write c0 txt s :
  Rok c0 (crit s) -> sat (log_write txt s) (okc Rok c0) (errc Rerr c0) True.
Proof. intros Hs. unfold log_write. apply thr_out_write. rewrite crit_log_entry. exact Hs. Qed.

(* call_inner leaves the critical fields alone (only LOG entries) *)
Lemma call_inner_crit hid h s :
  sat (call_inner reg hid h s) (fun _ s' => crit s' = crit s) (fun _ s' => crit s' = crit s) True.
Proof.
  unfold call_inner, macro_inner, param_or, strict_error, rfail.
  repeat lazymatch goal with
  | |- sat ?e _ _ _ =>
      lazymatch e with
      | context [match ?y with _ => _ end] => let z := inner_scrut y in destruct z
      end
  end; cbn; reflexivity.
Qed.

Lemma thr_call_inner c0 hid h s :
  Rok c0 (crit s) -> sat (call_inner reg hid h s) (okc Rok c0) (errc Rerr c0) True.
Proof.
  intros Hs. eapply sat_mono; [apply call_inner_crit | | | auto]; cbn; unfold okc, errc.
  - intros _ s' ->. exact Hs.
  - intros _ s' ->. apply R_sub; exact Hs.
Qed.


End CritPrims.

(* ---------- the generic step tactic ---------- *)
Ltac thr_leaf :=
  cbn [sat]; unfold okc, errc;
  repeat (autorewrite with crit;
          try lazymatch goal with
              | |- context [crit (match ?y with _ => _ end)] => destruct y
              | |- context [crit (if ?y then _ else _)] => destruct y
              end);
  first [ assumption | apply R_sub; assumption | exact I ].

Ltac thr_ih IH :=
  first [ apply (h_rt IH) | apply (h_et IH) | apply (h_or IH) | apply (h_re IH) | apply (h_ee IH)
        | apply (h_rx IH) | apply (h_rh IH) | apply (h_hft IH) | apply (h_dft IH) | apply (h_ean IH)
        | apply (h_ep IH) | apply (h_chv IH) | apply (h_ch IH) | apply (h_ed IH) | apply (h_rp IH)
        | apply (h_xp IH) | apply thr_call_inner | apply thr_evaluate2 | apply thr_evaluate
        | apply thr_out_write | apply thr_indent_aware_write | apply thr_log_write ].

Ltac is_ih_call z :=
  lazymatch z with
  | render_template _ _ _ _ _ _ => idtac | eval_template _ _ _ _ _ _ => idtac
  | opt_render _ _ _ _ _ _ => idtac | render_element _ _ _ _ _ _ => idtac
  | eval_element _ _ _ _ _ _ => idtac | render_expression _ _ _ _ _ _ _ => idtac
  | render_helper _ _ _ _ _ _ => idtac | helper_from_template _ _ _ _ _ _ => idtac
  | deco_from_template _ _ _ _ _ _ => idtac | expand_as_name _ _ _ _ _ _ => idtac
  | expand_param _ _ _ _ _ _ => idtac | call_helper_for_value _ _ _ _ _ _ _ => idtac
  | call_helper _ _ _ _ _ _ _ => idtac | eval_decorator _ _ _ _ _ _ => idtac
  | render_partial _ _ _ _ _ _ => idtac | expand_partial _ _ _ _ _ _ => idtac
  | evaluate2 _ _ _ => idtac | evaluate _ _ _ => idtac
  | out_write _ _ => idtac | indent_aware_write _ _ => idtac | log_write _ _ => idtac
  end.

Ltac thr_step IH :=
  lazymatch goal with
  | |- sat ?e (okc ?Ro ?c0) (errc ?Re ?c0) True =>
      lazymatch e with
      | rbind _ _ => apply thr_rbind; [ | intros ? ? ? ]
      | rmap_err _ _ => apply thr_rmap_err
      | fold_idx _ _ _ _ => apply thr_fold_idx; [ | intros ? ? ? ? ]
      | mapM _ _ _ => apply thr_mapM; [ | intros ? ? ? ]
      | out_write _ _ => apply thr_out_write
      | indent_aware_write _ _ => apply thr_indent_aware_write
      | log_write _ _ => apply thr_log_write
      | evaluate2 _ _ _ => apply thr_evaluate2
      | evaluate _ _ _ => apply thr_evaluate
      | call_inner _ _ _ _ => apply thr_call_inner
      | param_or _ _ _ _ _ => unfold param_or
      | strict_error _ _ => unfold strict_error, rfail; thr_leaf
      | rfail _ _ => unfold rfail; thr_leaf
      | ROk _ _ => thr_leaf
      | RErr _ _ => thr_leaf
      | RPanic _ => exact I
      | RFuel => exact I
      | match ?y with _ => _ end =>
          let z := inner_scrut y in
          lazymatch z with
          | do_escape ?r ?c ?s =>
              let H := fresh "Hesc" in
              assert (H : Ro c0 (crit (snd (do_escape r c s)))) by (apply do_escape_rel; thr_leaf);
              destruct (do_escape r c s) as [? ?]; cbn [snd] in H
          | call_inner ?r ?hid ?h ?s =>
              let X := fresh "X" in
              pose proof (call_inner_crit r hid h s) as X;
              destruct (call_inner r hid h s); cbn [sat] in X; try rewrite <- X in *
          | _ =>
              tryif is_ih_call z
              then (let X := fresh "X" in
                    assert (X : sat z (okc Ro c0) (errc Re c0) True) by (thr_ih IH; thr_leaf);
                    destruct z; cbn [sat] in X; unfold okc, errc in X)
              else destruct z eqn:?
          end
      | _ => thr_ih IH
      end
  | |- _ _ (crit _) => thr_leaf
  end.

Ltac thr_go IH := intros c0 Hs; repeat thr_step IH.

Section CritRel.
Context {Rok Rerr : crit_t -> crit_t -> Prop} {HR : crel_ok Rok Rerr}.
Variables (reg : registry) (data : json) (ft : ftable).
Local Notation thr := (thr Rok Rerr).
Local Notation rel_spec := (rel_spec Rok Rerr).

Section Steps.
Variable f : nat.
Hypothesis IH : holds reg data ft rel_spec f.

Lemma step_rt t s : thr s (render_template reg data ft (S f) t s).
Proof. rewrite render_template_S. thr_go IH. Qed.
Lemma step_et t s : thr s (eval_template reg data ft (S f) t s).
Proof. rewrite eval_template_S. thr_go IH. Qed.
Lemma step_or t s : thr s (opt_render reg data ft (S f) t s).
Proof. rewrite opt_render_S. thr_go IH. Qed.
Lemma step_re e s : thr s (render_element reg data ft (S f) e s).
Proof. rewrite render_element_S. thr_go IH. Qed.
Lemma step_ee e s : thr s (eval_element reg data ft (S f) e s).
Proof. rewrite eval_element_S. thr_go IH. Qed.
Lemma step_rh ht s : thr s (render_helper reg data ft (S f) ht s).
Proof. rewrite render_helper_S. cbv zeta. thr_go IH. Qed.
Lemma step_hft ht s : thr s (helper_from_template reg data ft (S f) ht s).
Proof. rewrite helper_from_template_S. thr_go IH. Qed.
Lemma step_dft dt s : thr s (deco_from_template reg data ft (S f) dt s).
Proof. rewrite deco_from_template_S. thr_go IH. Qed.
Lemma step_ean p s : thr s (expand_as_name reg data ft (S f) p s).
Proof. rewrite expand_as_name_S. thr_go IH. Qed.
Lemma step_ep p s : thr s (expand_param reg data ft (S f) p s).
Proof. rewrite expand_param_S. thr_go IH. Qed.
Lemma step_ch hid h s : thr s (call_helper reg data ft (S f) hid h s).
Proof.
  rewrite call_helper_S. cbv zeta.
  destruct hid; try solve [thr_go IH].
  (* HLocal: the capture bracket of the "c:" mode *)
  cbn [has_call_inner]. intros c0 Hs.
  destruct (starts_with _ name); [|repeat thr_step IH].
  destruct (hv_tpl h) as [t|]; [|thr_leaf].
  match goal with
  | |- sat (match render_template _ _ _ _ _ ?s1 with _ => _ end) _ _ _ =>
      pose proof (h_rt IH t s1 _ (R_refl _)) as Y;
      destruct (render_template reg data ft f t s1) as [u s2|e s2|p|]; cbn [sat] in Y |- *; try exact I
  end.
  - assert (Hc : Rok c0 (crit (set_out s2 (s_out (log_entry s (`"local(" ++ name ++ `":" ++ params_text (hv_params h) ++ `")")))))).
    { unfold okc in Y. eapply R_trans; [exact Hs|]. unfold crit in *.
      cbn [s_out s_esc_trace s_disable_escape set_out log_entry set_log] in *.
      eapply R_cap_ok. exact Y. }
    revert Hc. generalize (set_out s2 (s_out (log_entry s (`"local(" ++ name ++ `":" ++ params_text (hv_params h) ++ `")")))).
    intros s3 Hs3. clear Hs. rename Hs3 into Hs. repeat thr_step IH.
  - unfold errc in *. eapply R_etrans; [apply R_sub; exact Hs|]. unfold crit in *.
    cbn [s_out s_esc_trace s_disable_escape set_out log_entry set_log] in *.
    eapply R_cap_err. exact Y.
Qed.
Lemma step_ed dt s : thr s (eval_decorator reg data ft (S f) dt s).
Proof. rewrite eval_decorator_S. thr_go IH. Qed.
Lemma step_rp dt s : thr s (render_partial reg data ft (S f) dt s).
Proof. rewrite render_partial_S. cbv zeta. thr_go IH. Qed.
Lemma step_xp d s : thr s (expand_partial reg data ft (S f) d s).
Proof. rewrite expand_partial_S. cbv zeta. thr_go IH. Qed.


(* triple-brace bracket *)
Lemma step_rx ht html s : thr s (render_expression reg data ft (S f) ht html s).
Proof.
  rewrite render_expression_S. cbv zeta. intros c0 Hs.
  destruct html; cbv iota.
  - apply (sat_post_id _ (fun s' => set_disable_escape s' false)
             (fun s' => set_disable_escape s' false)
             (okc Rok (crit (set_disable_escape s true))) (errc Rerr (crit (set_disable_escape s true)))).
    + pose proof (R_refl (crit (set_disable_escape s true))) as Hs0.
      clear Hs. revert Hs0. generalize (crit (set_disable_escape s true)) at 1 3 4. intros c1 Hs.
      repeat thr_step IH.
    + intros a s' H. unfold okc in *. rewrite crit_set_disable_escape in *.
      eapply R_trans; [exact Hs|]. unfold crit. eapply R_html_ok. exact H.
    + intros e s' H. unfold errc in *. rewrite crit_set_disable_escape in *.
      eapply R_etrans; [apply R_sub; exact Hs|]. unfold crit. eapply R_html_err. exact H.
  - apply (sat_post_id _ (fun s' => s') (fun s' => s') (okc Rok c0) (errc Rerr c0)).
    + repeat thr_step IH.
    + auto.
    + auto.
Qed.

(* subexpression bracket *)
Lemma step_chv hid h s : thr s (call_helper_for_value reg data ft (S f) hid h s).
Proof.
  rewrite call_helper_for_value_S. intros c0 Hs.
  pose proof (call_inner_crit reg hid h s) as X.
  destruct (call_inner reg hid h s) as [r s1|e s1|p|]; cbn [sat] in X; try exact I.
  - cbn. unfold okc. rewrite X. exact Hs.
  - destruct (is_unimplemented e); [|cbn; unfold errc; rewrite X; apply R_sub; exact Hs].
    cbv zeta. rewrite <- X in Hs.
    pose proof (h_ch IH hid h (set_disable_escape (set_out s1 (out_new None)) true) _ (R_refl _)) as Y.
    destruct (call_helper reg data ft f hid h (set_disable_escape (set_out s1 (out_new None)) true))
      as [u s3|e' s3|p|]; cbn [sat] in Y |- *; try exact I.
    + unfold okc in *. rewrite crit_set_disable_escape in *. cbn [s_out s_esc_trace set_out] in *.
      eapply R_trans; [exact Hs|]. unfold crit in *. eapply R_sub_ok. exact Y.
    + unfold errc in *. rewrite crit_set_disable_escape in *. cbn [s_out s_esc_trace set_out] in *.
      eapply R_etrans; [apply R_sub; exact Hs|]. unfold crit in *. cbn [s_out s_esc_trace s_disable_escape set_out].
      eapply R_sub_err. exact Y.
Qed.

End Steps.

Lemma rel_fuel_ok : fuel_ok rel_spec.
Proof. constructor; intros; intros c0 Hs; exact I. Qed.

Lemma rel_steps : steps reg data ft rel_spec.
Proof.
  constructor; intros f IH.
  - apply step_rt; exact IH.
  - apply step_et; exact IH.
  - apply step_or; exact IH.
  - apply step_re; exact IH.
  - apply step_ee; exact IH.
  - apply step_rx; exact IH.
  - apply step_rh; exact IH.
  - apply step_hft; exact IH.
  - apply step_dft; exact IH.
  - apply step_ean; exact IH.
  - apply step_ep; exact IH.
  - apply step_chv; exact IH.
  - apply step_ch; exact IH.
  - apply step_ed; exact IH.
  - apply step_rp; exact IH.
  - apply step_xp; exact IH.
Qed.

(* Theorem A: every function relates its input state to its output state *)
Theorem crit_rel_thr : forall f, holds reg data ft rel_spec f.
Proof. apply render_ind; [exact rel_fuel_ok | exact rel_steps]. Qed.

(* un-threaded reading *)
Definition rel {A} (s : rstate) (r : rres A) : Prop :=
  sat r (fun _ s' => Rok (crit s) (crit s')) (fun _ s' => Rerr (crit s) (crit s')) True.

Lemma thr_rel {A} s (r : rres A) : thr s r -> rel s r.
Proof. intros H. exact (H (crit s) (R_refl _)). Qed.

End CritRel.


Arguments crit_rel_thr {Rok Rerr HR} reg data ft f.
Arguments rel {Rok Rerr A} s r.

(* every function, read un-threaded *)
Section CritRelCorollaries.
Context {Rok Rerr : crit_t -> crit_t -> Prop} {HR : crel_ok Rok Rerr}.
Variables (reg : registry) (data : json) (ft : ftable).

Definition uniform_spec (P : forall A, rstate -> rres A -> Prop) : rspec :=
  {| sp_rt := fun _ => P _; sp_et := fun _ => P _; sp_or := fun _ => P _; sp_re := fun _ => P _;
     sp_ee := fun _ => P _; sp_rx := fun _ _ => P _; sp_rh := fun _ => P _; sp_hft := fun _ => P _;
     sp_dft := fun _ => P _; sp_ean := fun _ => P _; sp_ep := fun _ => P _; sp_chv := fun _ _ => P _;
     sp_ch := fun _ _ => P _; sp_ed := fun _ => P _; sp_rp := fun _ => P _; sp_xp := fun _ => P _ |}.

Theorem crit_rel : forall f, holds reg data ft (uniform_spec (@rel Rok Rerr)) f.
Proof.
  intros f. pose proof (crit_rel_thr reg data ft f) as H.
  constructor; intros; apply thr_rel;
  first [ exact (h_rt H _ _) | exact (h_et H _ _) | exact (h_or H _ _) | exact (h_re H _ _)
        | exact (h_ee H _ _) | exact (h_rx H _ _ _) | exact (h_rh H _ _) | exact (h_hft H _ _)
        | exact (h_dft H _ _) | exact (h_ean H _ _) | exact (h_ep H _ _) | exact (h_chv H _ _ _)
        | exact (h_ch H _ _ _) | exact (h_ed H _ _) | exact (h_rp H _ _) | exact (h_xp H _ _) ].
Qed.
End CritRelCorollaries.

(* link with the vocabulary of Spec/RenderAll.v *)
Lemma holds_uniform reg data ft P f :
  holds reg data ft (uniform_spec P) f <-> every_render_fn reg data ft f P.
Proof.
  split.
  - intros H. destruct H. unfold every_render_fn. repeat split; assumption.
  - unfold every_render_fn. intros H.
    repeat match goal with H : _ /\ _ |- _ => destruct H end.
    constructor; assumption.
Qed.

Lemma ends_in_sat {A} (r : rres A) (Q : rstate -> Prop) :
  sat r (fun _ => Q) (fun _ => Q) True <-> (forall s', ends_in r s' -> Q s').
Proof.
  destruct r; cbn; split; intros H; try tauto; try (intros s' <-; exact H); try (apply H; reflexivity).
  all: intros ? [].
Qed.

Lemma holds_uniform_mono reg data ft (P P' : forall A, rstate -> rres A -> Prop) f :
  (forall A s r, P A s r -> P' A s r) ->
  holds reg data ft (uniform_spec P) f -> holds reg data ft (uniform_spec P') f.
Proof.
  intros HPP H. constructor; intros; apply HPP;
  first [ exact (h_rt H _ _) | exact (h_et H _ _) | exact (h_or H _ _) | exact (h_re H _ _)
        | exact (h_ee H _ _) | exact (h_rx H _ _ _) | exact (h_rh H _ _) | exact (h_hft H _ _)
        | exact (h_dft H _ _) | exact (h_ean H _ _) | exact (h_ep H _ _) | exact (h_chv H _ _ _)
        | exact (h_ch H _ _ _) | exact (h_ed H _ _) | exact (h_rp H _ _) | exact (h_xp H _ _) ].
Qed.

Lemma ok_in_sat {A} (r : rres A) (Q : rstate -> Prop) :
  sat r (fun _ => Q) (fun _ _ => True) True <-> (forall s', ok_in r s' -> Q s').
Proof.
  destruct r; cbn; split; intros H; try tauto; try (intros s' <-; exact H); try (apply H; reflexivity).
  all: intros ? [].
Qed.

(* induction on fuel with a fuel-indexed family of specs (for statements that
   mention a second run of the same function at the same fuel) *)
Lemma render_ind_ix reg data ft (Sp : nat -> rspec) :
  holds reg data ft (Sp 0%nat) 0 ->
  (forall f, holds reg data ft (Sp f) f -> holds reg data ft (Sp (S f)) (S f)) ->
  forall f, holds reg data ft (Sp f) f.
Proof. intros H0 HS f. induction f; auto. Qed.
