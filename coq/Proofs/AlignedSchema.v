(* Proofs/AlignedSchema.v — C18, compiler half, unconditionally: every template
   compile2 returns has its position vector aligned with its elements,
   hereditarily (aligned_deep).  The invariant minv of Proofs/MapProofs.v is
   carried along the derivation of wf_tokens (Spec/WfTokens.v), where each
   token satisfies the block discipline tok_ok; C04_schema puts every pest
   output into wf_tokens. *)
From Coq Require Import List NArith Lia Bool.
From HB Require Import Peg.Peg Peg.Grammar Tpl.Compile Spec.WfTokens Spec.AlignedSpec
  Proofs.CompileBase Proofs.MapProofs Proofs.PegFacts Proofs.CompileNoPanic Proofs.CompileStages
  Proofs.CompilePositions Proofs.GrammarTemplates.
Import ListNotations.
Open Scope N_scope.

Arguments N.add : simpl never.
Arguments N.eqb : simpl never.

(* the number of pending mapping entries of the front template after a step *)
Definition knext (cls : tag_class) (k : nat) : nat :=
  match cls with
  | KTemplate | KRawBlockText | KHelperEnd | KDecoEnd _ => 0
  | KBlockStart _ | KInvert _ => 1
  | _ => k
  end.

Section AlignedLoop.
  Variable src : str.
  Variable all : list tok.
  Variable opts : copts.
  Hypothesis Hesc : escapes_sorted all.
  Notation SP := (Forall (span_ok src)).

  Lemma step_k fuel c pr it c' it' k :
    step src all opts fuel c pr it = COk (c', it') ->
    tok_ok c pr = true -> minv c -> fdef (c_ts c) k ->
    fdef (c_ts c') (knext (tag_classify (tk_rule pr)) k).
  Proof.
    unfold step, tok_ok. intros H Hok (Hs & _ & Hhs & Hds) Hk. cinv H. rename a into c1.
    assert (Hx : rule_eqb (tk_rule pr) R_raw_block_end && trailing_fires c pr = false).
    { destruct (tag_classify (tk_rule pr)) eqn:Ec;
        try (rewrite not_end_not_raw_block_end; [reflexivity|rewrite Ec; discriminate]).
      apply andb_prop in Hok. destruct Hok as [_ Hok]. apply negb_true_iff in Hok. exact Hok. }
    destruct (trailing_string_shape _ _ _ _ _ E Hx) as (Hs1 & Hk1 & Hhs1 & Hds1).
    specialize (Hs1 Hs). pose proof (Hk1 _ Hk) as Hkc1.
    assert (Hready : ready c = true -> fdef (c_ts c1) 0) by (intro Hr; apply Hk1, ready_fdef, Hr).
    clear E Hx Hs Hk Hk1 Hhs1 Hds1.
    cinv H. destruct a as [c2 it2].
    assert (Hc2 : fdef (c_ts c2) (knext (tag_classify (tk_rule pr)) k)).
    { clear H. destruct (tag_classify (tk_rule pr)); cbn [knext].
      - okinv E. reflexivity.
      - destruct (slice src _ _) as [txt|]; [|discriminate].
        cinv E. cinv E. okinv E.
        destruct (push_front_el_shape _ _ _ _ _ E1 (raw_string_ad _ _ _ _ _ E0)) as [H1 H2].
        cbn [set_stack c_ts]. auto.
      - destruct (slice src _ _) as [txt|]; [|discriminate].
        cinv E. okinv E. reflexivity.
      - (* block start *)
        cinv E. destruct a as [[e ts1] it1]. cinv E. destruct a as [trim ts2].
        pose proof (fsame_trans _ _ _ (tag_prologue_fsame _ _ _ _ _ _ _ _ E0)
                      (process_standalone_statement_fsame _ _ _ _ _ _ _ E1)) as Hsame.
        pose proof (fsame_fdef _ _ _ Hsame (Hready Hok)) as Hk2.
        assert (Hts : forall t r, ts2 = t :: r ->
                  fdef (t_push_map t (line_col src (tk_start pr)) :: r) 1).
        { intros t r ->. destruct t as [n es m]. cbn [t_push_map].
          cbn [fdef t_map t_els] in *. rewrite app_length. cbn [length]. lia. }
        destruct deco; cbn [c_ts] in E; (destruct ts2 as [|t r]; [discriminate|]); okinv E;
          exact (Hts _ _ eq_refl).
      - (* invert *)
        match type of E with (let '(_, _) := ?x in _) = _ => destruct x as [chain_pre ita] end.
        cinv E. rename a into it0. cinv E. destruct a as [e0 it1].
        set (e := es_or_pre e0 chain_pre) in *. clearbody e.
        cinv E. rename a into ts1. cinv E. destruct a as [trim ts2].
        assert (Hsame1 : fsame (c_ts c1) ts1).
        { destruct (es_pre e); [eapply remove_previous_whitespace_fsame; eassumption|].
          okinv E2. apply fsame_refl. }
        pose proof (fsame_trans _ _ _ Hsame1
                      (process_standalone_statement_fsame _ _ _ _ _ _ _ E3)) as Hsame.
        pose proof (fsame_sinv _ _ Hsame Hs1) as Hs2.
        destruct ts2 as [|t ts3]; [discriminate|].
        destruct (sinv_pop _ _ Hs2) as (Hs3 & Hk3 & Hat).
        destruct (c_hs c1) as [|h hs]; [discriminate|].
        cinv E. okinv E. exact Hk3.
      - (* value expression *)
        cinv E. destruct a as [[e ts1] it1]. cinv E. okinv E.
        pose proof (tag_prologue_fsame _ _ _ _ _ _ _ _ E0) as Hsame.
        assert (Hel : ad_element (if html then ElHtml (mk_helper e false false false)
                                  else ElExpr (mk_helper e false false false)))
          by (destruct html; apply ad_mk_helper).
        destruct (push_front_el_shape _ _ _ _ _ E1 Hel) as [H1 H2].
        cbn [set_stack c_ts]. apply H2. eapply fsame_fdef; eassumption.
      - (* decorator / partial expression *)
        cinv E. destruct a as [[e ts1] it1]. cinv E. destruct a as [trim ts2]. cinv E. cinv E.
        okinv E.
        pose proof (fsame_trans _ _ _ (tag_prologue_fsame _ _ _ _ _ _ _ _ E0)
                      (process_standalone_statement_fsame _ _ _ _ _ _ _ E1)) as Hsame.
        match type of E3 with push_front_el _ ?el _ _ = _ => assert (Hel : ad_element el) end.
        { destruct partial; cbn [ad_element]; apply ad_d_set_indent; apply ad_mk_deco. }
        destruct (push_front_el_shape _ _ _ _ _ E3 Hel) as [H1 H2].
        cbn [set_stack c_ts]. apply H2. eapply fsame_fdef; eassumption.
      - (* helper block end *)
        apply andb_prop in Hok. destruct Hok as [Hok _].
        cinv E. destruct a as [[e ts1] it1]. cinv E. destruct a as [trim ts2].
        pose proof (fsame_trans _ _ _ (tag_prologue_fsame _ _ _ _ _ _ _ _ E0)
                      (process_standalone_statement_fsame _ _ _ _ _ _ _ E1)) as Hsame.
        pose proof (fsame_sinv _ _ Hsame Hs1) as Hs2.
        destruct (c_hs c1) as [|h hs]; [discriminate|].
        destruct (opt_str_eqb _ _); [|discriminate].
        destruct ts2 as [|prev_t ts3]; [discriminate|].
        destruct (sinv_pop _ _ Hs2) as (Hs3 & Hk3 & Hat).
        cinv E. destruct ts3 as [|t r]; [discriminate|]. okinv E.
        destruct t as [n es m]. cbn [c_ts fdef t_push_el t_els t_map] in *.
        rewrite app_length. cbn [length]. lia.
      - (* decorator / partial block end *)
        cinv E. destruct a as [[e ts1] it1]. cinv E. destruct a as [trim ts2].
        pose proof (fsame_trans _ _ _ (tag_prologue_fsame _ _ _ _ _ _ _ _ E0)
                      (process_standalone_statement_fsame _ _ _ _ _ _ _ E1)) as Hsame.
        pose proof (fsame_sinv _ _ Hsame Hs1) as Hs2.
        destruct (c_ds c1) as [|d ds]; [discriminate|].
        destruct (opt_str_eqb _ _); [|discriminate].
        destruct ts2 as [|prev_t ts3]; [discriminate|].
        destruct (sinv_pop _ _ Hs2) as (Hs3 & Hk3 & Hat).
        destruct ts3 as [|t r]; [discriminate|]. okinv E.
        destruct t as [n es m]. cbn [c_ts fdef t_push_el t_els t_map] in *.
        rewrite app_length. cbn [length]. lia.
      - (* comment *)
        cinv E. destruct a as [trim ts1]. cinv E. cinv E. okinv E.
        pose proof (process_standalone_statement_fsame _ _ _ _ _ _ _ E0) as Hsame.
        destruct (push_front_el_shape _ _ _ _ _ E2 (I : ad_element (ElComment _))) as [H1 H2].
        cbn [set_stack c_ts]. apply H2. eapply fsame_fdef; eassumption.
      - okinv E. exact Hkc1. }
    destruct (tag_classify (tk_rule pr)); okinv H; exact Hc2.
  Qed.

  (* ---------- the block discipline holds along wf_tokens ---------- *)
  Lemma fdef1_awaiting c : fdef (c_ts c) 1 -> awaiting c = true.
  Proof.
    unfold fdef, awaiting. destruct (c_ts c) as [|t r]; [reflexivity|].
    intro H. apply Nat.eqb_eq. exact H.
  Qed.
  Lemma fdef0_ready c : fdef (c_ts c) 0 -> (1 <= length (c_ts c))%nat -> ready c = true.
  Proof.
    unfold fdef, ready. destruct (c_ts c) as [|t r]; cbn [length]; [lia|].
    intros H _. apply Nat.eqb_eq. exact H.
  Qed.
  Lemma tf_false c pr : tk_start pr = pe c -> trailing_fires c pr = false.
  Proof.
    intros E. unfold trailing_fires. fold (pe c). rewrite E, N.eqb_refl. cbn [negb].
    rewrite andb_false_r. reflexivity.
  Qed.

  Lemma St_ready n k d lo c : St n k d lo c -> (1 <= n)%nat -> fdef (c_ts c) 0 -> ready c = true.
  Proof. intros [(A & _) _] Hn Hk. apply fdef0_ready; [exact Hk | lia]. Qed.

  Definition K2 (rest : list tok) (n k d kk : nat) (hi : N) : Prop :=
    forall fuel c' t, main_loop src all opts fuel c' rest = COk t ->
      minv c' -> fdef (c_ts c') kk -> St n k d hi c' -> aligned_deep t.

  Lemma loop_step2 pr it rest n' k' d' hi kk c fuel t :
    (forall f, okres (Res rest n' k' d' hi) (step src all opts f c pr it)) ->
    tok_ok c pr = true -> minv c -> fdef (c_ts c) kk ->
    K2 rest n' k' d' (knext (tag_classify (tk_rule pr)) kk) hi ->
    main_loop src all opts fuel c (pr :: it) = COk t -> aligned_deep t.
  Proof.
    intros Hstep Hok Hm Hk HK H. destruct fuel as [|f]; [discriminate|].
    rewrite main_loop_S in H. cinv H. destruct a as [c' it''].
    pose proof (Hstep f) as Hr. rewrite E in Hr. cbn [okres] in Hr. destruct Hr as [E1 E2].
    cbn [fst snd] in *. subst it''.
    eapply HK; [exact H | eapply step_minv; eassumption | eapply step_k; eassumption | exact E2].
  Qed.

  Definition A0 (lo hi : N) (l : list tok) : Prop :=
    forall rest n k d, (1 <= n)%nat -> SP l -> first_ge hi rest -> K2 rest n k d 0 hi ->
    forall fuel c t, main_loop src all opts fuel c (l ++ rest) = COk t ->
      minv c -> fdef (c_ts c) 0 -> St n k d lo c -> aligned_deep t.
  Definition Atmpl (lo hi : N) (l : list tok) : Prop :=
    forall rest n k d, (1 <= n)%nat -> SP l -> first_ge hi rest -> K2 rest (S n) k d 0 hi ->
    forall fuel c t, main_loop src all opts fuel c (l ++ rest) = COk t ->
      minv c -> fdef (c_ts c) 1 -> St n k d lo c -> aligned_deep t.
  Definition Achain (lo hi : N) (l : list tok) : Prop :=
    forall rest n k d, (1 <= n)%nat -> SP l -> first_ge hi rest -> K2 rest (S n) (S k) d 0 hi ->
    forall fuel c t, main_loop src all opts fuel c (l ++ rest) = COk t ->
      minv c -> fdef (c_ts c) 0 -> St (S n) (S k) d lo c -> aligned_deep t.

  Lemma SP_cons' t l : SP (t :: l) <-> span_ok src t /\ SP l.
  Proof. split; [intros H; inversion H; auto | intros [A B]; constructor; auto]. Qed.

  Ltac split_SP :=
    repeat match goal with
    | H : SP (_ ++ _) |- _ => apply Forall_app in H; destruct H
    | H : SP (_ :: _) |- _ => apply SP_cons' in H; destruct H
    end.

  Theorem aloop_wf :
    (forall lo hi l, items lo hi l -> A0 lo hi l) /\
    (forall lo hi l, item lo hi l -> A0 lo hi l) /\
    (forall lo hi l, tmpl lo hi l -> Atmpl lo hi l) /\
    (forall lo hi l, chain_parts lo hi l -> Achain lo hi l) /\
    (forall lo hi l, inv_part lo hi l -> Achain lo hi l).
  Proof.
    destruct wf_first as (F1 & F2 & F3 & F4 & F5).
    apply wf_mutind; unfold A0, Atmpl, Achain.
    - (* is_nil *)
      intros lo rest n k d Hn Hs Hf HK fuel c t H Hm Hk Hst. cbn [app] in H. eapply HK; eassumption.
    - (* is_cons *)
      intros lo mid hi a rest' Ha IHa Hr IHr rest n k d Hn Hs Hf HK fuel c t H Hm Hk Hst.
      split_SP. rewrite <- app_assoc in H.
      destruct (F1 _ _ _ Hr) as [_ Fr].
      eapply IHa; try eassumption; [apply Fr; assumption|].
      intros fuel' c' t' H' Hm' Hk' Hst'. eapply IHr; eassumption.
    - (* i_raw *)
      intros lo s e Hlo Hse rest n k d Hn Hs Hf HK fuel c t H Hm Hk Hst. cbn [app] in H. split_SP.
      eapply (loop_step2 (R_raw_text, s, e)); [| | exact Hm | exact Hk | exact HK | exact H].
      + intros f. apply step_raw_text with (lo := lo); assumption.
      + reflexivity.
    - (* i_tag *)
      intros lo r s e l Hr Hlo Hse Ht rest n k d Hn Hs Hf HK fuel c t H Hm Hk Hst. split_SP.
      rewrite <- app_comm_cons in H.
      destruct (simple_tag_class r Hr) as (b & [Hc|Hc]).
      + eapply loop_step2; [| | exact Hm | exact Hk | | exact H].
        * intros f. eapply step_value with (lo := lo); try eassumption. apply first_ge_next; assumption.
        * unfold tok_ok. cbn [tk_rule fst snd]. rewrite Hc. reflexivity.
        * cbn [tk_rule fst snd]. rewrite Hc. exact HK.
      + eapply loop_step2; [| | exact Hm | exact Hk | | exact H].
        * intros f. eapply step_deco_expr with (lo := lo); try eassumption. apply first_ge_next; assumption.
        * unfold tok_ok. cbn [tk_rule fst snd]. rewrite Hc. reflexivity.
        * cbn [tk_rule fst snd]. rewrite Hc. exact HK.
    - (* i_comment *)
      intros lo r s e Hr Hlo Hse rest n k d Hn Hs Hf HK fuel c t H Hm Hk Hst. cbn [app] in H. split_SP.
      destruct Hr as [E1 | E1]; subst r.
      + eapply (loop_step2 (R_hbs_comment, s, e)); [| | exact Hm | exact Hk | exact HK | exact H];
         [intros f; eapply step_comment with (lo := lo); try eassumption; reflexivity | reflexivity].
      + eapply (loop_step2 (R_hbs_comment_compact, s, e)); [| | exact Hm | exact Hk | exact HK | exact H];
         [intros f; eapply step_comment with (lo := lo); try eassumption; reflexivity | reflexivity].
    - (* i_hblock *)
      intros lo s0 e0 l0 body m1 chains m2 inv m3 s9 e9 l9 Hlo Hse0 Ht0 Hb IHb Hc IHc Hi IHi Hm3 Hse9 Ht9
             rest n k d Hn Hs Hf HK fuel c t H Hm Hk Hst.
      split_SP.
      destruct (F3 _ _ _ Hb) as [Lb Fb]. destruct (F4 _ _ _ Hc) as [Lc Fc]. destruct (F5 _ _ _ Hi) as [Li Fi].
      assert (Fend : first_ge m3 (((R_helper_block_end, s9, e9) :: l9) ++ rest))
        by (cbn [app first_ge tk_start tk_end fst snd]; lia).
      rewrite <- ?app_assoc, <- ?app_comm_cons in H.
      destruct n as [|n']; [lia|].
      eapply loop_step2; [| | exact Hm | exact Hk | | exact H].
      { intros f. apply (step_block_start src all opts f c R_helper_block_start s0 e0 l0 _ (S n') k d lo false);
          try assumption; try reflexivity; try lia.
        apply first_ge_next. apply Fb. apply Fc. apply Fi. exact Fend. }
      { unfold tok_ok. cbn [tk_rule fst snd tag_classify]. eapply St_ready; [exact Hst | lia | exact Hk]. }
      cbn [tk_rule fst snd tag_classify knext].
      intros fuel1 c1 t1 R1 Hm1 Hk1 Hst1.
      refine (IHb _ (S n') (S k) d _ _ _ _ _ _ _ R1 Hm1 Hk1 Hst1); [lia | assumption | apply Fc; apply Fi; exact Fend |].
      intros fuel2 c2 t2 R2 Hm2 Hk2 Hst2.
      refine (IHc _ (S n') k d _ _ _ _ _ _ _ R2 Hm2 Hk2 Hst2); [lia | assumption | apply Fi; exact Fend |].
      intros fuel3 c3 t3 R3 Hm3' Hk3 Hst3.
      refine (IHi _ (S n') k d _ _ _ _ _ _ _ R3 Hm3' Hk3 Hst3); [lia | assumption | exact Fend |].
      intros fuel4 c4 t4 R4 Hm4 Hk4 Hst4.
      eapply loop_step2; [| | exact Hm4 | exact Hk4 | | exact R4].
      { intros f.
        apply (step_helper_end src all opts f c4 R_helper_block_end s9 e9 l9 rest n' k d m3); try assumption; try reflexivity.
        apply first_ge_next; assumption. }
      { unfold tok_ok. cbn [tk_rule fst snd tag_classify].
        rewrite (St_ready _ _ _ _ _ Hst4) by (lia || assumption). reflexivity. }
      cbn [tk_rule fst snd tag_classify knext]. exact HK.
    - (* i_rawblock *)
      intros lo s0 e0 l0 s1 e1 e2 l2 Hlo Hse0 Ht0 He0 Hse1 He12 Ht2 rest n k d Hn Hs Hf HK fuel c t H Hm Hk Hst.
      split_SP.
      rewrite <- ?app_assoc, <- ?app_comm_cons in H.
      destruct n as [|n']; [lia|].
      eapply loop_step2; [| | exact Hm | exact Hk | | exact H].
      { intros f. apply (step_block_start src all opts f c R_raw_block_start s0 e0 l0 _ (S n') k d lo false);
          try assumption; try reflexivity; try lia.
        cbn [next_ge tk_end snd]. lia. }
      { unfold tok_ok. cbn [tk_rule fst snd tag_classify]. eapply St_ready; [exact Hst | lia | exact Hk]. }
      cbn [tk_rule fst snd tag_classify knext].
      intros fuel1 c1 t1 R1 Hm1 Hk1 Hst1.
      eapply loop_step2; [| | exact Hm1 | exact Hk1 | | exact R1].
      { intros f. apply (step_raw_block_text src all opts Hesc f c1 s1 e1 _ (S n') (S k) d e0); try assumption; lia. }
      { unfold tok_ok. cbn [tk_rule fst snd tag_classify]. apply fdef1_awaiting. exact Hk1. }
      cbn [tk_rule fst snd tag_classify knext].
      intros fuel2 c2 t2 R2 Hm2 Hk2 Hst2.
      eapply loop_step2; [| | exact Hm2 | exact Hk2 | | exact R2].
      { intros f.
        apply (step_helper_end src all opts f c2 R_raw_block_end e1 e2 l2 rest n' k d e1); try assumption; try reflexivity; try lia.
        apply first_ge_next; assumption. }
      { unfold tok_ok. cbn [tk_rule fst snd tag_classify].
        rewrite (St_ready _ _ _ _ _ Hst2) by (lia || assumption).
        rewrite tf_false; [reflexivity|]. destruct Hst2 as [_ Epe]. cbn [tk_start fst snd]. symmetry. exact Epe. }
      cbn [tk_rule fst snd tag_classify knext]. exact HK.
    - (* i_dblock *)
      intros lo rs re s0 e0 l0 body m1 s9 e9 l9 Hp Hlo Hse0 Ht0 Hb IHb Hm1 Hse9 Ht9
             rest n k d Hn Hs Hf HK fuel c t H Hm Hk Hst.
      split_SP.
      destruct (F3 _ _ _ Hb) as [Lb Fb].
      assert (Fend : first_ge m1 (((re, s9, e9) :: l9) ++ rest))
        by (cbn [app first_ge tk_start tk_end fst snd]; lia).
      rewrite <- ?app_assoc, <- ?app_comm_cons in H.
      destruct n as [|n']; [lia|].
      assert (Hcs : tag_classify rs = KBlockStart true /\ exists b, tag_classify re = KDecoEnd b).
      { destruct Hp as [[-> ->]|[-> ->]]; (split; [reflexivity | eexists; reflexivity]). }
      destruct Hcs as [Hcs (b & Hce)].
      eapply loop_step2; [| | exact Hm | exact Hk | | exact H].
      { intros f. apply (step_block_start src all opts f c rs s0 e0 l0 _ (S n') k d lo true); try assumption; try lia.
        apply first_ge_next. apply Fb. exact Fend. }
      { unfold tok_ok. cbn [tk_rule fst snd]. rewrite Hcs. eapply St_ready; [exact Hst | lia | exact Hk]. }
      cbn [tk_rule fst snd]. rewrite Hcs. cbn [knext].
      intros fuel1 c1 t1 R1 Hm1' Hk1 Hst1.
      refine (IHb _ (S n') k (S d) _ _ _ _ _ _ _ R1 Hm1' Hk1 Hst1); [lia | assumption | exact Fend |].
      intros fuel2 c2 t2 R2 Hm2 Hk2 Hst2.
      eapply loop_step2; [| | exact Hm2 | exact Hk2 | | exact R2].
      { intros f. apply (step_deco_end src all opts f c2 re s9 e9 l9 rest n' k d m1 b); try assumption.
        apply first_ge_next; assumption. }
      { unfold tok_ok. cbn [tk_rule fst snd]. rewrite Hce. eapply St_ready; [exact Hst2 | lia | exact Hk2]. }
      cbn [tk_rule fst snd]. rewrite Hce. cbn [knext]. exact HK.
    - (* t_mk *)
      intros lo hi s e body Hlo Hse Hb IHb rest n k d Hn Hs Hf HK fuel c t H Hm Hk Hst.
      split_SP. rewrite <- app_comm_cons in H.
      eapply loop_step2; [| | exact Hm | exact Hk | | exact H].
      { intros f. apply step_template. exact Hst. }
      { unfold tok_ok. cbn [tk_rule fst snd tag_classify]. apply fdef1_awaiting. exact Hk. }
      cbn [tk_rule fst snd tag_classify knext].
      intros fuel1 c1 t1 R1 Hm1 Hk1 Hst1.
      refine (IHb _ (S n) k d _ _ _ _ _ _ _ R1 Hm1 Hk1 Hst1); [lia | assumption | exact Hf | exact HK].
    - (* cp_nil *)
      intros lo rest n k d Hn Hs Hf HK fuel c t H Hm Hk Hst. cbn [app] in H. eapply HK; eassumption.
    - (* cp_cons *)
      intros lo s e tl si ei l body mid hi rest' Hlo Hse Htl Hl Hb IHb Hc IHc rest n k d Hn Hs Hf HK fuel c t H Hm Hk Hst.
      split_SP.
      destruct (F3 _ _ _ Hb) as [Lb Fb]. destruct (F4 _ _ _ Hc) as [Lc Fc].
      rewrite <- ?app_assoc, <- ?app_comm_cons in H. rewrite <- ?app_assoc, <- ?app_comm_cons in H.
      eapply loop_step2; [| | exact Hm | exact Hk | | exact H].
      { intros f. apply (step_invert_chain src all opts f c s e tl si ei l _ n k d lo); try assumption.
        - apply tg_plain; assumption.
        - apply first_ge_next. apply Fb. apply Fc. assumption. }
      { unfold tok_ok. cbn [tk_rule fst snd tag_classify]. eapply St_ready; [exact Hst | lia | exact Hk]. }
      cbn [tk_rule fst snd tag_classify knext].
      intros fuel1 c1 t1 R1 Hm1 Hk1 Hst1.
      refine (IHb _ n (S k) d _ _ _ _ _ _ _ R1 Hm1 Hk1 Hst1); [lia | assumption | apply Fc; assumption |].
      intros fuel2 c2 t2 R2 Hm2 Hk2 Hst2.
      refine (IHc _ n k d _ _ _ _ _ _ _ R2 Hm2 Hk2 Hst2); [lia | assumption | exact Hf | exact HK].
    - (* ip_none *)
      intros lo rest n k d Hn Hs Hf HK fuel c t H Hm Hk Hst. cbn [app] in H. eapply HK; eassumption.
    - (* ip_some *)
      intros lo s e l body hi Hlo Hse Hl Hb IHb rest n k d Hn Hs Hf HK fuel c t H Hm Hk Hst.
      split_SP.
      destruct (F3 _ _ _ Hb) as [Lb Fb].
      rewrite <- ?app_assoc, <- ?app_comm_cons in H.
      eapply loop_step2; [| | exact Hm | exact Hk | | exact H].
      { intros f. apply (step_invert_plain src all opts f c s e l _ n k d lo); try assumption.
        apply first_ge_next. apply Fb. assumption. }
      { unfold tok_ok. cbn [tk_rule fst snd tag_classify]. eapply St_ready; [exact Hst | lia | exact Hk]. }
      cbn [tk_rule fst snd tag_classify knext].
      intros fuel1 c1 t1 R1 Hm1 Hk1 Hst1.
      refine (IHb _ n (S k) d _ _ _ _ _ _ _ R1 Hm1 Hk1 Hst1); [lia | assumption | exact Hf | exact HK].
  Qed.
End AlignedLoop.

(* ---------- the whole fold, then compile2 ---------- *)
Theorem main_loop_aligned_wf : forall src all opts, escapes_sorted all ->
  forall ts, wf_tokens ts -> Forall (span_ok src) ts ->
  forall fuel t, main_loop src all opts fuel init_cstate ts = COk t -> aligned_deep t.
Proof.
  intros src all opts Hesc ts (s & e & body & hi & p & -> & Hit & Hhi) Hs fuel t H.
  inversion Hs as [|x l Hs0 Hs']; subst. apply Forall_app in Hs'. destruct Hs' as [Hsb Hse].
  inversion Hse as [|x l Hse0 _]; subst.
  eapply (loop_step2 src all opts (R_template, s, e)); [| | exact minv_init | | | exact H].
  - intros f. apply (step_template src all opts f init_cstate s e _ 0 0 0 0).
    split; [|reflexivity]. repeat split; constructor.
  - reflexivity.
  - reflexivity.
  - cbn [tk_rule fst snd tag_classify knext].
    intros fuel1 c1 t1 R1 Hm1 Hk1 Hst1.
    refine (proj1 (aloop_wf src all opts Hesc) 0 hi body Hit [(R_EOI, p, p)] 1%nat 0%nat 0%nat _ _ _ _ _ _ _ R1 Hm1 Hk1 Hst1);
      [lia | assumption | cbn; lia |].
    intros fuel2 c2 t2 R2 Hm2 Hk2 Hst2.
    eapply (loop_step2 src all opts (R_EOI, p, p)); [| | exact Hm2 | exact Hk2 | | exact R2].
    + intros f. apply (step_other src all opts f c2 R_EOI p p [] 1 0 0 hi eq_refl Hst2 (le_n _) Hhi Hse0).
    + reflexivity.
    + cbn [tk_rule fst snd tag_classify knext].
      intros fuel3 c3 t3 R3 Hm3 Hk3 Hst3.
      destruct fuel3 as [|f3]; [discriminate|].
      eapply (main_loop_aligned src all opts (S f3)); [exact R3 | | exact Hm3].
      cbn [disciplined]. eapply St_ready; [exact Hst3 | lia | exact Hk3].
Qed.

Theorem compile2_aligned : forall src opts t, compile2 src opts = COk t -> aligned_deep t.
Proof.
  intros src opts t H. rewrite compile2_unfold in H.
  destruct (hb_parse (peg_fuel src) R_handlebars src) as [ts| |] eqn:Ep; try discriminate.
  destruct (hb_parse_wf _ _ _ Ep) as [Hw He].
  pose proof (hb_parse_spans _ _ _ _ Ep) as Hsp.
  unfold compile_tokens in H.
  eapply (main_loop_aligned_wf src ts opts He (filter not_escape ts) Hw); [|exact H].
  apply Forall_forall. intros x Hx. apply filter_In in Hx. destruct Hx as [Hx _].
  rewrite Forall_forall in Hsp. exact (Hsp x Hx).
Qed.

Corollary compile2_aligned_top : forall src opts t, compile2 src opts = COk t ->
  length (t_map t) = length (t_els t).
Proof. intros src opts t H. apply aligned_deep_aligned. eapply compile2_aligned. exact H. Qed.

(* the stage theorem: the fold over any token stream in wf_tokens *)
Corollary compile_tokens_aligned_wf : forall src opts ts t,
  wf_tokens (filter not_escape ts) -> escapes_sorted ts -> Forall (span_ok src) ts ->
  compile_tokens src opts ts = COk t -> aligned_deep t.
Proof.
  intros src opts ts t Hw He Hsp H. unfold compile_tokens in H.
  eapply (main_loop_aligned_wf src ts opts He (filter not_escape ts) Hw); [|exact H].
  apply Forall_forall. intros x Hx. apply filter_In in Hx. destruct Hx as [Hx _].
  rewrite Forall_forall in Hsp. exact (Hsp x Hx).
Qed.
