(* Proofs/PathReparse.v — C01: the run-time re-parse of a path string
   (Path::parse = `path_parse`, start rule `path`) agrees with what the template
   compiler reads from the tokens of `reference` when the same spelling is
   written inline in `{{ .. }}`.
   Generic part: position-translation invariance of the PEG interpreter, and a
   suffix simulation — an evaluation on `x ++ y` of an expression none of whose
   terminals can match the first character of y is an evaluation on `x`. *)
From Coq Require Import List NArith Lia Bool.
From HB Require Import Peg.Peg Peg.Grammar Tpl.Compile Rt.Eval Spec.WfTokens Spec.InlinePath
  Proofs.PegFacts Proofs.PegTermination Proofs.CompileBase Proofs.CompileNoPanic Proofs.CompileStages
  Proofs.CompilePositions Proofs.CompileTermination.
Import ListNotations.
Open Scope N_scope.

Arguments N.add : simpl never.
Arguments N.sub : simpl never.
Arguments N.leb : simpl never.
Arguments N.ltb : simpl never.
Arguments N.eqb : simpl never.

Section Generic.
  Variable rule : Type.
  Variable defs : rule -> rkind * expr rule.
  Variable ws : expr rule.
  Notation ev := (eval rule defs ws).
  Notation expr := (expr rule).
  Notation tokn := (token rule).

  (* ---------- translation of positions ---------- *)
  Definition shift_tok (d : N) (t : tokn) : tokn := (tk_rule t, tk_start t + d, tk_end t + d).
  Definition shift_res (d : N) (r : res rule) : res rule :=
    match r with
    | Ok p rest ts => Ok (p + d) rest (map (shift_tok d) ts)
    | x => x
    end.

  Lemma emit_shift d at_ q r s e ts :
    map (shift_tok d) (emit rule at_ q r s e ts) = emit rule at_ q r (s + d) (e + d) (map (shift_tok d) ts).
  Proof. unfold emit. destruct q; [reflexivity|]. destruct at_; reflexivity. Qed.

  Theorem eval_shift : forall d f e at_ q inp pos,
    ev f e at_ q inp (pos + d) = shift_res d (ev f e at_ q inp pos).
  Proof.
    intros d. induction f as [|f IH]; intros e at_ q inp pos; [reflexivity|].
    destruct e; cbn [eval].
    - destruct (starts_with s inp); cbn [shift_res map]; [f_equal; lia | reflexivity].
    - destruct inp as [|c r]; [reflexivity|]. destruct (N.leb lo c && N.leb c hi); cbn [shift_res map];
        [f_equal; lia | reflexivity].
    - destruct inp; cbn [shift_res map]; [reflexivity | f_equal; lia].
    - destruct inp; reflexivity.
    - destruct (defs r) as [k body]. destruct k; rewrite IH;
        match goal with |- context [ev f body ?a q inp pos] => destruct (ev f body a q inp pos) end;
        cbn [shift_res]; try reflexivity; rewrite emit_shift; reflexivity.
    - rewrite IH. destruct (ev f e1 at_ q inp pos) as [p1 r1 t1| |]; cbn [shift_res]; try reflexivity.
      rewrite IH. destruct (ev f e2 at_ q r1 p1); cbn [shift_res]; try reflexivity.
      rewrite map_app. reflexivity.
    - rewrite IH. destruct (ev f e1 at_ q inp pos); cbn [shift_res]; try reflexivity. apply IH.
    - rewrite IH. destruct (ev f e at_ q inp pos); cbn [shift_res]; reflexivity.
    - rewrite IH. destruct (ev f (ESeq ESkip e) at_ q inp pos) as [p1 r1 t1| |]; cbn [shift_res]; try reflexivity.
      rewrite IH. destruct (ev f (ERepTail e) at_ q r1 p1); cbn [shift_res]; try reflexivity.
      rewrite map_app. reflexivity.
    - rewrite IH. destruct (ev f e at_ q inp pos) as [p1 r1 t1| |]; cbn [shift_res]; try reflexivity.
      rewrite IH. destruct (ev f (ERepPlain e) at_ q r1 p1); cbn [shift_res]; try reflexivity.
      rewrite map_app. reflexivity.
    - destruct at_; [apply IH | reflexivity | reflexivity].
    - rewrite IH. destruct (ev f e at_ true inp pos); reflexivity.
    - rewrite IH. destruct (ev f e at_ true inp pos); reflexivity.
  Qed.

  (* ---------- suffix simulation ---------- *)
  Variable c0 : N.
  Variable y' : str.
  Let y : str := c0 :: y'.
  Variable Tr Op : rule -> bool.   (* transparent rules, opaque rules *)

  Fixpoint safe_e (e : expr) : bool :=
    match e with
    | EStr s => negb (existsb (N.eqb c0) s)
    | ERange lo hi => negb (N.leb lo c0 && N.leb c0 hi)
    | EAny | EEoi => false
    | ERef r => Tr r || Op r
    | ESeq a b | EAlt a b => safe_e a && safe_e b
    | EOpt a | ERepTail a | ERepPlain a | ENot a | EAnd a => safe_e a
    | ESkip => true
    end.

  Definition not_nonatomic (k : rkind) : bool := match k with KNonAtomic => false | _ => true end.

  (* an evaluation on x ++ y that succeeds has not touched y and is an
     evaluation on x; one that fails also fails on x *)
  Definition sim (f : nat) (e : expr) : Prop := forall at_ q x pos, at_ <> ANon ->
    (forall p rl ts, ev f e at_ q (x ++ y) pos = Ok p rl ts ->
       exists r', rl = r' ++ y /\ ev f e at_ q x pos = Ok p r' ts) /\
    (ev f e at_ q (x ++ y) pos = Fail -> ev f e at_ q x pos = Fail).

  Hypothesis HS : forall r, Tr r = true ->
    safe_e (snd (defs r)) = true /\ not_nonatomic (fst (defs r)) = true.
  Hypothesis HO : forall r, Op r = true -> forall f, sim f (ERef r).

  Lemma sw_suffix : forall s x, existsb (N.eqb c0) s = false ->
    starts_with s (x ++ y) = starts_with s x /\
    (starts_with s x = true -> skipn (length s) (x ++ y) = skipn (length s) x ++ y).
  Proof.
    induction s as [|a s IH]; intros x Hs; [split; reflexivity|].
    cbn [existsb] in Hs. apply orb_false_iff in Hs. destruct Hs as [Ha Hs].
    destruct x as [|b x]; cbn [app starts_with].
    - unfold y. cbn [starts_with]. rewrite N.eqb_sym, Ha. split; [reflexivity | discriminate].
    - destruct (IH x Hs) as [E1 E2]. rewrite E1. split; [reflexivity|].
      intros H. apply andb_true_iff in H. destruct H as [_ H]. cbn [length skipn]. apply E2. exact H.
  Qed.

  Theorem suffix_sim : forall f e, safe_e e = true -> sim f e.
  Proof.
    induction f as [|f IH]; intros e He at_ q x pos Hat; [split; intros; discriminate|].
    destruct e; cbn [safe_e] in He; try discriminate; cbn [eval].
    - (* EStr *)
      apply negb_true_iff in He. destruct (sw_suffix s x He) as [E1 E2]. rewrite E1.
      destruct (starts_with s x) eqn:Es; split; intros; try discriminate.
      + inversion H; subst. exists (skipn (length s) x). split; [apply E2; reflexivity | reflexivity].
      + reflexivity.
    - (* ERange *)
      apply negb_true_iff in He. destruct x as [|c r]; cbn [app].
      + unfold y. rewrite He. split; intros; [discriminate | reflexivity].
      + destruct (N.leb lo c && N.leb c hi); split; intros; try discriminate.
        * inversion H; subst. exists r. split; reflexivity.
        * reflexivity.
    - (* ERef *)
      destruct (Op r) eqn:Eo.
      + exact (HO r Eo (S f) at_ q x pos Hat).
      + rewrite orb_false_r in He. destruct (HS r He) as [Hb Hk].
        destruct (defs r) as [k body]. cbn [fst snd] in *.
        assert (G : forall at', at' <> ANon ->
                  (forall p rl ts, ev f body at' q (x ++ y) pos = Ok p rl ts ->
                     exists r', rl = r' ++ y /\ ev f body at' q x pos = Ok p r' ts) /\
                  (ev f body at' q (x ++ y) pos = Fail -> ev f body at' q x pos = Fail))
          by (intros at' Ha; exact (IH body Hb at' q x pos Ha)).
        destruct k; try discriminate.
        * destruct (G at_ Hat) as [G1 G2]. split.
          -- intros p rl ts H. destruct (ev f body at_ q (x ++ y) pos) as [p1 r1 t1| |] eqn:E; try discriminate.
             inversion H; subst. destruct (G1 _ _ _ eq_refl) as (r' & -> & ->). exists r'. split; reflexivity.
          -- intros H. destruct (ev f body at_ q (x ++ y) pos) eqn:E; try discriminate. rewrite (G2 eq_refl). reflexivity.
        * exact (G at_ Hat).
        * destruct (G AAtomic ltac:(discriminate)) as [G1 G2]. split.
          -- intros p rl ts H. destruct (ev f body AAtomic q (x ++ y) pos) as [p1 r1 t1| |] eqn:E; try discriminate.
             inversion H; subst. destruct (G1 _ _ _ eq_refl) as (r' & -> & ->). exists r'. split; reflexivity.
          -- intros H. destruct (ev f body AAtomic q (x ++ y) pos) eqn:E; try discriminate. rewrite (G2 eq_refl). reflexivity.
        * destruct (G ACompound ltac:(discriminate)) as [G1 G2]. split.
          -- intros p rl ts H. destruct (ev f body ACompound q (x ++ y) pos) as [p1 r1 t1| |] eqn:E; try discriminate.
             inversion H; subst. destruct (G1 _ _ _ eq_refl) as (r' & -> & ->). exists r'. split; reflexivity.
          -- intros H. destruct (ev f body ACompound q (x ++ y) pos) eqn:E; try discriminate. rewrite (G2 eq_refl). reflexivity.
    - (* ESeq *)
      apply andb_true_iff in He. destruct He as [Ha Hb].
      destruct (IH e1 Ha at_ q x pos Hat) as [A1 A2].
      destruct (ev f e1 at_ q (x ++ y) pos) as [p1 rl1 t1| |] eqn:E1.
      + destruct (A1 _ _ _ eq_refl) as (r1 & -> & ->).
        destruct (IH e2 Hb at_ q r1 p1 Hat) as [B1 B2].
        destruct (ev f e2 at_ q (r1 ++ y) p1) as [p2 rl2 t2| |] eqn:E2; split; intros; try discriminate.
        * inversion H; subst. destruct (B1 _ _ _ eq_refl) as (r2 & -> & ->). exists r2. split; reflexivity.
        * rewrite (B2 eq_refl). reflexivity.
      + rewrite (A2 eq_refl). split; intros; [discriminate | reflexivity].
      + split; intros; discriminate.
    - (* EAlt *)
      apply andb_true_iff in He. destruct He as [Ha Hb].
      destruct (IH e1 Ha at_ q x pos Hat) as [A1 A2].
      destruct (ev f e1 at_ q (x ++ y) pos) as [p1 rl1 t1| |] eqn:E1.
      + destruct (A1 _ _ _ eq_refl) as (r1 & -> & ->). split; intros; try discriminate.
        inversion H; subst. exists r1. split; reflexivity.
      + rewrite (A2 eq_refl). exact (IH e2 Hb at_ q x pos Hat).
      + split; intros; discriminate.
    - (* EOpt *)
      destruct (IH e He at_ q x pos Hat) as [A1 A2].
      destruct (ev f e at_ q (x ++ y) pos) as [p1 rl1 t1| |] eqn:E1.
      + destruct (A1 _ _ _ eq_refl) as (r1 & -> & ->). split; intros; try discriminate.
        inversion H; subst. exists r1. split; reflexivity.
      + rewrite (A2 eq_refl). split; intros; try discriminate. inversion H; subst. exists x. split; reflexivity.
      + split; intros; discriminate.
    - (* ERepTail *)
      assert (Hb : safe_e (ESeq ESkip e) = true) by exact He.
      destruct (IH _ Hb at_ q x pos Hat) as [A1 A2].
      destruct (ev f (ESeq ESkip e) at_ q (x ++ y) pos) as [p1 rl1 t1| |] eqn:E1.
      + destruct (A1 _ _ _ eq_refl) as (r1 & -> & ->).
        assert (Hr : safe_e (ERepTail e) = true) by exact He.
        destruct (IH _ Hr at_ q r1 p1 Hat) as [B1 B2].
        destruct (ev f (ERepTail e) at_ q (r1 ++ y) p1) as [p2 rl2 t2| |] eqn:E2; split; intros; try discriminate.
        * inversion H; subst. destruct (B1 _ _ _ eq_refl) as (r2 & -> & ->). exists r2. split; reflexivity.
        * rewrite (B2 eq_refl). reflexivity.
      + rewrite (A2 eq_refl). split; intros; try discriminate. inversion H; subst. exists x. split; reflexivity.
      + split; intros; discriminate.
    - (* ERepPlain *)
      destruct (IH _ He at_ q x pos Hat) as [A1 A2].
      destruct (ev f e at_ q (x ++ y) pos) as [p1 rl1 t1| |] eqn:E1.
      + destruct (A1 _ _ _ eq_refl) as (r1 & -> & ->).
        assert (Hr : safe_e (ERepPlain e) = true) by exact He.
        destruct (IH _ Hr at_ q r1 p1 Hat) as [B1 B2].
        destruct (ev f (ERepPlain e) at_ q (r1 ++ y) p1) as [p2 rl2 t2| |] eqn:E2; split; intros; try discriminate.
        * inversion H; subst. destruct (B1 _ _ _ eq_refl) as (r2 & -> & ->). exists r2. split; reflexivity.
        * rewrite (B2 eq_refl). reflexivity.
      + rewrite (A2 eq_refl). split; intros; try discriminate. inversion H; subst. exists x. split; reflexivity.
      + split; intros; discriminate.
    - (* ESkip *)
      destruct at_; [contradiction| |]; (split; intros; try discriminate; inversion H; subst; exists x; split; reflexivity).
    - (* ENot *)
      destruct (IH e He at_ true x pos Hat) as [A1 A2].
      destruct (ev f e at_ true (x ++ y) pos) as [p1 rl1 t1| |] eqn:E1.
      + destruct (A1 _ _ _ eq_refl) as (r1 & -> & ->). split; intros; [discriminate | reflexivity].
      + rewrite (A2 eq_refl). split; intros; try discriminate. inversion H; subst. exists x. split; reflexivity.
      + split; intros; discriminate.
    - (* EAnd *)
      destruct (IH e He at_ true x pos Hat) as [A1 A2].
      destruct (ev f e at_ true (x ++ y) pos) as [p1 rl1 t1| |] eqn:E1.
      + destruct (A1 _ _ _ eq_refl) as (r1 & -> & ->). split; intros; try discriminate.
        inversion H; subst. exists x. split; reflexivity.
      + rewrite (A2 eq_refl). split; intros; [discriminate | reflexivity].
      + split; intros; discriminate.
  Qed.
End Generic.

(* ---------- the handlebars instance: y = "}}" ---------- *)
Notation hev := (eval rule hb_defs hb_ws).

(* bracket segments `[ .. ]` : the only place of the path grammar where "}" can be consumed *)
Definition LB : expr rule := ESeq (ENot (EStr [93])) (ESeq ESkip EAny).
Definition BODY : expr rule := ESeq ESkip LB.

Lemma def_path_raw_id : hb_defs R_path_raw_id = (KNormal, EOpt (ESeq LB (ERepTail LB))).
Proof. reflexivity. Qed.
Lemma def_path_key : hb_defs R_path_key =
  (KSilent, ESeq (EStr [91]) (ESeq ESkip (ESeq (ERef R_path_raw_id) (ESeq ESkip (EStr [93]))))).
Proof. reflexivity. Qed.

Lemma lb_tail f at_ q c r1 r2 pos : at_ <> ANon ->
  hev f LB at_ q (c :: r1) pos =
  match hev f LB at_ q (c :: r2) pos with Ok p _ ts => Ok p r1 ts | x => x end.
Proof.
  intros Hat. unfold LB.
  do 3 (destruct f as [|f]; [reflexivity|]). cbn [eval starts_with].
  destruct (93 =? c); cbn [andb]; [reflexivity|].
  destruct at_; [contradiction| |]; reflexivity.
Qed.

Lemma body_tail f at_ q c r1 r2 pos : at_ <> ANon ->
  hev f BODY at_ q (c :: r1) pos =
  match hev f BODY at_ q (c :: r2) pos with Ok p _ ts => Ok p r1 ts | x => x end.
Proof.
  intros Hat. unfold BODY. destruct f as [|f]; [reflexivity|]. cbn [eval].
  destruct f as [|f]; [reflexivity|].
  assert (Es : forall inp, hev (S f) ESkip at_ q inp pos = Ok pos inp [])
    by (intros; destruct at_; [contradiction| |]; reflexivity).
  rewrite !Es. rewrite (lb_tail (S f) at_ q c r1 r2 pos Hat).
  destruct (hev (S f) LB at_ q (c :: r2) pos); reflexivity.
Qed.

Lemma lb_nil f at_ q c r pos : at_ <> ANon ->
  hev f LB at_ q (c :: r) pos <> OutOfFuel -> hev f LB at_ q [] pos = Fail.
Proof.
  intros Hat H. unfold LB in *.
  do 3 (destruct f as [|f]; [exfalso; apply H; reflexivity|]). cbn [eval starts_with].
  destruct at_; [contradiction| |]; reflexivity.
Qed.

Lemma body_nil f at_ q c r pos : at_ <> ANon ->
  hev f BODY at_ q (c :: r) pos <> OutOfFuel -> hev f BODY at_ q [] pos = Fail.
Proof.
  intros Hat H. unfold BODY in *. destruct f as [|f]; [exfalso; apply H; reflexivity|]. cbn [eval] in *.
  destruct f as [|f]; [exfalso; apply H; reflexivity|].
  assert (Es : forall inp, hev (S f) ESkip at_ q inp pos = Ok pos inp [])
    by (intros; destruct at_; [contradiction| |]; reflexivity).
  rewrite Es in *. rewrite (lb_nil (S f) at_ q c r pos Hat); [reflexivity|].
  intro E. rewrite E in H. apply H. reflexivity.
Qed.

(* where the loop stops *)
Lemma rep_stop : forall f at_ q inp pos p rl ts, at_ <> ANon ->
  hev f (ERepTail LB) at_ q inp pos = Ok p rl ts ->
  (rl = [] \/ exists r, rl = 93 :: r) /\ exists u, inp = u ++ rl.
Proof.
  induction f as [|f IH]; intros at_ q inp pos p rl ts Hat H; [discriminate|].
  cbn [eval] in H. fold BODY in H.
  destruct (hev f BODY at_ q inp pos) as [p1 r1 t1| |] eqn:E1; try discriminate.
  - destruct (hev f (ERepTail LB) at_ q r1 p1) as [p2 r2 t2| |] eqn:E2; try discriminate.
    inversion H; subst. destruct (IH _ _ _ _ _ _ _ Hat E2) as (A & u & ->).
    split; [exact A|].
    destruct (eval_good _ _ _ _ _ _ _ _ _ _ _ _ E1) as (c & -> & _). exists (c ++ u). rewrite app_assoc. reflexivity.
  - inversion H; subst. split; [|exists []; reflexivity].
    destruct rl as [|c r]; [left; reflexivity|]. right.
    (* the body failed on c :: r, so c = 93 *)
    unfold BODY, LB in E1.
    do 4 (destruct f as [|f]; [cbn [eval] in E1; try discriminate E1; destruct at_; try contradiction; discriminate E1|]). cbn [eval starts_with] in E1.
    destruct at_; [contradiction| |]; cbn [eval] in E1;
      (destruct (93 =? c) eqn:Ec; cbn [andb] in E1; [apply N.eqb_eq in Ec; subst; eexists; reflexivity | discriminate]).
Qed.

Lemma rep_sim : forall f at_ q x pos p rl ts, at_ <> ANon ->
  hev f (ERepTail LB) at_ q (x ++ Y) pos = Ok p rl ts ->
  (exists r', rl = (93 :: r') ++ Y /\ hev f (ERepTail LB) at_ q x pos = Ok p (93 :: r') ts) \/
  (rl = [] /\ exists p2 t2, hev f (ERepTail LB) at_ q x pos = Ok p2 [] t2).
Proof.
  induction f as [|f IH]; intros at_ q x pos p rl ts Hat H; [discriminate|].
  destruct x as [|c x'].
  - (* the long run is inside "}}" : it runs to the end of the input *)
    right. destruct (rep_stop _ _ _ _ _ _ _ _ Hat H) as ([->|(r & ->)] & u & E).
    + split; [reflexivity|]. cbn [app eval] in *. fold BODY in *.
      destruct (hev f BODY at_ q Y pos) as [p1 r1 t1| |] eqn:E1; try discriminate.
      rewrite (body_nil f at_ q 125 [125] pos Hat) by (unfold Y in E1; rewrite E1; discriminate).
      eexists _, _. reflexivity.
    + exfalso. cbn [app] in E. unfold Y in E.
      destruct u as [|a [|b [|d u]]]; cbn [app] in E; inversion E.
  - cbn [app eval] in *. fold BODY in *.
    rewrite (body_tail f at_ q c (x' ++ Y) x' pos Hat) in H.
    destruct (hev f BODY at_ q (c :: x') pos) as [p1 r1 t1| |] eqn:E1; try discriminate.
    + destruct (hev f (ERepTail LB) at_ q (x' ++ Y) p1) as [p2 r2 t2| |] eqn:E2; try discriminate.
      inversion H; subst.
      (* the short body returned some rest r1; by body_tail it is x' *)
      assert (r1 = x') as ->.
      { pose proof (body_tail f at_ q c x' x' pos Hat) as B. rewrite E1 in B. inversion B. reflexivity. }
      destruct (IH _ _ _ _ _ _ _ Hat E2) as [(r' & -> & E3)|(-> & p3 & t3 & E3)].
      * left. exists r'. split; [reflexivity|]. rewrite E3. reflexivity.
      * right. split; [reflexivity|]. rewrite E3. eexists _, _. reflexivity.
    + destruct (rep_stop (S f) at_ q (c :: x') pos pos (c :: x') [] Hat) as ([X|(r & X)] & _).
      { cbn [eval]. fold BODY. rewrite E1. reflexivity. }
      * discriminate.
      * inversion X; subst. inversion H; subst. left. exists r. split; reflexivity.
Qed.

Lemma reptail_never_fails : forall f a at_ q inp pos, hev f (ERepTail a) at_ q inp pos <> Fail.
Proof.
  induction f as [|f IH]; intros a at_ q inp pos; [discriminate|]. cbn [eval].
  destruct (hev f (ESeq ESkip a) at_ q inp pos) as [p1 r1 t1| |]; try discriminate.
  specialize (IH a at_ q r1 p1). destruct (hev f (ERepTail a) at_ q r1 p1); try discriminate. congruence.
Qed.

Definition STAR : expr rule := EOpt (ESeq LB (ERepTail LB)).

Lemma star_sim f at_ q x pos p rl ts : at_ <> ANon ->
  hev f STAR at_ q (x ++ Y) pos = Ok p rl ts ->
  (exists r', rl = (93 :: r') ++ Y /\ hev f STAR at_ q x pos = Ok p (93 :: r') ts) \/
  (rl = [] /\ exists p2 t2, hev f STAR at_ q x pos = Ok p2 [] t2).
Proof.
  intros Hat H. unfold STAR in *.
  destruct f as [|f]; [discriminate|]. cbn [eval] in *.
  destruct f as [|f]; [discriminate|]. cbn [eval] in *.
  destruct x as [|c x'].
  - (* inside "}}" *)
    right. cbn [app] in H. unfold Y in H.
    assert (Hn : hev f LB at_ q [125; 125] pos <> OutOfFuel).
    { intro E. rewrite E in H. discriminate. }
    rewrite (lb_nil f at_ q 125 [125] pos Hat Hn).
    destruct (hev f LB at_ q [125; 125] pos) as [p1 r1 t1| |] eqn:E1; [| |congruence].
    + destruct (hev f (ERepTail LB) at_ q r1 p1) as [p2 r2 t2| |] eqn:E2; try discriminate;
        [|exfalso; exact (reptail_never_fails _ _ _ _ _ _ E2)].
      inversion H; subst.
      destruct (rep_stop _ _ _ _ _ _ _ _ Hat E2) as ([->|(r & ->)] & u & E).
      * split; [reflexivity|]. eexists _, _. reflexivity.
      * exfalso. destruct (eval_good _ _ _ _ _ _ _ _ _ _ _ _ E1) as (cc & Ec & _).
        rewrite E in Ec.
        assert (Hin : In 93 [125; 125]) by (rewrite Ec; apply in_or_app; right; apply in_or_app; right; left; reflexivity).
        cbn in Hin. destruct Hin as [X|[X|[]]]; discriminate X.
    + exfalso. (* 125 <> 93: the body cannot fail on "}}" *)
      unfold LB in E1. do 3 (destruct f as [|f]; [discriminate E1|]). cbn [eval starts_with] in E1.
      change (93 =? 125) with false in E1. cbn [andb] in E1.
      destruct at_; [contradiction| |]; discriminate E1.
  - cbn [app] in H. rewrite (lb_tail f at_ q c (x' ++ Y) x' pos Hat) in H.
    destruct (hev f LB at_ q (c :: x') pos) as [p1 r1 t1| |] eqn:E1; try discriminate.
    + assert (r1 = x') as ->.
      { pose proof (lb_tail f at_ q c x' x' pos Hat) as B. rewrite E1 in B. inversion B. reflexivity. }
      destruct (hev f (ERepTail LB) at_ q (x' ++ Y) p1) as [p2 r2 t2| |] eqn:E2; try discriminate;
        [|exfalso; exact (reptail_never_fails _ _ _ _ _ _ E2)].
      inversion H; subst.
      destruct (rep_sim _ _ _ _ _ _ _ _ Hat E2) as [(r' & -> & E3)|(-> & p3 & t3 & E3)].
      * left. exists r'. split; [reflexivity|]. rewrite E3. reflexivity.
      * right. split; [reflexivity|]. rewrite E3. eexists _, _. reflexivity.
    + inversion H; subst. left.
      (* the body failed on c :: x', so c = 93 *)
      assert (c = 93) as ->.
      { unfold LB in E1. do 3 (destruct f as [|f]; [discriminate E1|]). cbn [eval starts_with] in E1.
        destruct (93 =? c) eqn:Ec; [apply N.eqb_eq in Ec; auto|]. cbn [andb] in E1.
        destruct at_; [contradiction| |]; discriminate E1. }
      exists x'. split; reflexivity.
Qed.

(* `path_raw_id ~ "]"` *)
Definition R2 : expr rule := ESeq (ERef R_path_raw_id) (ESeq ESkip (EStr [93])).

Lemma r2_sim f at_ q x pos : at_ <> ANon ->
  (forall p rl ts, hev f R2 at_ q (x ++ Y) pos = Ok p rl ts ->
     exists r', rl = r' ++ Y /\ hev f R2 at_ q x pos = Ok p r' ts) /\
  (hev f R2 at_ q (x ++ Y) pos = Fail -> hev f R2 at_ q x pos = Fail).
Proof.
  intros Hat. unfold R2.
  destruct f as [|f]; [split; intros; discriminate|]. cbn [eval].
  destruct f as [|f]; [split; intros; discriminate|].
  (* the rule call *)
  assert (Hraw : forall inp, hev (S f) (ERef R_path_raw_id) at_ q inp pos =
            match hev f STAR at_ q inp pos with
            | Ok p' r' ts => Ok p' r' (emit rule at_ q R_path_raw_id pos p' ts)
            | x => x end).
  { intros inp. cbn [eval]. rewrite def_path_raw_id. fold STAR. reflexivity. }
  rewrite !Hraw. clear Hraw.
  assert (Hskip : forall inp p0, hev (S f) (ESeq ESkip (EStr [93])) at_ q inp p0 =
            match f with O => OutOfFuel | S _ =>
              if starts_with [93] inp then Ok (p0 + len [93]) (skipn 1 inp) [] else Fail end).
  { intros inp p0. cbn [eval]. destruct f as [|f']; [reflexivity|].
    destruct at_; [contradiction| |]; cbn [eval]; destruct (starts_with [93] inp); reflexivity. }
  destruct (hev f STAR at_ q (x ++ Y) pos) as [p1 rl1 t1| |] eqn:E1.
  - destruct (star_sim _ _ _ _ _ _ _ _ Hat E1) as [(r' & -> & E2)|(-> & p2 & t2 & E2)]; rewrite E2, !Hskip.
    + destruct f as [|f']; [split; intros; discriminate|]. cbn [app starts_with skipn].
      change (93 =? 93) with true. cbn [andb]. split; intros; [|discriminate].
      inversion H; subst. exists r'. split; reflexivity.
    + destruct f as [|f']; [split; intros; discriminate|]. cbn [starts_with].
      split; intros; [discriminate | reflexivity].
  - (* STAR never fails *)
    exfalso. unfold STAR in E1. destruct f as [|f]; [discriminate|]. cbn [eval] in E1.
    destruct (hev f (ESeq LB (ERepTail LB)) at_ q (x ++ Y) pos); discriminate.
  - split; intros; discriminate.
Qed.

Lemma seq_skip_noop f at_ q (e : expr rule) inp p : at_ <> ANon ->
  hev (S (S f)) (ESeq ESkip e) at_ q inp p = hev (S f) e at_ q inp p.
Proof.
  intros Hat.
  assert (E : hev (S (S f)) (ESeq ESkip e) at_ q inp p =
              match hev (S f) ESkip at_ q inp p with
              | Ok p1 r1 t1 => match hev (S f) e at_ q r1 p1 with
                               | Ok p2 r2 t2 => Ok p2 r2 (t1 ++ t2) | x => x end
              | x => x end) by reflexivity.
  rewrite E, (ev_skip_atomic rule hb_defs hb_ws f at_ q inp p Hat).
  destruct (hev (S f) e at_ q inp p); reflexivity.
Qed.

(* the opaque rule: `[` path_raw_id `]` *)
Lemma key_sim : forall f, sim rule hb_defs hb_ws 125 [125] f (ERef R_path_key).
Proof.
  intros f at_ q x pos Hat. change (x ++ 125 :: [125]) with (x ++ Y).
  destruct f as [|f]; [split; intros; discriminate|]. cbn [eval]. rewrite def_path_key.
  destruct f as [|f]; [split; intros; discriminate|]. cbn [eval].
  destruct f as [|f]; [split; intros; discriminate|].
  assert (E91 : forall inp, hev (S f) (EStr [91]) at_ q inp pos =
            if starts_with [91] inp then Ok (pos + len [91]) (skipn 1 inp) [] else Fail) by reflexivity.
  rewrite !E91. clear E91.
  destruct (sw_suffix 125 [125] [91] x eq_refl) as [S1 S2]. change (x ++ 125 :: [125]) with (x ++ Y) in *.
  rewrite S1. destruct (starts_with [91] x) eqn:Es; [|split; intros; [discriminate|reflexivity]].
  cbn [length] in S2. rewrite (S2 eq_refl).
  set (x1 := skipn 1 x). set (p1 := pos + len [91]).
  (* skip (a no-op here) then R2 *)
  assert (Esk : forall inp, hev (S f) (ESeq ESkip R2) at_ q inp p1 =
            match f with O => OutOfFuel | S _ => hev f R2 at_ q inp p1 end).
  { intros inp. destruct f as [|f']; [reflexivity|]. apply seq_skip_noop. exact Hat. }
  fold R2. rewrite !Esk. clear Esk.
  destruct f as [|f']; [split; intros; discriminate|].
  destruct (r2_sim (S f') at_ q x1 p1 Hat) as [A1 A2].
  change (x1 ++ [125; 125]) with (x1 ++ Y).
  destruct (hev (S f') R2 at_ q (x1 ++ Y) p1) as [p2 rl2 t2| |] eqn:E2.
  - destruct (A1 _ _ _ eq_refl) as (r' & -> & ->). cbn iota. split; [|intros X; discriminate X].
    intros p rl ts H. inversion H; subst. exists r'. split; reflexivity.
  - rewrite (A2 eq_refl). cbn iota. split; [intros p rl ts X; discriminate X | reflexivity].
  - cbn iota. split; [intros p rl ts X; discriminate X | intros X; discriminate X].
Qed.

(* ---------- the path rules are transparent ---------- *)
Definition path_tr (r : rule) : bool :=
  match r with
  | R_path_inline | R_path_current | R_path_sep | R_path_root | R_path_local | R_path_up
  | R_path_item | R_path_id | R_symbol_char => true
  | _ => false
  end.
Definition path_op (r : rule) : bool := match r with R_path_key => true | _ => false end.

Lemma path_tr_ok : forall r, path_tr r = true ->
  safe_e rule 125 path_tr path_op (snd (hb_defs r)) = true /\ not_nonatomic (fst (hb_defs r)) = true.
Proof. intros r. destruct r; intros H; try discriminate H; split; vm_compute; reflexivity. Qed.

Lemma path_op_ok : forall r, path_op r = true -> forall f, sim rule hb_defs hb_ws 125 [125] f (ERef r).
Proof. intros r. destruct r; intros H; try discriminate H. exact key_sim. Qed.

(* path_inline evaluated on `x ++ "}}"` is path_inline evaluated on `x` *)
Theorem path_inline_sim : forall f at_ q x pos p rl ts, at_ <> ANon ->
  hev f (ERef R_path_inline) at_ q (x ++ Y) pos = Ok p rl ts ->
  exists r', rl = r' ++ Y /\ hev f (ERef R_path_inline) at_ q x pos = Ok p r' ts.
Proof.
  intros f at_ q x pos p rl ts Hat H.
  destruct (suffix_sim rule hb_defs hb_ws 125 [125] path_tr path_op path_tr_ok path_op_ok
              f (ERef R_path_inline) eq_refl at_ q x pos Hat) as [A _].
  exact (A _ _ _ H).
Qed.

(* ---------- from the inline reference to the run-time parse ---------- *)
Notation sh2 := (shift_tok rule 2).

Lemma compound_any_at f r at1 at2 q inp pos : fst (hb_defs r) = KCompound ->
  hev f (ERef r) at1 q inp pos = hev f (ERef r) at2 q inp pos.
Proof. intros H. destruct f as [|f]; [reflexivity|]. cbn [eval]. destruct (hb_defs r) as [k b]. cbn [fst] in H. subst k. reflexivity. Qed.

Lemma ref_compound f r at_ inp pos p' rest ts : fst (hb_defs r) = KCompound ->
  hev f (ERef r) at_ false inp pos = Ok p' rest ts ->
  exists f' tb, f = S f' /\ hev f' (snd (hb_defs r)) ACompound false inp pos = Ok p' rest tb
                /\ ts = (r, pos, p') :: tb.
Proof.
  intros Hk H. destruct f as [|f]; [discriminate|]. cbn [eval] in H.
  destruct (hb_defs r) as [k b]. cbn [fst snd] in *. subst k.
  destruct (hev f b ACompound false inp pos) as [p1 r1 t1| |] eqn:E; try discriminate.
  inversion H; subst. exists f, t1. auto.
Qed.

Lemma hb_parse_eval f r s :
  hb_parse f r s = match hev f (ERef r) ANon false s 0 with
                   | Ok _ _ ts => Parsed ts | Fail => SyntaxError | OutOfFuel => ParseOutOfFuel end.
Proof. reflexivity. Qed.

Lemma path_parse_unfold raw :
  path_parse raw =
  match hb_parse (peg_fuel raw) R_path raw with
  | Parsed ts =>
      match parse_json_path raw ts (len raw) [] with
      | COk (segs, _) => Some (path_new raw segs)
      | _ => None
      end
  | _ => None
  end.
Proof. reflexivity. Qed.

Section Reparse.
  Variable raw : str.
  Let n : N := len raw.
  Let src : str := [123; 123] ++ raw ++ Y.

  Lemma slice_src_shift s e : e <= n -> slice src (s + 2) (e + 2) = slice raw s e.
  Proof.
    intros He. unfold slice, src.
    assert (Hlen : len ([123; 123] ++ raw ++ Y) = n + 4).
    { unfold n, len, Y. rewrite !app_length. cbn [length]. lia. }
    rewrite Hlen.
    replace (e + 2 <=? n + 4) with true by (symmetry; apply N.leb_le; lia).
    replace (e <=? len raw) with true by (symmetry; apply N.leb_le; exact He).
    destruct (N.leb_spec s e) as [Ese|Ese].
    2:{ replace (s + 2 <=? e + 2) with false by (symmetry; apply N.leb_gt; lia). reflexivity. }
    replace (s + 2 <=? e + 2) with true by (symmetry; apply N.leb_le; lia).
    cbn [andb]. f_equal.
    replace (N.to_nat (s + 2)) with (2 + N.to_nat s)%nat by lia.
    replace (e + 2 - (s + 2)) with (e - s) by lia.
    cbn [app skipn Nat.add]. rewrite skipn_app, firstn_app.
    assert (Hl : (N.to_nat e <= length raw)%nat) by (unfold n, len in He; lia).
    replace (N.to_nat (e - s) - length (skipn (N.to_nat s) raw))%nat with O
      by (rewrite skipn_length; lia).
    cbn [firstn]. rewrite app_nil_r. reflexivity.
  Qed.

  (* reading the path tokens: the compiler on the shifted tokens inside src, the
     run-time parser on the tokens of `raw` followed by EOI *)
  Lemma pjp_shift : forall toks acc rest,
    Forall (fun t => tk_start t <= tk_end t /\ tk_end t <= n) toks -> next_gt (n + 2) rest ->
    exists segs, parse_json_path src (map sh2 toks ++ rest) (n + 2) acc = COk (segs, rest) /\
                 parse_json_path raw (toks ++ [(R_EOI, n, n)]) n acc = COk (segs, []).
  Proof.
    induction toks as [|t toks IH]; intros acc rest Hf Hn.
    - exists (rev acc). cbn [map app]. split.
      + destruct rest as [|t0 r]; cbn [parse_json_path]; [reflexivity|]. cbn in Hn.
        replace (n + 2 <? tk_end t0) with true by (symmetry; apply N.ltb_lt; exact Hn). reflexivity.
      + cbn [parse_json_path tk_end tk_rule fst snd seg_classify]. rewrite N.ltb_irrefl. reflexivity.
    - inversion Hf as [|x l [Hse He] Hf']; subst. cbn [map app parse_json_path].
      destruct t as [[r s] e].
      change (sh2 (r, s, e)) with (r, s + 2, e + 2). cbn [tk_rule tk_start tk_end fst snd] in *.
      replace (n + 2 <? e + 2) with false by (symmetry; apply N.ltb_ge; lia).
      replace (n <? e) with false by (symmetry; apply N.ltb_ge; lia).
      destruct (seg_classify r); try (apply IH; assumption).
      rewrite (slice_src_shift s e He).
      destruct (slice_some raw s e Hse He) as (nm & -> & _).
      destruct (str_eqb nm _); apply IH; assumption.
  Qed.

  Lemma slice_whole : slice raw 0 n = Some raw.
  Proof.
    unfold slice, n. rewrite N.leb_refl. replace (0 <=? len raw) with true by (symmetry; apply N.leb_le; lia).
    cbn [andb]. rewrite N.sub_0_r. unfold len. rewrite Nat2N.id. cbn [N.to_nat skipn].
    rewrite firstn_all. reflexivity.
  Qed.

  Lemma eoi_tail : forall pos f, (10 <= f)%nat ->
    hev f (ESeq ESkip (ERef R_EOI)) ANon false [] pos = Ok pos [] [(R_EOI, pos, pos)].
  Proof.
    intros pos f Hf. eapply eval_fuel_mono; [|discriminate|exact Hf]. vm_compute. reflexivity.
  Qed.

  Lemma def_path : hb_defs R_path = (KSilent, ESeq (ERef R_path_inline) (ESeq ESkip (ERef R_EOI))).
  Proof. reflexivity. Qed.

  Lemma runtime_eval f2 t0 : hev (S f2) (ERef R_path_inline) ACompound false raw 0 = Ok n [] t0 ->
    exists g, hev g (ERef R_path) ANon false raw 0 = Ok n [] (t0 ++ [(R_EOI, n, n)]).
  Proof.
    intros E0. exists (S (S (S (S f2) + 12))).
    rewrite (ev_ref _ _ _ _ _ _ _ _ _ _ _ def_path).
    erewrite ev_seq_ok; [reflexivity| |apply eoi_tail; lia].
    rewrite (compound_any_at _ R_path_inline ANon ACompound) by reflexivity.
    eapply eval_fuel_mono; [exact E0|discriminate|lia].
  Qed.

  Lemma runtime_parse g t0 : hev g (ERef R_path) ANon false raw 0 = Ok n [] (t0 ++ [(R_EOI, n, n)]) ->
    hb_parse (peg_fuel raw) R_path raw = Parsed (t0 ++ [(R_EOI, n, n)]).
  Proof.
    intros EG.
    pose proof (hb_parse_fuel_sufficient R_path raw _ (peg_fuel_dominates raw)) as Hn.
    rewrite hb_parse_eval in *.
    revert Hn. generalize (peg_fuel raw). intros pf Hn.
    destruct (hev pf (ERef R_path) ANon false raw 0) as [pp rr tt| |] eqn:Epf; [| |congruence].
    - destruct (Nat.le_ge_cases pf g) as [L|L].
      + pose proof (eval_fuel_mono _ _ _ _ _ _ _ _ _ _ Epf ltac:(discriminate) _ L) as X.
        rewrite EG in X. inversion X; subst. reflexivity.
      + pose proof (eval_fuel_mono _ _ _ _ _ _ _ _ _ _ EG ltac:(discriminate) _ L) as X.
        rewrite Epf in X. inversion X; subst. reflexivity.
    - exfalso. destruct (Nat.le_ge_cases pf g) as [L|L].
      + pose proof (eval_fuel_mono _ _ _ _ _ _ _ _ _ _ Epf ltac:(discriminate) _ L) as X.
        rewrite EG in X. discriminate X.
      + pose proof (eval_fuel_mono _ _ _ _ _ _ _ _ _ _ EG ltac:(discriminate) _ L) as X.
        rewrite Epf in X. discriminate X.
  Qed.

  (* MAIN: whenever the compiler's `reference` rule, run right after "{{", accepts
     exactly `raw` (followed by "}}"), the run-time parse of `raw` succeeds and yields
     the very path the compiler builds from the reference tokens *)
  Theorem reference_reparse : forall f at_ ts,
    hev f (ERef R_reference) at_ false (raw ++ Y) 2 = Ok (2 + n) Y ts ->
    exists p, path_parse raw = Some p /\ path_raw p = raw /\
      forall fuel rest, next_gt (n + 2) rest ->
        parse_name src (S fuel) (ts ++ rest) = COk (PPath p, rest).
  Proof.
    intros f at_ ts H.
    destruct (ref_compound _ R_reference _ _ _ _ _ _ eq_refl H) as (f1 & tb & -> & E1 & ->).
    change (snd (hb_defs R_reference)) with (ERef (rule := rule) R_path_inline) in E1.
    destruct (path_inline_sim _ ACompound _ _ _ _ _ _ ltac:(discriminate) E1) as (r' & Er & E2).
    assert (r' = []) as ->.
    { apply (f_equal (@length N)) in Er. rewrite app_length in Er. destruct r'; [reflexivity|cbn [length] in Er; lia]. }
    clear Er E1.
    (* back to position 0 *)
    pose proof (eval_shift rule hb_defs hb_ws 2 f1 (ERef R_path_inline) ACompound false raw 0) as Es.
    rewrite N.add_0_l in Es. rewrite E2 in Es.
    destruct (hev f1 (ERef R_path_inline) ACompound false raw 0) as [p0 r0 t0| |] eqn:E0; try discriminate.
    cbn [shift_res] in Es. inversion Es as [[Ep Er Et]]. assert (p0 = n) by lia. subst p0 r0.
    destruct (eval_good_spans _ _ _ _ _ _ _ _ _ _ _ _ E0) as (_ & _ & Hsp).
    destruct (ref_compound _ R_path_inline _ _ _ _ _ _ eq_refl E0) as (f2 & inner0 & -> & _ & Et0).
    (* the run-time parse *)
    destruct (runtime_eval _ _ E0) as (g & EG).
    pose proof (runtime_parse _ _ EG) as EP.
    (* reading the tokens *)
    assert (Hsp' : Forall (fun t => tk_start t <= tk_end t /\ tk_end t <= n) t0).
    { eapply Forall_impl; [|exact Hsp]. cbn. intros t (A & B & C). split; assumption. }
    destruct (pjp_shift t0 [] [] Hsp' I) as (segs & _ & P2).
    exists (path_new raw segs). split; [|split].
    - rewrite path_parse_unfold, EP. fold n.
      match goal with |- match ?X with _ => _ end = _ =>
        replace X with (@COk (list pathseg * list tok) (segs, [])) by (symmetry; exact P2) end.
      reflexivity.
    - unfold path_new. destruct (get_local_path_and_level _) as [[lv nm]|]; reflexivity.
    - intros fuel rest Hr.
      destruct (pjp_shift t0 [] rest Hsp' Hr) as (segs' & P1 & P2'). rewrite P2 in P2'.
      inversion P2'; subst segs'.
      cbn [app parse_name tk_rule tk_end fst snd].
      change (name_classify R_reference) with NmReference. cbn iota.
      unfold span_str. cbn [tk_start tk_end fst snd].
      pose proof (slice_src_shift 0 n (N.le_refl n)) as Esl.
      rewrite N.add_0_l, slice_whole in Esl. replace (n + 2) with (2 + n) in Esl by lia.
      rewrite Esl. cbn [cbind]. replace (2 + n) with (n + 2) by lia. rewrite P1. reflexivity.
  Qed.
End Reparse.

(* ---------- where the first token of an evaluation comes from ---------- *)
Section FirstToken.
  Variable rule : Type.
  Variable defs : rule -> rkind * expr rule.
  Variable ws : expr rule.
  Notation ev := (eval rule defs ws).
  Notation tokn := (token rule).

  (* the first token of a non-quiet evaluation is emitted by a rule call whose
     tokens form a prefix of the list; the call runs on a suffix of the input,
     and everything after its tokens starts at or after its end *)
  Definition origin (inp : str) (pos : N) (t : tokn) (l : list tokn) : Prop :=
    exists f' at' inp' rest' tsr b,
      l = tsr ++ b /\
      ev f' (ERef (tk_rule t)) at' false inp' (tk_start t) = Ok (tk_end t) rest' (t :: tsr) /\
      (exists fb atb, ev fb (snd (defs (tk_rule t))) atb false inp' (tk_start t) = Ok (tk_end t) rest' tsr) /\
      (exists c, inp = c ++ inp' /\ len c = tk_start t - pos) /\ pos <= tk_start t /\
      Forall (fun u => tk_end t <= tk_start u) b.

  Lemma origin_weaken_input inp0 pos0 inp pos t l c0 :
    inp0 = c0 ++ inp -> pos = pos0 + len c0 -> origin inp pos t l -> origin inp0 pos0 t l.
  Proof.
    intros -> -> (f' & at' & inp' & rest' & tsr & b & E1 & E2 & Eb & (c & -> & Lc) & Lp & Hb).
    exists f', at', inp', rest', tsr, b. repeat split; try assumption; [|lia].
    exists (c0 ++ c). split; [rewrite app_assoc; reflexivity|]. rewrite len_app. lia.
  Qed.

  Lemma origin_app_tail inp pos t l b' pend :
    origin inp pos t l -> Forall (fun u => pend <= tk_start u) b' ->
    tk_end t <= pend -> origin inp pos t (l ++ b').
  Proof.
    intros (f' & at' & inp' & rest' & tsr & b & -> & E2 & Eb & Hc & Lp & Hb) Hb' Le.
    exists f', at', inp', rest', tsr, (b ++ b'). repeat split; try assumption.
    - rewrite app_assoc. reflexivity.
    - apply Forall_app. split; [assumption|]. eapply Forall_impl; [|exact Hb']. cbn. intros; lia.
  Qed.

  Theorem first_token_origin : forall f e at_ inp pos pos' rest t ts,
    ev f e at_ false inp pos = Ok pos' rest (t :: ts) ->
    origin inp pos t ts /\ tk_end t <= pos'.
  Proof.
    induction f as [|f IH]; intros e at_ inp pos pos' rest t ts H; [discriminate|].
    assert (Hgood := eval_good_spans _ _ _ _ _ _ _ _ _ _ _ _ H).
    destruct e; cbn [eval] in H.
    - destruct (starts_with s inp); inversion H.
    - destruct inp as [|c r]; [discriminate|]. destruct (N.leb lo c && N.leb c hi); inversion H.
    - destruct inp; inversion H.
    - destruct inp; inversion H.
    - (* ERef *)
      destruct (defs r) as [k body] eqn:Ed.
      destruct Hgood as (Lpos & _ & _).
      assert (Here : forall ts0 atb, ev f body atb false inp pos = Ok pos' rest ts0 ->
                ev (S f) (ERef r) at_ false inp pos = Ok pos' rest ((r, pos, pos') :: ts0) ->
                origin inp pos (r, pos, pos') ts0 /\ tk_end (r, pos, pos') <= pos').
      { intros ts0 atb Ebody Eref. cbn [tk_end snd]. split; [|lia].
        exists (S f), at_, inp, rest, ts0, []. rewrite app_nil_r. cbn [tk_rule tk_start tk_end fst snd].
        repeat split; try constructor; try lia; try exact Eref.
        - exists f, atb. rewrite Ed. exact Ebody.
        - exists []. split; [reflexivity|]. rewrite len_nil. lia. }
      destruct k.
      + destruct (ev f body at_ false inp pos) as [p1 r1 t1| |] eqn:E; try discriminate. injection H as Ep Er H4; subst p1 r1.
        destruct at_; cbn [emit] in H4.
        * inversion H4; subst. eapply Here; [exact E|]. cbn [eval]. rewrite Ed, E. reflexivity.
        * subst t1. exact (IH _ _ _ _ _ _ _ _ E).
        * inversion H4; subst. eapply Here; [exact E|]. cbn [eval]. rewrite Ed, E. reflexivity.
      + exact (IH _ _ _ _ _ _ _ _ H).
      + destruct (ev f body AAtomic false inp pos) as [p1 r1 t1| |] eqn:E; try discriminate. injection H as Ep Er H4; subst p1 r1.
        destruct at_; cbn [emit] in H4.
        * inversion H4; subst. eapply Here; [exact E|]. cbn [eval]. rewrite Ed, E. reflexivity.
        * subst t1. exact (IH _ _ _ _ _ _ _ _ E).
        * inversion H4; subst. eapply Here; [exact E|]. cbn [eval]. rewrite Ed, E. reflexivity.
      + destruct (ev f body ACompound false inp pos) as [p1 r1 t1| |] eqn:E; try discriminate. injection H as Ep Er H4; subst p1 r1.
        cbn [emit] in H4. inversion H4; subst. eapply Here; [exact E|]. cbn [eval]. rewrite Ed, E. reflexivity.
      + destruct (ev f body ANon false inp pos) as [p1 r1 t1| |] eqn:E; try discriminate. injection H as Ep Er H4; subst p1 r1.
        cbn [emit] in H4. inversion H4; subst. eapply Here; [exact E|]. cbn [eval]. rewrite Ed, E. reflexivity.
    - (* ESeq *)
      destruct (ev f e1 at_ false inp pos) as [p1 r1 t1| |] eqn:E1; try discriminate.
      destruct (ev f e2 at_ false r1 p1) as [p2 r2 t2| |] eqn:E2; try discriminate.
      injection H as Ep Er H4; subst p2 r2.
      destruct (eval_good_spans _ _ _ _ _ _ _ _ _ _ _ _ E1) as (L1 & (c1 & Ec1 & Lc1) & _).
      destruct (eval_good_spans _ _ _ _ _ _ _ _ _ _ _ _ E2) as (L2 & _ & F2).
      destruct t1 as [|u t1'].
      + cbn [app] in H4. subst t2.
        destruct (IH _ _ _ _ _ _ _ _ E2) as [O2 Le]. split; [|exact Le].
        eapply origin_weaken_input; [exact Ec1 | | exact O2]. lia.
      + cbn [app] in H4. inversion H4; subst.
        destruct (IH _ _ _ _ _ _ _ _ E1) as [O1 Le]. split; [|lia].
        eapply origin_app_tail; [exact O1 | | exact Le].
        eapply Forall_impl; [|exact F2]. cbn. intros; lia.
    - destruct (ev f e1 at_ false inp pos) as [p1 r1 t1| |] eqn:E1; try discriminate.
      + inversion H; subst. exact (IH _ _ _ _ _ _ _ _ E1).
      + exact (IH _ _ _ _ _ _ _ _ H).
    - destruct (ev f e at_ false inp pos) as [p1 r1 t1| |] eqn:E1; try discriminate.
      inversion H; subst. exact (IH _ _ _ _ _ _ _ _ E1).
    - (* ERepTail *)
      destruct (ev f (ESeq ESkip e) at_ false inp pos) as [p1 r1 t1| |] eqn:E1; try discriminate.
      destruct (ev f (ERepTail e) at_ false r1 p1) as [p2 r2 t2| |] eqn:E2; try discriminate.
      injection H as Ep Er H4; subst p2 r2.
      destruct (eval_good_spans _ _ _ _ _ _ _ _ _ _ _ _ E1) as (L1 & (c1 & Ec1 & Lc1) & _).
      destruct (eval_good_spans _ _ _ _ _ _ _ _ _ _ _ _ E2) as (L2 & _ & F2).
      destruct t1 as [|u t1'].
      + cbn [app] in H4. subst t2.
        destruct (IH _ _ _ _ _ _ _ _ E2) as [O2 Le]. split; [|exact Le].
        eapply origin_weaken_input; [exact Ec1 | | exact O2]. lia.
      + cbn [app] in H4. inversion H4; subst.
        destruct (IH _ _ _ _ _ _ _ _ E1) as [O1 Le]. split; [|lia].
        eapply origin_app_tail; [exact O1 | | exact Le].
        eapply Forall_impl; [|exact F2]. cbn. intros; lia.
    - (* ERepPlain *)
      destruct (ev f e at_ false inp pos) as [p1 r1 t1| |] eqn:E1; try discriminate.
      destruct (ev f (ERepPlain e) at_ false r1 p1) as [p2 r2 t2| |] eqn:E2; try discriminate.
      injection H as Ep Er H4; subst p2 r2.
      destruct (eval_good_spans _ _ _ _ _ _ _ _ _ _ _ _ E1) as (L1 & (c1 & Ec1 & Lc1) & _).
      destruct (eval_good_spans _ _ _ _ _ _ _ _ _ _ _ _ E2) as (L2 & _ & F2).
      destruct t1 as [|u t1'].
      + cbn [app] in H4. subst t2.
        destruct (IH _ _ _ _ _ _ _ _ E2) as [O2 Le]. split; [|exact Le].
        eapply origin_weaken_input; [exact Ec1 | | exact O2]. lia.
      + cbn [app] in H4. inversion H4; subst.
        destruct (IH _ _ _ _ _ _ _ _ E1) as [O1 Le]. split; [|lia].
        eapply origin_app_tail; [exact O1 | | exact Le].
        eapply Forall_impl; [|exact F2]. cbn. intros; lia.
    - (* ESkip *)
      destruct at_; try (inversion H; fail).
      pose proof (quiet_no_tokens _ _ _ _ _ _ _ _ _ _ _ H). discriminate.
    - destruct (ev f e at_ true inp pos); inversion H.
    - destruct (ev f e at_ true inp pos); inversion H.
  Qed.
End FirstToken.

(* ---------- the whole template `{{raw}}` ---------- *)
Lemma app_split_pred {A} (P Q : A -> Prop) : forall l1 l2 l3 l4 : list A,
  l1 ++ l2 = l3 ++ l4 -> Forall P l1 -> Forall Q l4 -> (forall x, P x -> Q x -> False) ->
  exists x, l3 = l1 ++ x /\ l2 = x ++ l4.
Proof.
  induction l1 as [|a l1 IH]; intros l2 l3 l4 E HP HQ Hx; cbn [app] in *.
  - exists l3. auto.
  - inversion HP as [|a0 l0 Pa HP']; subst. destruct l3 as [|a' l3]; cbn [app] in E.
    + exfalso. destruct l4 as [|b l4]; [discriminate|]. injection E as <- E'.
      inversion HQ as [|b0 l5 Qa HQ']; subst. eauto.
    + injection E as <- E'. destruct (IH _ _ _ E' HP' HQ Hx) as (x & -> & ->). exists x. auto.
Qed.

Lemma app_inv_len {A} (c1 c2 x1 x2 : list A) : c1 ++ x1 = c2 ++ x2 -> length c1 = length c2 -> c1 = c2 /\ x1 = x2.
Proof.
  revert c2. induction c1 as [|a c1 IH]; intros [|b c2] E L; cbn in *; try discriminate; [auto|].
  injection E as <- E'. destruct (IH c2 E' ltac:(lia)) as [-> ->]. auto.
Qed.

Section Inline.
  Variable raw : str.
  Let n : N := len raw.
  Let src : str := [123; 123] ++ raw ++ Y.
  Variable inner : list tok.
  Let ts : list tok :=
    (R_template, 0, n + 4) :: (R_expression, 0, n + 4) :: (R_reference, 2, 2 + n) :: inner ++ [(R_EOI, n + 4, n + 4)].

  Hypothesis Hparse : hb_parse (peg_fuel src) R_handlebars src = Parsed ts.
  Hypothesis Hinner : forallb (fun t => N.ltb (tk_start t) (n + 2) && not_escape t) inner = true.


  Lemma inner_start : Forall (fun t => tk_start t < n + 2) inner.
  Proof.
    clear Hparse. apply Forall_forall. intros t Ht. rewrite forallb_forall in Hinner.
    specialize (Hinner t Ht). apply andb_true_iff in Hinner. destruct Hinner as [A _]. apply N.ltb_lt. exact A.
  Qed.
  Lemma inner_noesc : filter (fun t => negb (is_rule R_escape t)) inner = inner.
  Proof.
    clear Hparse. induction inner as [|t l IH]; [reflexivity|].
    cbn [forallb] in Hinner. apply andb_true_iff in Hinner. destruct Hinner as [Ht Hl].
    apply andb_true_iff in Ht. destruct Ht as [_ Ht]. cbn [filter]. unfold not_escape in Ht. rewrite Ht.
    f_equal. apply IH. exact Hl.
  Qed.

  (* the reference call inside the parse of the template *)
  Lemma inline_reference_call :
    exists f at_, hev f (ERef R_reference) at_ false (raw ++ Y) 2 = Ok (2 + n) Y ((R_reference, 2, 2 + n) :: inner).
  Proof.
    pose proof Hparse as Hp. rewrite hb_parse_eval in Hp. revert Hp. generalize (peg_fuel src). intros pf Hp.
    destruct (hev pf (ERef R_handlebars) ANon false src 0) as [p0 r0 ts0| |] eqn:E0; try discriminate.
    injection Hp as ->.
    (* template *)
    destruct (first_token_origin _ _ _ _ _ _ _ _ _ _ _ _ E0) as
      [(f1 & at1 & inp1 & rest1 & tsr1 & b1 & L1 & C1 & (fb1 & atb1 & B1) & (c1 & Ec1 & Lc1) & _ & Hb1) _].
    cbn [tk_rule tk_start tk_end fst snd] in *.
    assert (c1 = []) as -> by (destruct c1; [reflexivity | rewrite len_cons in Lc1; lia]).
    cbn [app] in Ec1. subst inp1.
    destruct tsr1 as [|e1 tsr1].
    { exfalso. cbn [app] in L1. subst b1. inversion Hb1 as [|u l Hu _]; subst. cbn [tk_start fst snd] in Hu. lia. }
    cbn [app] in L1. injection L1 as <- L1.
    (* expression *)
    destruct (first_token_origin _ _ _ _ _ _ _ _ _ _ _ _ B1) as
      [(f2 & at2 & inp2 & rest2 & tsr2 & b2 & L2 & C2 & (fb2 & atb2 & B2) & (c2 & Ec2 & Lc2) & _ & Hb2) _].
    cbn [tk_rule tk_start tk_end fst snd] in *.
    assert (c2 = []) as -> by (destruct c2; [reflexivity | rewrite len_cons in Lc2; lia]).
    cbn [app] in Ec2. subst inp2.
    destruct tsr2 as [|e2 tsr2].
    { exfalso. cbn [app] in L2. subst tsr1.
      destruct b2 as [|u b2]; cbn [app] in L1.
      - subst b1. inversion Hb1 as [|u l Hu _]; subst. cbn [tk_start fst snd] in Hu. lia.
      - injection L1 as <- _. inversion Hb2 as [|u' l Hu _]; subst. cbn [tk_start fst snd] in Hu. lia. }
    subst tsr1. cbn [app] in L1. injection L1 as <- L1.
    (* reference *)
    destruct (first_token_origin _ _ _ _ _ _ _ _ _ _ _ _ B2) as
      [(f3 & at3 & inp3 & rest3 & tsr3 & b3 & L3 & C3 & _ & (c3 & Ec3 & Lc3) & _ & Hb3) _].
    cbn [tk_rule tk_start tk_end fst snd] in *. subst tsr2.
    (* its input and rest *)
    assert (Hin : c3 = [123; 123] /\ inp3 = raw ++ Y).
    { unfold src in Ec3. change ([123; 123] ++ raw ++ Y) with ([123; 123] ++ (raw ++ Y)) in Ec3.
      destruct (app_inv_len [123; 123] c3 (raw ++ Y) inp3 Ec3) as [A B]; [|auto].
      unfold len in Lc3. cbn [length]. lia. }
    destruct Hin as [-> ->].
    destruct (eval_good_spans _ _ _ _ _ _ _ _ _ _ _ _ C3) as (_ & (cons & Econs & Lcons) & Hsp3).
    assert (Hr3 : cons = raw /\ rest3 = Y).
    { destruct (app_inv_len raw cons Y rest3 Econs) as [A B]; [|auto].
      unfold n, len in *. lia. }
    destruct Hr3 as [_ ->].
    (* the tokens after the reference *)
    rewrite <- !app_assoc in L1.
    assert (HB : Forall (fun u => n + 2 <= tk_start u) (b3 ++ b2 ++ b1)).
    { apply Forall_app. split; [eapply Forall_impl; [|exact Hb3]; cbn; intros; lia|].
      apply Forall_app. split; [eapply Forall_impl; [|exact Hb2]|eapply Forall_impl; [|exact Hb1]]; cbn; intros; lia. }
    destruct (app_split_pred (fun t => tk_start t < n + 2) (fun u => n + 2 <= tk_start u)
                inner [(R_EOI, n + 4, n + 4)] tsr3 (b3 ++ b2 ++ b1) L1 inner_start HB) as (x & Ex & Ey);
      [intros; lia|].
    assert (x = []) as ->.
    { destruct x as [|u x]; [reflexivity|]. exfalso. cbn [app] in Ey. injection Ey as <- _.
      inversion Hsp3 as [|u0 l0 _ Hrest]; subst. rewrite Forall_forall in Hrest.
      assert (Hin : In (R_EOI, n + 4, n + 4) (inner ++ (R_EOI, n + 4, n + 4) :: x))
        by (apply in_or_app; right; left; reflexivity).
      destruct (Hrest _ Hin) as (_ & _ & Hle). cbn [tk_end snd] in Hle. lia. }
    rewrite app_nil_r in Ex. subst tsr3.
    exists f3, at3. exact C3.
  Qed.


  Lemma len_src : len src = n + 4.
  Proof. unfold src, n, len, Y. rewrite !app_length. cbn [length]. lia. Qed.

  Theorem inline_compiles_and_reparses : forall opts,
    exists p, compile2 src opts = COk (inline_template p opts) /\
              path_parse raw = Some p /\ path_raw p = raw.
  Proof.
    intros opts. destruct inline_reference_call as (f0 & at0 & Href).
    destruct (reference_reparse raw f0 at0 _ Href) as (p & Hpp & Hraw & Hname).
    fold n src in Hname. exists p. split; [|split; assumption].
    rewrite compile2_unfold, Hparse. unfold compile_tokens.
    assert (Hfil : filter (fun t => negb (is_rule R_escape t)) ts = ts).
    { unfold ts. cbn [filter]. rewrite filter_app, inner_noesc. reflexivity. }
    rewrite Hfil.
    replace (16 + 4 * length ts)%nat with (S (S (S (S (12 + 4 * length ts)))))%nat by lia.
    set (F := (12 + 4 * length ts)%nat).
    unfold ts at 2.
    (* template token *)
    rewrite main_loop_S.
    assert (S1 : forall f it, step src ts opts f init_cstate (R_template, 0, n + 4) it =
              COk ({| c_ts := [t_empty]; c_hs := []; c_ds := []; c_omit := false; c_trim := false; c_end := None |}, it))
      by reflexivity.
    rewrite S1. cbn [cbind]. clear S1.
    (* the expression tag *)
    rewrite main_loop_S.
    set (c1 := {| c_ts := [t_empty]; c_hs := []; c_ds := []; c_omit := false; c_trim := false; c_end := None |}).
    set (e := {| es_name := PPath p; es_params := []; es_hash := []; es_bp := None; es_pre := false; es_pro := false |}).
    assert (S2 : step src ts opts (S (S F)) c1 (R_expression, 0, n + 4)
                   ((R_reference, 2, 2 + n) :: inner ++ [(R_EOI, n + 4, n + 4)]) =
                 COk ({| c_ts := [MkT None [ElExpr (mk_helper e false false false)] [(1, 1)]];
                         c_hs := []; c_ds := []; c_omit := false; c_trim := false; c_end := Some (n + 4) |},
                      [(R_EOI, n + 4, n + 4)])).
    { unfold step, trailing_string. cbn [tk_rule tk_start tk_end fst snd tag_classify c_end c_omit c1].
      change (0 =? 0) with true. change (rule_eqb R_expression R_template) with false.
      cbn [negb andb cbind].
      unfold tag_prologue. cbn [tk_end snd].
      assert (PE : parse_expression src (S (S F)) ((R_reference, 2, 2 + n) :: inner ++ [(R_EOI, n + 4, n + 4)]) (n + 4)
                   = COk (e, [(R_EOI, n + 4, n + 4)])).
      { rewrite CompileBase.parse_expression_S.
        change (is_rule R_leading_tilde_to_omit_whitespace (R_reference, 2, 2 + n)) with false. cbn iota.
        change ((R_reference, 2, 2 + n) :: inner ++ [(R_EOI, n + 4, n + 4)])
          with (((R_reference, 2, 2 + n) :: inner) ++ [(R_EOI, n + 4, n + 4)]).
        match goal with |- cbind ?X _ = _ =>
          replace X with (@COk (param * list tok) (PPath p, [(R_EOI, n + 4, n + 4)]))
            by (symmetry; apply (Hname F [(R_EOI, n + 4, n + 4)]); cbn; lia) end.
        cbn [cbind].
        rewrite CompileBase.expr_loop_S. cbn zeta. cbn [tk_end snd]. rewrite N.ltb_irrefl. reflexivity. }
      rewrite PE. cbn [cbind es_pre e c_ts c1 push_front_el t_push t_empty app set_stack es_pro c_trim c_omit c_hs c_ds].
      replace (line_col src 0) with (1, 1) by reflexivity. reflexivity. }
    rewrite S2. cbn [cbind]. clear S2.
    (* EOI *)
    rewrite main_loop_S.
    set (c2 := {| c_ts := [MkT None [ElExpr (mk_helper e false false false)] [(1, 1)]];
                  c_hs := []; c_ds := []; c_omit := false; c_trim := false; c_end := Some (n + 4) |}).
    assert (S3 : step src ts opts (S F) c2 (R_EOI, n + 4, n + 4) [] = COk (c2, [])).
    { unfold step, trailing_string. cbn [tk_rule tk_start tk_end fst snd tag_classify c_end c_omit c2].
      rewrite N.eqb_refl. change (rule_eqb R_EOI R_template) with false. cbn [negb andb cbind]. reflexivity. }
    match goal with |- cbind ?X _ = _ =>
      replace X with (@COk (cstate * list tok) (c2, [])) by (symmetry; exact S3) end.
    cbn [cbind]. clear S3.
    (* end of the token list *)
    cbn [main_loop c_end c2]. rewrite len_src, N.ltb_irrefl. cbn [cbind c_ts].
    reflexivity.
  Qed.
End Inline.

(* ---------- an executable admissibility test and the final statement ---------- *)
Lemma inline_inner_unfold raw :
  inline_inner raw =
  match hb_parse (peg_fuel (inline_src raw)) R_handlebars (inline_src raw) with
  | Parsed (t1 :: t2 :: t3 :: rest) =>
      let inner := removelast rest in
      if tok_eqb t1 (R_template, 0, len raw + 4) && tok_eqb t2 (R_expression, 0, len raw + 4)
         && tok_eqb t3 (R_reference, 2, 2 + len raw)
         && (match rest with [] => false | _ => tok_eqb (last rest t1) (R_EOI, len raw + 4, len raw + 4) end)
         && forallb (fun t => N.ltb (tk_start t) (len raw + 2) && not_escape t) inner
      then Some inner else None
  | _ => None
  end.
Proof. reflexivity. Qed.

Lemma evaluate_unfold data raw s :
  evaluate data raw s =
  match path_parse raw with
  | Some p => evaluate2 data p s
  | None => rfail (RInvalidJsonPath raw) s
  end.
Proof. reflexivity. Qed.

Lemma tok_eqb_known (a : tok) r s e :
  (forall r', rule_eqb r' r = true -> r' = r) -> tok_eqb a (r, s, e) = true -> a = (r, s, e).
Proof.
  intros Hr H. destruct a as [[r' s'] e']. unfold tok_eqb in H. cbn [tk_rule tk_start tk_end fst snd] in H.
  apply andb_true_iff in H. destruct H as [H H3]. apply andb_true_iff in H. destruct H as [H1 H2].
  apply N.eqb_eq in H2, H3. rewrite (Hr _ H1). subst. reflexivity.
Qed.

Lemma admissible_inline_unfold raw :
  admissible_inline raw = match inline_inner raw with Some _ => true | None => false end.
Proof. reflexivity. Qed.

Lemma admissible_shape raw : admissible_inline raw = true ->
  exists inner,
    hb_parse (peg_fuel (inline_src raw)) R_handlebars (inline_src raw) =
    Parsed ((R_template, 0, len raw + 4) :: (R_expression, 0, len raw + 4) :: (R_reference, 2, 2 + len raw)
            :: inner ++ [(R_EOI, len raw + 4, len raw + 4)]) /\
    forallb (fun t => N.ltb (tk_start t) (len raw + 2) && not_escape t) inner = true.
Proof.
  intros H. rewrite admissible_inline_unfold, inline_inner_unfold in H. cbn zeta in H.
  revert H. generalize (hb_parse (peg_fuel (inline_src raw)) R_handlebars (inline_src raw)). intros r H.
  destruct r as [ts| |]; try discriminate.
  destruct ts as [|t1 [|t2 [|t3 rest]]]; try discriminate.
  match type of H with (match (if ?c then _ else _) with _ => _ end) = _ => destruct c eqn:Ec; [|discriminate] end.
  clear H. do 4 (apply andb_true_iff in Ec; let X := fresh "C" in destruct Ec as [Ec X]).
  apply tok_eqb_known in Ec; [|intros r'; destruct r'; try discriminate; reflexivity].
  apply tok_eqb_known in C2; [|intros r'; destruct r'; try discriminate; reflexivity].
  apply tok_eqb_known in C1; [|intros r'; destruct r'; try discriminate; reflexivity].
  destruct rest as [|r0 rest']; [discriminate|].
  apply tok_eqb_known in C0; [|intros r'; destruct r'; try discriminate; reflexivity].
  subst t1 t2 t3. exists (removelast (r0 :: rest')). split; [|exact C].
  do 4 f_equal. rewrite <- C0. apply app_removelast_last. discriminate.
Qed.

Theorem evaluate_matches_inline : forall raw opts, admissible_inline raw = true ->
  exists p, compile2 (inline_src raw) opts = COk (inline_template p opts) /\
            path_parse raw = Some p /\ path_raw p = raw /\
            forall data s, evaluate data raw s = evaluate2 data p s.
Proof.
  intros raw opts H. destruct (admissible_shape raw H) as (inner & Ep & C).
  destruct (inline_compiles_and_reparses raw inner Ep C opts) as (p & A & B & D).
  exists p. split; [exact A|]. split; [exact B|]. split; [exact D|].
  intros data s. rewrite evaluate_unfold, B. reflexivity.
Qed.

Example admissible_ab : admissible_inline (`"a.b") = true.
Proof. vm_compute. reflexivity. Qed.
Example admissible_up_bracket : admissible_inline (`"../x.[y z]") = true.
Proof. vm_compute. reflexivity. Qed.
Example admissible_local : admissible_inline (`"@../index") = true.
Proof. vm_compute. reflexivity. Qed.
Example not_admissible_blank : admissible_inline (`"a ") = false.
Proof. vm_compute. reflexivity. Qed.

(* the converse direction cannot hold for every spelling: `else` (and `^`) re-parse
   as paths at run time, but written inline they are the else tag (`{{else}}` alone is a
   syntax error), not a path *)
Lemma reparse_converse_refuted :
  exists raw p, path_parse raw = Some p /\
    forall opts q, compile2 (inline_src raw) opts <> COk (inline_template q opts).
Proof.
  exists (`"else"). eexists. split; [vm_compute; reflexivity|].
  intros opts q H.
  assert (E : compile2 (inline_src (`"else")) opts = CErr TESyntax).
  { destruct opts as [pi ip nm]. vm_compute. reflexivity. }
  rewrite E in H. discriminate.
Qed.
