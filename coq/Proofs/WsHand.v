(* Proofs/WsHand.v — C11, "on a value expression a `~` equals deleting the
   adjacent whitespace by hand", at the level of the pieces of Spec/WsWhole.v. *)
From Coq Require Import List NArith Lia Bool.
From HB Require Import Base.Str Peg.Peg Peg.Grammar Tpl.Ast Tpl.Compile Spec.AlignedSpec Spec.WsSpec
  Spec.StripTags Spec.StripTagsBlocks Spec.WsWhole Proofs.LeafStr Proofs.WsProofs Proofs.WsWhole.
Import ListNotations.
Open Scope N_scope.

Arguments N.eqb : simpl never.
Arguments N.leb : simpl never.

(* a start trim never looks past the last non-whitespace character: it commutes
   with the whitespace that follows that character *)
Definition start_local (f : str -> str) : Prop :=
  (forall a c t, is_ws c = false -> exists a', f (a ++ [c]) = a' ++ [c] /\ f ((a ++ [c]) ++ t) = (a' ++ [c]) ++ t) /\
  (forall w, Forall (fun c => is_ws c = true) w -> Forall (fun c => is_ws c = true) (f w)) /\
  f [] = [].

Lemma ws_not_blank c : is_ws c = false -> is_blank c = false.
Proof.
  intro H. destruct (is_blank c) eqn:E; [|reflexivity].
  unfold is_blank in E. apply orb_prop in E. destruct E as [E|E]; apply N.eqb_eq in E; subst; discriminate.
Qed.

Lemma start_local_id : start_local (fun s => s).
Proof. split; [intros a c t _; exists a; split; reflexivity | split; auto]. Qed.

Lemma start_local_trim_start : start_local trim_start.
Proof.
  split.
  - intros a c t Hc. unfold trim_start. induction a as [|x a IH].
    + exists []. cbn [app drop_while]. rewrite Hc. split; reflexivity.
    + cbn [app drop_while]. destruct (is_ws x).
      * exact IH.
      * exists (x :: a). split; reflexivity.
  - split; [|reflexivity]. intros w Hw. unfold trim_start. induction Hw as [|x w Hx _ IH]; [constructor|].
    cbn [drop_while]. rewrite Hx. exact IH.
Qed.

Lemma start_local_standalone : start_local (fun s => strip_first_newline (trim_start_blank s)).
Proof.
  split.
  - intros a c t Hc. unfold trim_start_blank. induction a as [|x a IH].
    + exists []. cbn [app drop_while]. rewrite (ws_not_blank c Hc).
      assert (c <> 10 /\ c <> 13) as [H10 H13] by (split; intros ->; discriminate).
      unfold strip_first_newline.
      destruct c as [|p]; [split; reflexivity|].
      do 4 (destruct p as [p|p|]; try (split; reflexivity)); try (exfalso; apply H10; reflexivity);
        try (exfalso; apply H13; reflexivity); split; reflexivity.
    + cbn [app drop_while]. destruct (is_blank x) eqn:Eb; [exact IH|].
      (* x is the first non-blank character *)
      destruct (N.eq_dec x 10) as [->|N10].
      * exists a. cbn [strip_first_newline]. split; reflexivity.
      * destruct (N.eq_dec x 13) as [->|N13].
        -- destruct a as [|y a2].
           ++ cbn [app]. destruct (N.eq_dec c 10) as [->|]; [discriminate|].
              exists [13]. cbn [app].
              assert (E1 : strip_first_newline [13; c] = [13; c]).
              { unfold strip_first_newline. destruct c as [|p]; [reflexivity|].
                do 4 (destruct p as [p|p|]; try reflexivity). congruence. }
              assert (E2 : strip_first_newline (13 :: c :: t) = 13 :: c :: t).
              { unfold strip_first_newline. destruct c as [|p]; [reflexivity|].
                do 4 (destruct p as [p|p|]; try reflexivity). congruence. }
              rewrite E1, E2. split; reflexivity.
           ++ cbn [app]. destruct (N.eq_dec y 10) as [->|Ny].
              ** exists a2. cbn [strip_first_newline]. split; reflexivity.
              ** exists (13 :: y :: a2). cbn [app].
                 assert (E : forall r, strip_first_newline (13 :: y :: r) = 13 :: y :: r).
                 { intro r. unfold strip_first_newline. destruct y as [|p]; [reflexivity|].
                   do 4 (destruct p as [p|p|]; try reflexivity). congruence. }
                 rewrite !E. split; reflexivity.
        -- exists (x :: a). cbn [app].
           assert (E : forall r, strip_first_newline (x :: r) = x :: r).
           { intro r. unfold strip_first_newline. destruct x as [|p]; [reflexivity|].
             do 4 (destruct p as [p|p|]; try reflexivity); congruence. }
           rewrite !E. split; reflexivity.
  - split; [|reflexivity]. intros w Hw.
    assert (H1 : Forall (fun c => is_ws c = true) (trim_start_blank w)).
    { unfold trim_start_blank. induction Hw as [|x w Hx Hw' IH]; [constructor|].
      cbn [drop_while]. destruct (is_blank x); [exact IH | constructor; assumption]. }
    destruct (strip_first_newline_cases (trim_start_blank w)) as [(r & E & ->) | [(r & E & ->) | (_ & _ & ->)]].
    + rewrite E in H1. inversion H1; assumption.
    + rewrite E in H1. inversion H1 as [|? ? _ H2]; subst. inversion H2; assumption.
    + exact H1.
Qed.

Lemma last_split {A} (l : list A) : l = [] \/ exists a c, l = a ++ [c].
Proof.
  destruct (rev l) as [|c r] eqn:E.
  - left. rewrite <- (rev_involutive l), E. reflexivity.
  - right. exists (rev r), c. rewrite <- (rev_involutive l), E. reflexivity.
Qed.

Lemma trim_end_commutes f : start_local f -> forall s, trim_end (f s) = f (trim_end s).
Proof.
  intros (Hl & Hw & Hnil) s. destruct (trim_end_spec s) as (suf & Es & Hsuf & Hlast).
  assert (Hall : forall w, Forall (fun c => is_ws c = true) w -> trim_end w = []).
  { intros w H. rewrite <- (app_nil_l w). apply trim_end_unique; [exact H|].
    intros p' c0 E0. destruct p'; discriminate. }
  destruct (last_split (trim_end s)) as [E | (a & c & E)].
  - rewrite E in *. cbn [app] in Es. rewrite Hnil. rewrite Es at 1. apply Hall. apply Hw. exact Hsuf.
  - pose proof (Hlast a c E) as Hc. rewrite E in *.
    destruct (Hl a c suf Hc) as (a' & E1 & E2).
    rewrite Es at 1. rewrite E2, E1. apply trim_end_unique; [exact Hsuf|].
    intros p' c0 E0. apply app_inj_tail in E0. destruct E0 as [_ <-]. exact Hc.
Qed.

(* ---------- the two piece-level equations ---------- *)
(* a leading `~` on the right-hand tag N of a piece = trimming the end of the
   piece by hand, whatever the left-hand tag did *)
Theorem lead_tilde_by_hand po pt piece :
  ws_piece po pt true false piece = ws_piece po pt false false (trim_end piece).
Proof.
  unfold ws_piece, end_trim, ws_text.
  destruct po; [apply (trim_end_commutes _ start_local_trim_start)|].
  destruct pt; [apply (trim_end_commutes _ start_local_standalone)|reflexivity].
Qed.

(* a trailing `~` on the left-hand tag P of a piece = trimming the start of the
   piece by hand and P leaving no flag (a value expression leaves pt = false) *)
Theorem trail_tilde_by_hand pt npre nsa piece :
  ws_piece true pt npre nsa piece = ws_piece false false npre nsa (trim_start piece).
Proof. reflexivity. Qed.

(* both at once, for a piece between two value expressions *)
Corollary both_tildes_by_hand piece :
  ws_piece true false true false piece = ws_piece false false false false (trim_end (trim_start piece)).
Proof.
  rewrite trail_tilde_by_hand, lead_tilde_by_hand. reflexivity.
Qed.

(* hand deletion is idempotent on the trimmed text: no further trim applies *)
Lemma ws_piece_plain piece : ws_piece false false false false piece = piece.
Proof. reflexivity. Qed.

(* ---------- a value expression: its flags are its two `~`, it is never standalone ---------- *)
Theorem value_expr_flags src opts F pr it html :
  tag_classify (tk_rule pr) = KValueExpr html ->
  sa_fires src opts pr = false /\ trim_after src opts pr = false /\
  (forall e it', tag_expr src F pr it = COk (e, it') -> tag_fl src F pr it = (es_pre e, es_pro e)).
Proof.
  intros Hc. unfold sa_fires, trim_after, tag_fl. rewrite Hc. cbn [standalone_capable expr_class].
  split; [reflexivity|]. split; [reflexivity|]. intros e it' ->. reflexivity.
Qed.

(* a standalone-capable tag is different: its look-back may fire without any `~` *)
Theorem capable_not_by_hand : exists po pt piece,
  ws_piece po pt false true piece <> ws_piece po pt false false piece.
Proof. exists false, false, [97; 10; 32; 32]. vm_compute. discriminate. Qed.

(* ---------- through compile2 ---------- *)
Definition art (src : str) : option str :=
  match compile2 src default_opts with COk t => Some (all_raw_text (t_els t)) | _ => None end.

(* the two spellings of a value expression compile to the same raw text *)
Example value_tilde_by_hand_example :
  art (`"a " ++ [10] ++ `"  {{~x~}} " ++ [13; 10] ++ `" b") = Some (`"ab")
  /\ art (`"a{{x}}b") = Some (`"ab").
Proof. split; vm_compute; reflexivity. Qed.

(* for a partial tag it is not the same: with the `~` the tag still stands alone
   on its line and takes the line break behind it; after deleting the whitespace
   in front of it by hand it does not *)
Example partial_tilde_not_by_hand_example :
  art (`"a" ++ [10] ++ `"  {{~> p}}" ++ [10] ++ `"b") = Some (`"ab")
  /\ art (`"a{{> p}}" ++ [10] ++ `"b") = Some (`"a" ++ [10] ++ `"b").
Proof. split; vm_compute; reflexivity. Qed.
