(* Proofs/WriterIo.v — C19: an IOError is only ever the writer's: every Err
   outcome of the render fixpoint whose reason is IOError ends in a state whose
   writer has reached its fault index; with an unfailing writer there is none. *)
From Coq Require Import List Lia NArith ZArith.
From HB Require Import Rt.Render Spec.RenderAll Spec.Writer Proofs.RenderInd Proofs.WriterPrefix.
Import ListNotations.
Open Scope N_scope.

(* the writer has reached its fault index *)
Definition io_faulted (o : outbuf) : Prop := exists k, o_fail_at o = Some k /\ k <= o_writes o.

Definition okt {A} : A -> rstate -> Prop := fun _ _ => True.
Definition ioq : rerror -> rstate -> Prop :=
  fun e s' => e_reason e = RIOError -> io_faulted (fst (fst (crit s'))).
Definition notio : rerror -> rstate -> Prop := fun e _ => e_reason e <> RIOError.

Lemma notio_ioq {A} (r : rres A) : sat r okt notio True -> sat r okt ioq True.
Proof. intros H. eapply sat_mono; [exact H| | |]; auto. intros e s Hn Hio. contradiction. Qed.

Lemma io_rbind {A B} (x : rres A) (f : A -> rstate -> rres B) :
  sat x okt ioq True -> (forall a s1, sat (f a s1) okt ioq True) -> sat (rbind x f) okt ioq True.
Proof. intros Hx Hf. eapply sat_rbind; [exact Hx|]. intros a s1 _. apply Hf. Qed.

Lemma io_fold_idx {A} (step : A -> nat -> rstate -> rres unit) l i s :
  (forall x i s, sat (step x i s) okt ioq True) -> sat (fold_idx step l i s) okt ioq True.
Proof.
  intros Hstep. revert i s. induction l as [|x r IH]; intros i s; cbn [fold_idx]; [exact I|].
  apply io_rbind; [apply Hstep|]. intros _ s1. apply IH.
Qed.

Lemma io_mapM {A B} (f : A -> rstate -> rres B) l s :
  (forall x s, sat (f x s) okt ioq True) -> sat (mapM f l s) okt ioq True.
Proof.
  intros Hf. revert s. induction l as [|x r IH]; intros s; cbn [mapM]; [exact I|].
  apply io_rbind; [apply Hf|]. intros y s1. apply io_rbind; [apply IH|]. intros ys s2. exact I.
Qed.

Lemma attach_pos_reason' t i e : e_reason (attach_pos t i e) = e_reason e.
Proof.
  unfold attach_pos. destruct (e_line e); [reflexivity|].
  destruct (nth_error (t_map t) i) as [[l c]|]; reflexivity.
Qed.

Lemma io_rmap_err_render {A} (x : rres A) t i :
  sat x okt ioq True -> sat (rmap_err x (attach_render t i)) okt ioq True.
Proof.
  intros H. eapply sat_rmap_err; [exact H|]. intros e s He. unfold ioq in *.
  unfold attach_render. destruct (e_tpl (attach_pos t i e)); cbn [e_reason];
    rewrite attach_pos_reason'; exact He.
Qed.
Lemma io_rmap_err_eval {A} (x : rres A) t i :
  sat x okt ioq True -> sat (rmap_err x (attach_eval t i)) okt ioq True.
Proof.
  intros H. eapply sat_rmap_err; [exact H|]. intros e s He. unfold ioq in *.
  unfold attach_eval. cbn [e_reason]. rewrite attach_pos_reason'. exact He.
Qed.

(* ---------- primitives ---------- *)
Lemma io_out_write chunk s : sat (out_write chunk s) okt ioq True.
Proof.
  unfold out_write. destruct chunk; [exact I|].
  destruct (o_fail_at (s_out s)) as [k|] eqn:Hf; [|exact I].
  destruct (N.leb k (o_writes (s_out s))) eqn:Hk; [|exact I].
  cbn. intros _. exists k. cbn. apply N.leb_le in Hk. auto.
Qed.

Lemma io_write_indented fuel v ind s : sat (write_indented fuel v ind s) okt ioq True.
Proof.
  revert v s. induction fuel as [|f IH]; intros v s; cbn [write_indented]; [exact I|].
  destruct (find_lf v); [|apply io_out_write].
  apply io_rbind; [apply io_out_write|]. intros _ s1. destruct (skipn (S n) v); [exact I|].
  apply io_rbind; [apply io_out_write|]. intros _ s2. apply IH.
Qed.

Lemma io_indent_aware_write v s : sat (indent_aware_write v s) okt ioq True.
Proof.
  unfold indent_aware_write. destruct v as [|c r]; [exact I|]. apply io_rbind.
  - destruct (_ && _); [|exact I]. destruct (s_indent _); [apply io_out_write|exact I].
  - intros _ s2. apply io_rbind; [|intros _ s3; exact I].
    destruct (s_indent s2); [apply io_write_indented|apply io_out_write].
Qed.

Lemma io_log_write txt s : sat (log_write txt s) okt ioq True.
Proof. apply io_out_write. Qed.

Lemma io_evaluate2 data p s : sat (evaluate2 data p s) okt ioq True.
Proof.
  apply notio_ioq. unfold evaluate2. destruct p; [|exact I]. unfold navigate.
  destruct (parse_json_visitor segs (s_blocks s)); [| |exact I];
    destruct (walk _ _); cbn; try exact I; discriminate.
Qed.

Lemma io_evaluate data raw s : sat (evaluate data raw s) okt ioq True.
Proof.
  unfold evaluate. destruct (path_parse raw); [apply io_evaluate2|]. cbn. intros H. discriminate H.
Qed.

(* the macro helpers' own errors are parameter errors *)
Lemma macro_params_not_io n strict decl idx given acc :
  macro_params n strict decl idx given acc <> inl RIOError.
Proof.
  revert idx acc. induction decl as [|[pn t] rest IH]; intros idx acc; cbn [macro_params].
  - discriminate.
  - destruct (nth_error given idx); [|discriminate].
    destruct (strict && sc_missing (pj_val p)); [discriminate|].
    destruct (conv t (pj_value p)); [apply IH|discriminate].
Qed.

Lemma macro_opts_not_io n decl hash acc : macro_opts n decl hash acc <> inl RIOError.
Proof.
  revert acc. induction decl as [|[[on t] d] rest IH]; intros acc; cbn [macro_opts].
  - discriminate.
  - destruct (map_get hash on); [|apply IH].
    destruct (conv t (pj_value p)); [apply IH|discriminate].
Qed.

Lemma macro_call_not_io sg body strict h : macro_call sg body strict h <> inl RIOError.
Proof.
  unfold macro_call.
  pose proof (macro_params_not_io (ms_name sg) strict (ms_params sg) 0 (hv_params h) []) as H1.
  destruct (macro_params _ _ _ _ _ _) as [e|ps]; [congruence|].
  pose proof (macro_opts_not_io (ms_name sg) (ms_opts sg) (hv_hash h) []) as H2.
  destruct (macro_opts _ _ _ _) as [e|os]; [congruence|discriminate].
Qed.

Lemma call_inner_not_io reg hid h s : sat (call_inner reg hid h s) okt notio True.
Proof.
  assert (Hm : forall sg body, sat (macro_inner reg sg body h s) okt notio True).
  { intros sg body. unfold macro_inner. pose proof (macro_call_not_io sg body (r_strict reg) h) as H.
    destruct (macro_call sg body (r_strict reg) h) as [e|v]; [|exact I].
    cbn. unfold notio. cbn. congruence. }
  unfold call_inner, param_or, strict_error, rfail.
  destruct hid; try apply Hm; try exact I; try (cbn; unfold notio; cbn; discriminate);
    repeat lazymatch goal with
    | |- sat ?e _ _ _ =>
        lazymatch e with
        | context [match ?y with _ => _ end] => let z := inner_scrut y in destruct z
        end
    end; cbn; unfold notio; cbn; try exact I; discriminate.
Qed.

Lemma io_call_inner reg hid h s : sat (call_inner reg hid h s) okt ioq True.
Proof. apply notio_ioq, call_inner_not_io. Qed.

(* ---------- spec, tactic, steps ---------- *)
Definition io_spec : rspec :=
  uniform_spec (fun A _ r => sat r okt ioq True).

Ltac io_err_leaf :=
  cbn [sat]; unfold ioq, okt;
  first [ exact I
        | let H := fresh in intros H; cbn in H; discriminate H
        | let H := fresh in intros H; contradiction
        | repeat (autorewrite with crit;
                  try lazymatch goal with
                      | |- context [crit (match ?y with _ => _ end)] => destruct y
                      end); assumption ].

Ltac io_ih IH :=
  first [ apply (h_rt IH) | apply (h_et IH) | apply (h_or IH) | apply (h_re IH) | apply (h_ee IH)
        | apply (h_rx IH) | apply (h_rh IH) | apply (h_hft IH) | apply (h_dft IH) | apply (h_ean IH)
        | apply (h_ep IH) | apply (h_chv IH) | apply (h_ch IH) | apply (h_ed IH) | apply (h_rp IH)
        | apply (h_xp IH) | apply io_out_write | apply io_indent_aware_write | apply io_log_write
        | apply io_evaluate2 | apply io_evaluate | apply io_call_inner ].

Ltac io_step IH :=
  lazymatch goal with
  | |- sat ?e okt ioq True =>
      lazymatch e with
      | (let _ := _ in _) => cbv zeta
      | rbind _ _ => apply io_rbind; [ | intros ? ? ]
      | rmap_err _ (attach_render _ _) => apply io_rmap_err_render
      | rmap_err _ (attach_eval _ _) => apply io_rmap_err_eval
      | fold_idx _ _ _ _ => apply io_fold_idx; intros ? ? ?
      | mapM _ _ _ => apply io_mapM; intros ? ?
      | param_or _ _ _ _ _ => unfold param_or
      | strict_error _ _ => unfold strict_error, rfail; io_err_leaf
      | rfail _ _ => unfold rfail; io_err_leaf
      | ROk _ _ => exact I
      | RErr _ _ => io_err_leaf
      | RPanic _ => exact I
      | RFuel => exact I
      | match ?y with _ => _ end =>
          let z := inner_scrut y in
          lazymatch z with
          | call_inner ?r ?hid ?h ?s =>
              let X := fresh "X" in
              pose proof (call_inner_not_io r hid h s) as X;
              destruct (call_inner r hid h s); cbn [sat] in X; unfold notio in X
          | _ =>
              tryif is_ih_call z
              then (let X := fresh "X" in
                    assert (X : sat z okt ioq True) by (io_ih IH);
                    destruct z; cbn [sat] in X; unfold ioq in X)
              else destruct z
          end
      | _ => io_ih IH
      end
  end.

Section IoSteps.
Variables (reg : registry) (data : json) (ft : ftable).
Variable f : nat.
Hypothesis IH : holds reg data ft io_spec f.

Lemma io_rt t s : sat (render_template reg data ft (S f) t s) okt ioq True.
Proof. rewrite render_template_S. repeat io_step IH. Qed.
Lemma io_et t s : sat (eval_template reg data ft (S f) t s) okt ioq True.
Proof. rewrite eval_template_S. repeat io_step IH. Qed.
Lemma io_or t s : sat (opt_render reg data ft (S f) t s) okt ioq True.
Proof. rewrite opt_render_S. repeat io_step IH. Qed.
Lemma io_re e s : sat (render_element reg data ft (S f) e s) okt ioq True.
Proof. rewrite render_element_S. repeat io_step IH. Qed.
Lemma io_ee e s : sat (eval_element reg data ft (S f) e s) okt ioq True.
Proof. rewrite eval_element_S. repeat io_step IH. Qed.
Lemma io_rh ht s : sat (render_helper reg data ft (S f) ht s) okt ioq True.
Proof. rewrite render_helper_S. cbv zeta. repeat io_step IH. Qed.
Lemma io_hft ht s : sat (helper_from_template reg data ft (S f) ht s) okt ioq True.
Proof. rewrite helper_from_template_S. repeat io_step IH. Qed.
Lemma io_dft dt s : sat (deco_from_template reg data ft (S f) dt s) okt ioq True.
Proof. rewrite deco_from_template_S. repeat io_step IH. Qed.
Lemma io_ean p s : sat (expand_as_name reg data ft (S f) p s) okt ioq True.
Proof. rewrite expand_as_name_S. repeat io_step IH. Qed.
Lemma io_ep p s : sat (expand_param reg data ft (S f) p s) okt ioq True.
Proof. rewrite expand_param_S. repeat io_step IH. Qed.
Lemma io_ch hid h s : sat (call_helper reg data ft (S f) hid h s) okt ioq True.
Proof.
  rewrite call_helper_S. cbv zeta. destruct hid; try solve [repeat io_step IH].
  (* HLocal: the capture bracket of the "c:" mode — the private buffer never fails *)
  cbn [has_call_inner]. destruct (starts_with _ name); [|repeat io_step IH].
  destruct (hv_tpl h) as [t|]; [|exact I].
  match goal with
  | |- sat (match render_template _ _ _ _ _ ?s1 with _ => _ end) _ _ _ =>
      pose proof (h_rt IH t s1) as Y;
      destruct (no_retract reg data ft f) as (NR & _); specialize (NR t s1);
      destruct (render_template reg data ft f t s1) as [u s2|e s2|p|]; cbn [sat] in *; try exact I
  end.
  - repeat io_step IH.
  - intros He. exfalso. specialize (Y He). destruct Y as (k & Hk & _).
    destruct (NR s2 eq_refl) as (_ & _ & _ & _ & Hf & _). cbn in Hk, Hf. congruence.
Qed.
Lemma io_ed dt s : sat (eval_decorator reg data ft (S f) dt s) okt ioq True.
Proof. rewrite eval_decorator_S. repeat io_step IH. Qed.
Lemma io_rp dt s : sat (render_partial reg data ft (S f) dt s) okt ioq True.
Proof. rewrite render_partial_S. cbv zeta. repeat io_step IH. Qed.
Lemma io_xp d s : sat (expand_partial reg data ft (S f) d s) okt ioq True.
Proof. rewrite expand_partial_S. cbv zeta. repeat io_step IH. Qed.

Lemma io_rx ht html s : sat (render_expression reg data ft (S f) ht html s) okt ioq True.
Proof.
  rewrite render_expression_S. cbv zeta.
  apply (sat_post_id _ (fun s' => if html then set_disable_escape s' false else s')
           (fun s' => if html then set_disable_escape s' false else s') okt ioq).
  - generalize (if html then set_disable_escape s true else s). intros s0. repeat io_step IH.
  - intros; exact I.
  - intros e s' H. unfold ioq in *. destruct html; [rewrite crit_set_disable_escape|]; exact H.
Qed.

(* inside the private buffer the writer cannot fail, so an error of the private
   run is not an IOError *)
Lemma io_chv hid h s : sat (call_helper_for_value reg data ft (S f) hid h s) okt ioq True.
Proof.
  rewrite call_helper_for_value_S.
  pose proof (call_inner_not_io reg hid h s) as X.
  destruct (call_inner reg hid h s) as [r s1|e s1|p|]; cbn [sat] in X; try exact I.
  destruct (is_unimplemented e); [|cbn; intros H; contradiction]. cbv zeta.
  pose proof (h_ch IH hid h (set_disable_escape (set_out s1 (out_new None)) true)) as Y.
  destruct (no_retract reg data ft f) as (_ & _ & _ & _ & _ & _ & _ & _ & _ & _ & _ & _ & NR & _).
  specialize (NR hid h (set_disable_escape (set_out s1 (out_new None)) true)).
  destruct (call_helper reg data ft f hid h (set_disable_escape (set_out s1 (out_new None)) true))
    as [u s3|e' s3|p|]; cbn [sat] in *; try exact I.
  intros He. exfalso. specialize (Y He). destruct Y as (k & Hk & _).
  destruct (NR s3 eq_refl) as (_ & _ & _ & _ & Hf & _). cbn in Hk, Hf. congruence.
Qed.
End IoSteps.

Theorem io_holds : forall reg data ft f, holds reg data ft io_spec f.
Proof.
  intros reg data ft. apply render_ind.
  - constructor; intros; exact I.
  - constructor; intros f IH; intros.
    + apply io_rt; exact IH.
    + apply io_et; exact IH.
    + apply io_or; exact IH.
    + apply io_re; exact IH.
    + apply io_ee; exact IH.
    + apply io_rx; exact IH.
    + apply io_rh; exact IH.
    + apply io_hft; exact IH.
    + apply io_dft; exact IH.
    + apply io_ean; exact IH.
    + apply io_ep; exact IH.
    + apply io_chv; exact IH.
    + apply io_ch; exact IH.
    + apply io_ed; exact IH.
    + apply io_rp; exact IH.
    + apply io_xp; exact IH.
Qed.

(* every IOError outcome sits at a reached fault *)
Theorem io_error_only_at_fault : forall reg data ft f,
  every_render_fn reg data ft f
    (fun A s r => forall e s', r = RErr e s' -> e_reason e = RIOError ->
                  exists k, o_fail_at (s_out s') = Some k /\ k <= o_writes (s_out s')).
Proof.
  intros reg data ft f. apply holds_uniform.
  eapply holds_uniform_mono; [|apply (io_holds reg data ft f)].
  intros A s r H e s' -> He. exact (H He).
Qed.

(* with an unfailing writer no function of the fixpoint returns an IOError, and
   with a writer armed at k the IOError state has exactly k accepted calls *)
Corollary io_error_needs_fault : forall reg data ft f,
  every_render_fn reg data ft f
    (fun A s r => forall e s', r = RErr e s' -> e_reason e = RIOError ->
       exists k, o_fail_at (s_out s) = Some k /\
                 (o_writes (s_out s) <= k -> o_writes (s_out s') = k)).
Proof.
  intros reg data ft f.
  pose proof (io_error_only_at_fault reg data ft f) as H1.
  pose proof (no_retract reg data ft f) as H2. unfold every_render_fn in *.
  repeat match goal with H : _ /\ _ |- _ => destruct H end.
  repeat match goal with |- _ /\ _ => split end; intros;
    match goal with
    | Hr : ?r = RErr ?e ?s', He : e_reason ?e = RIOError,
      HA : forall _, _, HB : forall _, _ |- _ =>
        let K := fresh in
        first [ pose proof (HA _ _ _ _ Hr He) as K | pose proof (HA _ _ _ _ _ Hr He) as K ];
        destruct K as (k & Hk1 & Hk2);
        let N := fresh in
        first [ pose proof (HB _ _ s' ltac:(rewrite Hr; reflexivity)) as N
              | pose proof (HB _ _ _ s' ltac:(rewrite Hr; reflexivity)) as N ];
        destruct N as (_ & _ & _ & _ & Hf & Hle);
        exists k; split; [congruence|];
        intros Hw; apply N.le_antisymm; [apply Hle; [congruence|exact Hw] | exact Hk2]
    end.
Qed.
