(* Proofs/MapProofs.v — mapping_aligned / mapping_value (C18, compiler half). *)
From HB Require Import Tpl.Compile Proofs.CompileBase Spec.AlignedSpec.
Open Scope N_scope.

Ltac okinv H := injection H; clear H; intros; subst.

(* ---------- readable restatements of the nested fixpoints ---------- *)
Definition opt_ad (o : option template) : Prop :=
  match o with Some t => aligned_deep t | None => True end.
Definition opt_adi (o : option template) : Prop :=
  match o with Some t => ad_inverse t | None => True end.

Lemma ad_els_fix_iff (es : list element) :
  (fix go (l : list element) : Prop :=
     match l with [] => True | e :: r => ad_element e /\ go r end) es <-> Forall ad_element es.
Proof.
  induction es as [|e r IH]; split; intro H.
  - constructor.
  - exact I.
  - destruct H as [He Hr]. constructor; [exact He | apply IH; exact Hr].
  - inversion H as [|? ? He Hr]; subst. split; [exact He | apply IH; exact Hr].
Qed.

Lemma aligned_deep_iff n es m :
  aligned_deep (MkT n es m) <-> length m = length es /\ Forall ad_element es.
Proof. cbn [aligned_deep]. rewrite ad_els_fix_iff. tauto. Qed.

Lemma ad_inverse_iff n es m :
  ad_inverse (MkT n es m)
  <-> (length m = length es \/ chain_wrapper_shape n es m) /\ Forall ad_element es.
Proof. cbn [ad_inverse]. rewrite ad_els_fix_iff. tauto. Qed.

Lemma ad_helper_iff n ps hs bp tpl inv bl ch w :
  ad_helper (MkH n ps hs bp tpl inv bl ch w) <-> opt_ad tpl /\ opt_adi inv.
Proof. cbn [ad_helper]. unfold opt_ad, opt_adi. tauto. Qed.

Lemma ad_deco_iff n ps hs tpl ind w : ad_deco (MkD n ps hs tpl ind w) <-> opt_ad tpl.
Proof. cbn [ad_deco]. unfold opt_ad. tauto. Qed.

Lemma ad_helper_proj h : ad_helper h <-> opt_ad (h_tpl h) /\ opt_adi (h_inv h).
Proof. destruct h. apply ad_helper_iff. Qed.

Lemma aligned_deep_aligned t : aligned_deep t -> aligned t.
Proof. destruct t as [n es m]. rewrite aligned_deep_iff. unfold aligned. cbn. tauto. Qed.

Lemma aligned_deep_inverse t : aligned_deep t -> ad_inverse t.
Proof. destruct t as [n es m]. rewrite aligned_deep_iff, ad_inverse_iff. tauto. Qed.

Lemma opt_ad_adi o : opt_ad o -> opt_adi o.
Proof. destruct o; [apply aligned_deep_inverse|exact (fun H => H)]. Qed.

(* ---------- helper operations preserve ad_helper ---------- *)
Lemma ad_h_set_tpl h t : ad_helper h -> opt_ad t -> ad_helper (h_set_tpl h t).
Proof. destruct h. cbn [h_set_tpl]. rewrite !ad_helper_iff. tauto. Qed.
Lemma ad_h_set_inv h t : ad_helper h -> opt_adi t -> ad_helper (h_set_inv h t).
Proof. destruct h. cbn [h_set_inv]. rewrite !ad_helper_iff. tauto. Qed.
Lemma ad_h_set_chain h b : ad_helper h -> ad_helper (h_set_chain h b).
Proof. destruct h. cbn [h_set_chain]. rewrite !ad_helper_iff. tauto. Qed.
Lemma ad_h_inv h : ad_helper h -> opt_adi (h_inv h).
Proof. destruct h. cbn [h_inv]. rewrite !ad_helper_iff. tauto. Qed.
Lemma ad_d_set_tpl d t : ad_deco d -> opt_ad t -> ad_deco (d_set_tpl d t).
Proof. destruct d. cbn [d_set_tpl]. rewrite !ad_deco_iff. tauto. Qed.
Lemma ad_d_set_indent d i : ad_deco d -> ad_deco (d_set_indent d i).
Proof. destruct d. cbn [d_set_indent]. rewrite !ad_deco_iff. tauto. Qed.
Lemma ad_mk_helper e b c w : ad_helper (mk_helper e b c w).
Proof. unfold mk_helper. apply ad_helper_iff. split; exact I. Qed.
Lemma ad_mk_deco e w : ad_deco (mk_deco e w).
Proof. unfold mk_deco. apply ad_deco_iff. exact I. Qed.

Lemma ad_wrapper x : ad_helper x -> ad_inverse (MkT None [ElBlock x] []).
Proof.
  intro H. apply ad_inverse_iff. split.
  - right. repeat split. exists x. reflexivity.
  - constructor; [exact H|constructor].
Qed.

Lemma ad_insert_inverse_node h node :
  ad_helper h -> ad_helper node -> ad_helper (insert_inverse_node h node).
Proof.
  intros Hh Hn. unfold insert_inverse_node. apply ad_h_set_inv; [exact Hh|].
  cbn [opt_adi]. apply ad_wrapper. apply ad_h_set_inv; [exact Hn|apply ad_h_inv; exact Hh].
Qed.

(* replacing the single block of an inverse template keeps its shape *)
Lemma ad_inverse_replace n x m y :
  ad_inverse (MkT n [ElBlock x] m) -> ad_helper y -> ad_inverse (MkT n [ElBlock y] m).
Proof.
  rewrite !ad_inverse_iff. intros [Hs _] Hy. split.
  - destruct Hs as [Hl|(Hn & Hm & _)]; [left; exact Hl|].
    right. repeat split; try assumption. exists y. reflexivity.
  - constructor; [exact Hy|constructor].
Qed.

Lemma ad_inverse_block n x m : ad_inverse (MkT n [ElBlock x] m) -> ad_helper x.
Proof. rewrite ad_inverse_iff. intros [_ H]. inversion H; subst. assumption. Qed.

Lemma ref_chain_head_some h head :
  ref_chain_head h = Some (Some head) ->
  exists n m, h_inv h = Some (MkT n [ElBlock head] m).
Proof.
  unfold ref_chain_head. destruct (h_chain h); [|discriminate].
  destruct (h_inv h) as [[n els m]|]; [|discriminate].
  destruct els as [|e r]; [discriminate|].
  destruct e; destruct r; try discriminate. intro H. okinv H. eexists; eexists; reflexivity.
Qed.

Lemma ad_set_chain_head h head head' :
  ref_chain_head h = Some (Some head) -> ad_helper h -> ad_helper head' ->
  ad_helper (set_chain_head h head').
Proof.
  intros Hr Hh Hd. destruct (ref_chain_head_some _ _ Hr) as (n & m & Hi).
  pose proof (ad_h_inv _ Hh) as Hinv. unfold set_chain_head. rewrite Hi in *.
  apply ad_h_set_inv; [exact Hh|]. cbn [opt_adi] in *. eapply ad_inverse_replace; eassumption.
Qed.

Lemma ad_ref_chain_head h head :
  ref_chain_head h = Some (Some head) -> ad_helper h -> ad_helper head.
Proof.
  intros Hr Hh. destruct (ref_chain_head_some _ _ Hr) as (n & m & Hi).
  pose proof (ad_h_inv _ Hh) as Hinv. rewrite Hi in Hinv. eapply ad_inverse_block. exact Hinv.
Qed.

Lemma ad_set_chain_template h tmpl h' :
  set_chain_template h tmpl = COk h' -> ad_helper h -> opt_ad tmpl -> ad_helper h'.
Proof.
  unfold set_chain_template. intros H Hh Ht.
  destruct (ref_chain_head h) as [[head|]|] eqn:E; try discriminate; okinv H.
  - eapply ad_set_chain_head; [exact E|exact Hh|].
    apply ad_h_set_tpl; [|exact Ht]. eapply ad_ref_chain_head; eassumption.
  - apply ad_h_set_tpl; assumption.
Qed.

Lemma ad_revert_loop fuel : forall cur prev p,
  revert_loop fuel cur prev = COk p -> opt_adi cur -> opt_adi prev -> opt_adi p.
Proof.
  induction fuel as [|f IH]; intros cur prev p H Hc Hp; [discriminate|].
  cbn [revert_loop] in H.
  destruct cur as [[n els m]|]; [|okinv H; exact Hp].
  destruct els as [|e r]; [discriminate|].
  destruct e; destruct r; try discriminate; try (okinv H; exact Hp).
  cbn [opt_adi] in Hc.
  eapply IH; [exact H| |].
  - apply ad_h_inv. eapply ad_inverse_block; exact Hc.
  - cbn [opt_adi]. eapply ad_inverse_replace; [exact Hc|].
    apply ad_h_set_inv; [eapply ad_inverse_block; exact Hc|exact Hp].
Qed.

Lemma ad_revert_chain_and_set fuel h inverse h' :
  revert_chain_and_set fuel h inverse = COk h' -> ad_helper h -> opt_ad inverse -> ad_helper h'.
Proof.
  unfold revert_chain_and_set. intros H Hh Hi.
  destruct (h_chain h).
  - destruct (ref_chain_head h) as [hd|] eqn:E; [|discriminate].
    assert (Hpair : ad_helper (fst (match hd with
              | Some head => match h_tpl head with
                             | Some _ => (h, inverse)
                             | None => (set_chain_head h (h_set_tpl head inverse), None)
                             end
              | None => (h, None) end))
            /\ opt_adi (snd (match hd with
              | Some head => match h_tpl head with
                             | Some _ => (h, inverse)
                             | None => (set_chain_head h (h_set_tpl head inverse), None)
                             end
              | None => (h, None) end))).
    { destruct hd as [head|]; [|split; [exact Hh|exact I]].
      destruct (h_tpl head); [split; [exact Hh|apply opt_ad_adi; exact Hi]|]. split; [|exact I].
      eapply ad_set_chain_head; [exact E|exact Hh|]. apply ad_h_set_tpl; [|exact Hi].
      eapply ad_ref_chain_head; eassumption. }
    destruct (match hd with
              | Some head => match h_tpl head with
                             | Some _ => (h, inverse)
                             | None => (set_chain_head h (h_set_tpl head inverse), None)
                             end
              | None => (h, None) end) as [h1 prev].
    cbn [fst snd] in Hpair. destruct Hpair as [H1 H2].
    cinv H. okinv H. apply ad_h_set_inv; [exact H1|].
    eapply ad_revert_loop; [exact E0|apply ad_h_inv; exact H1|exact H2].
  - destruct (h_tpl h); okinv H.
    + apply ad_h_set_inv; [exact Hh|apply opt_ad_adi; exact Hi].
    + apply ad_h_set_tpl; assumption.
Qed.

(* ---------- the template stack ---------- *)

(* same stack up to a front template of the same lengths *)
Definition fsame (ts ts' : list template) : Prop :=
  match ts, ts' with
  | [], [] => True
  | t :: r, t' :: r' =>
      r' = r /\ length (t_els t') = length (t_els t) /\ length (t_map t') = length (t_map t)
      /\ (ad_els t -> ad_els t')
  | _, _ => False
  end.

Lemma fsame_refl ts : fsame ts ts.
Proof. destruct ts; cbn; [exact I|]. repeat split; tauto. Qed.

Lemma fsame_trans a b c : fsame a b -> fsame b c -> fsame a c.
Proof.
  destruct a as [|ta ra], b as [|tb rb], c as [|tc rc]; cbn; try tauto.
  intros (-> & H1 & H2 & H3) (-> & H4 & H5 & H6). repeat split; try congruence. tauto.
Qed.

Lemma fsame_sinv ts ts' : fsame ts ts' -> sinv ts -> sinv ts'.
Proof.
  destruct ts as [|t r], ts' as [|t' r']; cbn; try tauto.
  intros (-> & _ & _ & Ha) [Hf Hd]. inversion Hf; subst. split; [|exact Hd].
  constructor; [apply Ha; assumption|assumption].
Qed.

Lemma fsame_fdef ts ts' k : fsame ts ts' -> fdef ts k -> fdef ts' k.
Proof.
  destruct ts as [|t r], ts' as [|t' r']; cbn; try tauto.
  intros (-> & He & Hm & _) H. rewrite He, Hm. exact H.
Qed.

Lemma map_last_raw_fsame f t r : fsame (t :: r) (map_last_raw f t :: r).
Proof.
  destruct t as [n es m]. unfold map_last_raw.
  destruct (rev es) as [|e r0] eqn:E; [apply fsame_refl|].
  destruct e; try apply fsame_refl.
  cbn [fsame t_els t_map]. split; [reflexivity|]. split; [|split; [reflexivity|]].
  - rewrite rev_length. cbn [length]. rewrite <- (rev_length es), E. reflexivity.
  - unfold ad_els. cbn [t_els]. intro H. apply Forall_rev.
    apply Forall_rev in H. rewrite E in H. inversion H; subst.
    constructor; [exact I|assumption].
Qed.

Lemma push_front_el_shape ts e lc site ts' :
  push_front_el ts e lc site = COk ts' -> ad_element e ->
  (sinv ts -> sinv ts') /\ (forall k, fdef ts k -> fdef ts' k).
Proof.
  unfold push_front_el. destruct ts as [|t r]; [discriminate|]. intros H He. okinv H.
  destruct t as [n es m]. cbn [t_push]. split.
  - intros [Hf Hd]. split; [|exact Hd]. inversion Hf; subst.
    constructor; [|assumption]. unfold ad_els in *. cbn [t_els] in *.
    apply Forall_app; split; [assumption|constructor; [exact He|constructor]].
  - intros k. cbn [fdef t_els t_map]. rewrite !app_length. cbn [length]. lia.
Qed.

Section MapStep.
  Variable src : str.

  Lemma raw_string_ad text pr a b el : raw_string text pr a b = COk el -> ad_element el.
  Proof.
    unfold raw_string. intro H. cinv H.
    destruct a; [okinv H; exact I|]. destruct b; okinv H; exact I.
  Qed.

  Lemma remove_previous_whitespace_fsame ts ts' :
    remove_previous_whitespace ts = COk ts' -> fsame ts ts'.
  Proof.
    unfold remove_previous_whitespace. destruct ts as [|t r]; [discriminate|]. intro H. okinv H.
    apply map_last_raw_fsame.
  Qed.

  Lemma process_standalone_statement_fsame ts t pi ip b ts' :
    process_standalone_statement src ts t pi ip = COk (b, ts') -> fsame ts ts'.
  Proof.
    unfold process_standalone_statement. intros H.
    destruct (suffix_from src (tk_end t)) as [cont|]; [|discriminate].
    match type of H with (if ?c then _ else _) = _ => destruct c end;
      [|okinv H; apply fsame_refl].
    destruct (prefix_to src (tk_start t)) as [before|]; [|discriminate].
    cinv H. okinv H.
    match type of E with (if ?c then _ else _) = _ => destruct c end;
      [|okinv E; apply fsame_refl].
    destruct ts as [|t0 r]; [discriminate|]. okinv E. apply map_last_raw_fsame.
  Qed.

  Lemma tag_prologue_fsame fuel c pr it e ts1 it1 :
    tag_prologue src fuel c pr it = COk (e, ts1, it1) -> fsame (c_ts c) ts1.
  Proof.
    unfold tag_prologue. intros H. cinv H. destruct a as [e0 it0]. cinv H. okinv H.
    destruct (es_pre e); [eapply remove_previous_whitespace_fsame; eassumption|].
    okinv E0. apply fsame_refl.
  Qed.

  Lemma trailing_string_shape c pr lc c1 :
    trailing_string src c pr lc = COk c1 ->
    rule_eqb (tk_rule pr) R_raw_block_end && trailing_fires c pr = false ->
    (sinv (c_ts c) -> sinv (c_ts c1)) /\ (forall k, fdef (c_ts c) k -> fdef (c_ts c1) k)
    /\ c_hs c1 = c_hs c /\ c_ds c1 = c_ds c.
  Proof.
    unfold trailing_string, trailing_fires. intros H Hx.
    match type of H with (if ?b then _ else _) = _ => destruct b end;
      [|okinv H; split; [|split; [|split]]; auto].
    rewrite andb_true_r in Hx.
    destruct (slice src _ _) as [txt|]; [|discriminate].
    cinv H. rewrite Hx in H. cinv H. okinv H.
    destruct (push_front_el_shape _ _ _ _ _ E0 (raw_string_ad _ _ _ _ _ E)) as [H1 H2].
    cbn [set_stack c_ts c_hs c_ds]. split; [|split; [|split]]; auto.
  Qed.

  Variable all_tokens : list tok.
  Variable opts : copts.


  Lemma minv_mk ts hs ds o t e :
    sinv ts -> (fdef ts 0 \/ fdef ts 1) -> Forall ad_helper hs -> Forall ad_deco ds ->
    minv {| c_ts := ts; c_hs := hs; c_ds := ds; c_omit := o; c_trim := t; c_end := e |}.
  Proof. intros H1 H2 H3 H4. exact (conj H1 (conj H2 (conj H3 H4))). Qed.

  Lemma ready_fdef c : ready c = true -> fdef (c_ts c) 0.
  Proof.
    unfold ready, fdef. destruct (c_ts c) as [|t r]; [discriminate|].
    intro H. apply Nat.eqb_eq in H. exact H.
  Qed.
  Lemma awaiting_fdef c : awaiting c = true -> fdef (c_ts c) 1.
  Proof.
    unfold awaiting, fdef. destruct (c_ts c) as [|t r]; [reflexivity|].
    intro H. apply Nat.eqb_eq in H. exact H.
  Qed.

  Lemma not_end_not_raw_block_end r :
    tag_classify r <> KHelperEnd -> rule_eqb r R_raw_block_end = false.
  Proof. destruct r; cbn [tag_classify]; intro H; try reflexivity; exfalso; apply H; reflexivity. Qed.

  (* pushing a fresh aligned template when a body is awaited *)
  Lemma sinv_push_fresh t ts :
    ad_els t -> sinv ts -> fdef ts 1 -> sinv (t :: ts).
  Proof.
    intros Ht [Hf Hd] Hk. split; [constructor; assumption|].
    destruct ts as [|t0 r]; [constructor|]. constructor; [exact Hk|exact Hd].
  Qed.

  (* popping the front template *)
  Lemma sinv_pop t ts : sinv (t :: ts) -> sinv ts /\ fdef ts 1 /\ ad_els t.
  Proof.
    intros [Hf Hd]. inversion Hf; subst. repeat split; try assumption.
    - destruct ts as [|t0 r]; [exact I|]. inversion Hd; subst. assumption.
    - destruct ts as [|t0 r]; [reflexivity|]. inversion Hd; subst. assumption.
  Qed.

  Lemma popped_aligned_deep t : ad_els t -> fdef [t] 0 -> aligned_deep t.
  Proof.
    destruct t as [n es m]. unfold ad_els, fdef. cbn [t_els t_map]. intros H1 H2.
    apply aligned_deep_iff. split; assumption.
  Qed.

  Lemma fdef_cons t r r' k : fdef (t :: r) k -> fdef (t :: r') k.
  Proof. exact (fun H => H). Qed.

  Lemma step_minv fuel c pr it c' it' :
    step src all_tokens opts fuel c pr it = COk (c', it') ->
    tok_ok c pr = true -> minv c -> minv c'.
  Proof.
    unfold step, tok_ok. intros H Hok (Hs & Hk & Hhs & Hds). cinv H. rename a into c1.
    assert (Hx : rule_eqb (tk_rule pr) R_raw_block_end && trailing_fires c pr = false).
    { destruct (tag_classify (tk_rule pr)) eqn:Ec;
        try (rewrite not_end_not_raw_block_end; [reflexivity|rewrite Ec; discriminate]).
      apply andb_prop in Hok. destruct Hok as [_ Hok]. apply negb_true_iff in Hok. exact Hok. }
    destruct (trailing_string_shape _ _ _ _ E Hx) as (Hs1 & Hk1 & Hhs1 & Hds1).
    specialize (Hs1 Hs). rewrite <- Hhs1 in Hhs. rewrite <- Hds1 in Hds.
    assert (Hk' : fdef (c_ts c1) 0 \/ fdef (c_ts c1) 1) by (destruct Hk; [left|right]; auto).
    assert (Hready : ready c = true -> fdef (c_ts c1) 0) by (intro Hr; apply Hk1, ready_fdef, Hr).
    assert (Hawait : awaiting c = true -> fdef (c_ts c1) 1) by (intro Hr; apply Hk1, awaiting_fdef, Hr).
    clear E Hx Hs Hk Hk1 Hhs1 Hds1.
    cinv H. destruct a as [c2 it2].
    assert (Hc2 : minv c2).
    { clear H. destruct (tag_classify (tk_rule pr)).
      - (* template *) okinv E. apply minv_mk; try assumption.
        + apply sinv_push_fresh; [constructor|exact Hs1|exact (Hawait Hok)].
        + left. reflexivity.
      - (* raw text *)
        destruct (slice src _ _) as [txt|]; [|discriminate].
        cinv E. cinv E. okinv E.
        destruct (push_front_el_shape _ _ _ _ _ E1 (raw_string_ad _ _ _ _ _ E0)) as [H1 H2].
        apply minv_mk; try assumption; [auto|]. destruct Hk'; [left|right]; auto.
      - (* raw block text *)
        destruct (slice src _ _) as [txt|]; [|discriminate].
        cinv E. okinv E. apply minv_mk; try assumption.
        + apply sinv_push_fresh; [|exact Hs1|exact (Hawait Hok)].
          constructor; [eapply raw_string_ad; eassumption|constructor].
        + left. reflexivity.
      - (* block start *)
        cinv E. destruct a as [[e ts1] it1]. cinv E. destruct a as [trim ts2].
        pose proof (fsame_trans _ _ _ (tag_prologue_fsame _ _ _ _ _ _ _ E0)
                      (process_standalone_statement_fsame _ _ _ _ _ _ E1)) as Hsame.
        pose proof (fsame_sinv _ _ Hsame Hs1) as Hs2.
        pose proof (fsame_fdef _ _ _ Hsame (Hready Hok)) as Hk2.
        assert (Hts : forall t r, ts2 = t :: r ->
                  sinv (t_push_map t (line_col src (tk_start pr)) :: r)
                  /\ fdef (t_push_map t (line_col src (tk_start pr)) :: r) 1).
        { intros t r ->. destruct t as [n es m]. cbn [t_push_map]. split.
          - destruct Hs2 as [Hf Hd]. split; [|exact Hd]. inversion Hf; subst.
            constructor; assumption.
          - cbn [fdef t_map t_els] in *. rewrite app_length. cbn [length]. lia. }
        destruct deco; cbn [c_ts] in E.
        + destruct ts2 as [|t r]; [discriminate|]. okinv E.
          destruct (Hts _ _ eq_refl) as [Ha Hb].
          apply minv_mk; try assumption; [right; exact Hb|].
          constructor; [apply ad_mk_deco|exact Hds].
        + destruct ts2 as [|t r]; [discriminate|]. okinv E.
          destruct (Hts _ _ eq_refl) as [Ha Hb].
          apply minv_mk; try assumption; [right; exact Hb|].
          constructor; [apply ad_mk_helper|exact Hhs].
      - (* invert *)
        match type of E with (let '(_, _) := ?x in _) = _ => destruct x as [chain_pre ita] end.
        cinv E. rename a into it0. cinv E. destruct a as [e0 it1].
        set (e := es_or_pre e0 chain_pre) in *. clearbody e.
        cinv E. rename a into ts1. cinv E. destruct a as [trim ts2].
        assert (Hsame1 : fsame (c_ts c1) ts1).
        { destruct (es_pre e); [eapply remove_previous_whitespace_fsame; eassumption|].
          okinv E2. apply fsame_refl. }
        pose proof (fsame_trans _ _ _ Hsame1
                      (process_standalone_statement_fsame _ _ _ _ _ _ E3)) as Hsame.
        pose proof (fsame_sinv _ _ Hsame Hs1) as Hs2.
        pose proof (fsame_fdef _ _ _ Hsame (Hready Hok)) as Hk2.
        destruct ts2 as [|t ts3]; [discriminate|].
        destruct (sinv_pop _ _ Hs2) as (Hs3 & Hk3 & Hat).
        pose proof (popped_aligned_deep t Hat Hk2) as Hdeep.
        destruct (c_hs c1) as [|h hs]; [discriminate|]. inversion Hhs; subst.
        cinv E. rename a into h2. okinv E.
        apply minv_mk; try assumption; [right; exact Hk3|].
        constructor; [|assumption].
        assert (Hh2 : ad_helper h2).
        { eapply ad_set_chain_template; [exact E4| |exact Hdeep].
          destruct chain; [apply ad_h_set_chain|]; assumption. }
        destruct chain; [|exact Hh2].
        apply ad_insert_inverse_node; [exact Hh2|apply ad_mk_helper].
      - (* value expression *)
        cinv E. destruct a as [[e ts1] it1]. cinv E. okinv E.
        pose proof (tag_prologue_fsame _ _ _ _ _ _ _ E0) as Hsame.
        assert (Hel : ad_element (if html then ElHtml (mk_helper e false false false)
                                  else ElExpr (mk_helper e false false false)))
          by (destruct html; apply ad_mk_helper).
        destruct (push_front_el_shape _ _ _ _ _ E1 Hel) as [H1 H2].
        apply minv_mk; try assumption.
        + apply H1. eapply fsame_sinv; eassumption.
        + destruct Hk'; [left|right]; apply H2; eapply fsame_fdef; eassumption.
      - (* decorator / partial expression *)
        cinv E. destruct a as [[e ts1] it1]. cinv E. destruct a as [trim ts2]. cinv E. cinv E.
        okinv E.
        pose proof (fsame_trans _ _ _ (tag_prologue_fsame _ _ _ _ _ _ _ E0)
                      (process_standalone_statement_fsame _ _ _ _ _ _ E1)) as Hsame.
        match type of E3 with push_front_el _ ?el _ _ = _ => assert (Hel : ad_element el) end.
        { destruct partial; cbn [ad_element]; apply ad_d_set_indent; apply ad_mk_deco. }
        destruct (push_front_el_shape _ _ _ _ _ E3 Hel) as [H1 H2].
        apply minv_mk; try assumption.
        + apply H1. eapply fsame_sinv; eassumption.
        + destruct Hk'; [left|right]; apply H2; eapply fsame_fdef; eassumption.
      - (* helper block end *)
        apply andb_prop in Hok. destruct Hok as [Hok _].
        cinv E. destruct a as [[e ts1] it1]. cinv E. destruct a as [trim ts2].
        pose proof (fsame_trans _ _ _ (tag_prologue_fsame _ _ _ _ _ _ _ E0)
                      (process_standalone_statement_fsame _ _ _ _ _ _ E1)) as Hsame.
        pose proof (fsame_sinv _ _ Hsame Hs1) as Hs2.
        pose proof (fsame_fdef _ _ _ Hsame (Hready Hok)) as Hk2.
        destruct (c_hs c1) as [|h hs]; [discriminate|]. inversion Hhs; subst.
        destruct (opt_str_eqb _ _); [|discriminate].
        destruct ts2 as [|prev_t ts3]; [discriminate|].
        destruct (sinv_pop _ _ Hs2) as (Hs3 & Hk3 & Hat).
        pose proof (popped_aligned_deep prev_t Hat Hk2) as Hdeep.
        cinv E. rename a into h'.
        destruct ts3 as [|t r]; [discriminate|]. okinv E.
        assert (Hh' : ad_helper h').
        { eapply ad_revert_chain_and_set; [eassumption|assumption|exact Hdeep]. }
        apply minv_mk; try assumption.
        + destruct Hs3 as [Hf Hd]. split; [|exact Hd]. inversion Hf; subst.
          constructor; [|assumption]. destruct t as [n es m]. unfold ad_els in *.
          cbn [t_push_el t_els] in *. apply Forall_app; split; [assumption|].
          constructor; [exact Hh'|constructor].
        + left. destruct t as [n es m]. cbn [fdef t_push_el t_els t_map] in *.
          rewrite app_length. cbn [length]. lia.
      - (* decorator / partial block end *)
        cinv E. destruct a as [[e ts1] it1]. cinv E. destruct a as [trim ts2].
        pose proof (fsame_trans _ _ _ (tag_prologue_fsame _ _ _ _ _ _ _ E0)
                      (process_standalone_statement_fsame _ _ _ _ _ _ E1)) as Hsame.
        pose proof (fsame_sinv _ _ Hsame Hs1) as Hs2.
        pose proof (fsame_fdef _ _ _ Hsame (Hready Hok)) as Hk2.
        destruct (c_ds c1) as [|d ds]; [discriminate|]. inversion Hds; subst.
        destruct (opt_str_eqb _ _); [|discriminate].
        destruct ts2 as [|prev_t ts3]; [discriminate|].
        destruct (sinv_pop _ _ Hs2) as (Hs3 & Hk3 & Hat).
        pose proof (popped_aligned_deep prev_t Hat Hk2) as Hdeep.
        destruct ts3 as [|t r]; [discriminate|]. okinv E.
        match goal with |- minv {| c_ts := t_push_el t ?el :: r |} => assert (Hel : ad_element el) end.
        { destruct partial; cbn [ad_element]; apply ad_d_set_tpl; assumption. }
        apply minv_mk; try assumption.
        + destruct Hs3 as [Hf Hd]. split; [|exact Hd]. inversion Hf; subst.
          constructor; [|assumption]. destruct t as [n es m]. unfold ad_els in *.
          cbn [t_push_el t_els] in *. apply Forall_app; split; [assumption|].
          constructor; [exact Hel|constructor].
        + left. destruct t as [n es m]. cbn [fdef t_push_el t_els t_map] in *.
          rewrite app_length. cbn [length]. lia.
      - (* comment *)
        cinv E. destruct a as [trim ts1]. cinv E. cinv E. okinv E.
        pose proof (process_standalone_statement_fsame _ _ _ _ _ _ E0) as Hsame.
        destruct (push_front_el_shape _ _ _ _ _ E2 (I : ad_element (ElComment _))) as [H1 H2].
        apply minv_mk; try assumption.
        + apply H1. eapply fsame_sinv; eassumption.
        + destruct Hk'; [left|right]; apply H2; eapply fsame_fdef; eassumption.
      - okinv E. exact (conj Hs1 (conj Hk' (conj Hhs Hds))). }
    destruct (tag_classify (tk_rule pr)); okinv H; try exact Hc2;
      destruct Hc2 as (H1 & H2 & H3 & H4); exact (conj H1 (conj H2 (conj H3 H4))).
  Qed.

  Lemma main_loop_aligned fuel : forall c it t,
    main_loop src all_tokens opts fuel c it = COk t ->
    disciplined src all_tokens opts fuel c it = true ->
    minv c -> aligned_deep t.
  Proof.
    induction fuel as [|f IH]; intros c it t H Hd Hc; [discriminate|].
    cbn [main_loop] in H. cbn [disciplined] in Hd. destruct it as [|pr it1].
    - destruct Hc as (Hs & _ & _ & _). pose proof (ready_fdef _ Hd) as Hk.
      cinv H. rename a into ts.
      assert (Hts : sinv ts /\ fdef ts 0).
      { destruct (N.ltb _ _); [|okinv E; split; assumption].
        destruct (slice src _ _) as [text|]; [|discriminate].
        destruct (c_end c) as [ep|]; [|discriminate].
        destruct (push_front_el_shape _ _ _ _ _ E (I : ad_element (ElRaw text))) as [H1 H2].
        split; auto. }
      destruct Hts as [[Hf _] Hk0].
      destruct ts as [|root r]; [discriminate|]. okinv H. inversion Hf; subst.
      destruct root as [n es m]. cbn [t_set_name]. apply aligned_deep_iff.
      split; assumption.
    - apply andb_prop in Hd. destruct Hd as [Hok Hd].
      cinv H. destruct a as [c' it'']. eapply IH; [exact H|exact Hd|].
      eapply step_minv; eassumption.
  Qed.
End MapStep.

Lemma minv_init : minv init_cstate.
Proof.
  split; [split; [constructor|exact I]|]. split; [right; reflexivity|]. split; constructor.
Qed.

Theorem mapping_aligned_tokens src opts ts t :
  compile_tokens src opts ts = COk t -> disciplined_tokens src opts ts = true -> aligned_deep t.
Proof.
  unfold compile_tokens, disciplined_tokens. intros H Hd.
  eapply main_loop_aligned; [exact H|exact Hd|exact minv_init].
Qed.

Corollary mapping_aligned_tokens_top src opts ts t :
  compile_tokens src opts ts = COk t -> disciplined_tokens src opts ts = true -> aligned t.
Proof. intros H Hd. apply aligned_deep_aligned. eapply mapping_aligned_tokens; eassumption. Qed.

(* ---------- mapping_value: which entry is pushed ---------- *)
Section MapValue.
  Variable src : str.
  Variable all_tokens : list tok.
  Variable opts : copts.

  Lemma raw_string_raw text pr a b el : raw_string text pr a b = COk el -> exists s, el = ElRaw s.
  Proof.
    unfold raw_string. intro H. cinv H.
    destruct a; [okinv H; eexists; reflexivity|]. destruct b; okinv H; eexists; reflexivity.
  Qed.

  Lemma push_front_el_eq ts e lc site ts' :
    push_front_el ts e lc site = COk ts' -> exists t r, ts' = t_push t e lc :: r.
  Proof.
    unfold push_front_el. destruct ts as [|t r]; [discriminate|]. intro H. okinv H.
    eexists; eexists; reflexivity.
  Qed.

  (* the whitespace element emitted in front of a tag is mapped to the tag's position *)
  Lemma trailing_string_value c pr lc c1 :
    trailing_string src c pr lc = COk c1 ->
    c_ts c1 = c_ts c \/ exists t r s, c_ts c1 = t_push t (ElRaw s) lc :: r.
  Proof.
    unfold trailing_string. intro H.
    match type of H with (if ?b then _ else _) = _ => destruct b end; [|okinv H; left; reflexivity].
    destruct (slice src _ _) as [txt|]; [|discriminate].
    cinv H. destruct (raw_string_raw _ _ _ _ _ E) as [s ->]. right.
    destruct (rule_eqb (tk_rule pr) R_raw_block_end).
    - okinv H. exists t_empty, (c_ts c), s. reflexivity.
    - cinv H. okinv H. destruct (push_front_el_eq _ _ _ _ _ E0) as (t & r & ->).
      exists t, r, s. reflexivity.
  Qed.

  (* every element-producing tag pushes its element together with the position of
     the tag's own start; a block start pushes only the position (of the start
     tag), the matching block end only the element *)
  Lemma mapping_value fuel c pr it c' it' :
    step src all_tokens opts fuel c pr it = COk (c', it') ->
    let lc := line_col src (tk_start pr) in
    match tag_classify (tk_rule pr) with
    | KRawText => exists t r s, c_ts c' = t_push t (ElRaw s) lc :: r
    | KRawBlockText => exists r s, c_ts c' = t_push t_empty (ElRaw s) lc :: r
    | KValueExpr html =>
        exists t r h, c_ts c' = t_push t (if html then ElHtml h else ElExpr h) lc :: r
    | KDecoExpr p =>
        exists t r d, c_ts c' = t_push t (if p then ElPartExpr d else ElDecoExpr d) lc :: r
    | KComment _ => exists t r s, c_ts c' = t_push t (ElComment s) lc :: r
    | KBlockStart _ => exists t r, c_ts c' = t_push_map t lc :: r
    | KHelperEnd => exists t r h, c_ts c' = t_push_el t (ElBlock h) :: r
    | KDecoEnd p =>
        exists t r d, c_ts c' = t_push_el t (if p then ElPartBlock d else ElDecoBlock d) :: r
    | _ => True
    end.
  Proof.
    unfold step. intros H. cbv zeta. cinv H. rename a into c1. clear E.
    cinv H. destruct a as [c2 it2].
    destruct (tag_classify (tk_rule pr)); try exact I.
    - (* raw text *)
      destruct (slice src _ _) as [txt|]; [|discriminate].
      cinv E. cinv E. okinv E. okinv H.
      destruct (raw_string_raw _ _ _ _ _ E0) as [s ->].
      destruct (push_front_el_eq _ _ _ _ _ E1) as (t & r & ->).
      exists t, r, s. reflexivity.
    - (* raw block text *)
      destruct (slice src _ _) as [txt|]; [|discriminate].
      cinv E. okinv E. okinv H.
      destruct (raw_string_raw _ _ _ _ _ E0) as [s ->].
      exists (c_ts c1), s. reflexivity.
    - (* block start *)
      cinv E. destruct a as [[e ts1] it1]. cinv E. destruct a as [trim ts2].
      destruct deco; cbn [c_ts] in E; (destruct ts2 as [|t r]; [discriminate|]); okinv E; okinv H;
        exists t, r; reflexivity.
    - (* value expression *)
      cinv E. destruct a as [[e ts1] it1]. cinv E. okinv E. okinv H.
      destruct (push_front_el_eq _ _ _ _ _ E1) as (t & r & ->).
      exists t, r, (mk_helper e false false false). reflexivity.
    - (* decorator / partial expression *)
      cinv E. destruct a as [[e ts1] it1]. cinv E. destruct a as [trim ts2]. cinv E. cinv E.
      okinv E. okinv H.
      destruct (push_front_el_eq _ _ _ _ _ E3) as (t & r & ->).
      exists t, r. eexists. reflexivity.
    - (* helper block end *)
      cinv E. destruct a as [[e ts1] it1]. cinv E. destruct a as [trim ts2].
      destruct (c_hs c1) as [|h hs]; [discriminate|].
      destruct (opt_str_eqb _ _); [|discriminate].
      destruct ts2 as [|prev_t ts3]; [discriminate|].
      cinv E. destruct ts3 as [|t r]; [discriminate|]. okinv E. okinv H.
      exists t, r, a. reflexivity.
    - (* decorator / partial block end *)
      cinv E. destruct a as [[e ts1] it1]. cinv E. destruct a as [trim ts2].
      destruct (c_ds c1) as [|d ds]; [discriminate|].
      destruct (opt_str_eqb _ _); [|discriminate].
      destruct ts2 as [|prev_t ts3]; [discriminate|].
      destruct ts3 as [|t r]; [discriminate|]. okinv E. okinv H.
      exists t, r. eexists. reflexivity.
    - (* comment *)
      cinv E. destruct a as [trim ts1]. cinv E. cinv E. okinv E. okinv H.
      destruct (push_front_el_eq _ _ _ _ _ E2) as (t & r & ->).
      exists t, r. eexists. reflexivity.
  Qed.
End MapValue.

(* ---------- the discipline hypothesis is needed, and satisfiable ---------- *)
(* Over ARBITRARY token lists (not block-structured ones) the compile loop can
   return a misaligned template: a helper block whose start tag is not followed
   by a `template` token. *)
Definition bad_src : str := `"{{#a}}{{/a}}".
Definition bad_tokens : list tok :=
  [(R_template, 0, 12); (R_template, 0, 12); (R_helper_block_start, 0, 6); (R_identifier, 3, 4);
   (R_helper_block_end, 6, 12); (R_identifier, 9, 10)].

Lemma mapping_aligned_arbitrary_tokens_refuted :
  exists src opts ts t, compile_tokens src opts ts = COk t /\ ~ aligned t.
Proof.
  exists bad_src, default_opts, bad_tokens.
  destruct (compile_tokens bad_src default_opts bad_tokens) as [t| | |] eqn:E;
    [|vm_compute in E; discriminate E..].
  exists t. split; [reflexivity|]. vm_compute in E. okinv E. unfold aligned. cbn. discriminate.
Qed.

(* pest's token stream of a template with an else chain, a raw block, a partial
   block and a decorator satisfies the discipline, so the hypotheses of
   mapping_aligned_tokens hold for it *)
Definition good_src : str :=
  `"a {{#if x}} b {{else if y}}{{z}}{{else}}{{{{raw}}}} {{q}} {{{{/raw}}}}{{/if}}{{#> p}}{{!c}}{{/p}}{{#*inline ""i""}}{{{h}}}{{/inline}}".

Example mapping_aligned_example :
  exists ts t, hb_parse (peg_fuel good_src) R_handlebars good_src = Parsed ts
            /\ compile_tokens good_src default_opts ts = COk t
            /\ disciplined_tokens good_src default_opts ts = true
            /\ aligned_deep t.
Proof.
  destruct (hb_parse (peg_fuel good_src) R_handlebars good_src) as [ts| |] eqn:Ep;
    [|vm_compute in Ep; discriminate Ep..].
  exists ts.
  assert (Hd : disciplined_tokens good_src default_opts ts = true).
  { vm_compute in Ep. injection Ep as <-. vm_compute. reflexivity. }
  destruct (compile_tokens good_src default_opts ts) as [t| | |] eqn:Ec.
  - exists t. repeat split; try assumption. eapply mapping_aligned_tokens; eassumption.
  - exfalso. vm_compute in Ep. injection Ep as <-. vm_compute in Ec. discriminate Ec.
  - exfalso. vm_compute in Ep. injection Ep as <-. vm_compute in Ec. discriminate Ec.
  - exfalso. vm_compute in Ep. injection Ep as <-. vm_compute in Ec. discriminate Ec.
Qed.

(* the hypotheses of step_minv at the first token of every run *)
Example step_minv_example :
  let pr : tok := (R_template, 0, 12) in
  exists c' it', step bad_src bad_tokens default_opts 10 init_cstate pr [] = COk (c', it')
                 /\ tok_ok init_cstate pr = true /\ minv init_cstate.
Proof. cbv zeta. do 2 eexists. split; [vm_compute; reflexivity|]. split; [reflexivity|exact minv_init]. Qed.
